// C11 — server messages and environment changes are surfaced exactly once.
package c11

import (
	"sync/atomic"
	"context"
	"errors"
	"fmt"
	"io"
	"runtime"
	"strconv"
	"strings"
	"sync"
	"testing"
	"time"

	"github.com/SAP/go-dblib/tds"
	"pgregory.net/rapid"
	"verif/internal/peer"
	"verif/internal/pkggen"
	rc "verif/internal/refcodec"
	"verif/internal/respgen"
	"verif/internal/vh"
)

// foreignEED is an error of an earlier exchange: an *EEDError with messages of its own.
func foreignEED() error {
	e := &tds.EEDError{WrappedError: errors.New("earlier statement failed")}
	e.Add(&tds.EEDPackage{MsgNumber: 99100, State: 1, Class: 16, Msg: "message of an earlier exchange", ServerName: "other"})
	e.Add(&tds.EEDPackage{MsgNumber: 99101, State: 1, Class: 16, Msg: "another one", ServerName: "other"})
	return e
}

func TestMain(m *testing.M) {
	vh.Rule("rapid: histories of 1..4 responses on one channel; each with 0..6 EED packages (info / non-info) and 0..3 ENVCHANGE packages of 0..3 members (all four types, PACKSIZE with legal sizes) at any statement boundary (info EED and ENVCHANGE also between rows), any packetisation (so special packages are parsed, rolled back and re-parsed), 0..3 message hooks and 0..3 environment hooks registered before or between responses, and a consumer that either reads package by package right after every packet (ordering) or uses NextPackageUntil with a callback that fails at package k (started after the response has arrived, or polling with wait=false from its own goroutine while the packets arrive). One global event log (hook calls and consumer receipts with sequence numbers). Oracle: every hook gets every non-info EED exactly once, equal, in arrival order, in registration order, before the consumer gets any later package; info EEDs and ENVCHANGE never delivered, info EEDs never hooked; every member reported once to every env hook with (type, old, new); PacketSize() = last announced size; a failing callback's error matches the callback error and, if EEDs preceded, is an *EEDError carrying exactly those EEDs followed by nothing but later messages of the same response (also when the callback's own error wraps an *EEDError of an earlier exchange). Non-trivial: >= 1 EED or member and a cut inside or right after a special package; distinct by the history")
	vh.Assume("'all messages received so far' is read as 'delivered before the failing package' (EEDs drained afterwards may or may not be included); hooks registered while a response is in flight are not generated; PACKSIZE values are decimal numbers in 256..65535")
	vh.Rule("also: Info.DebugLogPackages is on in a quarter of the cases (every package is printed while it is sent / received)")
	vh.QuietLog()
	vh.Rule("also: after a response that announced a packet size, a request longer than one packet is sent on the same (older) channel: every packet but the last has exactly the announced size, only the last carries EOM, no byte missing")
	vh.Rule("also: failing callbacks that return (true, err)")
	vh.Rule("also: a send on the channel completes after the first k packets of the response have arrived (a quarter of the fragmented responses; every single cut of the special-package response): a message or environment change standing half-received at that moment is still reported exactly once")
	vh.Main(m, "C11")
}

type round struct {
	NewEEDHooks int    `json:"new_eed_hooks"`
	NewEnvHooks int    `json:"new_env_hooks"`
	Pkgs        []rc.P `json:"pkgs"`
	Cuts        []int  `json:"cuts"`
	FailAt      int    `json:"fail_at"` // -1: read package by package; k>=0: NextPackageUntil whose callback fails at its k-th invocation
	WrapEOF     bool   `json:"callback_error_wraps_eof"`
	// Poll: (with FailAt >= 0) the consumer polls with wait=false from its own goroutine while
	// the packets are still arriving, instead of starting after the whole response is there
	Poll bool `json:"consumer_polls_while_packets_arrive"`
	// WrapEED: the callback's error passes on the failure of an earlier exchange: it wraps an
	// *EEDError carrying messages that do not belong to this response
	WrapEED bool `json:"callback_error_wraps_a_foreign_eed_error"`
	// BadReg: before this response hooks are registered with a nil function among them (refused)
	BadReg bool `json:"refused_registration_first"`
	// Fin: the failing callback returns (true, err) - "finished, with this error" (the pattern of
	// the function's documentation) - instead of (false, err)
	Fin bool `json:"callback_returns_true_with_its_error,omitempty"`
	// SendAt: (k > 0) a send on the channel completes after the first k packets of the response
	// have arrived (the request whose Write returns while the server is already answering, or
	// the next request of a pipelining caller): what stands half-received at that moment - a
	// message or an environment change cut by the packet boundary - is still reported
	SendAt int `json:"send_completes_after_packet,omitempty"`
}

type c11Case struct {
	Rounds []round `json:"rounds"`
	// Log: Info.DebugLogPackages - every package received is printed
	Log bool `json:"debug_log_packages,omitempty"`
	// Logical: the responses arrive on a logical channel of the connection instead of the main one
	Logical bool `json:"logical_channel,omitempty"`
}

type event struct {
	seq  int
	kind string // eed | env | recv
	hook int
	eed  tds.EEDPackage
	typ  tds.EnvChangeType
	old  string
	new  string
	pkg  tds.Package
}

var errCB = errors.New("callback failed")

// patience: see C03 - a verdict reached after a wall-clock bound was hit is only reported if
// the case fails again with ten times the patience.
var patience = 2 * time.Second

func runCase(c c11Case) *vh.Failure {
	t0 := time.Now()
	f := runCaseOnce(c)
	if f != nil && time.Since(t0) >= patience-100*time.Millisecond {
		vh.Label("timing-verdict-repeated")
		patience *= 10
		f = runCaseOnce(c)
		patience /= 10
		if f == nil {
			vh.Label("timing-verdict-not-confirmed")
		}
	}
	return f
}

func runCaseOnce(c c11Case) (f *vh.Failure) {
	defer func() {
		if r := recover(); r != nil {
			vh.CheckHarnessPanic(r)
			f = vh.Failf("C11/panic", "panic: %v", r)
		}
	}()
	bg, cancel := context.WithCancel(context.Background())
	defer cancel()
	pipe := peer.NewPipe()
	conn, readerDone, err := tds.VerifNewConn(bg, pipe, &tds.Info{ChannelPackageQueueSize: 4096, DebugLogPackages: c.Log, PacketReadTimeout: 5}, c.Logical)
	if err != nil {
		vh.HarnessBug("VerifNewConn: %v", err)
	}
	ch, err := conn.NewChannel()
	if err != nil {
		vh.HarnessBug("NewChannel: %v", err)
	}
	if c.Logical {
		// the responses arrive on a logical channel (the reader is only needed for its setup)
		defer func() {
			cancel()
			pipe.Close()
			go func() { defer func() { recover() }(); conn.Close() }()
			select {
			case <-readerDone:
			case <-time.After(3 * time.Second):
			}
		}()
		type res struct {
			ch  *tds.Channel
			err error
		}
		rch := make(chan res, 1)
		go func() { l, err := conn.NewChannel(); rch <- res{l, err} }()
		ps, _, err := pipe.WaitMessage(0, 3*time.Second)
		if err != nil || len(ps) != 1 {
			return vh.Failf("C11/setup", "no SETUP packet for the logical channel: %v", err)
		}
		pipe.Feed(rc.Packet{Type: rc.BufProtAck, Channel: ps[0].Channel, Status: rc.StatEOM}.Bytes())
		select {
		case r := <-rch:
			if r.err != nil {
				return vh.Failf("C11/setup", "NewChannel (logical): %v", r.err)
			}
			ch = r.ch
		case <-time.After(3 * time.Second):
			return vh.Failf("C11/setup", "NewChannel (logical) did not return after the acknowledgement")
		}
		vh.Label("responses-on-a-logical-channel")
	}
	var mu sync.Mutex
	var log []event
	seq := 0
	nEED, nEnv := 0, 0
	packetSize := 512
	nontrivial := false
	var rejectedCalled atomic.Int32
	for ri, r := range c.Rounds {
		if r.BadReg {
			// a registration that is refused (one of the functions is nil) registers nothing:
			// the functions handed over with it are never called
			stray := func(tds.EEDPackage) { rejectedCalled.Add(1) }
			strayEnv := func(tds.EnvChangeType, string, string) { rejectedCalled.Add(1) }
			if err := ch.RegisterEEDHooks(stray, nil, stray); err == nil {
				return vh.Failf("C11/register", "RegisterEEDHooks(f, nil, f) returned no error")
			}
			if err := ch.RegisterEnvChangeHooks(strayEnv, strayEnv, nil); err == nil {
				return vh.Failf("C11/register", "RegisterEnvChangeHooks(f, f, nil) returned no error")
			}
			vh.Label("refused-registration-before-the-response")
		}
		for i := 0; i < r.NewEEDHooks; i++ {
			id := nEED
			nEED++
			if err := ch.RegisterEEDHooks(func(e tds.EEDPackage) {
				mu.Lock()
				seq++
				log = append(log, event{seq: seq, kind: "eed", hook: id, eed: e})
				mu.Unlock()
			}); err != nil {
				return vh.Failf("C11/register", "RegisterEEDHooks: %v", err)
			}
		}
		for i := 0; i < r.NewEnvHooks; i++ {
			id := nEnv
			nEnv++
			if err := ch.RegisterEnvChangeHooks(func(t tds.EnvChangeType, o, n string) {
				mu.Lock()
				seq++
				log = append(log, event{seq: seq, kind: "env", hook: id, typ: t, old: o, new: n})
				mu.Unlock()
			}); err != nil {
				return vh.Failf("C11/register", "RegisterEnvChangeHooks: %v", err)
			}
		}
		where := fmt.Sprintf("response %d/%d [%s] cuts %v failAt %d (%d message hooks, %d env hooks)", ri+1, len(c.Rounds), respgen.Describe(r.Pkgs), r.Cuts, r.FailAt, nEED, nEnv)
		start := len(log)
		stream, offs, _, err := rc.EncodeStream(r.Pkgs)
		if err != nil {
			vh.HarnessBug("encode: %v", err)
		}
		recv := func() {
			for {
				p, err := ch.NextPackage(bg, false)
				if err != nil {
					return
				}
				seq++
				log = append(log, event{seq: seq, kind: "recv", pkg: p})
			}
		}
		var cbErr error
		var cbSeen int
		until := func() {
			wctx, wcancel := context.WithTimeout(bg, patience)
			defer wcancel()
			calls := 0
			for {
				_, err := ch.NextPackageUntil(wctx, false, func(p tds.Package) (bool, error) {
					mu.Lock()
					seq++
					log = append(log, event{seq: seq, kind: "recv", pkg: p})
					mu.Unlock()
					calls++
					if calls-1 == r.FailAt {
						if r.WrapEOF {
							// still "an error that is not an unwrapped io.EOF"
							return r.Fin, fmt.Errorf("%w: %w", errCB, io.EOF)
						}
						if r.WrapEED {
							return r.Fin, fmt.Errorf("%w, caused by: %w", errCB, foreignEED())
						}
						return r.Fin, errCB
					}
					d, ok := p.(*tds.DonePackage)
					return ok && d.Status == tds.TDS_DONE_FINAL, nil
				})
				if r.Poll && errors.Is(err, tds.ErrNoPackageReady) && wctx.Err() == nil {
					runtime.Gosched()
					continue
				}
				cbErr, cbSeen = err, calls
				return
			}
		}
		polled := make(chan struct{})
		if r.FailAt >= 0 && r.Poll {
			go func() { defer close(polled); until() }()
		}
		for pi, p := range rc.Packetise(stream, r.Cuts, rc.BufResponse, 0) {
			if r.SendAt > 0 && pi == r.SendAt {
				if err := ch.SendPackage(bg, &tds.LanguagePackage{Cmd: "select 1"}); err != nil {
					return vh.Failf("C11/send-error", "%s: SendPackage after packet %d of the response: %v", where, pi, err)
				}
				vh.Label("send-completes-while-the-response-arrives")
			}
			ch.WritePacket(&tds.Packet{Header: tds.PacketHeader{MsgType: tds.TDS_BUF_RESPONSE, Status: tds.PacketHeaderStatus(p.Status), Length: uint16(8 + len(p.Body))}, Data: p.Body})
			if r.FailAt < 0 {
				recv()
			} else if r.Poll {
				// give the polling consumer a chance to see what has arrived so far
				time.Sleep(30 * time.Microsecond)
			}
		}
		if r.FailAt >= 0 && r.Poll {
			select {
			case <-polled:
			case <-time.After(patience + 3*time.Second):
				return vh.Failf("C11/consumer-blocked", "%s: the polling consumer did not finish", where)
			}
		}
		// expectations
		model, _ := respgen.Deliver(r.Pkgs)
		fmts := respgen.FormatBefore(model)
		var eeds []rc.EED // non-info, in order
		var eedPos []int  // index in model of each
		var members []rc.EnvMember
		sizeAnnounced := false
		for _, p := range r.Pkgs {
			if p.Env != nil {
				members = append(members, p.Env.Members...)
				for _, m := range p.Env.Members {
					if m.Type == rc.EnvPackSize {
						packetSize, _ = strconv.Atoi(m.New)
						sizeAnnounced = true
					}
				}
			}
		}
		for i, p := range model {
			if p.EED != nil {
				eeds = append(eeds, *p.EED)
				eedPos = append(eedPos, i)
			}
		}
		if r.FailAt >= 0 && !r.Poll {
			until()
		}
		round := log[start:]
		// 1. message hooks
		perHook := map[int][]tds.EEDPackage{}
		for _, e := range round {
			if e.kind == "eed" {
				perHook[e.hook] = append(perHook[e.hook], e.eed)
			}
		}
		for h := 0; h < nEED; h++ {
			got := perHook[h]
			if len(got) != len(eeds) {
				return vh.Failf("C11/eed-hook-count", "%s: message hook %d was called %d times, the response has %d non-informational messages", where, h, len(got), len(eeds))
			}
			for i := range eeds {
				if err := pkggen.EEDEqual(eeds[i], got[i]); err != nil {
					return vh.Failf("C11/eed-hook-content", "%s: message hook %d call %d: %v", where, h, i, err)
				}
			}
		}
		// 2. env hooks
		perEnv := map[int][]event{}
		for _, e := range round {
			if e.kind == "env" {
				perEnv[e.hook] = append(perEnv[e.hook], e)
			}
		}
		for h := 0; h < nEnv; h++ {
			got := perEnv[h]
			if len(got) != len(members) {
				return vh.Failf("C11/env-hook-count", "%s: env hook %d was called %d times, the response has %d members", where, h, len(got), len(members))
			}
			for i, m := range members {
				if uint8(got[i].typ) != m.Type || got[i].old != m.Old || got[i].new != m.New {
					return vh.Failf("C11/env-hook-content", "%s: env hook %d call %d: got (%v, %q -> %q), sent (%d, %q -> %q)", where, h, i, got[i].typ, got[i].old, got[i].new, m.Type, m.Old, m.New)
				}
			}
		}
		// 3. registration order: for every event the hooks are called 0,1,2,… consecutively
		last := map[string]int{"eed": -1, "env": -1}
		n := map[string]int{"eed": nEED, "env": nEnv}
		for _, e := range round {
			if e.kind == "recv" {
				continue
			}
			exp := (last[e.kind] + 1) % n[e.kind]
			if e.hook != exp {
				return vh.Failf("C11/hook-order", "%s: %s hook %d called where hook %d was due (registration order)", where, e.kind, e.hook, exp)
			}
			last[e.kind] = e.hook
		}
		// 4. packet size
		if conn.PacketSize() != packetSize {
			return vh.Failf("C11/packet-size", "%s: PacketSize() = %d, last announced %d", where, conn.PacketSize(), packetSize)
		}
		// 4b. ... and it is the size this channel (which existed before the announcement) sends
		// with from now on: a request longer than one packet goes out in full packets of that size
		if sizeAnnounced {
			off := pipe.WrittenLen()
			cmd := strings.Repeat("q", packetSize+17)
			sctx, scancel := context.WithTimeout(bg, 20*time.Second)
			err := ch.SendPackage(sctx, &tds.LanguagePackage{Cmd: cmd})
			scancel()
			if err != nil {
				return vh.Failf("C11/packet-size-not-used-for-sending", "%s: SendPackage of a %d byte request after the announcement of packet size %d: %v", where, len(cmd)+6, packetSize, err)
			}
			ps, err := rc.ParsePackets(pipe.Written()[off:])
			if err != nil {
				return vh.Failf("C11/packet-size-not-used-for-sending", "%s: request written after the announcement of packet size %d is not a sequence of packets: %v", where, packetSize, err)
			}
			total := 0
			for i, p := range ps {
				total += len(p.Body)
				lastP := i == len(ps)-1
				if !lastP && (len(p.Body)+8 != packetSize || p.Status&rc.StatEOM != 0) {
					return vh.Failf("C11/packet-size-not-used-for-sending", "%s: packet size %d announced, then a request of %d bytes sent on the channel: packet %d of %d has %d bytes and status %#x", where, packetSize, len(cmd)+6, i+1, len(ps), len(p.Body)+8, p.Status)
				}
				if lastP && (len(p.Body)+8 > packetSize || p.Status&rc.StatEOM == 0) {
					return vh.Failf("C11/packet-size-not-used-for-sending", "%s: packet size %d announced, then a request of %d bytes sent on the channel: last packet has %d bytes and status %#x", where, packetSize, len(cmd)+6, len(p.Body)+8, p.Status)
				}
			}
			if total != len(cmd)+6 {
				return vh.Failf("C11/packet-size-not-used-for-sending", "%s: request of %d bytes sent after the announcement of packet size %d: %d body bytes written", where, len(cmd)+6, packetSize, total)
			}
			vh.Label("request-sent-after-packet-size-announcement")
		}
		// 5. consumer view and ordering
		var got []event
		for _, e := range round {
			if e.kind == "recv" {
				got = append(got, e)
			}
		}
		if r.FailAt < 0 {
			if len(got) != len(model) {
				return vh.Failf("C11/delivery", "%s: consumer received %d packages, expected [%s]", where, len(got), respgen.Describe(model))
			}
			for i, e := range got {
				if err := pkggen.LibEqual(model[i], fmts[i], e.pkg); err != nil {
					return vh.Failf("C11/delivery", "%s: delivered package %d (%T): %v", where, i, e.pkg, err)
				}
				// every message hook call for an EED at a position <= i happened before
				for k, pos := range eedPos {
					if pos > i {
						break
					}
					for h := 0; h < nEED; h++ {
						cnt := 0
						for _, x := range round {
							if x.kind == "eed" && x.hook == h {
								if cnt == k && x.seq > e.seq {
									return vh.Failf("C11/hook-after-delivery", "%s: package %d reached the consumer before message hook %d saw message %d", where, i, h, k)
								}
								cnt++
							}
						}
					}
				}
			}
		} else {
			// NextPackageUntil hides EEDs from the callback
			var visible []int
			for i, p := range model {
				if p.EED == nil {
					visible = append(visible, i)
				}
			}
			failed := r.FailAt < len(visible)
			if failed {
				if !errors.Is(cbErr, errCB) {
					return vh.Failf("C11/callback-error-lost", "%s: callback failed at invocation %d, NextPackageUntil returned %v", where, r.FailAt, cbErr)
				}
				k := visible[r.FailAt]
				var before []rc.EED
				for i, pos := range eedPos {
					if pos < k {
						before = append(before, eeds[i])
					}
				}
				if len(before) > 0 {
					var ee *tds.EEDError
					if !errors.As(cbErr, &ee) {
						return vh.Failf("C11/eed-error-missing", "%s: %d messages preceded the failing package, the error is a %T", where, len(before), cbErr)
					}
					if len(ee.EEDPackages) < len(before) {
						return vh.Failf("C11/eed-error-content", "%s: error carries %d messages, %d preceded the failure", where, len(ee.EEDPackages), len(before))
					}
					for i := range before {
						if err := pkggen.EEDEqual(before[i], *ee.EEDPackages[i]); err != nil {
							return vh.Failf("C11/eed-error-content", "%s: message %d carried by the error: %v", where, i, err)
						}
					}
					// whatever else it carries are the later messages of this response (met while the
					// rest was consumed), in order - nothing from elsewhere, nothing twice
					var after []rc.EED
					for i, pos := range eedPos {
						if pos >= k {
							after = append(after, eeds[i])
						}
					}
					extra := ee.EEDPackages[len(before):]
					if len(extra) > len(after) {
						return vh.Failf("C11/eed-error-foreign-message", "%s: error carries %d messages, the response has only %d (%d before the failing package)", where, len(ee.EEDPackages), len(before)+len(after), len(before))
					}
					for i := range extra {
						if err := pkggen.EEDEqual(after[i], *extra[i]); err != nil {
							return vh.Failf("C11/eed-error-foreign-message", "%s: message %d carried by the error is not message %d of the response: %v", where, len(before)+i, len(before)+i, err)
						}
					}
					if r.WrapEED {
						vh.Label("callback-error-wraps-foreign-eed-error")
					}
					vh.Label("eed-error-with-messages")
				}
				vh.Label("callback-failed")
				if r.Fin {
					vh.Label("callback-failed-returning-true")
				}
			} else if cbErr != nil {
				return vh.Failf("C11/delivery", "%s: NextPackageUntil returned %v, callback saw %d packages", where, cbErr, cbSeen)
			}
			for i, e := range got {
				if i >= len(visible) {
					return vh.Failf("C11/delivery", "%s: callback saw more packages than the response has", where)
				}
				if err := pkggen.LibEqual(model[visible[i]], fmts[visible[i]], e.pkg); err != nil {
					return vh.Failf("C11/delivery", "%s: callback package %d (%T): %v", where, i, e.pkg, err)
				}
			}
			if p, err := ch.NextPackage(bg, false); !errors.Is(err, tds.ErrNoPackageReady) {
				return vh.Failf("C11/leftover", "%s: queue not empty after the round: %v %v", where, p, err)
			}
		}
		if e := ch.VerifChanErr(); e != nil {
			return vh.Failf("C11/channel-error", "%s: %v", where, e)
		}
		// non-triviality: a cut inside or directly after a special package
		if len(eeds)+len(members) > 0 || hasInfo(r.Pkgs) {
			for _, cut := range r.Cuts {
				for i, p := range r.Pkgs {
					if (p.EED != nil || p.Env != nil) && cut > offs[i] && cut <= offs[i+1] {
						nontrivial = true
						vh.Label("cut-in-special-package")
					}
				}
			}
		}
		vh.LabelN("eed-hook-calls", len(eeds)*nEED)
		vh.LabelN("env-hook-calls", len(members)*nEnv)
		if n := rejectedCalled.Load(); n != 0 {
			return vh.Failf("C11/hook-of-refused-registration-called", "%s: functions handed over with a refused registration (a nil function among them) were called %d times", where, n)
		}
	}
	if nontrivial {
		vh.NonTrivial(fmt.Sprintf("%+v", c))
	}
	return nil
}

func hasInfo(ps []rc.P) bool {
	for _, p := range ps {
		if p.EED != nil && p.EED.Status&rc.EEDInfo != 0 {
			return true
		}
	}
	return false
}

func TestHooks(t *testing.T) {
	gen := func(rt *rapid.T) c11Case {
		n := rapid.IntRange(1, 4).Draw(rt, "responses")
		var c c11Case
		for i := 0; i < n; i++ {
			r := round{NewEEDHooks: rapid.IntRange(0, 2).Draw(rt, "neweed"), NewEnvHooks: rapid.IntRange(0, 2).Draw(rt, "newenv"), FailAt: -1}
			if i == 0 {
				r.NewEEDHooks = rapid.IntRange(0, 3).Draw(rt, "eedhooks0")
				r.NewEnvHooks = rapid.IntRange(0, 3).Draw(rt, "envhooks0")
			}
			r.BadReg = rapid.IntRange(0, 3).Draw(rt, "badreg") == 0
			r.Pkgs = respgen.Gen(rt, respgen.Opts{MaxStatements: 3, MaxEED: 6, MaxEnv: 3, PackSizes: true})
			stream, _, _, _ := rc.EncodeStream(r.Pkgs)
			r.Cuts = respgen.Cuts(rt, len(stream), true)
			if len(r.Cuts) > 0 && rapid.IntRange(0, 3).Draw(rt, "sendat?") == 0 {
				r.SendAt = rapid.IntRange(1, len(r.Cuts)).Draw(rt, "sendat")
			}
			if rapid.IntRange(0, 2).Draw(rt, "until") == 0 {
				r.FailAt = rapid.IntRange(0, 6).Draw(rt, "failat")
				r.Fin = rapid.IntRange(0, 2).Draw(rt, "fin") == 0
				r.WrapEOF = rapid.IntRange(0, 2).Draw(rt, "wrapeof") == 0
				r.Poll = rapid.IntRange(0, 2).Draw(rt, "poll") == 0
				r.WrapEED = !r.WrapEOF && rapid.IntRange(0, 2).Draw(rt, "wrapeed") == 0
			}
			c.Rounds = append(c.Rounds, r)
		}
		c.Log = rapid.IntRange(0, 3).Draw(rt, "log") == 0
		c.Logical = rapid.IntRange(0, 3).Draw(rt, "logical") == 0
		if n == 1 && len(fmt.Sprint(c)) < 700 {
			vh.Sample("history", c)
		}
		return c
	}
	vh.Check(t, "TestHooks", vh.N(4000, 100000), gen, runCase)
}

// every cut position of a response that consists of special packages around one row
func TestSpecialPackagesEveryCut(t *testing.T) {
	e := vh.NewEnum(t, "TestSpecialPackagesEveryCut", runCase)
	if e.Skip() {
		return
	}
	i32 := int32(3)
	ps := []rc.P{
		{EED: &rc.EED{MsgNumber: 1, Class: 10, Msg: "first", Server: "s"}},
		{Env: &rc.EnvChange{Members: []rc.EnvMember{{Type: rc.EnvDB, New: "db1", Old: "master"}, {Type: rc.EnvPackSize, New: "2048", Old: "512"}}}},
		{RetStat: &i32},
		{EED: &rc.EED{MsgNumber: 2, Status: rc.EEDInfo, Msg: "info"}},
		{EED: &rc.EED{MsgNumber: 3, Class: 16, Msg: "second", Proc: "p", Line: 7}},
		{Env: &rc.EnvChange{Members: []rc.EnvMember{{Type: rc.EnvLang, New: "us_english", Old: ""}}}},
		{Done: &rc.Done{Tok: rc.TokDone, Status: rc.DoneError}},
	}
	stream, _, _, _ := rc.EncodeStream(ps)
	for a := 1; a < len(stream); a++ {
		for _, failAt := range []int{-1, 0, 1} {
			if !e.Do(c11Case{Rounds: []round{{NewEEDHooks: 2, NewEnvHooks: 2, Pkgs: ps, Cuts: []int{a}, FailAt: failAt, WrapEOF: a%2 == 0}, {NewEEDHooks: 1, Pkgs: ps, Cuts: []int{a, a + 1}, FailAt: -1}}}) {
				return
			}
			// the same with a send completing between the two packets
			if !e.Do(c11Case{Rounds: []round{{NewEEDHooks: 2, NewEnvHooks: 2, Pkgs: ps, Cuts: []int{a}, FailAt: failAt, WrapEOF: a%2 == 0, SendAt: 1}, {NewEEDHooks: 1, Pkgs: ps, Cuts: []int{a, a + 1}, FailAt: -1, SendAt: 1 + a%2}}}) {
				return
			}
		}
	}
	e.Done("every single cut of a 7-package response with 3 EEDs and 2 ENVCHANGEs, 3 consumer modes, followed by a second response with one more hook")
}
