// Package flatch is an own implementation of tds.BytesChannel over a flat byte
// slice. It shares no code with tds.PacketQueue, so what a package's WriteTo
// produces can be observed (and fed back to ReadFrom) without the queue in between.
package flatch

import (
	"encoding/binary"

	"github.com/SAP/go-dblib/tds"
)

type Ch struct {
	B   []byte
	Off int
	// Reads counts read calls that failed for lack of bytes.
	Short int
}

var _ tds.BytesChannel = (*Ch)(nil)

func New(b []byte) *Ch { return &Ch{B: append([]byte{}, b...)} }

var le = binary.LittleEndian

func (c *Ch) Position() (int, int)         { return 0, c.Off }
func (c *Ch) SetPosition(_ int, off int)   { c.Off = off }
func (c *Ch) DiscardUntilCurrentPosition() {}
func (c *Ch) Left() int                    { return len(c.B) - c.Off }

func (c *Ch) Bytes(n int) ([]byte, error) {
	if n < 0 {
		// the real queue would try to allocate a negative length; surface it the same way
		panic("flatch: negative length requested")
	}
	out := make([]byte, n)
	if c.Off+n > len(c.B) {
		copy(out, c.B[c.Off:])
		c.Off = len(c.B)
		c.Short++
		return out, tds.ErrNotEnoughBytes
	}
	copy(out, c.B[c.Off:c.Off+n])
	c.Off += n
	return out, nil
}

func (c *Ch) Read(p []byte) (int, error) {
	b, err := c.Bytes(len(p))
	copy(p, b)
	return len(b), err
}

func (c *Ch) Byte() (byte, error)     { b, err := c.Bytes(1); return b[0], err }
func (c *Ch) Uint8() (uint8, error)   { b, err := c.Bytes(1); return b[0], err }
func (c *Ch) Int8() (int8, error)     { b, err := c.Bytes(1); return int8(b[0]), err }
func (c *Ch) Uint16() (uint16, error) { b, err := c.Bytes(2); return le.Uint16(b), err }
func (c *Ch) Int16() (int16, error)   { b, err := c.Bytes(2); return int16(le.Uint16(b)), err }
func (c *Ch) Uint32() (uint32, error) { b, err := c.Bytes(4); return le.Uint32(b), err }
func (c *Ch) Int32() (int32, error)   { b, err := c.Bytes(4); return int32(le.Uint32(b)), err }
func (c *Ch) Uint64() (uint64, error) { b, err := c.Bytes(8); return le.Uint64(b), err }
func (c *Ch) Int64() (int64, error)   { b, err := c.Bytes(8); return int64(le.Uint64(b)), err }
func (c *Ch) String(n int) (string, error) {
	b, err := c.Bytes(n)
	return string(b), err
}

func (c *Ch) WriteBytes(b []byte) error   { c.B = append(c.B, b...); return nil }
func (c *Ch) Write(p []byte) (int, error) { c.B = append(c.B, p...); return len(p), nil }
func (c *Ch) WriteByte(b byte) error      { c.B = append(c.B, b); return nil }
func (c *Ch) WriteUint8(v uint8) error    { c.B = append(c.B, v); return nil }
func (c *Ch) WriteInt8(v int8) error      { c.B = append(c.B, byte(v)); return nil }
func (c *Ch) WriteUint16(v uint16) error  { c.B = le.AppendUint16(c.B, v); return nil }
func (c *Ch) WriteInt16(v int16) error    { c.B = le.AppendUint16(c.B, uint16(v)); return nil }
func (c *Ch) WriteUint32(v uint32) error  { c.B = le.AppendUint32(c.B, v); return nil }
func (c *Ch) WriteInt32(v int32) error    { c.B = le.AppendUint32(c.B, uint32(v)); return nil }
func (c *Ch) WriteUint64(v uint64) error  { c.B = le.AppendUint64(c.B, v); return nil }
func (c *Ch) WriteInt64(v int64) error    { c.B = le.AppendUint64(c.B, uint64(v)); return nil }
func (c *Ch) WriteString(s string) error  { c.B = append(c.B, s...); return nil }
