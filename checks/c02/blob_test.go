package c02

import (
	"encoding/binary"
	"fmt"
	"reflect"
	"testing"

	"pgregory.net/rapid"
	rc "verif/internal/refcodec"
	"verif/internal/respgen"
	"verif/internal/vh"
)

// ---- rows with BLOB (0x24) columns: the value arrives as a sequence of data sets (length,
// bytes) closed by a terminator, so one value is read with several length/data reads - and read
// again from its start whenever the package is not complete yet. The reference codec has no
// BLOB (the library's support is unfinished, C04 excludes it), so the oracle here is purely
// the property's own: however the stream is cut, what is delivered equals what the same bytes
// deliver in one packet.

type blobCase struct {
	Stream []byte `json:"stream"`
	Cuts   []int  `json:"cuts"`
}

// blobFormat: a narrow ROWFMT / PARAMFMT with BLOB columns in the layout the library's format
// reader accepts (see C06/blob-format-accounting for its length field).
func blobFormat(tok byte, types []byte) []byte {
	var body []byte
	body = binary.LittleEndian.AppendUint16(body, uint16(len(types)))
	for _, bt := range types {
		body = append(body, 0, 0)           // name length, status
		body = append(body, 0, 0, 0, 0)     // user type
		body = append(body, 0x24, 0xff, bt) // BLOB, length, blob type
		if bt == 1 || bt == 2 {
			body = append(body, 1, 0, 'c') // class id
		}
		body = append(body, 0) // locale length
	}
	out := []byte{tok}
	out = binary.LittleEndian.AppendUint16(out, uint16(len(body)-2*len(types)))
	return append(out, body...)
}

func runBlob(c blobCase) (f *vh.Failure) {
	defer func() {
		if r := recover(); r != nil {
			vh.CheckHarnessPanic(r)
			f = vh.Failf("C02/panic", "response of %d bytes, %d cuts: panic: %v", len(c.Stream), len(c.Cuts), r)
		}
	}()
	ref, f := runPackets(rc.Packetise(c.Stream, nil, rc.BufResponse, 0))
	if f != nil {
		return f
	}
	if len(ref.errs) > 0 || len(ref.pkgs) < 3 {
		// not a stream the library reads as format, rows and DONE: nothing to compare
		vh.Label("blob:unfragmented-run-not-clean")
		return nil
	}
	got, f := runPackets(rc.Packetise(c.Stream, c.Cuts, rc.BufResponse, 0))
	if f != nil {
		return f
	}
	head, cuts := c.Stream, fmt.Sprint(c.Cuts)
	if len(head) > 80 {
		head = head[:80]
	}
	if len(c.Cuts) > 40 {
		cuts = fmt.Sprintf("%v... (%d cuts, every %d bytes)", c.Cuts[:3], len(c.Cuts), c.Cuts[0])
	}
	how := fmt.Sprintf("response of %d bytes (% x...) cuts %s", len(c.Stream), head, cuts)
	if len(got.errs) > 0 {
		return vh.Failf("C02/fragmented-error", "%s: errors surfaced: %v; unfragmented delivers [%s]", how, got.errs, describe(ref.pkgs))
	}
	if len(got.pkgs) != len(ref.pkgs) {
		return vh.Failf("C02/fragmented-delivery-differs", "%s: delivered [%s], unfragmented delivers [%s]", how, describe(got.pkgs), describe(ref.pkgs))
	}
	for i := range got.pkgs {
		if !reflect.DeepEqual(got.pkgs[i], ref.pkgs[i]) {
			return vh.Failf("C02/fragmented-delivery-differs", "%s: package %d differs: %v, unfragmented %v", how, i, got.pkgs[i], ref.pkgs[i])
		}
	}
	vh.Label("blob:rows-compared")
	if len(c.Cuts) > 0 {
		vh.NonTrivial(fmt.Sprintf("blob|%x|%v", c.Stream, c.Cuts))
	}
	return nil
}

func TestBlobRowsFragmented(t *testing.T) {
	gen := func(rt *rapid.T) blobCase {
		// (row formats only: the library does not read a parameter format in this layout)
		tok, rowTok := byte(rc.TokRowFmt), byte(rc.TokRow)
		types := rapid.SliceOfN(rapid.SampledFrom([]byte{1, 3, 4, 5, 6, 7}), 1, 2).Draw(rt, "blobtypes")
		out := blobFormat(tok, types)
		for r := rapid.IntRange(1, 3).Draw(rt, "rows"); r > 0; r-- {
			out = append(out, rowTok)
			for _, bt := range types {
				out = append(out, 0) // serialization
				if bt <= 2 || bt >= 6 {
					s := rapid.SliceOfN(rapid.Byte(), 0, 5).Draw(rt, "subclass-or-locator")
					out = binary.LittleEndian.AppendUint16(out, uint16(len(s)))
					out = append(out, s...)
				}
				for k := rapid.IntRange(0, 4).Draw(rt, "datasets"); k > 0; k-- {
					data := rapid.SliceOfN(rapid.Byte(), 0, rapid.SampledFrom([]int{3, 12, 60}).Draw(rt, "max")).Draw(rt, "data")
					out = binary.LittleEndian.AppendUint32(out, uint32(len(data)))
					out = append(out, data...)
				}
				out = binary.LittleEndian.AppendUint32(out, 0x80000000)
			}
		}
		out = append(out, rc.TokDone, 0, 0, 0, 0, 0, 0, 0, 0)
		c := blobCase{Stream: out, Cuts: respgen.Cuts(rt, len(out), false)}
		if len(out) < 60 {
			vh.Sample("blob-rows", c)
		}
		return c
	}
	vh.Check(t, "TestBlobRowsFragmented", vh.N(1500, 40000), gen, runBlob)
}

// every single cut (and every pair of neighbouring cuts) of a fixed blob response
func TestBlobRowsEveryCut(t *testing.T) {
	e := vh.NewEnum(t, "TestBlobRowsEveryCut", runBlob)
	if e.Skip() {
		return
	}
	stream := blobFormat(rc.TokRowFmt, []byte{4, 3})
	for r := 0; r < 2; r++ {
		stream = append(stream, rc.TokRow)
		for _, sets := range [][]string{{"abcde", "fg", "hijklmnop"}, {"", "xyz"}} {
			stream = append(stream, 0)
			for _, s := range sets {
				stream = binary.LittleEndian.AppendUint32(stream, uint32(len(s)))
				stream = append(stream, s...)
			}
			stream = binary.LittleEndian.AppendUint32(stream, 0x80000000)
		}
	}
	stream = append(stream, rc.TokDone, 0, 0, 0, 0, 0, 0, 0, 0)
	n := 0
	for a := 1; a < len(stream); a++ {
		for _, cuts := range [][]int{{a}, {a, a + 1}, {a, a + 5}} {
			if cuts[len(cuts)-1] >= len(stream) {
				continue
			}
			n++
			if vh.Mine(n) && !e.Do(blobCase{Stream: stream, Cuts: cuts}) {
				return
			}
		}
	}
	e.Done("every cut / pair of cuts of a two-row response with two BLOB columns of several data sets")
}

// ---- a response of a few kilobytes in packets that carry one to seven bytes each: a single
// row is spread over thousands of packets (the peer is free to packetise as it likes)

func TestThousandsOfTinyPackets(t *testing.T) {
	gen := func(rt *rapid.T) blobCase {
		size := rapid.OneOf(rapid.IntRange(1000, 1200), rapid.IntRange(300, 9000), rapid.SampledFrom([]int{1016, 1017, 1024, 2040, 4088, 8184})).Draw(rt, "size")
		val := make([]byte, size)
		for i := range val {
			val[i] = byte('a' + i%26)
		}
		f := rc.Fmt{Tok: rc.TokRowFmt, Cols: []rc.Col{{Name: "id", T: rc.TInt4}, {Name: "v", T: rc.TLongBinary, MaxLen: 2147483647}}}
		row := rc.Row{Tok: rc.TokRow, Cells: []rc.Cell{{V: rc.V{T: rc.TInt4, I: 7}}, {V: rc.V{T: rc.TLongBinary, B: val}}}}
		stream, _, _, err := rc.EncodeStream([]rc.P{{Fmt: &f}, {Row: &row}, {Done: &rc.Done{Tok: rc.TokDone}}})
		if err != nil {
			vh.HarnessBug("encode: %v", err)
		}
		body := rapid.SampledFrom([]int{1, 1, 2, 3, 7}).Draw(rt, "body")
		c := blobCase{Stream: stream}
		for at := body; at < len(stream); at += body {
			c.Cuts = append(c.Cuts, at)
		}
		vh.Label(fmt.Sprintf("tiny-packets>=%d", len(c.Cuts)/1000*1000))
		return c
	}
	vh.Check(t, "TestThousandsOfTinyPackets", vh.N(12, 200), gen, runBlob)
}

// ---- responses with tokens the library has no parser for (TDS_OPTIONCMD, TDS_CONTROL, TDS_KEY,
// ...): whatever it makes of them in one packet (it takes the rest of the message as one
// tokenless package), it makes the same of them however the message is cut.

func runUnknownToken(c blobCase) (f *vh.Failure) {
	defer func() {
		if r := recover(); r != nil {
			vh.CheckHarnessPanic(r)
			f = vh.Failf("C02/panic", "response of %d bytes with an unknown token, cuts %v: panic: %v", len(c.Stream), c.Cuts, r)
		}
	}()
	ref, f := runPackets(rc.Packetise(c.Stream, nil, rc.BufResponse, 0))
	if f != nil {
		return f
	}
	got, f := runPackets(rc.Packetise(c.Stream, c.Cuts, rc.BufResponse, 0))
	if f != nil {
		return f
	}
	how := fmt.Sprintf("response with an unknown token (%d bytes: % x) cuts %v", len(c.Stream), c.Stream, c.Cuts)
	if len(got.errs) != len(ref.errs) {
		return vh.Failf("C02/fragmented-error", "%s: errors %v; in one packet: %v", how, got.errs, ref.errs)
	}
	if len(got.pkgs) != len(ref.pkgs) {
		return vh.Failf("C02/fragmented-delivery-differs", "%s: delivered [%s], in one packet [%s]", how, describe(got.pkgs), describe(ref.pkgs))
	}
	for i := range got.pkgs {
		if !reflect.DeepEqual(got.pkgs[i], ref.pkgs[i]) {
			return vh.Failf("C02/fragmented-delivery-differs", "%s: package %d differs: %v, in one packet %v", how, i, got.pkgs[i], ref.pkgs[i])
		}
	}
	vh.Label("unknown-token:compared")
	if len(c.Cuts) > 0 {
		vh.NonTrivial(fmt.Sprintf("unk|%x|%v", c.Stream, c.Cuts))
	}
	return nil
}

func TestUnknownTokensFragmented(t *testing.T) {
	gen := func(rt *rapid.T) blobCase {
		var out []byte
		for n := rapid.IntRange(0, 2).Draw(rt, "before"); n > 0; n-- {
			out = append(out, rc.TokDone, 1, 0, 0, 0, byte(n), 0, 0, 0)
		}
		out = append(out, rapid.SampledFrom([]byte{0xa6, 0xae, 0xca, 0xa4, 0x7c, 0xab, 0xbc, 0x01}).Draw(rt, "token"))
		out = append(out, rapid.SliceOfN(rapid.Byte(), 0, 24).Draw(rt, "body")...)
		if rapid.Bool().Draw(rt, "done") {
			out = append(out, rc.TokDone, 0, 0, 0, 0, 0, 0, 0, 0)
		}
		return blobCase{Stream: out, Cuts: respgen.Cuts(rt, len(out), false)}
	}
	vh.Check(t, "TestUnknownTokensFragmented", vh.N(1500, 40000), gen, runUnknownToken)
}
