package c17

import (
	"testing"

	"pgregory.net/rapid"
	"verif/internal/vh"
)

// Several goroutines formatting and parsing descriptions at the same time (connection pools
// do that): whatever the parser shares between calls (tag tables, scratch buffers) must not
// show in a result.

type concCase struct {
	U *uriCase      `json:"uri,omitempty"`
	S *simpleCase   `json:"simple,omitempty"`
	O *overrideCase `json:"override,omitempty"`
}

func TestConcurrentParsing(t *testing.T) {
	gen := func(rt *rapid.T) []concCase {
		n := rapid.IntRange(2, 8).Draw(rt, "goroutines")
		var cs []concCase
		for i := 0; i < n; i++ {
			switch rapid.IntRange(0, 2).Draw(rt, "kind") {
			case 0:
				c := uriCase{V: genVal(rt, uriText, false)}
				cs = append(cs, concCase{U: &c})
			case 1:
				c := simpleCase{V: genVal(rt, simpleText, true)}
				cs = append(cs, concCase{S: &c})
			default:
				c := genOverride(rt)
				cs = append(cs, concCase{O: &c})
			}
		}
		return cs
	}
	run := func(cs []concCase) *vh.Failure {
		f := vh.Together(cs, func(c concCase) *vh.Failure {
			for k := 0; k < 10; k++ {
				var f *vh.Failure
				switch {
				case c.U != nil:
					f = runURI(*c.U)
				case c.S != nil:
					f = runSimple(*c.S)
				default:
					f = runOverride(*c.O)
				}
				if f != nil {
					return f
				}
			}
			return nil
		})
		if f == nil {
			vh.Label("concurrent-parsing")
		}
		return f
	}
	vh.Check(t, "TestConcurrentParsing", vh.N(800, 20000), gen, run)
}
