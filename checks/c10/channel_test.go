package c10

import (
	"context"
	"errors"
	"fmt"
	"io"
	"runtime"
	"sync/atomic"
	"testing"
	"time"

	"github.com/SAP/go-dblib/tds"
	"pgregory.net/rapid"
	"verif/internal/peer"
	"verif/internal/pkggen"
	rc "verif/internal/refcodec"
	"verif/internal/vh"
)

// pktDesc is one packet: the header fields as they appear on the wire (Length is the
// header field, not necessarily 8+len(Data)) and the body.
type pktDesc struct {
	Type    byte   `json:"type"`
	Status  byte   `json:"status"`
	Length  uint16 `json:"length"`
	Channel uint16 `json:"channel"`
	Nr      byte   `json:"nr"`
	Window  byte   `json:"window"`
	Data    []byte `json:"data"`
}

func (p pktDesc) wire() []byte {
	b := []byte{p.Type, p.Status, byte(p.Length >> 8), byte(p.Length), byte(p.Channel >> 8), byte(p.Channel), p.Nr, p.Window}
	return append(b, p.Data...)
}

func (p pktDesc) packet() *tds.Packet {
	return &tds.Packet{Header: tds.PacketHeader{MsgType: tds.PacketHeaderType(p.Type), Status: tds.PacketHeaderStatus(p.Status), Length: p.Length,
		Channel: p.Channel, PacketNr: p.Nr, Window: p.Window}, Data: append([]byte{}, p.Data...)}
}

// chanCase: Level "write" hands the packets to Channel.WritePacket of channel 0;
// Level "read" serialises them (plus Raw, plus Pad zero bytes) and lets Conn.ReadFrom
// read the bytes from a transport in the partition given by Cuts.
type chanCase struct {
	Level   string    `json:"level"`
	Packets []pktDesc `json:"packets"`
	Raw     []byte    `json:"raw,omitempty"`
	Pad     int       `json:"pad,omitempty"`
	Cuts    []int     `json:"cuts,omitempty"`
	EOF     bool      `json:"eof,omitempty"`
	Big     bool      `json:"big,omitempty"`
	Shape   string    `json:"shape"`
	Hdr     string    `json:"hdr,omitempty"`
	Mut     mutDesc   `json:"mut"`
}

func (c chanCase) wire() []byte {
	var w []byte
	for _, p := range c.Packets {
		w = append(w, p.wire()...)
	}
	w = append(w, c.Raw...)
	if c.Pad > 0 {
		w = append(w, make([]byte, c.Pad)...)
	}
	return w
}

const (
	hangAfter  = 10 * time.Second
	idleWithin = 3 * time.Second
)

// harness is a hooked Conn on an in-memory transport with channel 0; a drainer
// goroutine plays the consumer (channel errors, connection errors, packages) so that
// neither the 10-slot error queues nor the package queue can wedge the reader.
type harness struct {
	ctx    context.Context
	cancel context.CancelFunc
	pipe   *peer.Pipe
	conn   *tds.Conn
	ch     *tds.Channel
	pkgs   atomic.Int64
	errs   atomic.Int64
	stop   atomic.Bool
	dead   chan struct{}
}

func newHarness() *harness {
	h := &harness{pipe: peer.NewPipe(), dead: make(chan struct{})}
	h.ctx, h.cancel = context.WithCancel(context.Background())
	// the package queue is smaller than in production use would need: the drainer
	// empties it concurrently, and 100000 slots would cost 1.6 MB per case
	conn, _, err := tds.VerifNewConn(h.ctx, h.pipe, &tds.Info{PacketReadTimeout: 1, ChannelPackageQueueSize: 4096}, false)
	if err != nil {
		vh.HarnessBug("VerifNewConn: %v", err)
	}
	h.conn = conn
	h.ch, err = conn.NewChannel()
	if err != nil {
		vh.HarnessBug("NewChannel: %v", err)
	}
	go h.drainer()
	return h
}

func (h *harness) drainOnce() int {
	n := 0
	for h.ch.VerifChanErr() != nil {
		n++
		h.errs.Add(1)
	}
	for h.conn.VerifConnErr() != nil {
		n++
		h.errs.Add(1)
	}
	for {
		_, err := h.ch.NextPackage(context.Background(), false)
		if err == nil {
			n++
			h.pkgs.Add(1)
			continue
		}
		if errors.Is(err, tds.ErrNoPackageReady) || h.ctx.Err() != nil {
			break
		}
		n++
		h.errs.Add(1)
	}
	return n
}

func (h *harness) drainer() {
	defer close(h.dead)
	idle := 0
	for !h.stop.Load() {
		if h.drainOnce() > 0 {
			idle = 0
			runtime.Gosched()
			continue
		}
		idle++
		if idle < 4 {
			runtime.Gosched()
		} else {
			time.Sleep(50 * time.Microsecond)
		}
	}
	h.drainOnce()
}

func (h *harness) close() {
	h.cancel()
	h.pipe.Close()
	h.stop.Store(true)
	<-h.dead
}

// ---- the request after the input

type sendRes struct {
	c   *caught
	err error
}

var rescuePacket = func() *tds.Packet {
	b, _, _, _ := rc.EncodeStream([]rc.P{{Env: &rc.EnvChange{Members: []rc.EnvMember{{Type: rc.EnvPackSize, New: "512", Old: "512"}}}}})
	return &tds.Packet{Header: tds.PacketHeader{MsgType: tds.TDS_BUF_RESPONSE, Status: tds.TDS_BUFSTAT_EOM, Length: uint16(8 + len(b))}, Data: b}
}()

// sendAfter sends one small language request. Server-controlled state (the packet
// size of ENVCHANGE) must not make it panic, loop or allocate out of proportion.
func (h *harness) sendAfter() *vh.Failure {
	ps := h.conn.PacketSize()
	runaway := ps >= 8 && ps%65536 == 8 // NewPacket(ps) has no room for data: WriteBytes appends packets forever
	switch {
	case ps > 1<<27+8:
		// not executed: NewPacket would make([]byte, ps-8)
		return vh.Failf("C10/packsize-oversized-accepted", "the connection accepted packet size %d from ENVCHANGE; the next request would allocate %d bytes per packet (not executed)", ps, ps-8)
	case runaway && ps > 131080:
		return vh.Failf("C10/packsize-send-runaway", "the connection accepted packet size %d from ENVCHANGE (header length field %d): the next request would append packets of %d bytes forever (not executed)", ps, uint16(ps), ps-8)
	}
	// once a consequence of an illegal packet size has been recorded by this
	// process, further instances are counted and not executed (they are slow)
	predicted := ""
	switch {
	case ps >= 9 && ps <= 65535:
	case ps < 8:
		predicted = "C10/panic-tds.NewPacket-makeslice-len"
	case runaway:
		predicted = "C10/packsize-send-runaway"
	case ps%65536 < 8:
		predicted = "C10/panic-tds.PacketQueue.WriteBytes-slice-bounds"
	case ps >= 1<<22:
		predicted = "C10/alloc-disproportionate-tds.NewPacket"
	}
	if predicted != "" && isReported(predicted) {
		vh.Excluded(predicted)
		return nil
	}
	before := h.pipe.WrittenLen()
	done := make(chan sendRes, 1)
	var r sendRes
	rescued := false
	delta := measure(func() {
		go func() {
			var err error
			c := try(func() { err = h.ch.SendPackage(h.ctx, &tds.LanguagePackage{Cmd: "x"}) })
			done <- sendRes{c, err}
		}()
		wait := 200 * time.Millisecond
		if runaway {
			wait = 2 * time.Millisecond
		}
		tm := time.NewTimer(wait)
		defer tm.Stop()
		select {
		case r = <-done:
			return
		case <-tm.C:
		}
		// The sender does not come back. A goroutine cannot be stopped from outside,
		// but this one asks the connection for the packet size on every round: a
		// legal size from the server lets it finish. (Several times: the first packets
		// may only flush what the case left in the receive queue.)
		rescued = true
		for i := 0; i < 3; i++ {
			try(func() { h.ch.WritePacket(rescuePacket) })
		}
		tm2 := time.NewTimer(hangAfter)
		defer tm2.Stop()
		select {
		case r = <-done:
		case <-tm2.C:
			r = sendRes{c: &caught{Kind: "hang"}}
		}
	})
	if r.c != nil && r.c.Kind == "hang" {
		return vh.Failf("C10/hang-send-after-input", "SendPackage after the input did not return within %v (packet size %d)", hangAfter, ps)
	}
	if r.c != nil {
		return vh.Failf(r.c.class(), "SendPackage(LANGUAGE \"x\") after the input (packet size now %d): %v", ps, r.c)
	}
	wrote := h.pipe.WrittenLen() - before
	if wrote > 1024 {
		return vh.Failf("C10/packsize-send-runaway", "SendPackage of a 7 byte LANGUAGE package wrote %d bytes (packet size %d accepted from ENVCHANGE; stopped by the harness: %v)", wrote, ps, rescued)
	}
	if delta > allocBound(15) {
		site := "unknown-site"
		if ps > 1<<16 {
			site = "tds.NewPacket"
		}
		return vh.Failf("C10/alloc-disproportionate-"+site, "SendPackage of a 7 byte LANGUAGE package allocated %d bytes (packet size %d accepted from ENVCHANGE)", delta, ps)
	}
	if r.err != nil {
		vh.Label("chan:send-error")
	} else {
		vh.Label("chan:send-ok")
	}
	if ps != 512 {
		vh.Label("chan:packsize-changed")
	}
	return nil
}

// ---- running a case

// readerPackets splits wire bytes the way Packet.ReadFrom does: header, then
// length-8 bytes of body. It stops at a header that announces more than there is.
func readerPackets(wire []byte) []pktDesc {
	var out []pktDesc
	for len(wire) >= 8 {
		p := pktDesc{Type: wire[0], Status: wire[1], Length: uint16(wire[2])<<8 | uint16(wire[3]), Channel: uint16(wire[4])<<8 | uint16(wire[5]), Nr: wire[6], Window: wire[7]}
		if p.Length < 8 {
			// a reader that rejects the header goes on with the next 8 bytes (one
			// that does not swallows the rest: nothing more to parse then)
			wire = wire[8:]
			continue
		}
		if int(p.Length) > len(wire) {
			break
		}
		p.Data = wire[8:p.Length]
		out = append(out, p)
		wire = wire[p.Length:]
	}
	return out
}

// headerOnly: WritePacket passes a packet whose header length is 8 on as a
// HeaderOnlyPackage without looking at its data, unless it belongs to a response.
func headerOnly(p pktDesc) bool {
	return p.Length == 8 && p.Type != rc.BufResponse && p.Type != rc.BufNormal
}

// prescreen runs the case through the channel simulator (package level, real
// PacketQueue): it tells whether a huge length will be requested from the queue
// (allocation is measured then) and keeps requests above 2^27 away from a tree that
// would allocate them.
func prescreen(c chanCase) (maxN int, excluded bool) {
	ps := c.Packets
	if c.Level == "read" {
		ps = readerPackets(c.wire())
	}
	s := &sim{guard: treeUnsafe()}
	for _, p := range ps {
		if c.Level == "read" && p.Channel != 0 || headerOnly(p) {
			continue
		}
		if pc := s.packet(p.Data, p.Status&1 != 0); pc != nil {
			return s.res.MaxN, pc.Guard != nil
		}
	}
	return s.res.MaxN, false
}

var inAllocSite bool

func runChan(c chanCase) *vh.Failure {
	f := runChanOnce(c)
	if f != nil && !inAllocSite && (f.Class == "C10/alloc-disproportionate-channel" || f.Class == "C10/alloc-disproportionate-reader") {
		inAllocSite = true
		site := allocSite(func() { runChanOnce(c) })
		inAllocSite = false
		f.Class = "C10/alloc-disproportionate-" + site
		f.Msg += "; allocating function: " + site
	}
	return f
}

func runChanOnce(c chanCase) *vh.Failure {
	maxN, excluded := prescreen(c)
	if excluded {
		vh.Excluded(classAllocBytes)
		vh.Label("excluded:request-above-2^27")
		return nil
	}
	// Allocation is measured for every case at this level: a package that is still
	// incomplete is parsed again from its start with every packet that arrives, so
	// even a modest allocation by an announced count adds up.
	_ = maxN
	big := true

	h := newHarness()
	defer h.close()
	var step atomic.Value
	step.Store("start")
	type result struct{ f *vh.Failure }
	done := make(chan result, 1)
	go func() {
		var f *vh.Failure
		if c.Level == "read" {
			f = runRead(h, c, big, &step)
		} else {
			f = runWrite(h, c, big, &step)
		}
		done <- result{f}
	}()
	tm := time.NewTimer(3 * hangAfter)
	defer tm.Stop()
	var f *vh.Failure
	select {
	case r := <-done:
		f = r.f
	case <-tm.C:
		f = vh.Failf("C10/hang-"+c.Level, "the case did not finish within %v (at step %v)", 3*hangAfter, step.Load())
	}
	if f != nil {
		return f
	}
	outcome := "quiet"
	switch {
	case h.pkgs.Load() > 0 && h.errs.Load() > 0:
		outcome = "packages+errors"
	case h.pkgs.Load() > 0:
		outcome = "packages"
	case h.errs.Load() > 0:
		outcome = "errors"
	}
	vh.Label("chan:"+c.Level+":"+c.Shape, "chan:outcome-"+outcome)
	if c.Hdr != "" {
		vh.Label("chan:hdr-" + c.Hdr)
	}
	if c.Shape != "valid" {
		vh.NonTrivial(fmt.Sprintf("c|%s|%s|%s|%d|%s|%s|%s", c.Level, c.Shape, c.Hdr, c.Mut.Tok, c.Mut.Span, c.Mut.Repl, outcome))
	}
	return nil
}

func runWrite(h *harness, c chanCase, big bool, step *atomic.Value) *vh.Failure {
	var f *vh.Failure
	input := 0
	feed := func() {
		for i, p := range c.Packets {
			step.Store(fmt.Sprintf("WritePacket %d", i))
			pkt := p.packet()
			input += 8 + len(pkt.Data)
			stuck := make(chan struct{})
			var pc *caught
			go func() {
				defer close(stuck)
				pc = try(func() { h.ch.WritePacket(pkt) })
			}()
			tm := time.NewTimer(hangAfter)
			select {
			case <-stuck:
				tm.Stop()
			case <-tm.C:
				f = vh.Failf("C10/hang-writepacket", "WritePacket of packet %d (%s, body %s) did not return within %v although errors and packages were drained", i, pkt.Header, hexHead(pkt.Data, 24), hangAfter)
				return
			}
			if pc != nil {
				f = vh.Failf(pc.class(), "WritePacket of packet %d (%s, body %s): %v", i, pkt.Header, hexHead(pkt.Data, 40), pc)
				return
			}
		}
	}
	if big {
		delta := measure(feed)
		vh.Label("chan:alloc-measured")
		if f == nil && delta > allocBound(input) {
			return vh.Failf("C10/alloc-disproportionate-channel", "WritePacket of %d packets with %d bytes allocated %d bytes (bound %d)", len(c.Packets), input, delta, allocBound(input))
		}
	} else {
		feed()
	}
	if f != nil {
		return f
	}
	step.Store("SendPackage")
	return h.sendAfter()
}

// spinThreshold: a header-only packet costs the reader one zero-length read; far more
// of them than the input has headers means that it reads into a full buffer forever.
func spinThreshold(wire []byte) int { return 1000 + len(wire)/8 }

const classReaderSpin = "C10/reader-spins-on-zero-length-reads"

// predictSpin: the reader comes to a header that announces less than 8 bytes and at
// least 65528 bytes follow (what it takes to fill the body buffer it makes for it).
func predictSpin(wire []byte) bool {
	for len(wire) >= 8 {
		l := int(wire[2])<<8 | int(wire[3])
		if l < 8 {
			return len(wire)-8 >= 65528+l
		}
		if l > len(wire) {
			return false
		}
		wire = wire[l:]
	}
	return false
}

func runRead(h *harness, c chanCase, big bool, step *atomic.Value) *vh.Failure {
	wire := c.wire()
	if isReported(classReaderSpin) && predictSpin(wire) {
		vh.Excluded(classReaderSpin)
		return nil
	}
	readerDone := make(chan *caught, 1)
	go func() { readerDone <- try(h.conn.ReadFrom) }()
	var readerExit bool
	var pc *caught
	idle := false
	feed := func() {
		step.Store("feeding")
		h.pipe.FeedPartition(wire, c.Cuts)
		deadline := time.Now().Add(idleWithin)
		for {
			select {
			case pc = <-readerDone:
				readerExit = true
				return
			default:
			}
			if h.pipe.WaitDrained(2 * time.Millisecond) {
				idle = true
				return
			}
			if _, zero, _, _ := h.pipe.Stats(); zero > spinThreshold(wire) || time.Now().After(deadline) {
				return
			}
		}
	}
	var delta uint64
	if big {
		delta = measure(feed)
		vh.Label("chan:alloc-measured")
	} else {
		feed()
	}
	if pc != nil {
		return vh.Failf(pc.class(), "Conn.ReadFrom reading %s: %v", hexHead(wire, 40), pc)
	}
	if !idle && !readerExit {
		reads, zero, given, _ := h.pipe.Stats()
		if zero > spinThreshold(wire) {
			first := "?"
			if _, err := rc.ParsePackets(wire); err != nil {
				first = err.Error()
			}
			return vh.Failf(classReaderSpin, "after %d of %d bytes the reader neither waits for more input nor reports an error: it issued %d zero-length reads (%d reads with data) and keeps going; first irregularity of the stream: %s; head: %s",
				given, len(wire), zero, reads, first, hexHead(wire, 24))
		}
		return vh.Failf("C10/hang-reader-busy", "the reader did not become idle within %v after %d of %d bytes were delivered (%d reads, %d zero-length reads); head: %s", idleWithin, given, len(wire), reads, zero, hexHead(wire, 24))
	}
	if big && delta > allocBound(len(wire)) {
		return vh.Failf("C10/alloc-disproportionate-reader", "reading %d bytes allocated %d bytes (bound %d); head: %s", len(wire), delta, allocBound(len(wire)), hexHead(wire, 24))
	}
	// the request comes first: while the reader waits for input nothing else
	// allocates, so the allocation of the request can be measured
	step.Store("SendPackage")
	if f := h.sendAfter(); f != nil {
		return f
	}
	if c.EOF && !readerExit {
		// the transport ends: the reader sees io.EOF at a header boundary or inside
		// a body (its spinning there is bounded by the read timeout: C14)
		step.Store("EOF")
		_, _, given, _ := h.pipe.Stats()
		h.pipe.FailAfter(given, io.EOF)
		time.Sleep(300 * time.Microsecond)
	}
	step.Store("stopping the reader")
	h.cancel()
	h.pipe.Close()
	if !readerExit {
		tm := time.NewTimer(hangAfter)
		defer tm.Stop()
		select {
		case pc = <-readerDone:
		case <-tm.C:
			return vh.Failf("C10/hang-reader-does-not-stop", "Conn.ReadFrom did not return within %v after its context was cancelled and the transport closed", hangAfter)
		}
		if pc != nil {
			return vh.Failf(pc.class(), "Conn.ReadFrom at end of input / shutdown (%s): %v", hexHead(wire, 40), pc)
		}
	}
	return nil
}

// ---- generators

// genResponse draws a response: 0..3 server packages (rows behind their format) and
// mostly a final DONE.
func genResponse(rt *rapid.T) ([]rc.P, string) {
	ctx := &pkggen.Ctx{Small: true}
	var ps []rc.P
	n := rapid.IntRange(0, 3).Draw(rt, "npkgs")
	kind := "done"
	for i := 0; i < n; i++ {
		kind = rapid.SampledFrom(pkggen.ServerKinds).Draw(rt, "kind")
		switch kind {
		case "row":
			f, r, _ := pkggen.GenWithFormat(rt, rapid.SampledFrom([]string{"rowfmt", "rowfmt2"}).Draw(rt, "fmtkind"), ctx)
			ps = append(ps, f, r)
		case "params":
			f, r, _ := pkggen.GenWithFormat(rt, rapid.SampledFrom([]string{"paramfmt", "paramfmt2"}).Draw(rt, "fmtkind"), ctx)
			ps = append(ps, f, r)
		case "orderby", "orderby2":
			ps = append(ps, pkggen.Gen(rt, "rowfmt", ctx), pkggen.Gen(rt, kind, ctx))
		default:
			ps = append(ps, pkggen.Gen(rt, kind, ctx))
		}
	}
	if n == 0 || rapid.IntRange(0, 3).Draw(rt, "final") != 0 {
		ps = append(ps, rc.P{Done: &rc.Done{Tok: rc.TokDone, Status: rc.DoneFinal}})
	}
	return ps, kind
}

// the packet sizes a server could announce; those that would make the harness itself
// unsafe on a tree that accepts them (2^27+8: endless 128 MiB packets) are left to the
// prediction in sendAfter and not generated here
var hostileSizes = []string{"0", "1", "7", "8", "9", "10", "255", "511", "512", "513", "2048", "65535", "65536", "65537", "65543", "65544", "65545", "70000", "131080",
	"-5", "-1", "-8", "-65528", "abc", "", " 8", "+8", "0x10", "8.0", "134217728", "8388617", "99999999999999999999", "08", "00000009"}

func genCuts(rt *rapid.T, n int, label string) []int {
	if n <= 1 {
		return nil
	}
	var cuts []int
	switch rapid.IntRange(0, 3).Draw(rt, label+"-class") {
	case 0:
		return nil
	case 1:
		k := rapid.IntRange(1, 4).Draw(rt, label+"-k")
		for i := 0; i < k; i++ {
			cuts = append(cuts, rapid.IntRange(1, n-1).Draw(rt, label))
		}
	case 2:
		// every byte on its own (short streams only)
		if n <= 64 {
			for i := 1; i < n; i++ {
				cuts = append(cuts, i)
			}
		} else {
			cuts = append(cuts, 1, 7, 8, 9)
		}
	default:
		cuts = append(cuts, rapid.SampledFrom([]int{1, 7, 8, 9}).Draw(rt, label+"-hdr"))
	}
	// sorted, unique, inside
	out := cuts[:0]
	for _, c := range sortInts(cuts) {
		if c > 0 && c < n && (len(out) == 0 || out[len(out)-1] != c) {
			out = append(out, c)
		}
	}
	return out
}

func sortInts(a []int) []int {
	b := append([]int{}, a...)
	for i := 1; i < len(b); i++ {
		for j := i; j > 0 && b[j] < b[j-1]; j-- {
			b[j], b[j-1] = b[j-1], b[j]
		}
	}
	return b
}

func toDescs(ps []rc.Packet) []pktDesc {
	var out []pktDesc
	for _, p := range ps {
		out = append(out, pktDesc{Type: p.Type, Status: p.Status, Length: uint16(8 + len(p.Body)), Channel: p.Channel, Nr: p.Nr, Window: p.Window, Data: p.Body})
	}
	return out
}

func genChan(level string) func(rt *rapid.T) chanCase {
	return func(rt *rapid.T) chanCase {
		c := chanCase{Level: level}
		c.Shape = rapid.SampledFrom([]string{"valid", "mutated", "mutated", "hdr", "hdr", "arbitrary", "packsize", "packsize", "trickle"}).Draw(rt, "shape")
		switch c.Shape {
		case "trickle":
			// a package that announces many members (or bytes), one byte per packet:
			// the channel parses it again from its start with every packet
			kind := rapid.SampledFrom([]string{"rowfmt", "rowfmt2", "paramfmt", "paramfmt2", "orderby", "orderby2", "capability", "envchange", "eed", "curdeclare", "curdeclare3", "dynamic2", "row", "params"}).Draw(rt, "kind")
			stream, offs, spans := encode(genValid(rt, kind))
			var cand []rc.Span
			for _, sp := range spans {
				if (sp.Kind == "count" || sp.Kind == "length") && (sp.Len == 1 || sp.Len == 2 || sp.Len == 4) {
					cand = append(cand, sp)
				}
			}
			c.Mut = mutDesc{Mode: "span", Kind: kind, Tok: stream[0]}
			if len(cand) > 0 {
				sp := cand[rapid.IntRange(0, len(cand)-1).Draw(rt, "span")]
				max := uint64(1)<<(8*uint(sp.Len)) - 1
				v := rapid.SampledFrom([]uint64{max, max >> 1, max>>1 + 1, max - 1}).Draw(rt, "big")
				if sp.Len == 4 {
					v = rapid.SampledFrom([]uint64{1 << 20, 1 << 24, 1 << 27, 0xffff}).Draw(rt, "big4")
					if treeUnsafe() && v > 1<<20 {
						// every packet makes the tree allocate it again
						v = 1 << 20
					}
				}
				copy(stream[sp.Off:], putUint(sp.Len, v))
				c.Mut.Span, c.Mut.Repl, c.Mut.Tok = sp.Kind, fmt.Sprintf("big%d", sp.Len), tokenAt(stream, offs, sp.Off)
				c.Big = true
			}
			if kind == "orderby2" && rapid.Bool().Draw(rt, "consistent") {
				// length and count lie together: both huge and consistent with each other
				// (length = 2 + 2 x count), the columns themselves missing
				var lsp, csp *rc.Span
				for i := range spans {
					sp := &spans[i]
					if tokenAt(stream, offs, sp.Off) != rc.TokOrderBy2 {
						continue
					}
					if sp.Kind == "length" && sp.Len == 4 {
						lsp = sp
					}
					if sp.Kind == "count" && sp.Len == 2 {
						csp = sp
					}
				}
				if lsp != nil && csp != nil {
					n := uint64(rapid.SampledFrom([]int{65535, 65534, 40000, 32768}).Draw(rt, "count"))
					copy(stream[lsp.Off:], putUint(4, 2+2*n))
					copy(stream[csp.Off:], putUint(2, n))
					c.Mut.Span, c.Mut.Repl, c.Mut.Tok = "length+count", "consistent-huge", rc.TokOrderBy2
					c.Big = true
				}
			}
			if len(stream) > 120 {
				stream = stream[:120]
			}
			var cuts []int
			for i := 1; i < len(stream); i++ {
				cuts = append(cuts, i)
			}
			c.Packets = toDescs(rc.Packetise(stream, cuts, rc.BufResponse, 0))
		case "arbitrary":
			n := rapid.IntRange(1, 4).Draw(rt, "npackets")
			for i := 0; i < n; i++ {
				data := genBytes(rt, "data", 40)
				p := pktDesc{Type: rapid.Byte().Draw(rt, "type"), Status: rapid.Byte().Draw(rt, "status"), Channel: uint16(rapid.SampledFrom([]int{0, 0, 0, 1, 0xffff, 0x100}).Draw(rt, "channel")),
					Nr: rapid.Byte().Draw(rt, "nr"), Window: rapid.Byte().Draw(rt, "window"), Data: data}
				switch rapid.IntRange(0, 3).Draw(rt, "lenclass") {
				case 0:
					p.Length = uint16(rapid.IntRange(0, 9).Draw(rt, "shortlen"))
				case 1:
					p.Length = rapid.Uint16().Draw(rt, "anylen")
				default:
					p.Length = uint16(8 + len(data))
				}
				c.Packets = append(c.Packets, p)
			}
			if level == "read" && rapid.Bool().Draw(rt, "rawtail") {
				c.Raw = genBytes(rt, "raw", 24)
			}
			c.Hdr = "arbitrary"
		default:
			var ps []rc.P
			kind := "envchange"
			if c.Shape == "packsize" {
				if rapid.Bool().Draw(rt, "before") {
					ps = append(ps, pkggen.Gen(rt, rapid.SampledFrom([]string{"done", "eed", "loginack", "capability"}).Draw(rt, "kind"), &pkggen.Ctx{Small: true}))
				}
				env := &rc.EnvChange{}
				if rapid.IntRange(0, 3).Draw(rt, "otherenv") == 0 {
					env.Members = append(env.Members, rc.EnvMember{Type: rc.EnvDB, New: "db", Old: "master"})
				}
				env.Members = append(env.Members, rc.EnvMember{Type: rc.EnvPackSize, New: rapid.SampledFrom(hostileSizes).Draw(rt, "packsize"), Old: "512"})
				ps = append(ps, rc.P{Env: env})
				if rapid.Bool().Draw(rt, "after") {
					ps = append(ps, rc.P{Done: &rc.Done{Tok: rc.TokDone, Status: rc.DoneFinal}})
				}
				c.Mut = mutDesc{Mode: "packsize", Kind: "envchange", Tok: rc.TokEnvChange, Span: "string", Repl: env.Members[len(env.Members)-1].New}
			} else {
				ps, kind = genResponse(rt)
			}
			stream, offs, spans := encode(ps)
			if c.Shape == "mutated" || c.Shape == "hdr" && rapid.IntRange(0, 2).Draw(rt, "alsomutated") == 0 {
				m := mutate(rt, stream, offs, spans, kind, []string{"span", "span", "span", "truncate", "delete", "insert", "trailing"})
				stream, c.Mut, c.Big = m.Stream, m.Mut, m.Big
			}
			cuts := genCuts(rt, len(stream), "pcut")
			c.Packets = toDescs(rc.Packetise(stream, cuts, rc.BufResponse, 0))
			if c.Shape == "hdr" {
				i := rapid.IntRange(0, len(c.Packets)-1).Draw(rt, "hdrpacket")
				p := &c.Packets[i]
				field := rapid.SampledFrom([]string{"length", "length", "length", "type", "status", "channel"}).Draw(rt, "hdrfield")
				switch field {
				case "length":
					class := rapid.SampledFrom([]string{"0", "1", "2", "3", "4", "5", "6", "7", "8", "9", "minus1", "plus1", "ffff", "8000", "random"}).Draw(rt, "lenclass")
					switch class {
					case "minus1":
						p.Length--
					case "plus1":
						p.Length++
					case "ffff":
						p.Length = 0xffff
					case "8000":
						p.Length = 0x8000
					case "random":
						p.Length = rapid.Uint16().Draw(rt, "anylen")
					default:
						p.Length = uint16(class[0] - '0')
					}
					c.Hdr = "length-" + class
					if level == "read" && p.Length < 8 && rapid.IntRange(0, 2).Draw(rt, "pad") == 0 {
						// enough bytes behind a header that announces less than a header
						// to see what the reader does when its body buffer is full
						c.Pad = 66000
					}
				case "type":
					p.Type = rapid.Byte().Draw(rt, "type")
					c.Hdr = "type"
				case "status":
					p.Status = rapid.Byte().Draw(rt, "status")
					c.Hdr = "status"
				case "channel":
					p.Channel = uint16(rapid.SampledFrom([]int{1, 2, 0xffff, 0x100}).Draw(rt, "channel"))
					c.Hdr = "channel"
				}
			}
		}
		if level == "read" {
			n := len(c.wire()) - c.Pad
			c.Cuts = genCuts(rt, n, "rcut")
			c.EOF = rapid.IntRange(0, 3).Draw(rt, "eof") == 0
		}
		if len(c.wire()) < 150 {
			vh.Sample("chan-"+level+"-"+c.Shape, c)
		}
		return c
	}
}

// TestWritePacket: packet sequences into Channel.WritePacket of channel 0, then one
// small request.
func TestWritePacket(t *testing.T) {
	checkRounds(t, "TestWritePacket", vh.N(12000, 250000), genChan("write"), runChan)
}

// TestReadFrom: byte streams through the real reader (Conn.ReadFrom run by the harness
// under recover), then one small request.
func TestReadFrom(t *testing.T) {
	checkRounds(t, "TestReadFrom", vh.N(6000, 120000), genChan("read"), runChan)
}
