package c10

import (
	"errors"
	"fmt"
	"sync"

	"github.com/SAP/go-dblib/tds"
	rc "verif/internal/refcodec"
	"verif/internal/vh"
)

// recQ is the real bounded tds.PacketQueue; Bytes and String (the two entry points
// that take a computed length) additionally record the largest length requested and,
// on a tree that is known to allocate before checking, refuse requests above 2^27.
type recQ struct {
	*tds.PacketQueue
	maxN  int
	guard bool
}

type guardTrip struct{ N int }

const guardLimit = 1 << 27

func (q *recQ) note(n int) {
	if n > q.maxN {
		q.maxN = n
	}
	if q.guard && n > guardLimitNow() {
		panic(guardTrip{n})
	}
}

// guardLimitNow: once the finding has been recorded by this process, requests that
// would exceed the allocation bound anyway are excluded without being executed.
func guardLimitNow() int {
	if isReported(classAllocBytes) {
		return allocSlack / 4
	}
	return guardLimit
}

func (q *recQ) Bytes(n int) ([]byte, error) {
	q.note(n)
	return q.PacketQueue.Bytes(n)
}

func (q *recQ) String(n int) (string, error) {
	q.note(n)
	return q.PacketQueue.String(n)
}

func (q *recQ) Read(p []byte) (int, error) {
	bs, err := q.Bytes(len(p))
	copy(p, bs)
	return len(bs), err
}

var _ tds.BytesChannel = (*recQ)(nil)

const classAllocBytes = "C10/alloc-disproportionate-tds.PacketQueue.Bytes"

// parseResult is what one pass over a token stream produced.
type parseResult struct {
	Packages int    // packages parsed completely
	Outcome  string // parsed-all, not-enough-bytes, error, lastpkg-error
	LastTok  byte   // token of the package the pass ended in
	Consumed bool
	MaxN     int
	Panic    *caught
}

// sim does what a Channel does with the packets it is handed (WritePacket,
// tryParsePackage, handleSpecialPackage) on a real PacketQueue of its own: token byte,
// LookupPackage, LastPkg with the previously passed-on package, ReadFrom; a package
// that cannot be parsed for lack of bytes is rolled back and waits for the next
// packet, unless the end of the message has been reached (then the queue is reset).
type sim struct {
	rest  []byte // unparsed bytes kept for the next packet
	eom   bool   // an EOM packet was queued since the last reset
	last  tds.Package
	guard bool
	res   parseResult
}

// packet feeds one packet body. It returns the panic of the library, if any.
func (s *sim) packet(data []byte, eom bool) *caught {
	all := append(append([]byte{}, s.rest...), data...)
	q := &recQ{PacketQueue: tds.NewPacketQueue(func() int { return 512 }), guard: s.guard}
	hl := 8 + len(all)
	if hl > 0xffff {
		hl = 0xffff
	}
	st := tds.PacketHeaderStatus(0)
	s.eom = s.eom || eom
	if s.eom {
		st = tds.TDS_BUFSTAT_EOM
	}
	q.AddPacket(&tds.Packet{Header: tds.PacketHeader{MsgType: tds.TDS_BUF_RESPONSE, Status: st, Length: uint16(hl)}, Data: all})
	good := 0 // offset behind the last package parsed completely
	s.res.Outcome = "parsed-all"
	c := try(func() {
		for !q.AllPacketsConsumed() {
			tok, err := q.Byte()
			if err != nil {
				s.res.Outcome = "not-enough-bytes"
				return
			}
			s.res.LastTok = tok
			pkg, err := tds.LookupPackage(tds.Token(tok))
			if err != nil {
				s.res.Outcome = "error"
				return
			}
			if tl, ok := pkg.(*tds.TokenlessPackage); ok {
				tl.Data.WriteByte(tok)
			}
			if acc, ok := pkg.(tds.LastPkgAcceptor); ok {
				if err := acc.LastPkg(s.last); err != nil {
					s.res.Outcome = "lastpkg-error"
					return
				}
			}
			if err := pkg.ReadFrom(q); err != nil {
				if errors.Is(err, tds.ErrNotEnoughBytes) {
					s.res.Outcome = "not-enough-bytes"
				} else {
					s.res.Outcome = "error"
				}
				return
			}
			s.res.Packages++
			// handleSpecialPackage: environment changes and informational EEDs are
			// not passed on and do not become the last package
			pass := true
			switch p := pkg.(type) {
			case *tds.EnvChangePackage:
				pass = false
			case *tds.EEDPackage:
				pass = p.Status&tds.TDS_EED_INFO != tds.TDS_EED_INFO
			}
			if pass {
				s.last = pkg
			}
			if ip, id := q.Position(); ip == 0 {
				good = id
			} else {
				good = len(all)
			}
			q.DiscardUntilCurrentPosition()
		}
	})
	if q.maxN > s.res.MaxN {
		s.res.MaxN = q.maxN
	}
	s.res.Consumed = c == nil && good == len(all)
	if c != nil {
		s.res.Panic = c
		s.rest = nil
		return c
	}
	if q.IsEOM() {
		// everything was read (or a read ran into the end) and the message is
		// complete: WritePacket resets the queue
		s.rest, s.eom = nil, false
	} else {
		// roll back behind the last complete package
		s.rest = all[good:]
	}
	return nil
}

// parseStream parses a token stream held by one packet with the EOM bit.
func parseStream(stream []byte, guard bool) parseResult {
	s := &sim{guard: guard}
	s.packet(stream, true)
	return s.res
}

// ---- is PacketQueue.Bytes safe to call with huge lengths?

var (
	probeOnce   sync.Once
	probeUnsafe bool
	probeDelta  uint64
)

// treeUnsafe reports whether PacketQueue.Bytes allocates the requested length before
// it knows that the bytes exist (probed once per process with a LANGUAGE package that
// announces 2^27 bytes and carries two).
func treeUnsafe() bool {
	probeOnce.Do(func() {
		stream := probeStream()
		probeDelta = measure(func() { parseStream(stream, false) })
		probeUnsafe = probeDelta > allocBound(len(stream))
		if probeUnsafe {
			vh.Note("PacketQueue.Bytes allocates before checking availability (probe: %d bytes allocated for a %d byte LANGUAGE package): requests above 2^27 are excluded, not executed", probeDelta, len(stream))
		}
	})
	return probeUnsafe
}

func probeStream() []byte {
	w := rc.W{}
	w.U8(rc.TokLanguage)
	w.U32(guardLimit)
	w.U8(0)
	w.U8('x')
	return w.B
}

// checkStream is the package-level oracle for one token stream: no panic, and when a
// length of 2^16 or more was requested (or announced by the generator) the allocation
// stays within the bound. It returns the parse result of the first pass.
func checkStream(stream []byte, big bool) (parseResult, *vh.Failure) {
	guard := treeUnsafe()
	before := allocCounter()
	res := parseStream(stream, guard)
	suspicious := allocCounter()-before > allocBound(len(stream))
	if f := panicFailure(res.Panic, "parsing", stream); f != nil || res.Panic != nil {
		return res, f
	}
	if suspicious {
		// every stream is watched with the cheap counter (an allocation by an announced length
		// need not go through the queue's Bytes); what it flags is measured properly below
		vh.Label("pkg:alloc-flagged-by-counter")
	}
	if big || suspicious || res.MaxN >= 1<<16 {
		var again parseResult
		delta := measure(func() { again = parseStream(stream, guard) })
		vh.Label("pkg:alloc-measured")
		if again.Panic != nil {
			return res, vh.Failf("C10/nondeterministic-parse", "second pass over the same stream panicked: %v", again.Panic)
		}
		if delta > allocBound(len(stream)) {
			site := allocSite(func() { parseStream(stream, guard) })
			return res, vh.Failf("C10/alloc-disproportionate-"+site, "parsing %d bytes (%s) allocated %d bytes (bound 64 x input + 4 MiB = %d); largest length requested from the queue: %d; allocating function: %s",
				len(stream), hexHead(stream, 24), delta, allocBound(len(stream)), again.MaxN, site)
		}
	}
	return res, nil
}

// panicFailure turns a recovered panic into a failure; a guard trip is counted as
// excluded under the class of the probe finding and is no failure.
func panicFailure(c *caught, doing string, input []byte) *vh.Failure {
	if c == nil {
		return nil
	}
	if c.Guard != nil {
		vh.Excluded(classAllocBytes)
		vh.Label("excluded:request-above-2^27")
		return nil
	}
	return vh.Failf(c.class(), "%s %s: %v", doing, hexHead(input, 40), c)
}

func tokName(t byte) string { return fmt.Sprintf("%#02x", t) }
