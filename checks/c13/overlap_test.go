package c13

import (
	"context"
	"errors"
	"fmt"
	"runtime"
	"sync"
	"testing"
	"time"

	"pgregory.net/rapid"
	"verif/internal/vh"

	"github.com/SAP/go-dblib/tds"
)

// Two Close calls that overlap: the user closes a channel while the connection is being closed
// (or closes it from two places at once). While the first call waits for the peer's answer to
// the logout the second one gets past the "already closed" test as well. Neither may panic or
// block, and afterwards the channel is closed like after a single Close.

type overlapCase struct {
	Logical    bool   `json:"logical_channel"`
	Peer       string `json:"peer"` // now | late
	SecondConn bool   `json:"second_call_is_conn_close"`
	GapUs      int    `json:"second_call_starts_after_us"`
	Closers    int    `json:"closers"`
	Procs      int    `json:"gomaxprocs"`
}

func runOverlap(c overlapCase) *vh.Failure {
	old := runtime.GOMAXPROCS(c.Procs)
	defer runtime.GOMAXPROCS(old)
	e := newEnv(10, c.Peer)
	defer e.shutdown()
	ch, f := openChannel(e, c.Logical)
	if f != nil {
		return f
	}
	type res struct {
		ok  bool
		pan interface{}
		err error
		// early: what calls on the channel said right after this Close returned, if not "closed"
		early string
	}
	results := make([]res, c.Closers)
	var wg sync.WaitGroup
	for i := 0; i < c.Closers; i++ {
		wg.Add(1)
		go func(i int) {
			defer wg.Done()
			if i > 0 {
				time.Sleep(time.Duration(c.GapUs) * time.Microsecond)
			}
			var err error
			var ok bool
			var pan interface{}
			if i == 1 && c.SecondConn {
				ok, pan, _ = timed(8*time.Second, func() { err = e.conn.Close() })
			} else {
				ok, pan, _ = timed(8*time.Second, func() { err = ch.Close() })
			}
			results[i] = res{ok: ok, pan: pan, err: err}
			// whichever call returns first: from that moment the channel is closed
			if ok && pan == nil {
				_, nerr := ch.NextPackage(context.Background(), false)
				qerr := ch.QueuePackage(context.Background(), &tds.LanguagePackage{Cmd: "x"})
				if !errors.Is(nerr, tds.ErrChannelClosed) || !errors.Is(qerr, tds.ErrChannelClosed) {
					results[i].early = fmt.Sprintf("right after it returned (%v), NextPackage(wait=false) reports %v and QueuePackage reports %v", err, nerr, qerr)
				}
			}
		}(i)
	}
	wg.Wait()
	for i, r := range results {
		who := "Channel.Close"
		if i == 1 && c.SecondConn {
			who = "Conn.Close"
		}
		if r.pan != nil {
			return vh.Failf("C13/overlapping-close-panics", "%+v: call %d (%s) panicked: %v", c, i+1, who, r.pan)
		}
		if !r.ok {
			return vh.Failf("C13/overlapping-close-blocks", "%+v: call %d (%s) did not return within 8 s", c, i+1, who)
		}
		if r.early != "" {
			return vh.Failf("C13/close-returns-before-channel-is-closed", "%+v: call %d (%s): %s", c, i+1, who, r.early)
		}
	}
	if f := afterClose(c13Case{Kind: fmt.Sprintf("overlapping closes %+v", c)}, e, ch, ch.VerifID()); f != nil {
		return f
	}
	if c.SecondConn {
		if !e.pipe.Closed() {
			return vh.Failf("C13/transport-not-closed", "%+v: the transport is not closed after Conn.Close", c)
		}
		select {
		case <-e.done:
		case <-time.After(2 * time.Second):
			return vh.Failf("C13/reader-not-ended", "%+v: the reader goroutine has not ended 2 s after Conn.Close", c)
		}
	}
	vh.Label("overlap:closes-overlap")
	if c.SecondConn {
		vh.Label("overlap:channel-close-during-conn-close")
	}
	vh.NonTrivial(fmt.Sprintf("%+v", c))
	return nil
}

var _ = tds.ErrChannelClosed

func TestOverlappingCloses(t *testing.T) {
	gen := func(rt *rapid.T) overlapCase {
		c := overlapCase{Logical: rapid.IntRange(0, 2).Draw(rt, "logical") == 0, Peer: rapid.SampledFrom([]string{"late", "late", "now"}).Draw(rt, "peer"),
			SecondConn: rapid.Bool().Draw(rt, "secondconn"), GapUs: rapid.SampledFrom([]int{0, 50, 200, 1000, 5000}).Draw(rt, "gap"),
			Closers: rapid.IntRange(2, 3).Draw(rt, "closers"), Procs: rapid.SampledFrom([]int{1, 2, 4, 16}).Draw(rt, "procs")}
		vh.Sample("overlapping-closes", c)
		return c
	}
	vh.Check(t, "TestOverlappingCloses", vh.N(60, 1500), gen, runOverlap)
}
