package c03

import (
	"context"
	"errors"
	"fmt"
	"io"
	"testing"
	"time"

	"github.com/SAP/go-dblib/tds"
	"pgregory.net/rapid"
	"verif/internal/peer"
	rc "verif/internal/refcodec"
	"verif/internal/respgen"
	"verif/internal/vh"
)

// The package queue of the channel (Info.ChannelPackageQueueSize) is a configuration like any
// other: 0 (unbuffered), 1, 2, exactly as many slots as the response delivers packages, one less,
// one more. The packets arrive from a goroutine of their own (what the reader is), the consumer
// starts late (the queue is full, the arrival is parked) or at once. Whatever the size: the
// consumer gets the delivery model, exactly one final DONE at its end, the arrival is never
// stuck once the consumer has everything, and the next response on the channel is delimited too.
type sqCase struct {
	Rounds [][]rc.P `json:"rounds"`
	Cuts   [][]int  `json:"cuts"`
	Queue  int      `json:"package_queue_size"`
	Lag    bool     `json:"consumer_starts_after_the_arrival_is_parked"`
	Until  bool     `json:"consumed_by_NextPackageUntil_nil"`
}

func runSmallQueue(c sqCase) (f *vh.Failure) {
	defer func() {
		if r := recover(); r != nil {
			vh.CheckHarnessPanic(r)
			f = vh.Failf("C03/panic", "panic: %v", r)
		}
	}()
	bg, cancel := context.WithCancel(context.Background())
	defer cancel()
	conn, _, err := tds.VerifNewConn(bg, peer.NewPipe(), &tds.Info{ChannelPackageQueueSize: c.Queue}, false)
	if err != nil {
		vh.HarnessBug("VerifNewConn: %v", err)
	}
	ch, err := conn.NewChannel()
	if err != nil {
		vh.HarnessBug("NewChannel: %v", err)
	}
	for ri, ps := range c.Rounds {
		model, synthetic := respgen.Deliver(ps)
		where := fmt.Sprintf("package queue of %d slots, response %d/%d [%s] cuts %v (delivers %d packages, final DONE supplied by the library: %v), consumer late=%v until=%v", c.Queue, ri+1, len(c.Rounds), respgen.Describe(ps), c.Cuts[ri], len(model), synthetic, c.Lag, c.Until)
		stream, _, _, err := rc.EncodeStream(ps)
		if err != nil {
			vh.HarnessBug("encode: %v", err)
		}
		packets := rc.Packetise(stream, c.Cuts[ri], rc.BufResponse, 0)
		fed := make(chan struct{})
		go func() {
			defer close(fed)
			for _, p := range packets {
				ch.WritePacket(&tds.Packet{Header: tds.PacketHeader{MsgType: tds.PacketHeaderType(p.Type), Status: tds.PacketHeaderStatus(p.Status), Length: uint16(8 + len(p.Body))}, Data: p.Body})
			}
		}()
		if c.Lag {
			// the arrival either finishes (everything fitted) or parks on the full queue
			select {
			case <-fed:
			case <-time.After(3 * time.Millisecond):
			}
		}
		verdict := func(patience time.Duration) *vh.Failure {
			wctx, wcancel := context.WithTimeout(bg, patience)
			defer wcancel()
			n := 0
			if c.Until && ri%2 == 1 {
				// the whole response consumed by one call
				if _, err := ch.NextPackageUntil(wctx, true, nil); err != nil && err != io.EOF {
					cls := "C03/receive-error"
					if errors.Is(err, context.DeadlineExceeded) {
						cls = "C03/no-final-done-within-bound" // a wall-clock verdict: vh repeats the case before reporting it
					}
					return vh.Failf(cls, "%s: NextPackageUntil(nil) returns %v", where, err)
				}
			} else {
				for {
					p, err := ch.NextPackage(wctx, true)
					if err != nil {
						cls := "C03/receive-error"
						if errors.Is(err, context.DeadlineExceeded) {
							cls = "C03/no-final-done-within-bound"
						}
						return vh.Failf(cls, "%s: after %d packages NextPackage returns %v before a final DONE was seen", where, n, err)
					}
					n++
					if isFinal(p) {
						break
					}
					if n > len(model) {
						return vh.Failf("C03/missing-final-done", "%s: %d packages and still no final DONE (last %T)", where, n, p)
					}
				}
				if n != len(model) {
					return vh.Failf("C03/final-done-misplaced", "%s: final DONE is package %d, the response delivers %d", where, n, len(model))
				}
			}
			select {
			case <-fed:
			case <-wctx.Done():
				return vh.Failf("C03/arrival-stuck", "%s: the consumer has the whole response, the arrival of its packets is still parked", where)
			}
			if p, err := ch.NextPackage(bg, false); !errors.Is(err, tds.ErrNoPackageReady) {
				return vh.Failf("C03/leftover-after-response", "%s: after the final DONE another package is queued: %T %v", where, p, err)
			}
			return nil
		}
		if f := verdict(3 * time.Second); f != nil {
			return f
		}
	}
	vh.Label(fmt.Sprintf("queue:%d", min(c.Queue, 9)))
	last := c.Rounds[len(c.Rounds)-1]
	if m, syn := respgen.Deliver(last); syn && (c.Queue <= len(m)) {
		vh.Label("synthetic-final-done-meets-a-queue-without-room")
	}
	vh.NonTrivial(fmt.Sprintf("%+v", c))
	return nil
}

func TestSmallPackageQueue(t *testing.T) {
	gen := func(rt *rapid.T) sqCase {
		var c sqCase
		n := rapid.IntRange(1, 3).Draw(rt, "rounds")
		maxDeliver := 0
		for i := 0; i < n; i++ {
			o := respgen.Opts{MaxStatements: 3, MaxEED: 2, MaxEnv: 2}
			switch rapid.IntRange(0, 3).Draw(rt, "shape") {
			case 0:
				o.NoDeliverables = true
			case 1:
				o.Final = 1
			}
			ps := respgen.Gen(rt, o)
			stream, _, _, _ := rc.EncodeStream(ps)
			var cuts []int
			if rapid.Bool().Draw(rt, "fragment") {
				cuts = respgen.Cuts(rt, len(stream), false)
			}
			c.Rounds, c.Cuts = append(c.Rounds, ps), append(c.Cuts, cuts)
			if m, _ := respgen.Deliver(ps); len(m) > maxDeliver {
				maxDeliver = len(m)
			}
		}
		c.Queue = rapid.SampledFrom([]int{0, 1, 2, 3, maxDeliver - 1, maxDeliver - 1, maxDeliver, maxDeliver + 1}).Draw(rt, "queue")
		if c.Queue < 0 {
			c.Queue = 0
		}
		c.Lag = rapid.IntRange(0, 3).Draw(rt, "lag") != 0
		c.Until = rapid.Bool().Draw(rt, "until")
		return c
	}
	vh.Check(t, "TestSmallPackageQueue", vh.N(400, 20000), gen, runSmallQueue)
}

// the exact fit, enumerated: responses of k DONE packages whose last one is not final (the library
// supplies the final DONE), queue of k-1, k, k+1 slots, consumer late and early
func TestQueueExactlyFull(t *testing.T) {
	e := vh.NewEnum(t, "TestQueueExactlyFull", runSmallQueue)
	if e.Skip() {
		return
	}
	for _, k := range []int{1, 2, 3, 5, 17, 100} {
		for _, last := range []uint16{rc.DoneCount, rc.DoneMore, rc.DoneFinal} {
			for dq := -1; dq <= 1; dq++ {
				for _, lag := range []bool{true, false} {
					var ps []rc.P
					for i := 0; i < k-1; i++ {
						ps = append(ps, rc.P{Done: &rc.Done{Tok: rc.TokDone, Status: rc.DoneMore}})
					}
					ps = append(ps, rc.P{Done: &rc.Done{Tok: rc.TokDone, Status: last}})
					q := k + dq
					if q < 0 {
						continue
					}
					if !e.Do(sqCase{Rounds: [][]rc.P{ps, ps}, Cuts: [][]int{nil, {9}}, Queue: q, Lag: lag}) {
						return
					}
				}
			}
		}
	}
	e.Done("responses of k in {1,2,3,5,17,100} DONE packages x last status {count, more, final} x queue of k-1..k+1 slots x consumer late/early, two responses in a row")
}
