// C16 — decimal text conversion preserves the numeric value.
//
// Sub-properties (one runCase function each, several tests per function so that one
// root cause does not hide another):
//
//	runFormat     String() is the exact canonical expansion of u/10^scale and
//	              SetString(String()) gives an equal decimal
//	runParse      SetString(text) against an independent numeral parser: must accept
//	              exactly / may accept exactly / must reject and leave the decimal alone
//	runConstruct  NewDecimal / NewDecimalString reject invalid (precision, scale)
//
// The oracle is written on math/big only and never looks at error texts.
package c16

import (
	"fmt"
	"math"
	"math/big"
	"regexp"
	"strconv"
	"strings"
	"testing"
	"unicode"

	"github.com/SAP/go-dblib/asetypes"
	"pgregory.net/rapid"
	"verif/internal/vh"
)

func TestMain(m *testing.M) {
	vh.Rule("exhaustive: all 779 (precision 1..38, scale 0..precision) pairs x both signs x boundary magnitudes 0, 1, 10^k, 10^k-1, 10^k+1, 2^k and 2^k+-1 for k in 7,8,15,16,31,32,53,63,64,127 (thorough adds d*10^k, repdigits, 10^k-10^j) through String+round trip; the same pairs x magnitudes x text variants (canonical, no point, leading zeros, fraction zero-padded to the scale, '+', leading point, trailing point - numerals for math/big.Rat, the reference the property names - and the tolerated shape surrounding spaces) through SetString; per pair the fraction-beyond-scale, too-many-digits boundary texts; every string of length <=5 over \"019.-+ e\" (thorough <=6 over 9 symbols) at 6 pairs; every (precision, scale) in -5..45 plus int extremes through NewDecimal/NewDecimalString. rapid: random (precision, scale), random digit strings of length 0..precision (styles: uniform digits, all nines, power of ten, zero tail/head), random text variants, unrepresentable numerals (non-zero digits beyond the scale, more significant digits than the precision), malformed text (several points, inner signs, empty, letters, exponent, hex, separators, non-ASCII digits, control bytes). Non-trivial: the expected unscaled integer has |u| >= 10, or scale > 0 and the fraction is non-zero; for input that must be rejected: a well-formed numeral with >= 2 significant digits or a non-zero fraction digit, or malformed text with >= 2 non-space characters. Distinct by (precision, scale, unscaled) resp. (precision, scale, text)")
	vh.Assume("math/big Int/Rat arithmetic and Rat.SetString; regexp; Decimal.SetBytes+Negate load an unscaled integer and Decimal.Int/IsNegative read it back (cross-checked against each other in every case); the oracle's numeral grammar: must-accept = -?D+(.D+)? with <= scale fraction digits and |value*10^scale| < 10^precision; '+', surrounding white space, '.5', '5.' and zero digits beyond the scale are only tolerated (if accepted the value must be exact, an error is fine too); precision 0 is not judged (property speaks of 1..38, NewDecimal documents < 0 as too low)")
	vh.Rule("also: batches of 2..8 format/parse cases run in goroutines at the same time (separate race-detector run)")
	vh.Rule("also: construction with precision / scale 256+k, 65536+k, 2^32+k (k a valid value) and negatives thereof")
	vh.Main(m, "C16")
}

// ---------------------------------------------------------------------------------
// reference arithmetic (independent of the code under test)

const maxP = 38

var pow10 = func() []*big.Int {
	r := make([]*big.Int, 100)
	r[0] = big.NewInt(1)
	for i := 1; i < len(r); i++ {
		r[i] = new(big.Int).Mul(r[i-1], big.NewInt(10))
	}
	return r
}()

func mustInt(s string) *big.Int {
	if s == "" || s == "-" {
		return new(big.Int)
	}
	v, ok := new(big.Int).SetString(s, 10)
	if !ok {
		panic("harness: bad integer text " + strconv.Quote(s))
	}
	return v
}

// refFormat writes u/10^s in the shape the property states.
func refFormat(u *big.Int, s int) string {
	abs := new(big.Int).Abs(u)
	ip, fp := new(big.Int).QuoRem(abs, pow10[s], new(big.Int))
	fr := ""
	if s > 0 {
		fr = fp.String()
		fr = strings.Repeat("0", s-len(fr)) + fr
	}
	fr = strings.TrimRight(fr, "0")
	if fr == "" {
		fr = "0"
	}
	sign := ""
	if u.Sign() < 0 {
		sign = "-"
	}
	return sign + ip.String() + "." + fr
}

// shape of the output text demanded by the property statement.
var shapeRe = regexp.MustCompile(`^-?(0|[1-9][0-9]*)\.(0|[0-9]*[1-9])$`)

// nonTrivialValue is the property's non-trivial rule for an unscaled integer.
func nonTrivialValue(u *big.Int, s int) bool {
	if new(big.Int).Abs(u).Cmp(pow10[1]) >= 0 {
		return true
	}
	if s > 0 && new(big.Int).Rem(u, pow10[s]).Sign() != 0 {
		return true
	}
	return false
}

// ---------------------------------------------------------------------------------
// access to the code under test

func mkDecimal(p, s int, u *big.Int) (*asetypes.Decimal, *vh.Failure) {
	dec, err := asetypes.NewDecimal(p, s)
	if err != nil || dec == nil {
		return nil, vh.Failf("C16/valid-construction-rejected", "NewDecimal(%d, %d) = %v, want a decimal", p, s, err)
	}
	dec.SetBytes(new(big.Int).Abs(u).Bytes())
	if u.Sign() < 0 {
		dec.Negate()
	}
	if got := dec.Int(); got.Cmp(u) != 0 || dec.IsNegative() != (u.Sign() < 0) {
		return nil, vh.Failf("C16/load-unscaled", "decimal(%d,%d) loaded with %s via SetBytes/Negate reads back Int()=%s IsNegative=%v", p, s, u, got, dec.IsNegative())
	}
	return dec, nil
}

func safeString(d *asetypes.Decimal) (s string, pan any) {
	defer func() {
		if r := recover(); r != nil {
			pan = r
		}
	}()
	return d.String(), nil
}

func safeSetString(d *asetypes.Decimal, text string) (err error, pan any) {
	defer func() {
		if r := recover(); r != nil {
			pan = r
		}
	}()
	return d.SetString(text), nil
}

func safeNewDecimalString(p, s int, text string) (d *asetypes.Decimal, err error, pan any) {
	defer func() {
		if r := recover(); r != nil {
			pan = r
		}
	}()
	d, err = asetypes.NewDecimalString(p, s, text)
	return d, err, nil
}

func safeNewDecimal(p, s int) (d *asetypes.Decimal, err error, pan any) {
	defer func() {
		if r := recover(); r != nil {
			pan = r
		}
	}()
	d, err = asetypes.NewDecimal(p, s)
	return d, err, nil
}

var sampled = map[string]bool{}

func sampleOnce(kind string, c any) {
	if !sampled[kind] {
		sampled[kind] = true
		vh.Sample(kind, c)
	}
}

// ---------------------------------------------------------------------------------
// sub-property 1: String is the exact expansion, SetString(String()) is the identity

type fmtCase struct {
	P int    `json:"precision"`
	S int    `json:"scale"`
	U string `json:"unscaled"` // decimal integer, optional '-', at most P digits
}

func runFormat(c fmtCase) *vh.Failure {
	u := mustInt(c.U)
	dec, f := mkDecimal(c.P, c.S, u)
	if f != nil {
		return f
	}
	text, pan := safeString(dec)
	if pan != nil {
		return vh.Failf("C16/string-panic", "decimal(%d,%d) unscaled %s: String() panics: %v", c.P, c.S, u, pan)
	}
	want := refFormat(u, c.S)
	if !shapeRe.MatchString(text) {
		return vh.Failf("C16/string-shape", "decimal(%d,%d) unscaled %s: String() = %q is not of the form -?int.frac without leading/trailing zeros (exact expansion is %q)", c.P, c.S, u, text, want)
	}
	val, ok := new(big.Rat).SetString(text)
	exact := new(big.Rat).SetFrac(u, pow10[c.S])
	if !ok || val.Cmp(exact) != 0 || strings.HasPrefix(text, "-") != (u.Sign() < 0) {
		return vh.Failf("C16/string-wrong-value", "decimal(%d,%d) unscaled %s: String() = %q, the value is %s/10^%d = %q", c.P, c.S, u, text, u, c.S, want)
	}
	if text != want {
		// cannot happen when shape and value are right: the shape is canonical
		return vh.Failf("C16/string-noncanonical", "decimal(%d,%d) unscaled %s: String() = %q, want %q", c.P, c.S, u, text, want)
	}
	if got := dec.Int(); got.Cmp(u) != 0 {
		return vh.Failf("C16/string-mutates", "decimal(%d,%d) unscaled %s: after String() the value is %s", c.P, c.S, u, got)
	}
	// parse the text back, into a decimal that holds something else
	back, f := mkDecimal(c.P, c.S, big.NewInt(7))
	if f != nil {
		return f
	}
	err, pan := safeSetString(back, text)
	if pan != nil {
		return vh.Failf("C16/setstring-panic", "decimal(%d,%d): SetString(%q) panics: %v", c.P, c.S, text, pan)
	}
	if err != nil {
		return vh.Failf("C16/roundtrip-rejected", "decimal(%d,%d) unscaled %s: SetString(String()=%q) = %v", c.P, c.S, u, text, err)
	}
	if !back.Cmp(*dec) || !dec.Cmp(*back) || back.Int().Cmp(u) != 0 || back.Precision != c.P || back.Scale != c.S {
		class := "C16/roundtrip-changed"
		if _, fr, _ := strings.Cut(text, "."); len(fr) > c.S {
			// String() always writes a fraction digit; at scale 0 that is one digit
			// more than the scale and SetString mis-scales it
			class = "C16/fraction-longer-than-scale-accepted"
		}
		return vh.Failf(class, "decimal(%d,%d) unscaled %s: SetString(String()=%q) gives unscaled %s (precision %d, scale %d), Cmp=%v", c.P, c.S, u, text, back.Int(), back.Precision, back.Scale, back.Cmp(*dec))
	}
	d2, err, pan := safeNewDecimalString(c.P, c.S, text)
	if pan != nil {
		return vh.Failf("C16/setstring-panic", "NewDecimalString(%d, %d, %q) panics: %v", c.P, c.S, text, pan)
	}
	if err != nil || d2 == nil || !d2.Cmp(*dec) {
		return vh.Failf("C16/roundtrip-changed", "decimal(%d,%d) unscaled %s: NewDecimalString(String()=%q) = %v, %v", c.P, c.S, u, text, d2, err)
	}

	// what was generated
	abs := new(big.Int).Abs(u)
	switch {
	case u.Sign() == 0:
		vh.Label("fmt:zero")
	case abs.Cmp(pow10[c.S]) < 0:
		vh.Label("fmt:|value|<1")
	case new(big.Int).Rem(abs, pow10[c.S]).Sign() == 0:
		vh.Label("fmt:integral")
	default:
		vh.Label("fmt:integer+fraction")
	}
	if u.Sign() < 0 {
		vh.Label("fmt:negative")
	}
	switch {
	case c.S == 0:
		vh.Label("fmt:scale=0")
	case c.S == c.P:
		vh.Label("fmt:scale=precision")
	}
	if len(abs.String()) == c.P && u.Sign() != 0 {
		vh.Label("fmt:all-precision-digits-used")
	}
	if nonTrivialValue(u, c.S) {
		vh.NonTrivial(fmt.Sprintf("fmt:%d:%d:%s", c.P, c.S, u))
	}
	return nil
}

// boundaryMags lists the magnitudes (< 10^p) enumerated for precision p.
func boundaryMags(p int, more bool) []*big.Int {
	seen := map[string]bool{}
	var out []*big.Int
	add := func(v *big.Int) {
		if v.Sign() < 0 || v.Cmp(pow10[p]) >= 0 {
			return
		}
		k := v.String()
		if !seen[k] {
			seen[k] = true
			out = append(out, v)
		}
	}
	add(big.NewInt(0))
	add(big.NewInt(1))
	for k := 0; k <= p; k++ {
		add(pow10[k])
		add(new(big.Int).Sub(pow10[k], big.NewInt(1)))
		add(new(big.Int).Add(pow10[k], big.NewInt(1)))
	}
	// machine-word boundaries (a conversion that goes through int32/int64/uint64 on its way)
	for _, k := range []uint{7, 8, 15, 16, 31, 32, 53, 63, 64, 127} {
		w := new(big.Int).Lsh(big.NewInt(1), k)
		add(w)
		add(new(big.Int).Sub(w, big.NewInt(1)))
		add(new(big.Int).Add(w, big.NewInt(1)))
	}
	if more {
		for k := 0; k < p; k++ {
			for d := int64(2); d <= 9; d++ {
				add(new(big.Int).Mul(pow10[k], big.NewInt(d)))
				add(mustInt(strings.Repeat(strconv.FormatInt(d, 10), k+1)))
			}
			for j := 0; j < k; j++ {
				add(new(big.Int).Sub(pow10[k+1], pow10[j])) // 9..90..0
			}
		}
	}
	return out
}

func TestStringBoundaryExhaustive(t *testing.T) {
	e := vh.NewEnum(t, "TestStringBoundaryExhaustive", runFormat)
	if e.Skip() {
		return
	}
	i := 0
	for p := 1; p <= maxP; p++ {
		mags := boundaryMags(p, vh.Thorough())
		for s := 0; s <= p; s++ {
			for _, m := range mags {
				for _, neg := range []bool{false, true} {
					if neg && m.Sign() == 0 {
						continue
					}
					i++
					if !vh.Mine(i) {
						continue
					}
					u := m
					if neg {
						u = new(big.Int).Neg(m)
					}
					c := fmtCase{P: p, S: s, U: u.String()}
					if !e.Do(c) {
						return
					}
					if p >= 5 && s == 2 && len(c.U) >= 4 {
						sampleOnce("string-boundary", c)
					}
				}
			}
		}
	}
	e.Done("String+round trip: all (precision 1..38, scale 0..precision) x sign x boundary magnitudes")
}

// genPS draws a valid (precision, scale) pair.
func genPS(rt *rapid.T) (int, int) {
	p := rapid.IntRange(1, maxP).Draw(rt, "precision")
	s := rapid.IntRange(0, p).Draw(rt, "scale")
	return p, s
}

var digitRunes = []rune("0123456789")

// genDigits draws a digit string of exactly n digits (leading zeros allowed).
func genDigits(rt *rapid.T, n int, what string) string {
	if n <= 0 {
		return ""
	}
	var d string
	switch rapid.IntRange(0, 7).Draw(rt, what+"-style") {
	case 0:
		d = strings.Repeat("9", n)
	case 1:
		d = "1" + strings.Repeat("0", n-1)
	case 2:
		d = strings.Repeat("0", n-1) + "1"
	default:
		d = rapid.StringOfN(rapid.RuneFrom(digitRunes), n, n, -1).Draw(rt, what)
	}
	// zero tail / zero head so that trimming on both sides is exercised
	switch rapid.IntRange(0, 5).Draw(rt, what+"-zeros") {
	case 0:
		z := rapid.IntRange(0, n).Draw(rt, what+"-zerotail")
		d = d[:n-z] + strings.Repeat("0", z)
	case 1:
		z := rapid.IntRange(0, n).Draw(rt, what+"-zerohead")
		d = strings.Repeat("0", z) + d[z:]
	}
	return d
}

// genNonZeroLead is genDigits with a first digit 1..9 (n >= 1).
func genNonZeroLead(rt *rapid.T, n int, what string) string {
	d := genDigits(rt, n, what)
	if d[0] == '0' {
		d = strconv.Itoa(rapid.IntRange(1, 9).Draw(rt, what+"-lead")) + d[1:]
	}
	return d
}

func TestStringRandom(t *testing.T) {
	vh.Check(t, "TestStringRandom", vh.N(120000, 1350000), genFmtCase, runFormat)
}

func genFmtCase(rt *rapid.T) fmtCase {
	{
		p, s := genPS(rt)
		n := rapid.IntRange(0, p).Draw(rt, "ndigits")
		d := genDigits(rt, n, "digits")
		u := mustInt(d)
		if rapid.Bool().Draw(rt, "negative") {
			u.Neg(u)
		}
		c := fmtCase{P: p, S: s, U: u.String()}
		if n > 3 && s > 0 && s < p {
			sampleOnce("string-random", c)
		}
		return c
	}
}

// ---------------------------------------------------------------------------------
// sub-property 2: SetString against an independent numeral parser

type parseCase struct {
	P     int    `json:"precision"`
	S     int    `json:"scale"`
	Text  string `json:"text"`
	Prior string `json:"prior"` // unscaled value the decimal holds before the call
}

// analysis of a text by the oracle's own scanner.
type analysis struct {
	wellFormed bool // [space]* [+-]? D* (. D*)? [space]*  with at least one digit
	strict     bool // -? D+ (. D+)?
	neg        bool
	intD       string
	fracD      string
	points     int
	innerSign  bool
	nonSpace   int
}

func analyse(text string) analysis {
	var a analysis
	r := []rune(text) // invalid UTF-8 turns into U+FFFD, which is not a digit
	i, j := 0, len(r)
	for i < j && unicode.IsSpace(r[i]) {
		i++
	}
	for j > i && unicode.IsSpace(r[j-1]) {
		j--
	}
	trimmed := i > 0 || j < len(r)
	body := r[i:j]
	for _, c := range body {
		if !unicode.IsSpace(c) {
			a.nonSpace++
		}
	}
	plus := false
	if len(body) > 0 && (body[0] == '+' || body[0] == '-') {
		a.neg = body[0] == '-'
		plus = body[0] == '+'
		body = body[1:]
	}
	ok := true
	var ib, fb strings.Builder
	for _, c := range body {
		switch {
		case c == '.':
			a.points++
		case c == '+' || c == '-':
			a.innerSign = true
			ok = false
		case c >= '0' && c <= '9':
			if a.points == 0 {
				ib.WriteRune(c)
			} else {
				fb.WriteRune(c)
			}
		default:
			ok = false
		}
	}
	a.intD, a.fracD = ib.String(), fb.String()
	a.wellFormed = ok && a.points <= 1 && len(a.intD)+len(a.fracD) > 0
	// the reference the property names is math/big.Rat: it reads "+5", ".5" and "5." as numerals
	// (but no surrounding spaces)
	_ = plus
	a.strict = a.wellFormed && !trimmed
	return a
}

const (
	vReject = iota // must return an error and leave the decimal alone
	vMay           // may return an error; if accepted the value must be want
	vMust          // must be accepted with value want
)

// verdict decides what decimal(p,s) has to do with the analysed text.
// why names the reason of a rejection: malformed, fraction, digits.
func (a analysis) verdict(p, s int) (v int, want *big.Int, why string) {
	if !a.wellFormed {
		return vReject, nil, "malformed"
	}
	frac, extra := a.fracD, ""
	if len(frac) > s {
		frac, extra = frac[:s], frac[s:]
	}
	if strings.Trim(extra, "0") != "" {
		return vReject, nil, "fraction" // value*10^scale is not an integer
	}
	want = mustInt(a.intD + frac + strings.Repeat("0", s-len(frac)))
	if want.Cmp(pow10[p]) >= 0 {
		return vReject, nil, "digits" // needs more than precision digits
	}
	if a.neg {
		want.Neg(want)
	}
	if a.strict && extra == "" {
		return vMust, want, ""
	}
	return vMay, want, ""
}

func (a analysis) acceptedClass(why string, s int) string {
	switch {
	case why == "fraction":
		return "C16/fraction-longer-than-scale-accepted"
	case why == "digits":
		return "C16/too-many-digits-accepted"
	case a.points > 1:
		return "C16/multiple-points-accepted"
	case a.innerSign:
		return "C16/inner-sign-accepted"
	}
	return "C16/malformed-accepted"
}

func runParse(c parseCase) *vh.Failure {
	prior := mustInt(c.Prior)
	dec, f := mkDecimal(c.P, c.S, prior)
	if f != nil {
		return f
	}
	err, pan := safeSetString(dec, c.Text)
	if pan != nil {
		return vh.Failf("C16/setstring-panic", "decimal(%d,%d): SetString(%q) panics: %v", c.P, c.S, c.Text, pan)
	}
	if dec.Precision != c.P || dec.Scale != c.S {
		return vh.Failf("C16/precision-scale-changed", "decimal(%d,%d): SetString(%q) changed precision/scale to %d/%d", c.P, c.S, c.Text, dec.Precision, dec.Scale)
	}
	got := dec.Int()
	a := analyse(c.Text)
	v, want, why := a.verdict(c.P, c.S)

	if err != nil {
		if got.Cmp(prior) != 0 {
			return vh.Failf("C16/modified-on-error", "decimal(%d,%d) holding %s: SetString(%q) = error %v but the value is now %s", c.P, c.S, prior, c.Text, err, got)
		}
		if v == vMust {
			return vh.Failf("C16/valid-numeral-rejected", "decimal(%d,%d): SetString(%q) = error %v, want unscaled %s", c.P, c.S, c.Text, err, want)
		}
	} else {
		if v == vReject {
			txt, span := safeString(dec)
			shown := strconv.Quote(txt)
			if span != nil {
				shown = fmt.Sprintf("panic %v", span)
			}
			return vh.Failf(a.acceptedClass(why, c.S), "decimal(%d,%d): SetString(%q) returns no error (reason it is unrepresentable: %s); the decimal now holds unscaled %s and prints %s", c.P, c.S, c.Text, why, got, shown)
		}
		if got.Cmp(want) != 0 {
			class := "C16/parse-wrong-value"
			if len(a.fracD) > c.S {
				class = "C16/fraction-longer-than-scale-accepted"
			}
			return vh.Failf(class, "decimal(%d,%d): SetString(%q) gives unscaled %s, the text denotes unscaled %s (%s)", c.P, c.S, c.Text, got, want, refFormat(want, c.S))
		}
		txt, span := safeString(dec)
		if span != nil {
			return vh.Failf("C16/string-panic", "decimal(%d,%d) after SetString(%q): String() panics: %v", c.P, c.S, c.Text, span)
		}
		if txt != refFormat(want, c.S) {
			return vh.Failf("C16/string-wrong-value", "decimal(%d,%d) after SetString(%q): String() = %q, want %q", c.P, c.S, c.Text, txt, refFormat(want, c.S))
		}
	}
	// the constructor form must behave the same way
	d2, err2, pan := safeNewDecimalString(c.P, c.S, c.Text)
	if pan != nil {
		return vh.Failf("C16/setstring-panic", "NewDecimalString(%d, %d, %q) panics: %v", c.P, c.S, c.Text, pan)
	}
	if (err2 == nil) != (err == nil) || (err2 == nil && (d2 == nil || d2.Int().Cmp(got) != 0 || d2.Precision != c.P || d2.Scale != c.S)) {
		return vh.Failf("C16/newdecimalstring-differs", "NewDecimalString(%d, %d, %q) = %v, %v but SetString gave %s, %v", c.P, c.S, c.Text, d2, err2, got, err)
	}

	switch v {
	case vMust:
		vh.Label("parse:must-accept")
	case vMay:
		if err == nil {
			vh.Label("parse:tolerated-accepted")
		} else {
			vh.Label("parse:tolerated-rejected")
		}
	default:
		vh.Label("parse:must-reject:" + why)
	}
	nt := false
	switch {
	case v != vReject:
		nt = nonTrivialValue(want, c.S)
		if want.Sign() < 0 {
			vh.Label("parse:negative")
		}
	case a.wellFormed:
		sig := strings.TrimLeft(a.intD+a.fracD, "0")
		nt = len(sig) >= 2 || strings.Trim(a.fracD, "0") != ""
	default:
		nt = a.nonSpace >= 2
	}
	if nt {
		vh.NonTrivial(fmt.Sprintf("parse:%d:%d:%s", c.P, c.S, c.Text))
	}
	return nil
}

// selfCheck guards the oracle in enumerations where the intended value is known.
func selfCheck(t *testing.T, c parseCase, wantV int, wantU *big.Int) {
	a := analyse(c.Text)
	v, u, _ := a.verdict(c.P, c.S)
	if v != wantV || (wantV != vReject && u.Cmp(wantU) != 0) {
		t.Fatalf("oracle self-check: %+v judged %d/%v, the enumeration intended %d/%v", c, v, u, wantV, wantU)
	}
}

// variant texts of u/10^s that the property counts as numerals (must) or that are
// merely tolerated (may).
type variant struct {
	name string
	text string
	v    int
}

func variantsOf(u *big.Int, s int) []variant {
	canon := refFormat(u, s)
	neg := strings.HasPrefix(canon, "-")
	body := strings.TrimPrefix(canon, "-")
	ip, fp, _ := strings.Cut(body, ".")
	sign := ""
	if neg {
		sign = "-"
	}
	// at scale 0 the canonical text "12.0" carries a (zero) digit beyond the scale:
	// runFormat demands that it parses back, here it only counts as tolerated
	cv := vMust
	if s == 0 {
		cv = vMay
	}
	out := []variant{{"canonical", canon, cv}}
	out = append(out, variant{"leading-zeros", sign + "00" + body, cv})
	if fp == "0" {
		out = append(out, variant{"no-point", sign + ip, vMust})
		out = append(out, variant{"trailing-point", sign + ip + ".", vMust})
	}
	if s > 0 {
		full := fp + strings.Repeat("0", s-len(fp))
		out = append(out, variant{"fraction-padded-to-scale", sign + ip + "." + full, vMust})
		if ip == "0" {
			out = append(out, variant{"leading-point", sign + "." + full, vMust})
		}
	}
	if !neg {
		out = append(out, variant{"plus", "+" + body, cv})
	}
	out = append(out, variant{"spaces", " " + canon + "\t", vMay})
	return out
}

func TestParseBoundaryExhaustive(t *testing.T) {
	e := vh.NewEnum(t, "TestParseBoundaryExhaustive", runParse)
	if e.Skip() {
		return
	}
	i := 0
	for p := 1; p <= maxP; p++ {
		mags := boundaryMags(p, vh.Thorough())
		for s := 0; s <= p; s++ {
			for _, m := range mags {
				for _, neg := range []bool{false, true} {
					if neg && m.Sign() == 0 {
						continue
					}
					u := m
					if neg {
						u = new(big.Int).Neg(m)
					}
					for _, vr := range variantsOf(u, s) {
						i++
						if !vh.Mine(i) {
							continue
						}
						c := parseCase{P: p, S: s, Text: vr.text, Prior: "7"}
						selfCheck(t, c, vr.v, u)
						vh.Label("variant:" + vr.name)
						if !e.Do(c) {
							return
						}
						if p >= 6 && s == 3 && vr.name == "fraction-padded-to-scale" && len(vr.text) > 5 {
							sampleOnce("parse-boundary", c)
						}
					}
				}
			}
		}
	}
	e.Done("SetString: all (precision, scale) x sign x boundary magnitudes x accepted/tolerated text variants")
}

var priors = []string{"7", "0", "-3"}
var spaceBits = []string{"", "", "", " ", "  ", "\t", "\n", "\r\n", "\u00a0"}

// genValidText draws a numeral that is representable in decimal(p,s), in one of
// the shapes the property lists (must) or tolerates (may).
func genValidText(rt *rapid.T, p, s int) string {
	il := rapid.IntRange(0, p-s).Draw(rt, "intlen")
	fl := rapid.IntRange(0, s).Draw(rt, "fraclen")
	id := genDigits(rt, il, "int")
	fd := genDigits(rt, fl, "frac")
	// leading zeros do not count against the precision
	id = strings.Repeat("0", rapid.IntRange(0, 3).Draw(rt, "leadzeros")) + id
	shape := rapid.IntRange(0, 9).Draw(rt, "shape")
	var body string
	switch {
	case id == "" && fd == "":
		body = "0"
		if shape == 0 {
			body = "0.0"
		}
	case id == "" && shape <= 1:
		body = "." + fd // tolerated: leading point
	case fd == "" && shape <= 1:
		if id == "" {
			id = "0"
		}
		body = id + "." // tolerated: trailing point
	case fd == "":
		if id == "" {
			id = "0"
		}
		body = id
		if shape <= 4 {
			body = id + ".0"
			if s == 0 {
				body = id // ".0" would be a fraction longer than the scale
			}
		}
	default:
		if id == "" {
			id = "0"
		}
		body = id + "." + fd
	}
	sign := ""
	switch rapid.IntRange(0, 8).Draw(rt, "sign") {
	case 0, 1, 2:
		sign = "-"
	case 3:
		sign = "+" // tolerated
	}
	pre := rapid.SampledFrom(spaceBits).Draw(rt, "pre")
	post := rapid.SampledFrom(spaceBits).Draw(rt, "post")
	return pre + sign + body + post
}

func TestParseRandom(t *testing.T) {
	vh.Check(t, "TestParseRandom", vh.N(120000, 1350000), genParseCase, runParse)
}

func genParseCase(rt *rapid.T) parseCase {
	{
		p, s := genPS(rt)
		c := parseCase{P: p, S: s, Text: genValidText(rt, p, s), Prior: rapid.SampledFrom(priors).Draw(rt, "prior")}
		a := analyse(c.Text)
		if v, _, why := a.verdict(p, s); v == vReject {
			panic(fmt.Sprintf("harness: generator of representable numerals made %+v (%s)", c, why))
		}
		if len(c.Text) > 6 && s > 1 {
			sampleOnce("parse-random", c)
		}
		return c
	}
}

// --- fraction longer than the scale

func TestFractionBeyondScaleExhaustive(t *testing.T) {
	e := vh.NewEnum(t, "TestFractionBeyondScaleExhaustive", runParse)
	if e.Skip() {
		return
	}
	type ext struct {
		tail string
		v    int
	}
	exts := []ext{{"0", vMay}, {"00", vMay}, {"1", vReject}, {"01", vReject}, {"10", vReject}, {"9", vReject}, {"0000000000000000000000000000000000000001", vReject}}
	i := 0
	for p := 1; p <= maxP; p++ {
		mags := boundaryMags(p, vh.Thorough())
		for s := 0; s <= p; s++ {
			for _, m := range mags {
				for _, neg := range []bool{false, true} {
					if neg && m.Sign() == 0 {
						continue
					}
					u := m
					if neg {
						u = new(big.Int).Neg(m)
					}
					canon := refFormat(u, s)
					ip, fp, _ := strings.Cut(canon, ".")
					full := ""
					if s > 0 {
						full = fp + strings.Repeat("0", s-len(fp))
					}
					for _, x := range exts {
						i++
						if !vh.Mine(i) {
							continue
						}
						c := parseCase{P: p, S: s, Text: ip + "." + full + x.tail, Prior: "7"}
						selfCheck(t, c, x.v, u)
						if !e.Do(c) {
							return
						}
						if p >= 4 && s == 2 && x.tail == "1" && len(ip) >= 2 {
							sampleOnce("fraction-beyond-scale", c)
						}
					}
				}
			}
		}
	}
	e.Done("SetString: all (precision, scale) x sign x boundary magnitudes x 7 fraction tails beyond the scale")
}

func TestFractionBeyondScaleRandom(t *testing.T) {
	gen := func(rt *rapid.T) parseCase {
		p, s := genPS(rt)
		// integer part within precision-scale digits so that only the fraction
		// length is wrong (too many digits is a class of its own)
		il := rapid.IntRange(0, p-s).Draw(rt, "intlen")
		id := genDigits(rt, il, "int")
		if id == "" {
			id = "0"
		}
		fd := genDigits(rt, s, "frac")
		k := rapid.IntRange(1, 6).Draw(rt, "extra")
		var tail string
		if rapid.IntRange(0, 3).Draw(rt, "zero-tail") == 0 {
			tail = strings.Repeat("0", k) // representable: tolerated, must be exact if accepted
		} else {
			tail = genDigits(rt, k, "tail")
			if strings.Trim(tail, "0") == "" {
				tail = tail[:k-1] + strconv.Itoa(rapid.IntRange(1, 9).Draw(rt, "taildigit"))
			}
		}
		sign := ""
		if rapid.Bool().Draw(rt, "negative") {
			sign = "-"
		}
		c := parseCase{P: p, S: s, Text: sign + id + "." + fd + tail, Prior: rapid.SampledFrom(priors).Draw(rt, "prior")}
		return c
	}
	vh.Check(t, "TestFractionBeyondScaleRandom", vh.N(80000, 900000), gen, runParse)
}

// --- more significant digits than the precision

func TestTooManyDigitsExhaustive(t *testing.T) {
	e := vh.NewEnum(t, "TestTooManyDigitsExhaustive", runParse)
	if e.Skip() {
		return
	}
	i := 0
	for p := 1; p <= maxP; p++ {
		for s := 0; s <= p; s++ {
			il := p - s // integer digits that fit
			var texts []string
			for extra := 1; extra <= 3; extra++ {
				one := "1" + strings.Repeat("0", il+extra-1)
				nines := strings.Repeat("9", il+extra)
				for _, ip := range []string{one, nines} {
					texts = append(texts, ip) // no point
					if s > 0 {
						texts = append(texts, ip+".0")
						texts = append(texts, ip+"."+strings.Repeat("0", s))
						texts = append(texts, ip+"."+strings.Repeat("9", s))
						texts = append(texts, ip+".5")
					}
					texts = append(texts, "000"+ip)
				}
			}
			for _, tx := range texts {
				for _, sign := range []string{"", "-"} {
					i++
					if !vh.Mine(i) {
						continue
					}
					c := parseCase{P: p, S: s, Text: sign + tx, Prior: "7"}
					selfCheck(t, c, vReject, nil)
					if !e.Do(c) {
						return
					}
					if p == 3 && s == 1 && strings.Contains(tx, ".9") {
						sampleOnce("too-many-digits", c)
					}
				}
			}
		}
	}
	e.Done("SetString: all (precision, scale) x sign x numerals with 1..3 integer digits too many")
}

func TestTooManyDigitsRandom(t *testing.T) {
	gen := func(rt *rapid.T) parseCase {
		p, s := genPS(rt)
		extra := rapid.IntRange(1, 5).Draw(rt, "extra")
		id := genNonZeroLead(rt, p-s+extra, "int")
		id = strings.Repeat("0", rapid.IntRange(0, 2).Draw(rt, "leadzeros")) + id
		// at most scale fraction digits: the fraction is fine, only the precision is exceeded
		fl := rapid.IntRange(0, s).Draw(rt, "fraclen")
		body := id
		if fl > 0 {
			body += "." + genDigits(rt, fl, "frac")
		}
		sign := ""
		if rapid.Bool().Draw(rt, "negative") {
			sign = "-"
		}
		return parseCase{P: p, S: s, Text: sign + body, Prior: rapid.SampledFrom(priors).Draw(rt, "prior")}
	}
	vh.Check(t, "TestTooManyDigitsRandom", vh.N(80000, 900000), gen, runParse)
}

// --- malformed text

// genStrictText draws -?D+.D+ representable in decimal(p,s) (scale may be 0: then D+).
func genStrictText(rt *rapid.T, p, s int) string {
	il := rapid.IntRange(0, p-s).Draw(rt, "intlen")
	id := genDigits(rt, il, "int")
	if id == "" {
		id = "0"
	}
	body := id
	if s > 0 {
		fl := rapid.IntRange(1, s).Draw(rt, "fraclen")
		body += "." + genDigits(rt, fl, "frac")
	}
	if rapid.Bool().Draw(rt, "negative") {
		body = "-" + body
	}
	return body
}

func insertAt(s string, pos int, ins string) string { return s[:pos] + ins + s[pos:] }

func TestMultiplePointsRandom(t *testing.T) {
	gen := func(rt *rapid.T) parseCase {
		p, s := genPS(rt)
		tx := genStrictText(rt, p, s)
		if !strings.Contains(tx, ".") {
			tx += "." // scale 0: "12." then one more point below
		}
		n := rapid.IntRange(1, 2).Draw(rt, "points")
		for k := 0; k < n; k++ {
			lo := 0
			if strings.HasPrefix(tx, "-") {
				lo = 1
			}
			tx = insertAt(tx, rapid.IntRange(lo, len(tx)).Draw(rt, "pos"), ".")
		}
		c := parseCase{P: p, S: s, Text: tx, Prior: rapid.SampledFrom(priors).Draw(rt, "prior")}
		if a := analyse(tx); a.points < 2 || a.innerSign {
			panic(fmt.Sprintf("harness: %+v is not a multiple-point text", c))
		}
		if len(tx) > 4 {
			sampleOnce("multiple-points", c)
		}
		return c
	}
	vh.Check(t, "TestMultiplePointsRandom", vh.N(60000, 675000), gen, runParse)
}

func TestInnerSignRandom(t *testing.T) {
	gen := func(rt *rapid.T) parseCase {
		p, s := genPS(rt)
		var tx string
		if rapid.IntRange(0, 3).Draw(rt, "leading-point") == 0 && s > 0 {
			tx = "." + genDigits(rt, rapid.IntRange(1, s).Draw(rt, "fraclen"), "frac")
		} else {
			tx = genStrictText(rt, p, s)
		}
		sg := rapid.SampledFrom([]string{"-", "+"}).Draw(rt, "sign")
		// position >= 1, or position 0 in front of an existing sign ("--1")
		lo := 1
		if strings.HasPrefix(tx, "-") {
			lo = 0
		}
		tx = insertAt(tx, rapid.IntRange(lo, len(tx)).Draw(rt, "pos"), sg)
		c := parseCase{P: p, S: s, Text: tx, Prior: rapid.SampledFrom(priors).Draw(rt, "prior")}
		if a := analyse(tx); !a.innerSign || a.points > 1 {
			panic(fmt.Sprintf("harness: %+v is not an inner-sign text", c))
		}
		if len(tx) > 3 {
			sampleOnce("inner-sign", c)
		}
		return c
	}
	vh.Check(t, "TestInnerSignRandom", vh.N(60000, 675000), gen, runParse)
}

var garbageFixed = []string{
	"", " ", "\t\n", ".", "-", "+", "-.", "+.", ". ", " .", "- 1", "1 2", "1. 5", "1 .5", "1,5", "1,000.5", "1_000", "1'000",
	"1e5", "1E5", "1e-2", "1.5e3", "0x1A", "0X10", "0b101", "0o17", "1p4", "NaN", "nan", "Inf", "-Inf", "inf", "nil", "<nil>", "null",
	"abc", "1a", "a1", "1.a", "a.1", "1.2a", "１２", "١٢٣", "1.２", "½", "1\x002", "\x001", "1\x00", "\xff", "1\xff", "1/2", "1%", "$1", "(1)", "1.5f", "1l",
	"١", "1٫5", "1·5", "−1", "1–2", "٠.٥",
}

var garbageRunes = []rune("abcdefxXeEnNiI_,'/%$()*#:;=<>!?\"\\^~|{}[]０１９٠١٢½−\u0000\u00ad\u200b\ufeff")

func TestGarbageRandom(t *testing.T) {
	gen := func(rt *rapid.T) parseCase {
		p, s := genPS(rt)
		var tx string
		switch rapid.IntRange(0, 3).Draw(rt, "kind") {
		case 0:
			tx = rapid.SampledFrom(garbageFixed).Draw(rt, "fixed")
		case 1:
			// a good numeral with one foreign character put somewhere inside or around
			tx = genStrictText(rt, p, s)
			g := string(rapid.SampledFrom(garbageRunes).Draw(rt, "rune"))
			tx = insertAt(tx, rapid.IntRange(0, len(tx)).Draw(rt, "pos"), g)
		case 2:
			// a good numeral broken by white space inside (between two non-space characters)
			tx = genStrictText(rt, p, s)
			if len(tx) < 2 {
				tx += "0"
			}
			tx = insertAt(tx, rapid.IntRange(1, len(tx)-1).Draw(rt, "pos"), rapid.SampledFrom([]string{" ", "\t", "\n", "\u00a0"}).Draw(rt, "space"))
		default:
			tx = rapid.StringOfN(rapid.RuneFrom(garbageRunes), 1, 6, -1).Draw(rt, "letters")
		}
		c := parseCase{P: p, S: s, Text: tx, Prior: rapid.SampledFrom(priors).Draw(rt, "prior")}
		if a := analyse(tx); a.wellFormed {
			panic(fmt.Sprintf("harness: %+v is a well-formed numeral", c))
		}
		if len(tx) > 2 {
			sampleOnce("garbage", c)
		}
		return c
	}
	vh.Check(t, "TestGarbageRandom", vh.N(60000, 675000), gen, runParse)
}

// every short string over the characters that matter to the parser, judged by the
// generic oracle (must / may / reject).
func TestShortStringsExhaustive(t *testing.T) {
	e := vh.NewEnum(t, "TestShortStringsExhaustive", runParse)
	if e.Skip() {
		return
	}
	alpha, maxLen := "019.-+ e", 5
	if vh.Thorough() {
		alpha, maxLen = "0159.-+ e", 6
	}
	pairs := [][2]int{{1, 0}, {1, 1}, {2, 1}, {3, 0}, {5, 2}, {38, 19}}
	i := 0
	buf := make([]byte, 0, maxLen)
	var rec func(n int) bool
	rec = func(n int) bool {
		for _, ps := range pairs {
			i++
			if !vh.Mine(i) {
				continue
			}
			c := parseCase{P: ps[0], S: ps[1], Text: string(buf), Prior: "7"}
			if !e.Do(c) {
				return false
			}
			if len(c.Text) == 5 && strings.HasPrefix(c.Text, "-1.") && ps[0] == 5 {
				sampleOnce("short-string", c)
			}
		}
		if n == maxLen {
			return true
		}
		for k := 0; k < len(alpha); k++ {
			buf = append(buf, alpha[k])
			ok := rec(n + 1)
			buf = buf[:len(buf)-1]
			if !ok {
				return false
			}
		}
		return true
	}
	if !rec(0) {
		return
	}
	e.Done(fmt.Sprintf("SetString: every string of length 0..%d over %q at 6 (precision, scale) pairs", maxLen, alpha))
}

// ---------------------------------------------------------------------------------
// sub-property 3: invalid (precision, scale) combinations are rejected at construction

type consCase struct {
	P int64 `json:"precision"`
	S int64 `json:"scale"`
}

func runConstruct(c consCase) *vh.Failure {
	p, s := int(c.P), int(c.S)
	valid := p >= 1 && p <= maxP && s >= 0 && s <= p
	if p == 0 && s == 0 {
		// not judged: the property speaks of precision 1..38, the library documents
		// "less than 0" as too low and itself builds NewDecimal(0, 0) for money values
		vh.Label("construct:precision=0-not-judged")
		_, _, pan := safeNewDecimal(p, s)
		if pan != nil {
			return vh.Failf("C16/construct-panic", "NewDecimal(0, 0) panics: %v", pan)
		}
		return nil
	}
	class := "C16/invalid-construction-accepted"
	if p >= 0 && p <= maxP && s < 0 {
		class = "C16/negative-scale-accepted"
	}
	judge := func(how string, d *asetypes.Decimal, err error, pan any) *vh.Failure {
		if pan != nil {
			return vh.Failf("C16/construct-panic", "%s(%d, %d) panics: %v", how, p, s, pan)
		}
		if valid {
			if err != nil || d == nil {
				return vh.Failf("C16/valid-construction-rejected", "%s(%d, %d) = %v, want a decimal", how, p, s, err)
			}
			txt, span := safeString(d)
			if d.Precision != p || d.Scale != s || d.Int().Sign() != 0 || span != nil || txt != "0.0" {
				return vh.Failf("C16/construct-wrong", "%s(%d, %d) gives precision %d scale %d unscaled %s String %q (panic %v), want a zero", how, p, s, d.Precision, d.Scale, d.Int(), txt, span)
			}
			return nil
		}
		if err == nil {
			extra := ""
			if d != nil {
				for _, held := range []int64{0, 12345} {
					d.SetInt64(held)
					txt, span := safeString(d)
					if span != nil {
						extra += fmt.Sprintf("; holding %d its String() panics: %v", held, span)
					} else {
						extra += fmt.Sprintf("; holding %d its String() is %q", held, txt)
					}
				}
			}
			return vh.Failf(class, "%s(%d, %d) returns no error for an invalid precision/scale combination%s", how, p, s, extra)
		}
		return nil
	}
	d, err, pan := safeNewDecimal(p, s)
	if f := judge("NewDecimal", d, err, pan); f != nil {
		return f
	}
	d, err, pan = safeNewDecimalString(p, s, "0")
	if f := judge("NewDecimalString", d, err, pan); f != nil {
		return f
	}
	switch {
	case valid:
		vh.Label("construct:valid")
	case p > maxP:
		vh.Label("construct:precision>38")
	case p < 0:
		vh.Label("construct:precision<0")
	case s < 0:
		vh.Label("construct:scale<0")
	default:
		vh.Label("construct:scale>precision")
	}
	return nil
}

func TestConstructionExhaustive(t *testing.T) {
	e := vh.NewEnum(t, "TestConstructionExhaustive", runConstruct)
	if e.Skip() {
		return
	}
	var vals []int64
	for v := int64(1); v <= 45; v++ {
		vals = append(vals, v)
	}
	for v := int64(0); v >= -5; v-- {
		vals = append(vals, v)
	}
	vals = append(vals, math.MinInt64, math.MinInt32, -1000, 1000, math.MaxInt32, math.MaxInt64)
	// numbers whose low 8 / 16 / 32 bits look like a valid precision or scale
	for _, base := range []int64{1 << 8, 1 << 16, 1 << 32, -(1 << 8), -(1 << 32)} {
		for _, low := range []int64{0, 1, 2, 10, 38, 39} {
			vals = append(vals, base+low)
		}
	}
	vals = append(vals, 127, 128, 255, 65535, 1<<31, 1<<63-39)
	i := 0
	for _, p := range vals {
		for _, s := range vals {
			i++
			if !vh.Mine(i) {
				continue
			}
			c := consCase{P: p, S: s}
			if !e.Do(c) {
				return
			}
			if p == 5 && s > 5 {
				sampleOnce("construction", c)
			}
		}
	}
	e.Done("NewDecimal/NewDecimalString: precision x scale over -5..45, int extremes, and numbers whose low 8/16/32 bits are a valid precision or scale (256+10, 65536+38, ...)")
}

// ---- precision and scale are exported members that the library itself assigns after
// construction (money: NewDecimal(0,0) then precision 20 scale 4; numeric fields take them from
// the column format): the text has to follow them

type rescaleCase struct {
	P1, S1, P2, S2 int
	Unscaled       string
}

func runRescale(c rescaleCase) (f *vh.Failure) {
	defer func() {
		if r := recover(); r != nil {
			f = vh.Failf("C16/string-panic", "decimal(%d,%d)->(%d,%d) unscaled %s: panic: %v", c.P1, c.S1, c.P2, c.S2, c.Unscaled, r)
		}
	}()
	u, _ := new(big.Int).SetString(c.Unscaled, 10)
	d, err := asetypes.NewDecimal(c.P1, c.S1)
	if err != nil {
		return vh.Failf("C16/valid-construction-rejected", "NewDecimal(%d,%d): %v", c.P1, c.S1, err)
	}
	d.SetBytes(new(big.Int).Abs(u).Bytes())
	if u.Sign() < 0 {
		d.Negate()
	}
	first := d.String()
	d.Precision, d.Scale = c.P2, c.S2
	second := d.String()
	fresh, _ := asetypes.NewDecimal(c.P2, c.S2)
	fresh.SetBytes(new(big.Int).Abs(u).Bytes())
	if u.Sign() < 0 {
		fresh.Negate()
	}
	if want := fresh.String(); second != want {
		return vh.Failf("C16/string-ignores-changed-scale", "unscaled %s printed as %q at (%d,%d); after assigning precision %d scale %d String() = %q, a fresh decimal(%d,%d) with the same unscaled value prints %q", c.Unscaled, first, c.P1, c.S1, c.P2, c.S2, second, c.P2, c.S2, want)
	}
	vh.Label("rescaled-after-string")
	vh.NonTrivial(fmt.Sprintf("rescale|%d|%d|%d|%d|%s", c.P1, c.S1, c.P2, c.S2, c.Unscaled))
	return nil
}

func TestStringFollowsPrecisionAndScale(t *testing.T) {
	gen := func(rt *rapid.T) rescaleCase {
		p1 := rapid.IntRange(1, 38).Draw(rt, "p1")
		p2 := rapid.IntRange(1, 38).Draw(rt, "p2")
		n := rapid.IntRange(1, minInt(p1, p2)).Draw(rt, "digits")
		ds := make([]byte, n)
		for i := range ds {
			ds[i] = byte('0' + rapid.IntRange(0, 9).Draw(rt, "d"))
		}
		u := strings.TrimLeft(string(ds), "0")
		if u == "" {
			u = "0"
		}
		if rapid.Bool().Draw(rt, "neg") && u != "0" {
			u = "-" + u
		}
		return rescaleCase{P1: p1, S1: rapid.IntRange(0, p1).Draw(rt, "s1"), P2: p2, S2: rapid.IntRange(0, p2).Draw(rt, "s2"), Unscaled: u}
	}
	vh.Check(t, "TestStringFollowsPrecisionAndScale", vh.N(20000, 400000), gen, runRescale)
}

func minInt(a, b int) int {
	if a < b {
		return a
	}
	return b
}

// ---- the integer part has to fit precision-scale digits, however short the numeral is

type intPartCase struct {
	P, S    int
	Numeral string
}

func runIntPart(c intPartCase) (f *vh.Failure) {
	defer func() {
		if r := recover(); r != nil {
			f = vh.Failf("C16/setstring-panic", "decimal(%d,%d) SetString(%q): panic: %v", c.P, c.S, c.Numeral, r)
		}
	}()
	d, err := asetypes.NewDecimalString(c.P, c.S, c.Numeral)
	if err == nil {
		return vh.Failf("C16/too-many-digits-accepted", "decimal(%d,%d): %q has more than %d integer digits, NewDecimalString accepted it and holds %q", c.P, c.S, c.Numeral, c.P-c.S, d.String())
	}
	vh.Label("integer-part-too-wide")
	vh.NonTrivial(fmt.Sprintf("intpart|%d|%d|%s", c.P, c.S, c.Numeral))
	return nil
}

func TestIntegerPartTooWide(t *testing.T) {
	e := vh.NewEnum(t, "TestIntegerPartTooWide", runIntPart)
	if e.Skip() {
		return
	}
	n := 0
	for p := 1; p <= 38; p++ {
		for s := 1; s <= p; s++ {
			// p-s+1 integer digits: one too many; with 0..s fractional digits
			intPart := "1" + strings.Repeat("0", p-s)
			for frac := 0; frac <= s; frac += maxInt(1, s/3) {
				n++
				if !vh.Mine(n) {
					continue
				}
				num := intPart
				if frac > 0 {
					num += "." + strings.Repeat("5", frac)
				}
				for _, sign := range []string{"", "-"} {
					if !e.Do(intPartCase{P: p, S: s, Numeral: sign + num}) {
						return
					}
				}
			}
		}
	}
	e.Done("every (precision, scale>0) pair with an integer part one digit too wide and 0..scale fractional digits, both signs")
}

func maxInt(a, b int) int {
	if a > b {
		return a
	}
	return b
}

// ---- several goroutines converting at the same time (each with decimals of its own):
// nothing the conversions share (caches, scratch values) may show in a result

type mixedCase struct {
	F *fmtCase   `json:"format,omitempty"`
	P *parseCase `json:"parse,omitempty"`
}

func TestConcurrentConversions(t *testing.T) {
	gen := func(rt *rapid.T) []mixedCase {
		n := rapid.IntRange(2, 8).Draw(rt, "goroutines")
		var cs []mixedCase
		for i := 0; i < n; i++ {
			if rapid.Bool().Draw(rt, "format") {
				c := genFmtCase(rt)
				cs = append(cs, mixedCase{F: &c})
			} else {
				c := genParseCase(rt)
				cs = append(cs, mixedCase{P: &c})
			}
		}
		return cs
	}
	run := func(cs []mixedCase) *vh.Failure {
		f := vh.Together(cs, func(c mixedCase) *vh.Failure {
			for k := 0; k < 20; k++ {
				var f *vh.Failure
				if c.F != nil {
					f = runFormat(*c.F)
				} else {
					f = runParse(*c.P)
				}
				if f != nil {
					return f
				}
			}
			return nil
		})
		if f == nil {
			vh.Label("concurrent-conversions")
		}
		return f
	}
	vh.Check(t, "TestConcurrentConversions", vh.N(1500, 30000), gen, run)
}
