package c13

import (
	"fmt"
	"runtime"
	"testing"
	"time"

	"pgregory.net/rapid"
	rc "verif/internal/refcodec"
	"verif/internal/vh"
)

// The reader can be parked in three places while it works for a channel: on the full package
// queue, in a consumer's wait, and on the channel's full ERROR queue (the server sent more
// responses the library cannot parse than the queue of 10 holds and nobody fetched the errors).
// The first two are in TestClose / TestConnClose; this is the third: Close of that channel
// (or of the connection) returns within its bound whatever else is queued for the channel,
// every call afterwards reports ErrChannelClosed, the reader ends with the connection.
type errQueueCase struct {
	Extra    int    `json:"unparsable_responses_beyond_the_error_queue"`
	Logical  bool   `json:"logical_channel"`
	Leftover int    `json:"packages_of_an_abandoned_response_still_queued"`
	Conn     bool   `json:"closed_through_the_connection"`
	Peer     string `json:"peer"`
	Procs    int    `json:"gomaxprocs"`
}

func runErrQueue(c errQueueCase) (f *vh.Failure) {
	defer func() {
		if r := recover(); r != nil {
			vh.CheckHarnessPanic(r)
			f = vh.Failf("C13/panic", "panic: %v", r)
		}
	}()
	old := runtime.GOMAXPROCS(c.Procs)
	defer runtime.GOMAXPROCS(old)
	e := newEnv(100, c.Peer)
	defer e.shutdown()
	ch, f := openChannel(e, c.Logical)
	if f != nil {
		return f
	}
	id := ch.VerifID()
	where := fmt.Sprintf("%+v", c)
	if c.Leftover > 0 {
		e.sendPackages(id, 0, c.Leftover, true)
	}
	for v := 0; v < 10+c.Extra; v++ {
		// a ROW without a format in front of it: one parse error each
		e.pipe.Feed(rc.Packet{Type: rc.BufResponse, Channel: uint16(id), Status: rc.StatEOM, Body: []byte{rc.TokRow, 1, 2, 3}}.Bytes())
	}
	// wait until the error queue is full (and, mostly, the reader parked with one more)
	for t0 := time.Now(); ch.VerifChanErrLen() < 10 && time.Since(t0) < 2*time.Second; {
		time.Sleep(100 * time.Microsecond)
	}
	if ch.VerifChanErrLen() < 10 {
		return vh.Failf("C13/errors-not-queued", "%s: %d errors queued after 2 s", where, ch.VerifChanErrLen())
	}
	time.Sleep(300 * time.Microsecond)
	bound := 5 * time.Second
	if c.Peer == "never" {
		bound = 70 * time.Second // the logout's own time limit (one minute) is the library's documented bound
	}
	var err error
	if c.Conn {
		ok, pan, took := timed(bound, func() { err = e.conn.Close() })
		if pan != nil {
			return vh.Failf("C13/close-panics", "%s: Conn.Close panicked: %v", where, pan)
		}
		if !ok {
			return vh.Failf("C13/close-blocks-with-full-error-queue", "%s: Conn.Close did not return within %v", where, bound)
		}
		_ = took
		select {
		case <-e.done:
		case <-time.After(3 * time.Second):
			return vh.Failf("C13/reader-not-ended-after-conn-close", "%s: Conn.Close returned (%v), the reader goroutine is still running 3 s later", where, err)
		}
	} else {
		ok, pan, _ := timed(bound, func() { err = ch.Close() })
		if pan != nil {
			return vh.Failf("C13/close-panics", "%s: Channel.Close panicked: %v", where, pan)
		}
		if !ok {
			return vh.Failf("C13/close-blocks-with-full-error-queue", "%s: Channel.Close did not return within %v", where, bound)
		}
	}
	if f := afterClose(c13Case{Kind: "errqueue", Logical: c.Logical}, e, ch, id); f != nil {
		return f
	}
	vh.Label("errqueue:closed-with-a-full-error-queue", fmt.Sprintf("errqueue:logical=%v,conn=%v,leftover=%v", c.Logical, c.Conn, c.Leftover > 0))
	vh.NonTrivial(where)
	return nil
}

func TestCloseWithFullErrorQueue(t *testing.T) {
	gen := func(rt *rapid.T) errQueueCase {
		return errQueueCase{
			Extra:    rapid.IntRange(1, 6).Draw(rt, "extra"),
			Logical:  rapid.Bool().Draw(rt, "logical"),
			Leftover: rapid.SampledFrom([]int{0, 0, 1, 3}).Draw(rt, "leftover"),
			Conn:     rapid.IntRange(0, 2).Draw(rt, "conn") == 0,
			Peer:     rapid.SampledFrom([]string{"prompt", "prompt", "late"}).Draw(rt, "peer"),
			Procs:    rapid.SampledFrom([]int{1, 2, 4, 16}).Draw(rt, "procs"),
		}
	}
	vh.Check(t, "TestCloseWithFullErrorQueue", vh.N(60, 2000), gen, runErrQueue)
}
