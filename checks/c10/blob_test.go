package c10

import (
	"encoding/binary"
	"fmt"
	"testing"

	"pgregory.net/rapid"
	rc "verif/internal/refcodec"
	"verif/internal/vh"
)

// BLOB (0x24) columns: a client never asks for them, a server (or whoever sits on the wire)
// can send them all the same. A row / parameter format with a BLOB column, in the layout the
// library's format reader accepts, followed by rows whose blob part is built from the grammar
// of the blob data reader (serialization byte, class id / locator, data sets with announced
// lengths) with arbitrary or far too large lengths, or by arbitrary bytes. Allocation is
// measured for every case: the data sets announce up to 2^26 bytes and carry a few.

type blobCol struct {
	BlobType byte   `json:"blob_type"`
	ClassID  string `json:"class_id,omitempty"`
	Status   byte   `json:"status"`
}

// blobFormat encodes a narrow ROWFMT / PARAMFMT with the given BLOB columns. The total length
// is what the library's reader computes for it (it counts the length byte of a BLOB format as
// -1, see the finding C06/blob-format-accounting), so that the format parses.
func blobFormat(tok byte, cols []blobCol) []byte {
	var body []byte
	body = binary.LittleEndian.AppendUint16(body, uint16(len(cols)))
	for _, c := range cols {
		body = append(body, 0)                // name length
		body = append(body, c.Status)         // status
		body = append(body, 0, 0, 0, 0, 0x24) // user type, BLOB
		body = append(body, 0xff)             // length
		body = append(body, c.BlobType)
		if c.BlobType == 1 || c.BlobType == 2 {
			body = binary.LittleEndian.AppendUint16(body, uint16(len(c.ClassID)))
			body = append(body, c.ClassID...)
		}
		body = append(body, 0) // locale length
	}
	out := []byte{tok}
	out = binary.LittleEndian.AppendUint16(out, uint16(len(body)-2*len(cols)))
	return append(out, body...)
}

func genBlobRow(rt *rapid.T) pkgCase {
	tok := rapid.SampledFrom([]byte{rc.TokRowFmt, rc.TokParamFmt}).Draw(rt, "fmt")
	n := rapid.IntRange(1, 2).Draw(rt, "cols")
	var cols []blobCol
	for i := 0; i < n; i++ {
		c := blobCol{BlobType: byte(rapid.IntRange(1, 8).Draw(rt, "blobtype"))}
		if c.BlobType <= 2 {
			c.ClassID = rapid.StringMatching(`[a-z.]{0,12}`).Draw(rt, "classid")
		}
		cols = append(cols, c)
	}
	out := blobFormat(tok, cols)
	rowTok := byte(rc.TokRow)
	if tok == rc.TokParamFmt {
		rowTok = rc.TokParams
	}
	rows := rapid.IntRange(1, 2).Draw(rt, "rows")
	mode := rapid.SampledFrom([]string{"grammar", "grammar", "arbitrary"}).Draw(rt, "rowmode")
	for r := 0; r < rows; r++ {
		out = append(out, rowTok)
		if mode == "arbitrary" {
			out = append(out, genBytes(rt, "rowbytes", 40)...)
			continue
		}
		for _, c := range cols {
			out = append(out, byte(rapid.SampledFrom([]int{0, 0, 0, 1, 2, 3, 255}).Draw(rt, "serialization")))
			if c.BlobType <= 2 || c.BlobType >= 6 {
				s := rapid.SliceOfN(rapid.Byte(), 0, 6).Draw(rt, "subclass-or-locator")
				l := len(s)
				if rapid.IntRange(0, 5).Draw(rt, "liar") == 0 {
					l = rapid.IntRange(0, 65535).Draw(rt, "announced")
				}
				out = binary.LittleEndian.AppendUint16(out, uint16(l))
				out = append(out, s...)
			}
			sets := rapid.IntRange(0, 3).Draw(rt, "datasets")
			for i := 0; i < sets; i++ {
				data := rapid.SliceOfN(rapid.Byte(), 0, 8).Draw(rt, "data")
				announced := uint32(len(data))
				switch rapid.IntRange(0, 3).Draw(rt, "lengthclass") {
				case 0: // far more than there is
					announced = uint32(rapid.IntRange(1<<16, 1<<26).Draw(rt, "huge"))
				case 1:
					announced = uint32(rapid.IntRange(0, 300).Draw(rt, "off"))
				}
				out = binary.LittleEndian.AppendUint32(out, announced)
				out = append(out, data...)
			}
			if rapid.IntRange(0, 3).Draw(rt, "end") != 0 {
				out = binary.LittleEndian.AppendUint32(out, 0x80000000|uint32(rapid.IntRange(0, 3).Draw(rt, "endlen")))
			}
		}
	}
	if rapid.Bool().Draw(rt, "done") {
		out = append(out, rc.TokDone, 0, 0, 0, 0, 0, 0, 0, 0)
	}
	c := pkgCase{Stream: out, Big: true, Mut: mutDesc{Mode: "blobrow", Kind: "blob", Tok: rowTok, Span: "value", Repl: fmt.Sprintf("%s/%d", mode, cols[0].BlobType)}}
	if len(out) < 120 {
		vh.Sample("pkg-blobrow", c)
	}
	return c
}

// TestBlobFormatThenRowBytes: formats with BLOB columns followed by blob rows with lying lengths.
func TestBlobFormatThenRowBytes(t *testing.T) {
	checkRounds(t, "TestBlobFormatThenRowBytes", vh.N(4000, 100000), genBlobRow, runPkg)
}
