package c02

import (
	"context"
	"fmt"
	"reflect"
	"testing"
	"time"

	"pgregory.net/rapid"
	"verif/internal/peer"
	"verif/internal/pkggen"
	rc "verif/internal/refcodec"
	"verif/internal/respgen"
	"verif/internal/vh"

	"github.com/SAP/go-dblib/tds"
)

// Several connections of one process receive at the same time: the reads of each transport are
// fragments of its own byte stream and the fragments of the connections are interleaved by a
// generated schedule (a fragment is handed out, then the harness waits until that connection's
// reader has taken it and come back for more before the next one is handed out, so the
// interleaving is the generated one and not left to the scheduler). What each connection
// delivers must be what it delivers for its response alone in one packet and one read.

type connPart struct {
	Pkgs  []rc.P `json:"pkgs"`
	Cuts  []int  `json:"cuts"`
	Reads []int  `json:"reads"`
}

type multiCase struct {
	Conns []connPart `json:"connections"`
	// Order: which connection gets its next fragment, step by step (indices mod the number
	// of connections that still have fragments)
	Order []int `json:"order"`
}

func runMulti(c multiCase) (f *vh.Failure) {
	defer func() {
		if r := recover(); r != nil {
			vh.CheckHarnessPanic(r)
			f = vh.Failf("C02/panic", "panic: %v", r)
		}
	}()
	type live struct {
		pipe  *peer.Pipe
		conn  *tds.Conn
		ch    *tds.Channel
		done  <-chan struct{}
		frags [][]byte
		next  int
		ref   delivered
		model []rc.P
		split bool
	}
	ctx, cancel := context.WithCancel(context.Background())
	var ls []*live
	defer func() {
		cancel()
		for _, l := range ls {
			l.pipe.Close()
		}
		for _, l := range ls {
			select {
			case <-l.done:
			case <-time.After(10 * time.Second):
				if f == nil {
					f = vh.Failf("C02/reader-does-not-end", "reader goroutine still running 10 s after cancel+close")
				}
			}
		}
	}()
	for _, cp := range c.Conns {
		stream, _, _, err := rc.EncodeStream(cp.Pkgs)
		if err != nil {
			vh.HarnessBug("encode: %v", err)
		}
		ref, f := runPackets(rc.Packetise(stream, nil, rc.BufResponse, 0))
		if f != nil {
			return f
		}
		if len(ref.errs) > 0 {
			return vh.Failf("C02/unfragmented-error", "unfragmented response %s yields errors: %v", respgen.Describe(cp.Pkgs), ref.errs)
		}
		l := &live{pipe: peer.NewPipe(), ref: ref}
		l.model, _ = respgen.Deliver(cp.Pkgs)
		conn, done, err := tds.VerifNewConn(ctx, l.pipe, &tds.Info{ChannelPackageQueueSize: 100000, PacketReadTimeout: 5}, true)
		if err != nil {
			vh.HarnessBug("VerifNewConn: %v", err)
		}
		l.conn, l.done = conn, done
		if l.ch, err = conn.NewChannel(); err != nil {
			vh.HarnessBug("NewChannel: %v", err)
		}
		var tcp []byte
		var hdrs []int
		for _, p := range rc.Packetise(stream, cp.Cuts, rc.BufResponse, 0) {
			hdrs = append(hdrs, len(tcp))
			tcp = append(tcp, p.Bytes()...)
		}
		prev := 0
		for _, r := range append(append([]int{}, cp.Reads...), len(tcp)) {
			if r > prev && r <= len(tcp) {
				l.frags = append(l.frags, tcp[prev:r])
				prev = r
			}
			for _, h := range hdrs {
				if r > h && r < h+8 {
					l.split = true
				}
			}
		}
		ls = append(ls, l)
	}
	interleavedInsideHeader := false
	lastConn := -1
	for step := 0; ; step++ {
		var open []int
		for i, l := range ls {
			if l.next < len(l.frags) {
				open = append(open, i)
			}
		}
		if len(open) == 0 {
			break
		}
		pick := open[0]
		if step < len(c.Order) {
			pick = open[c.Order[step]%len(open)]
		}
		l := ls[pick]
		if lastConn >= 0 && lastConn != pick && ls[lastConn].split {
			interleavedInsideHeader = true
		}
		l.pipe.Feed(l.frags[l.next])
		l.next++
		if !l.pipe.WaitDrained(20 * time.Second) {
			return vh.Failf("C02/reader-stuck", "connection %d: reader did not come back for more input within 20 s", pick)
		}
		lastConn = pick
	}
	for i, l := range ls {
		var d delivered
		drain(ctx, l.conn, l.ch, &d)
		if e := l.conn.VerifConnErr(); e != nil {
			d.errs = append(d.errs, "connection: "+e.Error())
		}
		how := fmt.Sprintf("connection %d of %d receiving at the same time, response [%s] cuts %v reads %v, order %v", i+1, len(ls), respgen.Describe(c.Conns[i].Pkgs), c.Conns[i].Cuts, c.Conns[i].Reads, c.Order)
		if len(d.errs) > 0 {
			return vh.Failf("C02/concurrent-connections-error", "%s: errors surfaced: %v", how, d.errs)
		}
		if len(d.pkgs) != len(l.ref.pkgs) {
			return vh.Failf("C02/concurrent-connections-delivery-differs", "%s: delivered [%s], alone and unfragmented it delivers [%s]", how, describe(d.pkgs), describe(l.ref.pkgs))
		}
		fmts := respgen.FormatBefore(l.model)
		for j := range d.pkgs {
			if !reflect.DeepEqual(l.ref.pkgs[j], d.pkgs[j]) && pkggen.LibEqual(l.model[j], fmts[j], d.pkgs[j]) != nil {
				return vh.Failf("C02/concurrent-connections-delivery-differs", "%s: package %d differs: %v vs alone and unfragmented %v", how, j, d.pkgs[j], l.ref.pkgs[j])
			}
		}
	}
	vh.Label(fmt.Sprintf("connections=%d", len(ls)))
	if interleavedInsideHeader {
		vh.Label("other-connection-reads-while-a-header-is-split")
		vh.NonTrivial(fmt.Sprintf("%+v", c))
	}
	return nil
}

func TestConcurrentConnections(t *testing.T) {
	gen := func(rt *rapid.T) multiCase {
		var c multiCase
		n := rapid.IntRange(2, 3).Draw(rt, "connections")
		total := 0
		for i := 0; i < n; i++ {
			ps := respgen.Gen(rt, respgen.Opts{MaxStatements: 2, MaxEED: 1, MaxEnv: 1})
			stream, _, _, err := rc.EncodeStream(ps)
			if err != nil {
				vh.HarnessBug("encode: %v", err)
			}
			cp := connPart{Pkgs: ps, Cuts: respgen.Cuts(rt, len(stream), true)}
			packets := rc.Packetise(stream, cp.Cuts, rc.BufResponse, 0)
			if len(packets) > 40 {
				cp.Cuts = nil
				packets = rc.Packetise(stream, nil, rc.BufResponse, 0)
			}
			// reads that split headers are the interesting ones here
			off := 0
			for _, p := range packets {
				if rapid.IntRange(0, 2).Draw(rt, "splitheader") != 0 {
					cp.Reads = append(cp.Reads, off+rapid.IntRange(1, 7).Draw(rt, "hsplit"))
				}
				if len(p.Body) > 1 && rapid.IntRange(0, 2).Draw(rt, "splitbody") == 0 {
					cp.Reads = append(cp.Reads, off+8+rapid.IntRange(1, len(p.Body)-1).Draw(rt, "bsplit"))
				}
				off += 8 + len(p.Body)
				if rapid.IntRange(0, 1).Draw(rt, "packetend") == 0 && off > 0 {
					cp.Reads = append(cp.Reads, off)
				}
			}
			total += len(cp.Reads) + 1
			c.Conns = append(c.Conns, cp)
		}
		c.Order = rapid.SliceOfN(rapid.IntRange(0, 5), total, total).Draw(rt, "order")
		if total < 12 {
			vh.Sample("concurrent-connections", c)
		}
		return c
	}
	vh.Check(t, "TestConcurrentConnections", vh.N(400, 8000), gen, runMulti)
}

// ---- several channels of ONE connection: the packets of their responses arrive interleaved
// (packet by packet, in a generated order). Each channel delivers what its response delivers
// alone and unfragmented.

type chanPart struct {
	Pkgs []rc.P `json:"pkgs"`
	Cuts []int  `json:"cuts"`
}

type interleaveCase struct {
	Chans []chanPart `json:"channels"` // index 0 is the main channel
	Order []int      `json:"order"`
}

func runInterleaved(c interleaveCase) (f *vh.Failure) {
	defer func() {
		if r := recover(); r != nil {
			vh.CheckHarnessPanic(r)
			f = vh.Failf("C02/panic", "panic: %v", r)
		}
	}()
	ctx, cancel := context.WithCancel(context.Background())
	pipe := peer.NewPipe()
	conn, done, err := tds.VerifNewConn(ctx, pipe, &tds.Info{ChannelPackageQueueSize: 100000, PacketReadTimeout: 5}, true)
	if err != nil {
		vh.HarnessBug("VerifNewConn: %v", err)
	}
	defer func() {
		cancel()
		pipe.Close()
		go func() { defer func() { recover() }(); conn.Close() }()
		select {
		case <-done:
		case <-time.After(10 * time.Second):
			if f == nil {
				f = vh.Failf("C02/reader-does-not-end", "reader goroutine still running 10 s after close")
			}
		}
	}()
	var chans []*tds.Channel
	off := 0
	for i := range c.Chans {
		if i == 0 {
			ch, err := conn.NewChannel()
			if err != nil {
				vh.HarnessBug("NewChannel: %v", err)
			}
			chans = append(chans, ch)
			continue
		}
		type res struct {
			ch  *tds.Channel
			err error
		}
		rch := make(chan res, 1)
		go func() { ch, err := conn.NewChannel(); rch <- res{ch, err} }()
		ps, n, err := pipe.WaitMessage(off, 3*time.Second)
		if err != nil || len(ps) != 1 || ps[0].Type != rc.BufSetup {
			return vh.Failf("C02/setup", "no SETUP packet for logical channel %d: %v", i, err)
		}
		off = n
		pipe.Feed(rc.Packet{Type: rc.BufProtAck, Channel: ps[0].Channel, Status: rc.StatEOM}.Bytes())
		select {
		case r := <-rch:
			if r.err != nil {
				return vh.Failf("C02/setup", "NewChannel (logical): %v", r.err)
			}
			chans = append(chans, r.ch)
		case <-time.After(3 * time.Second):
			return vh.Failf("C02/setup", "NewChannel (logical) did not return after the acknowledgement")
		}
	}
	type part struct {
		packets []rc.Packet
		next    int
		ref     delivered
		model   []rc.P
	}
	parts := make([]*part, len(c.Chans))
	for i, cp := range c.Chans {
		stream, _, _, err := rc.EncodeStream(cp.Pkgs)
		if err != nil {
			vh.HarnessBug("encode: %v", err)
		}
		ref, f := runPackets(rc.Packetise(stream, nil, rc.BufResponse, 0))
		if f != nil {
			return f
		}
		p := &part{packets: rc.Packetise(stream, cp.Cuts, rc.BufResponse, uint16(chans[i].VerifID())), ref: ref}
		p.model, _ = respgen.Deliver(cp.Pkgs)
		parts[i] = p
	}
	interleaved := false
	last := -1
	for step := 0; ; step++ {
		var open []int
		for i, p := range parts {
			if p.next < len(p.packets) {
				open = append(open, i)
			}
		}
		if len(open) == 0 {
			break
		}
		pick := open[0]
		if step < len(c.Order) {
			pick = open[c.Order[step]%len(open)]
		}
		p := parts[pick]
		if last >= 0 && last != pick && parts[last].next > 0 && parts[last].next < len(parts[last].packets) {
			interleaved = true
		}
		pipe.Feed(p.packets[p.next].Bytes())
		p.next++
		last = pick
	}
	if !pipe.WaitDrained(20 * time.Second) {
		return vh.Failf("C02/reader-stuck", "reader did not come back for more input within 20 s")
	}
	for i, p := range parts {
		var d delivered
		drain(ctx, conn, chans[i], &d)
		how := fmt.Sprintf("channel %d of %d on one connection, response [%s] cuts %v, packets of the channels interleaved in order %v", chans[i].VerifID(), len(chans), respgen.Describe(c.Chans[i].Pkgs), c.Chans[i].Cuts, c.Order)
		if len(d.errs) > 0 {
			return vh.Failf("C02/interleaved-channels-error", "%s: errors surfaced: %v", how, d.errs)
		}
		if len(d.pkgs) != len(p.ref.pkgs) {
			return vh.Failf("C02/interleaved-channels-delivery-differs", "%s: delivered [%s], alone and unfragmented it delivers [%s]", how, describe(d.pkgs), describe(p.ref.pkgs))
		}
		fmts := respgen.FormatBefore(p.model)
		for j := range d.pkgs {
			if !reflect.DeepEqual(p.ref.pkgs[j], d.pkgs[j]) && pkggen.LibEqual(p.model[j], fmts[j], d.pkgs[j]) != nil {
				return vh.Failf("C02/interleaved-channels-delivery-differs", "%s: package %d differs: %v vs alone and unfragmented %v", how, j, d.pkgs[j], p.ref.pkgs[j])
			}
		}
	}
	if e := conn.VerifConnErr(); e != nil {
		return vh.Failf("C02/interleaved-channels-error", "connection error: %v", e)
	}
	vh.Label(fmt.Sprintf("channels-on-one-connection=%d", len(chans)))
	if interleaved {
		vh.Label("packets-of-other-channel-inside-a-message")
		vh.NonTrivial(fmt.Sprintf("%+v", c))
	}
	return nil
}

func TestInterleavedChannels(t *testing.T) {
	gen := func(rt *rapid.T) interleaveCase {
		var c interleaveCase
		n := rapid.IntRange(2, 3).Draw(rt, "channels")
		total := 0
		for i := 0; i < n; i++ {
			ps := respgen.Gen(rt, respgen.Opts{MaxStatements: 2, MaxEED: 1, MaxEnv: 1})
			stream, _, _, err := rc.EncodeStream(ps)
			if err != nil {
				vh.HarnessBug("encode: %v", err)
			}
			cuts := respgen.Cuts(rt, len(stream), true)
			if len(cuts) > 30 {
				cuts = cuts[:30]
			}
			total += len(cuts) + 1
			c.Chans = append(c.Chans, chanPart{Pkgs: ps, Cuts: cuts})
		}
		c.Order = rapid.SliceOfN(rapid.IntRange(0, 5), total, total).Draw(rt, "order")
		if total < 10 {
			vh.Sample("interleaved-channels", c)
		}
		return c
	}
	vh.Check(t, "TestInterleavedChannels", vh.N(400, 8000), gen, runInterleaved)
}
