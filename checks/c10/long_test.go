package c10

import (
	"context"
	"errors"
	"fmt"
	"io"
	"runtime"
	"runtime/metrics"
	"sync/atomic"
	"testing"
	"time"

	"github.com/SAP/go-dblib/tds"
	"pgregory.net/rapid"
	"verif/internal/peer"
	rc "verif/internal/refcodec"
	"verif/internal/vh"
)

// ---- a LONG response (hundreds of thousands of small packages before the final DONE) that
// the consumer drains with NextPackageUntil(ctx, wait, nil), reads package by package, or skips
// with a callback: the memory pinned by goroutine stacks must not grow with the number of
// packages - a stack frame per package ends at the runtime's stack limit, which kills the
// process and cannot be recovered from. Bound: 16 MiB + 2 x bytes received.

type longCase struct {
	Count int    `json:"packages_before_final_done"`
	Kind  string `json:"kind"`
	Drain string `json:"drain"`
}

func stackBytes() uint64 {
	s := []metrics.Sample{{Name: "/memory/classes/heap/stacks:bytes"}}
	metrics.Read(s)
	if s[0].Value.Kind() != metrics.KindUint64 {
		return 0
	}
	return s[0].Value.Uint64()
}

func runLong(c longCase) (f *vh.Failure) {
	how := fmt.Sprintf("response of %d %s packages and a final DONE, consumer %s", c.Count, c.Kind, c.Drain)
	defer func() {
		if r := recover(); r != nil {
			vh.CheckHarnessPanic(r)
			f = vh.Failf("C10/panic-long-response", "%s: panic: %v", how, r)
		}
	}()
	var one rc.P
	switch c.Kind {
	case "done-more":
		one = rc.P{Done: &rc.Done{Tok: rc.TokDone, Status: rc.DoneMore | rc.DoneCount, Count: 1}}
	case "info-message":
		one = rc.P{EED: &rc.EED{MsgNumber: 5701, State: 1, Class: 10, SQLState: []byte("01ZZZ"), Msg: "x", Server: "s"}}
	default:
		one = rc.P{Done: &rc.Done{Tok: rc.TokDoneInProc, Status: rc.DoneMore}}
	}
	enc, _, _, err := rc.EncodeStream([]rc.P{one})
	if err != nil {
		vh.HarnessBug("encode: %v", err)
	}
	fin, _, _, _ := rc.EncodeStream([]rc.P{{Done: &rc.Done{Tok: rc.TokDone}}})
	stream := make([]byte, 0, c.Count*len(enc)+len(fin))
	for i := 0; i < c.Count; i++ {
		stream = append(stream, enc...)
	}
	stream = append(stream, fin...)

	ctx, cancel := context.WithCancel(context.Background())
	defer cancel()
	conn, _, err := tds.VerifNewConn(ctx, peer.NewPipe(), &tds.Info{ChannelPackageQueueSize: 1000}, false)
	if err != nil {
		vh.HarnessBug("VerifNewConn: %v", err)
	}
	ch, err := conn.NewChannel()
	if err != nil {
		vh.HarnessBug("NewChannel: %v", err)
	}
	base := stackBytes()
	bound := uint64(16<<20) + 2*uint64(len(stream))
	var peak atomic.Uint64
	var tooDeep atomic.Bool
	stop := make(chan struct{})
	watcher := make(chan struct{})
	go func() {
		defer close(watcher)
		for {
			select {
			case <-stop:
				return
			case <-time.After(time.Millisecond):
			}
			if s := stackBytes(); s > base {
				if s-base > peak.Load() {
					peak.Store(s - base)
				}
				if s-base > bound {
					tooDeep.Store(true)
					cancel()
					return
				}
			}
		}
	}()
	type res struct {
		n   int
		err error
		p   interface{}
	}
	done := make(chan res, 1)
	go func() {
		var r res
		defer func() { r.p = recover(); done <- r }()
		switch c.Drain {
		case "NextPackageUntil(nil)":
			_, r.err = ch.NextPackageUntil(ctx, true, nil)
		case "NextPackageUntil(callback)":
			_, r.err = ch.NextPackageUntil(ctx, true, func(p tds.Package) (bool, error) {
				r.n++
				d, ok := p.(*tds.DonePackage)
				return ok && d.Status == tds.TDS_DONE_FINAL, nil
			})
		default:
			for {
				p, err := ch.NextPackage(ctx, true)
				if err != nil {
					r.err = err
					return
				}
				r.n++
				if d, ok := p.(*tds.DonePackage); ok && d.Status == tds.TDS_DONE_FINAL {
					return
				}
			}
		}
	}()
	fed := make(chan struct{})
	go func() {
		defer close(fed)
		defer func() { recover() }()
		for at := 0; at < len(stream); at += 504 {
			end := at + 504
			st := tds.PacketHeaderStatus(0)
			if end >= len(stream) {
				end = len(stream)
				st = tds.TDS_BUFSTAT_EOM
			}
			if ctx.Err() != nil {
				return
			}
			ch.WritePacket(&tds.Packet{Header: tds.PacketHeader{MsgType: tds.TDS_BUF_RESPONSE, Status: st, Length: uint16(8 + end - at)}, Data: stream[at:end]})
		}
	}()
	var r res
	select {
	case r = <-done:
	case <-time.After(180 * time.Second):
		close(stop)
		cancel()
		return vh.Failf("C10/hang-long-response", "%s: the consumer did not finish within 180 s", how)
	}
	close(stop)
	<-watcher
	cancel()
	// the feeder may be parked on a full queue after a cancellation: let it go
	go func() {
		for {
			select {
			case <-fed:
				return
			default:
				ch.NextPackage(context.Background(), false)
				time.Sleep(time.Millisecond)
			}
		}
	}()
	select {
	case <-fed:
	case <-time.After(20 * time.Second):
	}
	if r.p != nil {
		return vh.Failf("C10/panic-long-response", "%s: panic: %v", how, r.p)
	}
	if tooDeep.Load() {
		return vh.Failf("C10/stack-grows-with-response-length", "%s: goroutine stacks grew by more than %d bytes (16 MiB + 2 x the %d bytes received) while the response was consumed", how, bound, len(stream))
	}
	// (draining with a nil callback documents io.EOF for a response that is at its end)
	if r.err != nil && !(c.Drain == "NextPackageUntil(nil)" && errors.Is(r.err, io.EOF)) {
		return vh.Failf("C10/error-long-response", "%s: %v", how, r.err)
	}
	vh.Label(fmt.Sprintf("long-response>=%d", c.Count/100000*100000))
	if peak.Load() < 1<<20 {
		vh.Label("long-response:stack-growth<1MiB")
	} else {
		vh.Label("long-response:stack-growth>=1MiB")
	}
	vh.NonTrivial(fmt.Sprintf("long|%d|%s|%s", c.Count, c.Kind, c.Drain))
	return nil
}

func TestLongResponses(t *testing.T) {
	gen := func(rt *rapid.T) longCase {
		c := longCase{
			Kind:  rapid.SampledFrom([]string{"done-more", "info-message", "doneinproc"}).Draw(rt, "kind"),
			Drain: rapid.SampledFrom([]string{"NextPackageUntil(nil)", "NextPackageUntil(nil)", "NextPackageUntil(callback)", "NextPackage loop"}).Draw(rt, "drain"),
		}
		c.Count = rapid.SampledFrom([]int{2000, 150000, 500000}).Draw(rt, "count")
		if vh.Thorough() && rapid.IntRange(0, 5).Draw(rt, "huge") == 0 {
			c.Count = 3000000
		}
		return c
	}
	vh.Check(t, "TestLongResponses", vh.N(3, 30), gen, runLong)
}

// ---- the client closes a channel while the server keeps sending to it: the reader is in the
// middle of a packet that holds more packages than the channel's queue takes. Whatever the
// timing, the process survives (a panic in the reader goroutine cannot be recovered by anyone).

type closeMidPacketCase struct {
	Queue     int `json:"package_queue_size"`
	PerPacket int `json:"packages_per_packet"`
	Packets   int `json:"packets"`
	DelayUs   int `json:"close_after_us"`
}

func runCloseMidPacket(c closeMidPacketCase) (f *vh.Failure) {
	defer func() {
		if r := recover(); r != nil {
			vh.CheckHarnessPanic(r)
			f = vh.Failf("C10/panic-close-while-receiving", "%+v: panic: %v", c, r)
		}
	}()
	ctx, cancel := context.WithCancel(context.Background())
	defer cancel()
	pipe := peer.NewPipe()
	conn, done, err := tds.VerifNewConn(ctx, pipe, &tds.Info{ChannelPackageQueueSize: c.Queue, PacketReadTimeout: 1}, true)
	if err != nil {
		vh.HarnessBug("VerifNewConn: %v", err)
	}
	ch, err := conn.NewChannel()
	if err != nil {
		vh.HarnessBug("NewChannel: %v", err)
	}
	one, _, _, _ := rc.EncodeStream([]rc.P{{Done: &rc.Done{Tok: rc.TokDone, Status: rc.DoneMore | rc.DoneCount, Count: 1}}})
	var body []byte
	for i := 0; i < c.PerPacket; i++ {
		body = append(body, one...)
	}
	for i := 0; i < c.Packets; i++ {
		pipe.Feed(rc.Packet{Type: rc.BufResponse, Body: body}.Bytes())
	}
	time.Sleep(time.Duration(c.DelayUs) * time.Microsecond)
	closed := make(chan struct{})
	go func() {
		defer close(closed)
		defer func() { recover() }()
		ch.Close()
	}()
	select {
	case <-closed:
	case <-time.After(70 * time.Second):
		return vh.Failf("C10/hang-close-while-receiving", "%+v: Close did not return within 70 s", c)
	}
	// let the reader finish what it was doing with the packet
	time.Sleep(300 * time.Microsecond)
	cancel()
	pipe.Close()
	select {
	case <-done:
	case <-time.After(5 * time.Second):
	}
	vh.Label("channel-closed-while-the-reader-is-inside-a-packet")
	vh.NonTrivial(fmt.Sprintf("%+v", c))
	return nil
}

func TestCloseWhileServerKeepsSending(t *testing.T) {
	gen := func(rt *rapid.T) closeMidPacketCase {
		c := closeMidPacketCase{Queue: rapid.IntRange(0, 4).Draw(rt, "queue"), Packets: rapid.IntRange(1, 3).Draw(rt, "packets"), DelayUs: rapid.SampledFrom([]int{0, 50, 300, 1000}).Draw(rt, "delay")}
		// (the more packages of the packet are still to be handed on when Close comes, the
		// longer the reader is busy with it afterwards)
		c.PerPacket = c.Queue + rapid.OneOf(rapid.IntRange(2, 6), rapid.IntRange(7, 120), rapid.IntRange(500, 6000)).Draw(rt, "beyond")
		return c
	}
	vh.Check(t, "TestCloseWhileServerKeepsSending", vh.N(400, 6000), gen, runCloseMidPacket)
}

// ---- broken input that nobody looks at: packets for channels that do not exist, headers with
// impossible lengths - thousands of them while no consumer fetches the connection's errors.
// The reader may wait for its error queue to be emptied; it must not turn every few bytes of
// input into a goroutine or into memory that stays.

type strayCase struct {
	Count int  `json:"broken_packets"`
	Short bool `json:"header_length_below_8"`
}

func runStrayNobodyCollects(c strayCase) (f *vh.Failure) {
	defer func() {
		if r := recover(); r != nil {
			vh.CheckHarnessPanic(r)
			f = vh.Failf("C10/panic-broken-packets", "%+v: panic: %v", c, r)
		}
	}()
	ctx, cancel := context.WithCancel(context.Background())
	pipe := peer.NewPipe()
	g0 := runtime.NumGoroutine()
	conn, done, err := tds.VerifNewConn(ctx, pipe, &tds.Info{ChannelPackageQueueSize: 10, PacketReadTimeout: 1}, true)
	if err != nil {
		vh.HarnessBug("VerifNewConn: %v", err)
	}
	if _, err := conn.NewChannel(); err != nil {
		vh.HarnessBug("NewChannel: %v", err)
	}
	var wire []byte
	for i := 0; i < c.Count; i++ {
		if c.Short {
			wire = append(wire, 4, 1, 0, byte(i%8), 0, 0, 0, 0)
		} else {
			wire = append(wire, rc.Packet{Type: rc.BufResponse, Channel: uint16(1000 + i%5000), Status: rc.StatEOM}.Bytes()...)
		}
	}
	pipe.Feed(wire)
	// give the reader time to do whatever it does with input nobody collects
	deadline := time.Now().Add(300 * time.Millisecond)
	peak := 0
	for time.Now().Before(deadline) {
		if g := runtime.NumGoroutine() - g0; g > peak {
			peak = g
		}
		time.Sleep(2 * time.Millisecond)
	}
	cancel()
	pipe.Close()
	for i := 0; i < 2000; i++ {
		select {
		case <-done:
			i = 2000
		default:
			conn.VerifConnErr()
			time.Sleep(100 * time.Microsecond)
		}
	}
	if peak > 50 {
		return vh.Failf("C10/goroutines-grow-with-input", "%d broken packets (%d bytes) that nobody collects the errors of: %d goroutines more than before the connection was opened", c.Count, len(wire), peak)
	}
	vh.Label("broken-packets-nobody-collects")
	vh.NonTrivial(fmt.Sprintf("%+v", c))
	return nil
}

func TestBrokenPacketsNobodyCollects(t *testing.T) {
	gen := func(rt *rapid.T) strayCase {
		return strayCase{Count: rapid.SampledFrom([]int{11, 200, 3000}).Draw(rt, "count"), Short: rapid.Bool().Draw(rt, "short")}
	}
	vh.Check(t, "TestBrokenPacketsNobodyCollects", vh.N(6, 60), gen, runStrayNobodyCollects)
}
