// C17 — connection descriptions round-trip and never crash the parser.
//
// Files: c17_test.go (types, helpers, generators, the two round trips),
// override_test.go (override order, unknown keys), totality_test.go (no input
// string makes parsing panic), fuzz_test.go (native fuzz target FuzzParse).
package c17

import (
	"encoding/hex"
	"encoding/json"
	"fmt"
	"math"
	"reflect"
	"strconv"
	"strings"
	"testing"
	"unicode/utf8"

	"github.com/SAP/go-dblib/dsn"
	"github.com/SAP/go-dblib/tds"
	"pgregory.net/rapid"
	"verif/internal/vh"
)

func TestMain(m *testing.M) {
	vh.Rule("round trips: rapid-generated values of dsn.Info, tds.Info, Ext (embedded dsn.Info + string/int/bool members with json/multiref tags) and ExtScheme (Ext embedded once more + scheme); text fields are token sequences (letters, runs of spaces, '=', every URI metacharacter, '%', '+', %-escapes, \"KEY\", non-ASCII, for the URI form also quotes, backslash, control characters and rapid.String() over all of Unicode; for the simple form strconv.IsPrint runes without quote/backslash, with leading/trailing/multiple/only spaces); host = DNS label, port = digits or empty (nothing is claimed about them); ints from {0, small, negative, MinInt64, MaxInt64}. Override order: hand-written simple DSNs of 2..9 assignments over every alias of every key with at least one field assigned twice (same key or different aliases), quoted with \", ' or bare; URIs with a key repeated 2..3 times interleaved with others. Unknown keys: near misses of real keys, random identifiers and the empty key at any position, both forms, three target types. Totality: every string over the 14-symbol alphabet {\" ' space = a p : / ? & % @ # \\} (a and p are real keys of Ext) up to length 5 (6 thorough), key=/quote prefixes x every string up to length 4 (5), every string over {\" ' space = a} up to length 8 (10), random strings up to 40 bytes, mutated valid DSNs. Non-trivial: a text value contains a space, '=', a URI metacharacter or a non-ASCII rune; for totality the string contains a quote or '='; an unknown-key case counts when the key is empty or a near miss of a real key. Distinct by the JSON of the case / by the written DSN string")
	vh.Assume("net/url escaping (url.QueryEscape, url.UserPassword) is trusted when the override/unknown-key checks write URIs by hand; reflect and encoding/json are trusted; the alias table of each target type is written by hand from the struct tags")
	vh.Assume("simple-form domain = what strconv.Quote leaves unescaped (strconv.IsPrint) minus ' \" ` and backslash: FormatSimple writes values with %q and ParseSimple documents plain surrounding quotes without escape processing, so anything %q escapes (control, format, non-ASCII space characters) is outside the claim")
	vh.Assume("URI form: ParseURI never fills a `scheme` member and Parse only recognises a URI by \"://\"; dsn.Info/tds.Info have no scheme, so their FormatURI output (\"//user:...\", pinned by the library's tests) is parsed back with ParseURI; Parse is exercised on ExtScheme, whose scheme member is not compared")
	vh.Rule("also: batches of 2..8 round-trip / override cases run in goroutines at the same time (separate race-detector run)")
	vh.Rule("also: the target struct has alias lists with an empty element (multiref:\"alpha,al,\" and multiref:\"\")")
	vh.Main(m, "C17")
}

// ---------------------------------------------------------------- target types

// Ext is the harness struct of the plan: an embedded dsn.Info plus string / int /
// bool members, some with multiref aliases, some without.
// extras has an unexported type name; embedded, its exported members are promoted like those
// of dsn.Info (an application's own settings next to the library's).
type extras struct {
	Region  string `json:"region"`
	Retries int    `json:"retries"`
	Verbose bool   `json:"verbose"`
}

type Ext struct {
	dsn.Info
	extras
	A     string `json:"a" multiref:"alpha,al,"` // (an alias list may end in a comma: the empty element names nothing)
	P     int    `json:"p" multiref:"pint"`
	Flag  bool   `json:"flag" multiref:"f"`
	Note  string `json:"note,omitempty" multiref:""` // json tags may carry options: the key is the name in front of them; an empty alias list names nothing
	Count int    `json:"count,string"`
	On    bool   `json:"on,omitempty"`
}

// ExtScheme embeds Ext (two levels of embedding) and adds the scheme that lets
// dsn.Parse recognise FormatURI's output as a URI.
type ExtScheme struct {
	Ext
	Scheme string `json:"scheme"`
}

// aliases: field (json key) -> every name it must be reachable by. Written by hand
// from the struct tags, not derived with dsn.TagToField.
var dsnAliases = map[string][]string{
	"host":     {"host", "hostname"},
	"port":     {"port"},
	"username": {"username", "user"},
	"password": {"password", "passwd", "pass"},
	"database": {"database", "db"},
}

var extAliases = merge(dsnAliases, map[string][]string{
	"a":     {"a", "alpha", "al"},
	"p":     {"p", "pint"},
	"flag":  {"flag", "f"},
	"note":  {"note"},
	"count": {"count"},
	"on":    {"on"},
})

var tdsAliases = merge(dsnAliases, map[string][]string{
	"network":                    {"network"},
	"client-hostname":            {"client-hostname"},
	"tls-enable":                 {"tls-enable"},
	"tls-hostname":               {"tls-hostname"},
	"tls-skip-validation":        {"tls-skip-validation"},
	"tls-ca-file":                {"tls-ca-file"},
	"packet-read-timeout":        {"packet-read-timeout"},
	"channel-package-queue-size": {"channel-package-queue-size"},
	"debug-log-packages":         {"debug-log-packages"},
})

func merge(ms ...map[string][]string) map[string][]string {
	out := map[string][]string{}
	for _, m := range ms {
		for k, v := range m {
			out[k] = v
		}
	}
	return out
}

func allNames(al map[string][]string) map[string]bool {
	out := map[string]bool{}
	for _, ns := range al {
		for _, n := range ns {
			out[n] = true
		}
	}
	return out
}

// val carries exactly one of the target types; it is the JSON form of a case value.
type val struct {
	DSN *dsn.Info  `json:"dsn,omitempty"`
	TDS *tds.Info  `json:"tds,omitempty"`
	Ext *Ext       `json:"ext,omitempty"`
	Sch *ExtScheme `json:"sch,omitempty"`
}

func (v val) kind() string {
	switch {
	case v.DSN != nil:
		return "dsn.Info"
	case v.TDS != nil:
		return "tds.Info"
	case v.Ext != nil:
		return "Ext"
	case v.Sch != nil:
		return "ExtScheme"
	}
	return ""
}

func (v val) ptr() any {
	switch {
	case v.DSN != nil:
		return v.DSN
	case v.TDS != nil:
		return v.TDS
	case v.Ext != nil:
		return v.Ext
	case v.Sch != nil:
		return v.Sch
	}
	return nil
}

func freshOf(kind string) any {
	switch kind {
	case "dsn.Info":
		return new(dsn.Info)
	case "tds.Info":
		return new(tds.Info)
	case "Ext":
		return new(Ext)
	case "ExtScheme":
		return new(ExtScheme)
	}
	return nil
}

// fld is one leaf member of a target value, found by an own walk over the struct
// (embedded structs are descended into), keyed by the first json tag name.
type fld struct {
	Key string
	V   reflect.Value
}

func fields(x any) []fld {
	v := reflect.ValueOf(x)
	for v.Kind() == reflect.Ptr {
		v = v.Elem()
	}
	var out []fld
	var walk func(v reflect.Value)
	walk = func(v reflect.Value) {
		for i := 0; i < v.NumField(); i++ {
			f := v.Field(i)
			if f.Kind() == reflect.Struct {
				walk(f)
				continue
			}
			name := strings.Split(v.Type().Field(i).Tag.Get("json"), ",")[0]
			if name == "" {
				continue
			}
			out = append(out, fld{name, f})
		}
	}
	walk(v)
	return out
}

// diff lists the members in which got differs from want (same type), skipping keys in skip.
func diff(want, got any, skip ...string) string {
	w, g := fields(want), fields(got)
	var d []string
next:
	for i := range w {
		for _, s := range skip {
			if w[i].Key == s {
				continue next
			}
		}
		if w[i].V.Interface() != g[i].V.Interface() {
			d = append(d, fmt.Sprintf("%s: want %#v got %#v", w[i].Key, w[i].V.Interface(), g[i].V.Interface()))
		}
	}
	return strings.Join(d, "; ")
}

// try runs fn and converts a panic into a value.
func try(fn func() error) (err error, pv any) {
	defer func() {
		if r := recover(); r != nil {
			pv = r
		}
	}()
	return fn(), nil
}

// ---------------------------------------------------------------- text classes

// RFC 3986 gen-delims, sub-delims and '%'.
const uriMeta = ":/?#[]@!$&'()*+,;=%"

func textNonTrivial(s string) bool {
	for _, r := range s {
		if r == ' ' || r == '=' || r >= 0x80 || strings.ContainsRune(uriMeta, r) {
			return true
		}
	}
	return false
}

// inSimpleRune: the alphabet the property claims for the simple form, see the
// third Assume in TestMain. The backtick is excluded as a quote character too.
func inSimpleRune(r rune) bool {
	return strconv.IsPrint(r) && r != '"' && r != '\'' && r != '`' && r != '\\'
}

func inSimpleDomain(s string) bool {
	if !utf8.ValidString(s) {
		return false
	}
	for _, r := range s {
		if !inSimpleRune(r) {
			return false
		}
	}
	return true
}

func isDNSLabel(s string) bool {
	if s == "" || len(s) > 63 || s[0] == '-' || s[len(s)-1] == '-' {
		return false
	}
	for i := 0; i < len(s); i++ {
		c := s[i]
		if !(c >= 'a' && c <= 'z' || c >= 'A' && c <= 'Z' || c >= '0' && c <= '9' || c == '-') {
			return false
		}
	}
	return true
}

func isDigits(s string) bool {
	for i := 0; i < len(s); i++ {
		if s[i] < '0' || s[i] > '9' {
			return false
		}
	}
	return true
}

// ---------------------------------------------------------------- generators

// Tokens are ordered simplest first: rapid shrinks SampledFrom towards index 0.
var uriTokens = []string{"a", "b", "x1", "user", "Z", " ", "  ", "=", "&", "?", "/", ":", "@", "#", "%", "+",
	"%41", "%zz", "%", "+%20", ";", "://", "//", "KEY", "MONKEY", "key", "KE", "Y", "é", "ß", "日本", "😀", "\u00a0", "\u2028",
	"\n", "\t", "\x00", "\x7f", "\"", "'", "\\", "`", "[", "]", "<", ">", "|", "{", "}", "^", "~", "*", "!", "$", "(", ")", ",", ".", "-", "_"}

var simpleTokens = []string{"a", "b", "x1", "pass", "Z", " ", "  ", "   ", "=", "==", "&", "?", "/", ":", "@", "#", "%", "+",
	"://", ";", "k=v", "KEY", "é", "ß", "日本", "😀", "-5", "true", "0", ",", ".", "-", "_", "(", ")", "[", "]", "|", "~", "!", "$", "*", "<", ">", "{", "}", "^"}

func joinTokens(t *rapid.T, toks []string, label string) string {
	return strings.Join(rapid.SliceOfN(rapid.SampledFrom(toks), 1, 6).Draw(t, label), "")
}

// uriText: any text (valid UTF-8 only, because a case is stored as JSON).
func uriText(t *rapid.T, label string) string {
	switch rapid.IntRange(0, 11).Draw(t, label+"-shape") {
	case 0:
		return ""
	case 1:
		return strings.ToValidUTF8(rapid.String().Draw(t, label+"-unicode"), "�")
	case 2:
		return rapid.SampledFrom([]string{"a", "secret", "db1", "0", "1", "-1", "true", "false", "00", "null", "KEY"}).Draw(t, label+"-plain")
	default:
		return joinTokens(t, uriTokens, label)
	}
}

// simpleText: text over the simple-form alphabet with spaces anywhere.
func simpleText(t *rapid.T, label string) string {
	var s string
	switch rapid.IntRange(0, 11).Draw(t, label+"-shape") {
	case 0:
		s = ""
	case 1: // random printable Unicode
		s = strings.Map(func(r rune) rune {
			if inSimpleRune(r) {
				return r
			}
			return -1
		}, rapid.String().Draw(t, label+"-unicode"))
	case 2:
		s = rapid.SampledFrom([]string{"a", "secret", "db1", "0", "1", "-1", "true", "false", "00", "null", "KEY"}).Draw(t, label+"-plain")
	case 3: // leading space(s)
		s = rapid.SampledFrom([]string{" ", "  "}).Draw(t, label+"-lead") + joinTokens(t, simpleTokens, label)
	case 4: // trailing space(s)
		s = joinTokens(t, simpleTokens, label) + rapid.SampledFrom([]string{" ", "  "}).Draw(t, label+"-trail")
	case 5: // only spaces
		s = strings.Repeat(" ", rapid.IntRange(1, 3).Draw(t, label+"-spaces"))
	default:
		s = joinTokens(t, simpleTokens, label)
	}
	return s
}

// Host and port: the property claims nothing about arbitrary text there (the URI
// grammar restricts them), so host is a DNS label and port is digits or empty.
func hostGen(t *rapid.T) string {
	if rapid.IntRange(0, 3).Draw(t, "host-fixed") > 0 {
		return rapid.SampledFrom([]string{"h", "host1", "db-1", "localhost", "a0"}).Draw(t, "host")
	}
	return rapid.StringMatching(`[a-z]([a-z0-9-]{0,8}[a-z0-9])?`).Draw(t, "host")
}

func portGen(t *rapid.T) string {
	switch rapid.IntRange(0, 3).Draw(t, "port-kind") {
	case 0:
		return ""
	case 1:
		return "5000"
	}
	return strconv.Itoa(rapid.IntRange(0, 65535).Draw(t, "port"))
}

func intGen(t *rapid.T, label string) int {
	switch rapid.IntRange(0, 6).Draw(t, label+"-kind") {
	case 0:
		return 0
	case 1:
		return math.MinInt64
	case 2:
		return math.MaxInt64
	case 3:
		return -rapid.IntRange(1, 100000).Draw(t, label)
	}
	return rapid.IntRange(1, 100000).Draw(t, label)
}

func genInfo(t *rapid.T, text func(*rapid.T, string) string) dsn.Info {
	return dsn.Info{
		Host:     hostGen(t),
		Port:     portGen(t),
		Username: text(t, "username"),
		Password: text(t, "password"),
		Database: text(t, "database"),
	}
}

func genExt(t *rapid.T, text func(*rapid.T, string) string) Ext {
	return Ext{
		Info:   genInfo(t, text),
		extras: extras{Region: text(t, "region"), Retries: intGen(t, "retries"), Verbose: rapid.Bool().Draw(t, "verbose")},
		A:      text(t, "a"),
		P:      intGen(t, "p"),
		Flag:   rapid.Bool().Draw(t, "flag"),
		Note:   text(t, "note"),
		Count:  intGen(t, "count"),
		On:     rapid.Bool().Draw(t, "on"),
	}
}

func genTDS(t *rapid.T, text func(*rapid.T, string) string) tds.Info {
	return tds.Info{
		Info:                    genInfo(t, text),
		Network:                 text(t, "network"),
		ClientHostname:          text(t, "client-hostname"),
		TLSEnable:               rapid.Bool().Draw(t, "tls-enable"),
		TLSHostname:             text(t, "tls-hostname"),
		TLSSkipValidation:       rapid.Bool().Draw(t, "tls-skip-validation"),
		TLSCAFile:               text(t, "tls-ca-file"),
		PacketReadTimeout:       intGen(t, "packet-read-timeout"),
		ChannelPackageQueueSize: intGen(t, "channel-package-queue-size"),
		DebugLogPackages:        rapid.Bool().Draw(t, "debug-log-packages"),
	}
}

func genVal(t *rapid.T, text func(*rapid.T, string) string, schemeText bool) val {
	switch rapid.IntRange(0, 3).Draw(t, "type") {
	case 0:
		x := genInfo(t, text)
		return val{DSN: &x}
	case 1:
		x := genTDS(t, text)
		return val{TDS: &x}
	case 2:
		x := genExt(t, text)
		return val{Ext: &x}
	}
	x := ExtScheme{Ext: genExt(t, text)}
	if schemeText {
		// simple form: scheme is an ordinary text member
		x.Scheme = text(t, "scheme")
	} else {
		// URI form: a valid, non-empty URI scheme so that dsn.Parse sees "://"
		x.Scheme = rapid.SampledFrom([]string{"ase", "tds", "db", "x"}).Draw(t, "scheme")
	}
	return val{Sch: &x}
}

// describe records labels / non-trivial / samples for a round-trip case and
// returns whether a text member starts with a space and whether a member that
// FormatURI puts into the query contains "KEY".
func describe(form string, c any, v val) (leadingSpace, keyInQuery bool) {
	nt := false
	labels := []string{form + ":" + v.kind()}
	seen := map[string]bool{}
	add := func(l string) {
		if !seen[l] {
			seen[l] = true
			labels = append(labels, form+":"+l)
		}
	}
	for _, f := range fields(v.ptr()) {
		switch f.V.Kind() {
		case reflect.String:
			s := f.V.String()
			if f.Key == "host" || f.Key == "port" || (form == "uri" && f.Key == "scheme") {
				continue
			}
			if textNonTrivial(s) {
				nt = true
			}
			if strings.HasPrefix(s, " ") {
				leadingSpace = true
				add("leading-space")
			}
			if strings.HasSuffix(s, " ") {
				add("trailing-space")
			}
			if strings.Contains(s, "  ") {
				add("multiple-spaces")
			}
			if s != "" && strings.TrimLeft(s, " ") == "" {
				add("only-spaces")
			}
			if strings.Contains(s, "=") {
				add("equals-sign")
			}
			if strings.ContainsAny(s, uriMeta) {
				add("uri-metachar")
			}
			if strings.ContainsAny(s, "%+") {
				add("percent-or-plus")
			}
			for _, r := range s {
				if r >= 0x80 {
					add("non-ascii")
					break
				}
			}
			if strings.ContainsAny(s, "\"'\\") {
				add("quote-or-backslash")
			}
			if s == "" {
				add("empty-text")
			}
			if strings.Contains(s, "KEY") {
				add("contains-KEY")
				if f.Key != "username" && f.Key != "password" {
					keyInQuery = true
				}
			}
		case reflect.Int:
			if f.V.Int() < 0 {
				add("negative-int")
			}
			if f.V.Int() == math.MinInt64 || f.V.Int() == math.MaxInt64 {
				add("extreme-int")
			}
		case reflect.Bool:
			if f.V.Bool() {
				add("bool-true")
			} else {
				add("bool-false")
			}
		}
	}
	vh.Label(labels...)
	if nt {
		b, _ := json.Marshal(c)
		vh.NonTrivial(form + string(b))
		vh.Sample(form+"-roundtrip", c)
	}
	return
}

// ---------------------------------------------------------------- (1) URI round trip

type uriCase struct {
	V val `json:"v"`
}

func runURI(c uriCase) *vh.Failure {
	in := c.V.ptr()
	if in == nil {
		return nil
	}
	kind := c.V.kind()
	for _, f := range fields(in) {
		// the claim covers DNS-label hosts and numeric/empty ports only (replayed
		// or hand-edited cases outside of it are not judged)
		if f.Key == "host" && !isDNSLabel(f.V.String()) || f.Key == "port" && !isDigits(f.V.String()) {
			vh.Label("uri:outside-domain")
			return nil
		}
	}
	_, keyInQuery := describe("uri", c, c.V)
	class := func(dflt string) string {
		if keyInQuery {
			// FormatURI leaves out user, password, host and port when the encoded
			// query merely contains the letters KEY
			return "C17/formaturi-KEY-substring"
		}
		return dflt
	}

	var s string
	err, pv := try(func() (e error) { s, e = dsn.FormatURI(in); return })
	if pv != nil {
		return vh.Failf("C17/formaturi-panic", "FormatURI(%s %+v) panicked: %v", kind, in, pv)
	}
	if err != nil {
		return vh.Failf("C17/formaturi-error", "FormatURI(%s %+v) = error %v", kind, in, err)
	}

	type parser struct {
		name string
		fn   func(string, interface{}) error
	}
	ps := []parser{{"ParseURI", dsn.ParseURI}}
	if kind == "ExtScheme" {
		ps = append(ps, parser{"Parse", dsn.Parse})
	}
	for _, p := range ps {
		out := freshOf(kind)
		err, pv := try(func() error { return p.fn(s, out) })
		if pv != nil {
			return vh.Failf(class("C17/uri-roundtrip-panic"), "%s(%q) panicked: %v (FormatURI of %s %+v)", p.name, s, pv, kind, in)
		}
		if err != nil {
			return vh.Failf(class("C17/uri-roundtrip-error"), "%s(%q) = error %v (FormatURI of %s %+v)", p.name, s, err, kind, in)
		}
		// scheme: see the fourth Assume in TestMain
		if d := diff(in, out, "scheme"); d != "" {
			return vh.Failf(class("C17/uri-roundtrip-mismatch"), "%s(FormatURI(v)) != v for %s: %s; URI was %q", p.name, kind, d, s)
		}
	}
	return nil
}

func TestURIRoundTrip(t *testing.T) {
	gen := func(rt *rapid.T) uriCase { return uriCase{V: genVal(rt, uriText, false)} }
	vh.Check(t, "TestURIRoundTrip", vh.N(20000, 1000000), gen, runURI)
}

// ---------------------------------------------------------------- (2) simple round trip

type simpleCase struct {
	V val `json:"v"`
}

func runSimple(c simpleCase) *vh.Failure {
	in := c.V.ptr()
	if in == nil {
		return nil
	}
	kind := c.V.kind()
	for _, f := range fields(in) {
		if f.V.Kind() == reflect.String && !inSimpleDomain(f.V.String()) {
			vh.Label("simple:outside-domain")
			return nil
		}
	}
	leadingSpace, _ := describe("simple", c, c.V)
	class := func(dflt string) string {
		if leadingSpace {
			// a quoted value that begins with a space: the tokenizer takes the
			// opening quote for the closing one
			return "C17/simple-leading-space-value"
		}
		return dflt
	}

	var s string
	_, pv := try(func() error { s = dsn.FormatSimple(in); return nil })
	if pv != nil {
		return vh.Failf("C17/formatsimple-panic", "FormatSimple(%s %+v) panicked: %v", kind, in, pv)
	}
	type parser struct {
		name string
		fn   func(string, interface{}) error
	}
	ps := []parser{{"ParseSimple", dsn.ParseSimple}}
	if !strings.Contains(s, "://") {
		// Parse documents that any string containing "://" is taken for a URI
		ps = append(ps, parser{"Parse", dsn.Parse})
	} else {
		vh.Label("simple:contains-scheme-separator(Parse not asked)")
	}
	for _, p := range ps {
		out := freshOf(kind)
		err, pv := try(func() error { return p.fn(s, out) })
		if pv != nil {
			return vh.Failf(class("C17/parsesimple-panic-roundtrip"), "%s(%q) panicked: %v (FormatSimple of %s %+v)", p.name, s, pv, kind, in)
		}
		if err != nil {
			return vh.Failf(class("C17/simple-roundtrip-error"), "%s(%q) = error %v (FormatSimple of %s %+v)", p.name, s, err, kind, in)
		}
		if d := diff(in, out); d != "" {
			return vh.Failf(class("C17/simple-roundtrip-mismatch"), "%s(FormatSimple(v)) != v for %s: %s; DSN was %q", p.name, kind, d, s)
		}
	}
	return nil
}

func TestSimpleRoundTrip(t *testing.T) {
	gen := func(rt *rapid.T) simpleCase { return simpleCase{V: genVal(rt, simpleText, true)} }
	vh.Check(t, "TestSimpleRoundTrip", vh.N(25000, 1000000), gen, runSimple)
}

// ---------------------------------------------------------------- string cases

// strCase carries an arbitrary byte string through JSON (hex when not valid UTF-8).
type strCase struct {
	S string `json:"s"`
	X string `json:"hex,omitempty"`
}

func mkStr(s string) strCase {
	if utf8.ValidString(s) {
		return strCase{S: s}
	}
	return strCase{X: hex.EncodeToString([]byte(s))}
}

func (c strCase) str() string {
	if c.X != "" {
		b, _ := hex.DecodeString(c.X)
		return string(b)
	}
	return c.S
}
