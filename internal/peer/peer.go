// Package peer is a scripted in-memory transport for tds.Conn: the harness decides
// what every Read returns (partitioning of the byte stream, faults at a byte offset),
// captures what is written, can park writes/reads behind gates and can tell when the
// reader has consumed everything that was fed ("drained").
package peer

import (
	"errors"
	"io"
	"sync"
	"time"

	rc "verif/internal/refcodec"
)

var ErrReset = errors.New("peer: connection reset by peer (injected)")
var ErrTimeout = &timeoutErr{}

type timeoutErr struct{}

func (*timeoutErr) Error() string   { return "peer: i/o timeout (injected)" }
func (*timeoutErr) Timeout() bool   { return true }
func (*timeoutErr) Temporary() bool { return true }

// Pipe implements io.ReadWriteCloser.
type Pipe struct {
	mu   sync.Mutex
	cond *sync.Cond

	chunks   [][]byte // read script: each entry is returned by one Read (split further if the caller's buffer is smaller)
	parked   bool     // a Read is waiting with an empty script
	reads    int      // number of Read calls that returned data
	zeroRead int      // zero-length Read calls
	given    int      // bytes handed to the reader so far

	eofWith int   // -1: never; otherwise the Read that delivers byte number eofWith also returns io.EOF
	failAt  int   // -1: never; otherwise reads fail once `given` reached failAt
	failErr error // the error to return from then on (io.EOF, ErrReset, ErrTimeout)

	closed    bool
	closeErr  error
	closeCnt  int
	written   []byte
	writeLens []int
	writes    int
	writeGate chan struct{} // if non-nil, Write parks until it is closed
	inWrite   int           // writes currently parked
	writeFail func(n int, p []byte) (int, error)
	onWrite   func()
}

func NewPipe() *Pipe {
	p := &Pipe{failAt: -1, eofWith: -1}
	p.cond = sync.NewCond(&p.mu)
	return p
}

// Feed appends chunks to the read script.
func (p *Pipe) Feed(chunks ...[]byte) {
	p.mu.Lock()
	for _, c := range chunks {
		if len(c) > 0 {
			p.chunks = append(p.chunks, append([]byte{}, c...))
		}
	}
	p.cond.Broadcast()
	p.mu.Unlock()
}

// FeedPartitionZero feeds stream cut at the given offsets; an offset that occurs twice makes
// the transport hand out a zero-size read result (0, nil) at that position, which io.Reader
// permits ("nothing happened").
func (p *Pipe) FeedPartitionZero(stream []byte, cuts []int) {
	prev := 0
	p.mu.Lock()
	for _, c := range append(append([]int{}, cuts...), len(stream)) {
		switch {
		case c > prev:
			p.chunks = append(p.chunks, append([]byte{}, stream[prev:c]...))
			prev = c
		case c == prev && c < len(stream):
			p.chunks = append(p.chunks, []byte{})
		}
	}
	p.cond.Broadcast()
	p.mu.Unlock()
}

// FeedPartition feeds stream cut at the given offsets.
func (p *Pipe) FeedPartition(stream []byte, cuts []int) {
	prev := 0
	var cs [][]byte
	for _, c := range append(append([]int{}, cuts...), len(stream)) {
		if c > prev {
			cs = append(cs, stream[prev:c])
			prev = c
		}
	}
	p.Feed(cs...)
}

// FailAfter makes every Read fail with err once k bytes have been delivered (bytes
// fed beyond k are never delivered).
func (p *Pipe) FailAfter(k int, err error) {
	p.mu.Lock()
	p.failAt, p.failErr = k, err
	p.cond.Broadcast()
	p.mu.Unlock()
}

func (p *Pipe) Read(b []byte) (int, error) {
	if len(b) == 0 {
		// like net.Conn: a zero-length read returns at once
		p.mu.Lock()
		p.zeroRead++
		p.mu.Unlock()
		return 0, nil
	}
	p.mu.Lock()
	defer p.mu.Unlock()
	for {
		if p.closed {
			return 0, io.ErrClosedPipe
		}
		if p.failAt >= 0 && p.given >= p.failAt {
			return 0, p.failErr
		}
		if len(p.chunks) > 0 {
			break
		}
		p.parked = true
		p.cond.Broadcast()
		p.cond.Wait()
		p.parked = false
	}
	c := p.chunks[0]
	if len(c) == 0 {
		// a scripted zero-size read result
		p.chunks = p.chunks[1:]
		p.reads++
		return 0, nil
	}
	n := len(c)
	if n > len(b) {
		n = len(b)
	}
	if p.failAt >= 0 && p.given+n > p.failAt {
		n = p.failAt - p.given
	}
	copy(b, c[:n])
	if n == len(c) {
		p.chunks = p.chunks[1:]
	} else {
		p.chunks[0] = c[n:]
	}
	p.given += n
	p.reads++
	if p.eofWith >= 0 && p.given >= p.eofWith {
		// io.Reader permits returning the data and io.EOF from one call
		// (with the error installed by FailAfter if that one means "end of stream" too: a
		// wrapped io.EOF)
		e := error(io.EOF)
		if p.failErr != nil && errors.Is(p.failErr, io.EOF) {
			e = p.failErr
		}
		p.failAt, p.failErr = p.given, e
		return n, e
	}
	return n, nil
}

// EOFWithLastBytes makes the Read that delivers the k-th byte return io.EOF together
// with the data (and io.EOF from then on).
func (p *Pipe) EOFWithLastBytes(k int) {
	p.mu.Lock()
	p.eofWith = k
	p.mu.Unlock()
}

// WaitDrained blocks until the reader is parked in Read with nothing left to deliver
// (all parsing of delivered bytes is finished then), or the transport is failing /
// closed, or the timeout expires. It reports whether the drained state was reached.
func (p *Pipe) WaitDrained(timeout time.Duration) bool {
	deadline := time.Now().Add(timeout)
	timer := time.AfterFunc(timeout, func() {
		p.mu.Lock()
		p.cond.Broadcast()
		p.mu.Unlock()
	})
	defer timer.Stop()
	p.mu.Lock()
	defer p.mu.Unlock()
	for {
		if p.parked && len(p.chunks) == 0 {
			return true
		}
		if time.Now().After(deadline) {
			return false
		}
		p.cond.Wait()
	}
}

func (p *Pipe) Write(b []byte) (int, error) {
	p.mu.Lock()
	if p.closed {
		p.mu.Unlock()
		return 0, io.ErrClosedPipe
	}
	gate := p.writeGate
	if gate != nil {
		p.inWrite++
		p.cond.Broadcast()
		p.mu.Unlock()
		<-gate
		p.mu.Lock()
		p.inWrite--
		if p.closed {
			p.mu.Unlock()
			return 0, io.ErrClosedPipe
		}
	}
	p.writes++
	if p.writeFail != nil {
		if n, err := p.writeFail(p.writes, b); err != nil || n != len(b) {
			p.written = append(p.written, b[:n]...)
			p.cond.Broadcast()
			p.mu.Unlock()
			return n, err
		}
	}
	p.written = append(p.written, b...)
	p.writeLens = append(p.writeLens, len(b))
	cb := p.onWrite
	p.cond.Broadcast()
	p.mu.Unlock()
	if cb != nil {
		cb()
	}
	return len(b), nil
}

// GateWrites makes subsequent Writes park until the returned release func is called.
func (p *Pipe) GateWrites() (release func()) {
	g := make(chan struct{})
	p.mu.Lock()
	p.writeGate = g
	p.mu.Unlock()
	var once sync.Once
	return func() {
		once.Do(func() {
			p.mu.Lock()
			p.writeGate = nil
			p.mu.Unlock()
			close(g)
		})
	}
}

// LetNewWritesPass keeps the writes already parked at the gate parked (until the release func of
// GateWrites is called) and lets every later write through at once.
func (p *Pipe) LetNewWritesPass() {
	p.mu.Lock()
	p.writeGate = nil
	p.mu.Unlock()
}

// WaitParkedWrite waits until n writes are parked at the gate.
func (p *Pipe) WaitParkedWrite(n int, timeout time.Duration) bool {
	deadline := time.Now().Add(timeout)
	timer := time.AfterFunc(timeout, func() { p.mu.Lock(); p.cond.Broadcast(); p.mu.Unlock() })
	defer timer.Stop()
	p.mu.Lock()
	defer p.mu.Unlock()
	for p.inWrite < n {
		if time.Now().After(deadline) {
			return false
		}
		p.cond.Wait()
	}
	return true
}

// FailWrites installs a function deciding the result of the n-th Write (1-based):
// return (len(p), nil) to let it pass.
func (p *Pipe) FailWrites(f func(n int, b []byte) (int, error)) {
	p.mu.Lock()
	p.writeFail = f
	p.mu.Unlock()
}

// OnWrite installs a callback run after every successful Write (outside the lock).
func (p *Pipe) OnWrite(f func()) {
	p.mu.Lock()
	p.onWrite = f
	p.mu.Unlock()
}

func (p *Pipe) Close() error {
	p.mu.Lock()
	p.closed = true
	p.closeCnt++
	p.cond.Broadcast()
	err := p.closeErr
	p.mu.Unlock()
	return err
}

// FailClose makes Close report err (the transport is closed all the same), like a TLS
// connection that cannot deliver its close notification any more.
func (p *Pipe) FailClose(err error) {
	p.mu.Lock()
	p.closeErr = err
	p.mu.Unlock()
}

func (p *Pipe) Closed() bool {
	p.mu.Lock()
	defer p.mu.Unlock()
	return p.closed
}

// Written returns a copy of everything written so far.
func (p *Pipe) Written() []byte {
	p.mu.Lock()
	defer p.mu.Unlock()
	return append([]byte{}, p.written...)
}

// WrittenFrom returns a copy of what was written from offset off on (a peer that follows a
// long conversation does not copy all of it at every look).
func (p *Pipe) WrittenFrom(off int) []byte {
	p.mu.Lock()
	defer p.mu.Unlock()
	if off >= len(p.written) {
		return nil
	}
	return append([]byte{}, p.written[off:]...)
}

// WrittenLen returns the number of bytes written so far.
func (p *Pipe) WrittenLen() int {
	p.mu.Lock()
	defer p.mu.Unlock()
	return len(p.written)
}

// Stats returns (reads that returned data, zero-length reads, bytes given, writes).
func (p *Pipe) Stats() (int, int, int, int) {
	p.mu.Lock()
	defer p.mu.Unlock()
	return p.reads, p.zeroRead, p.given, p.writes
}

// WaitMessage waits until the bytes written from offset `from` on contain a complete
// message (a packet with the EOM bit) and returns its packets and the offset behind it.
func (p *Pipe) WaitMessage(from int, timeout time.Duration) ([]rc.Packet, int, error) {
	deadline := time.Now().Add(timeout)
	timer := time.AfterFunc(timeout, func() { p.mu.Lock(); p.cond.Broadcast(); p.mu.Unlock() })
	defer timer.Stop()
	p.mu.Lock()
	defer p.mu.Unlock()
	for {
		b := p.written[from:]
		var ps []rc.Packet
		off := 0
		for len(b)-off >= 8 {
			n := int(b[off+2])<<8 | int(b[off+3])
			if n < 8 {
				return nil, from, errors.New("peer: client wrote a packet with header length < 8")
			}
			if off+n > len(b) {
				break
			}
			pk := rc.Packet{Type: b[off], Status: b[off+1], Channel: uint16(b[off+4])<<8 | uint16(b[off+5]), Nr: b[off+6], Window: b[off+7], Body: append([]byte{}, b[off+8:off+n]...), Len: uint16(n)}
			ps = append(ps, pk)
			off += n
			if pk.Status&rc.StatEOM != 0 {
				return ps, from + off, nil
			}
		}
		if p.closed {
			return nil, from, io.ErrClosedPipe
		}
		if time.Now().After(deadline) {
			return nil, from, errors.New("peer: timeout waiting for a complete client message")
		}
		p.cond.Wait()
	}
}

// WriteLens returns the sizes of the successful Write calls so far.
func (p *Pipe) WriteLens() []int {
	p.mu.Lock()
	defer p.mu.Unlock()
	return append([]int{}, p.writeLens...)
}
