package c12

import (
	"context"
	"errors"
	"fmt"
	"runtime"
	"testing"
	"time"

	"pgregory.net/rapid"
	"verif/internal/peer"
	rc "verif/internal/refcodec"
	"verif/internal/vh"

	"github.com/SAP/go-dblib/dsn"
	"github.com/SAP/go-dblib/tds"
)

// life cycle of channels next to each other: (a) a channel whose consumer is behind (more
// packages than its queue holds, the reader is busy delivering to it) must not keep another
// channel from being closed; (b) channels created after others were closed: packets that still
// arrive for a closed channel are connection errors and reach nobody, and ids stay distinct
// over the history of the connection.

type lifeEnv struct {
	pipe *peer.Pipe
	srv  *server
	conn *tds.Conn
	bg   context.Context
	stop func()
}

func newLifeEnv(queue int) *lifeEnv {
	bg, cancel := context.WithCancel(context.Background())
	pipe := peer.NewPipe()
	srv := &server{pipe: pipe, idToIdx: map[int]int{}, nextNr: map[int]int{}, pending: map[int][]rc.Packet{}, reqSeen: map[int]int{}, msg: map[int][]byte{}, closed: map[int]bool{}, stop: make(chan struct{})}
	conn, done, err := tds.VerifNewConn(bg, pipe, &tds.Info{Info: dsn.Info{Host: "h"}, ChannelPackageQueueSize: queue, PacketReadTimeout: 5}, true)
	if err != nil {
		vh.HarnessBug("VerifNewConn: %v", err)
	}
	go srv.loop()
	e := &lifeEnv{pipe: pipe, srv: srv, conn: conn, bg: bg}
	e.stop = func() {
		close(srv.stop)
		cancel()
		pipe.Close()
		go func() {
			defer func() { recover() }()
			conn.Close()
		}()
		deadline := time.After(3 * time.Second)
		for {
			select {
			case <-done:
				return
			case <-deadline:
				return
			default:
				conn.VerifConnErr()
				time.Sleep(200 * time.Microsecond)
			}
		}
	}
	return e
}

func within(d time.Duration, fn func()) bool {
	done := make(chan struct{})
	go func() { defer close(done); fn() }()
	select {
	case <-done:
		return true
	case <-time.After(d):
		return false
	}
}

func retPacket(id, v int, eom bool) []byte {
	st := byte(0)
	if eom {
		st = rc.StatEOM
	}
	return rc.Packet{Type: rc.BufResponse, Channel: uint16(id), Status: st, Body: []byte{rc.TokReturnStatus, byte(v), byte(v >> 8), 0, 0}}.Bytes()
}

type backlogCase struct {
	Queue    int `json:"package_queue_size"`
	Logical  int `json:"logical_channels"`
	Behind   int `json:"channel_whose_consumer_is_behind"` // index into all channels (0 = main)
	Extra    int `json:"packages_beyond_the_queue"`
	CloseIdx int `json:"logical_channel_closed_meanwhile"` // index into the other logical channels
	Procs    int `json:"gomaxprocs"`
}

func runBacklog(c backlogCase) (f *vh.Failure) {
	defer func() {
		if r := recover(); r != nil {
			vh.CheckHarnessPanic(r)
			f = vh.Failf("C12/panic", "panic: %v", r)
		}
	}()
	old := runtime.GOMAXPROCS(c.Procs)
	defer runtime.GOMAXPROCS(old)
	e := newLifeEnv(c.Queue)
	defer e.stop()
	var chans []*tds.Channel
	for i := 0; i <= c.Logical; i++ {
		var ch *tds.Channel
		var err error
		if !within(5*time.Second, func() { ch, err = e.conn.NewChannel() }) || err != nil {
			return vh.Failf("C12/newchannel", "NewChannel %d: %v", i, err)
		}
		chans = append(chans, ch)
	}
	a := chans[c.Behind%len(chans)]
	var others []*tds.Channel
	for _, ch := range chans[1:] {
		if ch != a {
			others = append(others, ch)
		}
	}
	b := others[c.CloseIdx%len(others)]
	where := fmt.Sprintf("queue size %d, channels %d, channel %d is %d packages behind, channel %d is closed meanwhile, GOMAXPROCS %d", c.Queue, len(chans), a.VerifID(), c.Queue+1+c.Extra, b.VerifID(), c.Procs)
	n := c.Queue + 1 + c.Extra
	for v := 0; v < n; v++ {
		e.pipe.Feed(retPacket(a.VerifID(), v, false))
	}
	// the reader holds a's read lock while it delivers: wait until it is stuck there
	stuck := false
	for t0 := time.Now(); time.Since(t0) < 2*time.Second; {
		if a.TryLock() {
			a.Unlock()
			time.Sleep(100 * time.Microsecond)
			continue
		}
		// still held a little later?
		time.Sleep(300 * time.Microsecond)
		if !a.TryLock() {
			stuck = true
			break
		}
		a.Unlock()
	}
	if !stuck {
		vh.Label("backlog:reader-not-observed-stuck")
		return nil
	}
	var cerr error
	if !within(3*time.Second, func() { cerr = b.Close() }) {
		return vh.Failf("C12/close-blocked-by-backlog-of-another-channel", "%s: Close of the idle channel did not return within 3 s", where)
	}
	if cerr != nil {
		return vh.Failf("C12/close", "%s: Close: %v", where, cerr)
	}
	if _, err := b.NextPackage(e.bg, false); !errors.Is(err, tds.ErrChannelClosed) {
		return vh.Failf("C12/closed-channel-still-usable", "%s: NextPackage on the closed channel returns %v", where, err)
	}
	// the channel that was behind gets everything, in order
	for v := 0; v < n; v++ {
		wctx, cancel := context.WithTimeout(e.bg, 3*time.Second)
		p, err := a.NextPackage(wctx, true)
		cancel()
		if err != nil {
			return vh.Failf("C12/backlog-lost", "%s: package %d of %d: %v", where, v, n, err)
		}
		rs, ok := p.(*tds.ReturnStatusPackage)
		if !ok || fmt.Sprint(rs) == "" {
			return vh.Failf("C12/backlog-lost", "%s: package %d is a %T", where, v, p)
		}
	}
	e.srv.mu.Lock()
	problems := append([]string{}, e.srv.problems...)
	e.srv.mu.Unlock()
	if len(problems) > 0 {
		return vh.Failf("C12/peer-sees-wrong-packets", "%s: %s", where, problems[0])
	}
	vh.Label("backlog:other-channel-closed-while-reader-stuck")
	vh.NonTrivial(fmt.Sprintf("%+v", c))
	return nil
}

func TestBacklogIsolation(t *testing.T) {
	gen := func(rt *rapid.T) backlogCase {
		c := backlogCase{Queue: rapid.IntRange(1, 3).Draw(rt, "queue"), Logical: rapid.IntRange(2, 4).Draw(rt, "logical"), Extra: rapid.IntRange(1, 4).Draw(rt, "extra"), Procs: rapid.SampledFrom([]int{1, 2, 4, 16}).Draw(rt, "procs")}
		c.Behind = rapid.IntRange(0, c.Logical).Draw(rt, "behind")
		c.CloseIdx = rapid.IntRange(0, 3).Draw(rt, "closeidx")
		vh.Sample("backlog", c)
		return c
	}
	vh.Check(t, "TestBacklogIsolation", vh.N(40, 1200), gen, runBacklog)
}

type reuseCase struct {
	First  int   `json:"channels_created_first"`
	Close  []int `json:"indices_closed"` // indices into the first batch (taken mod, duplicates skipped)
	Second int   `json:"channels_created_afterwards"`
	Procs  int   `json:"gomaxprocs"`
}

func runReuse(c reuseCase) (f *vh.Failure) {
	defer func() {
		if r := recover(); r != nil {
			vh.CheckHarnessPanic(r)
			f = vh.Failf("C12/panic", "panic: %v", r)
		}
	}()
	old := runtime.GOMAXPROCS(c.Procs)
	defer runtime.GOMAXPROCS(old)
	e := newLifeEnv(100)
	defer e.stop()
	create := func() (*tds.Channel, *vh.Failure) {
		var ch *tds.Channel
		var err error
		if !within(5*time.Second, func() { ch, err = e.conn.NewChannel() }) || err != nil {
			return nil, vh.Failf("C12/newchannel", "NewChannel: %v", err)
		}
		return ch, nil
	}
	if _, f := create(); f != nil { // main channel
		return f
	}
	var first []*tds.Channel
	ids := map[int]string{0: "the main channel"}
	note := func(ch *tds.Channel, what string) *vh.Failure {
		if prev, dup := ids[ch.VerifID()]; dup {
			return vh.Failf("C12/channel-id-not-distinct", "%+v: %s got id %d, which %s has (or had) on this connection", c, what, ch.VerifID(), prev)
		}
		ids[ch.VerifID()] = what
		return nil
	}
	for i := 0; i < c.First; i++ {
		ch, f := create()
		if f != nil {
			return f
		}
		if f := note(ch, fmt.Sprintf("channel %d of the first batch", i)); f != nil {
			return f
		}
		first = append(first, ch)
	}
	var closedIDs []int
	closed := map[int]bool{}
	lastClosed := false
	for _, k := range c.Close {
		i := k % len(first)
		if closed[i] {
			continue
		}
		closed[i] = true
		var err error
		if !within(5*time.Second, func() { err = first[i].Close() }) || err != nil {
			return vh.Failf("C12/close", "%+v: Close of channel %d: %v", c, first[i].VerifID(), err)
		}
		closedIDs = append(closedIDs, first[i].VerifID())
		lastClosed = lastClosed || i == len(first)-1
	}
	var second []*tds.Channel
	for i := 0; i < c.Second; i++ {
		ch, f := create()
		if f != nil {
			return f
		}
		if f := note(ch, fmt.Sprintf("channel %d created after the closes", i)); f != nil {
			return f
		}
		second = append(second, ch)
	}
	// what the server still had in flight for the closed channels: the acknowledgement of the
	// close and a package
	for e.conn.VerifConnErr() != nil {
	}
	for _, id := range closedIDs {
		e.pipe.Feed(rc.Packet{Type: rc.BufClose, Channel: uint16(id), Status: rc.StatEOM}.Bytes())
		e.pipe.Feed(rc.Packet{Type: rc.BufResponse, Channel: uint16(id), Status: rc.StatEOM, Body: []byte{rc.TokDone, 0, 0, 0, 0, 7, 0, 0, 0}}.Bytes())
	}
	got := 0
	deadline := time.Now().Add(3 * time.Second)
	for got < 2*len(closedIDs) && time.Now().Before(deadline) {
		if err := e.conn.VerifConnErr(); err != nil {
			got++
		} else {
			time.Sleep(100 * time.Microsecond)
		}
	}
	live := append([]*tds.Channel{}, second...)
	for i, ch := range first {
		if !closed[i] {
			live = append(live, ch)
		}
	}
	for _, ch := range live {
		if p, err := ch.NextPackage(e.bg, false); !errors.Is(err, tds.ErrNoPackageReady) {
			return vh.Failf("C12/packet-for-closed-channel-delivered-to-another-channel", "%+v: after late packets for the closed channels %v the live channel %d received %v (err %v)", c, closedIDs, ch.VerifID(), p, err)
		}
	}
	if got != 2*len(closedIDs) {
		return vh.Failf("C12/packet-for-closed-channel-not-reported", "%+v: %d late packets for the closed channels %v produced %d connection errors", c, 2*len(closedIDs), closedIDs, got)
	}
	e.srv.mu.Lock()
	problems := append([]string{}, e.srv.problems...)
	e.srv.mu.Unlock()
	if len(problems) > 0 {
		return vh.Failf("C12/peer-sees-wrong-packets", "%+v: %s", c, problems[0])
	}
	if lastClosed && c.Second > 0 {
		vh.Label("lifecycle:newest-channel-closed-then-another-created")
		vh.NonTrivial(fmt.Sprintf("%+v", c))
	}
	vh.Label("lifecycle:create-after-close")
	return nil
}

func TestCreateAfterClose(t *testing.T) {
	gen := func(rt *rapid.T) reuseCase {
		c := reuseCase{First: rapid.IntRange(1, 4).Draw(rt, "first"), Second: rapid.IntRange(1, 3).Draw(rt, "second"), Procs: rapid.SampledFrom([]int{1, 4}).Draw(rt, "procs")}
		c.Close = rapid.SliceOfN(rapid.IntRange(0, 3), 1, 3).Draw(rt, "close")
		if rapid.Bool().Draw(rt, "closenewest") {
			c.Close = append(c.Close, c.First-1)
		}
		vh.Sample("create-after-close", c)
		return c
	}
	vh.Check(t, "TestCreateAfterClose", vh.N(40, 1200), gen, runReuse)
}
