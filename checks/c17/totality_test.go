package c17

import (
	"fmt"
	"strings"
	"testing"

	"github.com/SAP/go-dblib/dsn"
	"pgregory.net/rapid"
	"verif/internal/vh"
)

// ---------------------------------------------------------------- (5) totality

// The 14 symbols of the plan; 'a' and 'p' are real keys of Ext (string and int).
var alphabet14 = []byte{'"', '\'', ' ', '=', 'a', 'p', ':', '/', '?', '&', '%', '@', '#', '\\'}

// A smaller alphabet around the simple-form tokenizer for longer strings.
var alphabet5 = []byte{'"', '\'', ' ', '=', 'a'}

var parsers = []struct {
	name string
	fn   func(string, interface{}) error
}{{"Parse", dsn.Parse}, {"ParseURI", dsn.ParseURI}, {"ParseSimple", dsn.ParseSimple}}

// simplePanicClass names the root cause of a ParseSimple panic from the shape of
// the input. It walks the input like the documented tokenizer (split on spaces,
// re-join a quoted value, strip the quotes) with bounds checks and reports the
// first construct that is not covered by one. It only chooses the class key; the
// verdict (a panic happened) does not depend on it.
func simplePanicClass(s string) string {
	quotes := []byte{'\'', '"'}
	parts := strings.Split(s, " ")
	for len(parts) > 0 {
		part := parts[0]
		parts = parts[1:]
		for _, q := range quotes {
			if !strings.Contains(part, "="+string(q)) {
				continue
			}
			for part[len(part)-1] != q {
				if len(parts) == 0 {
					// the closing quote never comes
					return "C17/parsesimple-panic-unterminated-quote"
				}
				part += " " + parts[0]
				parts = parts[1:]
			}
			break
		}
		kv := strings.SplitN(part, "=", 2)
		if len(kv) != 2 {
			break
		}
		v := kv[1]
		if v == "" {
			continue
		}
		for _, q := range quotes {
			if len(v) == 0 {
				// '' was stripped to nothing and is then indexed for the other quote
				return "C17/parsesimple-panic-empty-single-quoted"
			}
			if v[0] == q && v[len(v)-1] == q {
				if len(v) == 1 {
					// the value is one quote character: opening and closing quote are
					// the same byte. If a later part ends with that quote the input was
					// a quoted value that begins with a space.
					for _, rest := range parts {
						if strings.HasSuffix(rest, string(q)) && kv[1] == string(q) {
							return "C17/simple-leading-space-value"
						}
					}
					return "C17/parsesimple-panic-lone-quote"
				}
				v = v[1 : len(v)-1]
			}
		}
	}
	return "C17/parsesimple-panic-other"
}

func panicClass(fn, s string) string {
	if fn == "ParseURI" || (fn == "Parse" && strings.Contains(s, "://")) {
		return "C17/parseuri-panic"
	}
	return simplePanicClass(s)
}

func runTotal(c strCase) *vh.Failure {
	s := c.str()
	accepted := false
	for _, p := range parsers {
		out := new(Ext)
		err, pv := try(func() error { return p.fn(s, out) })
		if pv != nil {
			return vh.Failf(panicClass(p.name, s), "%s(%q, *Ext) panicked: %v", p.name, s, pv)
		}
		accepted = accepted || err == nil
	}
	l := "totality:rejected-by-all"
	if accepted {
		l = "totality:accepted-by-some"
	}
	if strings.ContainsAny(s, `"'=`) {
		vh.NonTrivial("T" + s)
		switch {
		case strings.ContainsAny(s, `"'`) && strings.Contains(s, "="):
			vh.Label(l, "totality:quote-and-equals")
		case strings.Contains(s, "="):
			vh.Label(l, "totality:equals")
		default:
			vh.Label(l, "totality:quote")
		}
	} else {
		vh.Label(l)
	}
	return nil
}

// over enumerates prefix+w for every w over alpha with minL <= len(w) <= maxL.
func over(alpha []byte, prefix string, minL, maxL int, yield func(string) bool) bool {
	buf := make([]byte, 0, len(prefix)+maxL)
	for L := minL; L <= maxL; L++ {
		idx := make([]int, L)
		for {
			buf = append(buf[:0], prefix...)
			for _, k := range idx {
				buf = append(buf, alpha[k])
			}
			if !yield(string(buf)) {
				return false
			}
			j := L - 1
			for ; j >= 0; j-- {
				idx[j]++
				if idx[j] < len(alpha) {
					break
				}
				idx[j] = 0
			}
			if j < 0 {
				break
			}
		}
	}
	return true
}

// enumStrings runs `run` over this shard's part of an enumeration. The harness
// stops an enumeration at its first failure; to see every root-cause class of a
// space in one run, the enumeration is resumed after a failure with that class
// muted (counted under a label). Replays go through the unmuted function.
func enumStrings(t *testing.T, check, space string, run func(strCase) *vh.Failure, gen func(yield func(string) bool) bool) {
	reported := map[string]bool{}
	last := ""
	wrapped := func(c strCase) *vh.Failure {
		f := run(c)
		if f != nil && reported[f.Class] {
			vh.Label("totality:repeat-of-reported-class")
			return nil
		}
		if f != nil {
			last = f.Class
		}
		return f
	}
	e := vh.NewEnum(t, check, wrapped)
	if e.Skip() {
		return
	}
	i, failed, sampled := 0, false, 0
	gen(func(s string) bool {
		mine := vh.Mine(i)
		i++
		if !mine {
			return true
		}
		c := mkStr(s)
		if sampled < 2 && len(s) >= 4 && strings.Contains(s, "=") && strings.ContainsAny(s, `"'`) {
			sampled++
			vh.Sample(check, c)
		}
		if !e.Do(c) {
			failed = true
			reported[last] = true
			if len(reported) >= 8 {
				return false
			}
			e = vh.NewEnum(t, check, wrapped)
		}
		return true
	})
	if !failed {
		e.Done(space)
	}
}

func TestTotalityExhaustive(t *testing.T) {
	maxL, space := 5, `all strings over {" ' space = a p : / ? & % @ # \} of length 0..5`
	if vh.Thorough() {
		maxL, space = 6, `all strings over {" ' space = a p : / ? & % @ # \} of length 0..6`
	}
	enumStrings(t, "TestTotalityExhaustive", space, runTotal, func(y func(string) bool) bool {
		return over(alphabet14, "", 0, maxL, y)
	})
}

// key= / quote prefixes that put the tokenizer into its quoted-value states.
var totalPrefixes = []string{`a="`, `a='`, `p=`, `a=x `, `a="x `, `a=' `, `password="`, `a=a a=`}

func TestTotalityKeyPrefixed(t *testing.T) {
	maxL := 4
	if vh.Thorough() {
		maxL = 5
	}
	space := fmt.Sprintf(`each of %q followed by every string over the 14-symbol alphabet of length 0..%d`, totalPrefixes, maxL)
	enumStrings(t, "TestTotalityKeyPrefixed", space, runTotal, func(y func(string) bool) bool {
		for _, p := range totalPrefixes {
			if !over(alphabet14, p, 0, maxL, y) {
				return false
			}
		}
		return true
	})
}

func TestTotalityQuoteAlphabet(t *testing.T) {
	maxL := 8
	if vh.Thorough() {
		maxL = 10
	}
	space := fmt.Sprintf(`all strings over {" ' space = a} of length 6..%d`, maxL)
	enumStrings(t, "TestTotalityQuoteAlphabet", space, runTotal, func(y func(string) bool) bool {
		return over(alphabet5, "", 6, maxL, y)
	})
}

var totalTokens = []string{"a", "a=", "p=", "=", " ", `"`, `'`, "x", "host=", "password=", "pass=", "db=", "p=5", "://", "ase://", "u:p@h:1/", "?a=b", "&", "?", "/", ":", "@",
	"%zz", "%41", "%", "\\", "#", "KEY", "é", "  ", `=""`, `=''`, `=" `, `=' `, "[", "]", "[::1]", "\n", "\x00", ";", "+"}

var validDSNs = []string{
	`host=h port=1 username=u password="a b" database=d`,
	`a='x y' p=5 flag=true`,
	`ase://u:p@h:1/db?a=x&p=5`,
	`//user:pass@host:12345/?database=db`,
	`a=" x" note=' '`,
	`ase://?a=%20&note=KEY`,
}

func genTotal(t *rapid.T) strCase {
	var s string
	switch rapid.IntRange(0, 4).Draw(t, "shape") {
	case 0: // just beyond the exhaustive lengths
		b := rapid.SliceOfN(rapid.SampledFrom(alphabet14), 6, 12).Draw(t, "sym")
		s = string(b)
	case 1:
		b := rapid.SliceOfN(rapid.SampledFrom(alphabet14), 13, 40).Draw(t, "sym")
		s = string(b)
	case 2:
		s = strings.Join(rapid.SliceOfN(rapid.SampledFrom(totalTokens), 1, 10).Draw(t, "tok"), "")
	case 3: // a valid DSN with one byte deleted, replaced or inserted
		s = rapid.SampledFrom(validDSNs).Draw(t, "valid")
		pos := rapid.IntRange(0, len(s)-1).Draw(t, "pos")
		sym := string(rapid.SampledFrom(alphabet14).Draw(t, "sym"))
		switch rapid.IntRange(0, 2).Draw(t, "edit") {
		case 0:
			s = s[:pos] + s[pos+1:]
		case 1:
			s = s[:pos] + sym + s[pos+1:]
		default:
			s = s[:pos] + sym + s[pos:]
		}
	default:
		s = rapid.String().Draw(t, "unicode")
		if rapid.Bool().Draw(t, "keyed") {
			s = "a=" + s
		}
	}
	if len(s) > 40 && !strings.HasPrefix(s, "host=h port=1") {
		s = s[:40]
	}
	c := mkStr(s)
	if len(s) > 12 {
		vh.Sample("totality-random", c)
	}
	return c
}

func TestTotalityRandom(t *testing.T) {
	vh.Check(t, "TestTotalityRandom", vh.N(50000, 3000000), genTotal, runTotal)
}
