package c01

import (
	"bytes"
	"context"
	"fmt"
	"testing"
	"time"

	"pgregory.net/rapid"
	"verif/internal/peer"
	rc "verif/internal/refcodec"
	"verif/internal/vh"

	"github.com/SAP/go-dblib/tds"
)

// Two channels of ONE connection send at the same time (the main channel and a logical one):
// the transport takes its time with the first packet of the one while the other sends. Each
// Write the transport sees is still one whole packet of one channel, and per channel the packets
// concatenate to that channel's message. (The transport looks at the bytes it was handed only
// when it actually gets to write them - like a socket whose send buffer is full.)

type twoChanCase struct {
	LenA  int  `json:"message_bytes_main_channel"`
	LenB  int  `json:"message_bytes_logical_channel"`
	First int  `json:"channel_whose_write_is_held_first"` // 0 main, 1 logical
	Both  bool `json:"second_write_held_too"`
}

func runTwoChannels(c twoChanCase) (f *vh.Failure) {
	defer func() {
		if r := recover(); r != nil {
			vh.CheckHarnessPanic(r)
			f = vh.Failf("C01/panic", "panic: %v", r)
		}
	}()
	ctx, cancel := context.WithCancel(context.Background())
	pipe := peer.NewPipe()
	conn, done, err := tds.VerifNewConn(ctx, pipe, &tds.Info{ChannelPackageQueueSize: 100, PacketReadTimeout: 5}, true)
	if err != nil {
		vh.HarnessBug("VerifNewConn: %v", err)
	}
	defer func() {
		cancel()
		pipe.Close()
		go func() { defer func() { recover() }(); conn.Close() }()
		select {
		case <-done:
		case <-time.After(3 * time.Second):
		}
	}()
	ch0, err := conn.NewChannel()
	if err != nil {
		vh.HarnessBug("NewChannel: %v", err)
	}
	// the logical channel: acknowledge its setup packet
	type res struct {
		ch  *tds.Channel
		err error
	}
	rch := make(chan res, 1)
	go func() { ch, err := conn.NewChannel(); rch <- res{ch, err} }()
	ps, off, err := pipe.WaitMessage(0, 3*time.Second)
	if err != nil || len(ps) != 1 || ps[0].Type != rc.BufSetup {
		return vh.Failf("C01/setup", "no SETUP packet for the logical channel: %v %v", ps, err)
	}
	pipe.Feed(rc.Packet{Type: rc.BufProtAck, Channel: ps[0].Channel, Status: rc.StatEOM}.Bytes())
	var ch1 *tds.Channel
	select {
	case r := <-rch:
		if r.err != nil {
			return vh.Failf("C01/setup", "NewChannel (logical): %v", r.err)
		}
		ch1 = r.ch
	case <-time.After(3 * time.Second):
		return vh.Failf("C01/setup", "NewChannel (logical) did not return after the acknowledgement")
	}
	chans := []*tds.Channel{ch0, ch1}
	lens := []int{c.LenA, c.LenB}
	want := make([][]byte, 2)
	pkgs := make([]tds.Package, 2)
	for i := range chans {
		d := []pdesc{{Kind: "language", N: lens[i]}}
		want[i], err = expected(d, byte(40+i))
		if err != nil {
			vh.HarnessBug("expected: %v", err)
		}
		pkgs[i] = build(d[0], byte(40+i))[0]
	}
	release := pipe.GateWrites()
	errs := make(chan error, 2)
	send := func(i int) { errs <- chans[i].SendPackage(ctx, pkgs[i]) }
	first, second := c.First%2, 1-c.First%2
	go send(first)
	if !pipe.WaitParkedWrite(1, 3*time.Second) {
		release()
		return vh.Failf("C01/send-error", "%+v: the first send never reached the transport", c)
	}
	go send(second)
	if c.Both {
		// both first packets are waiting for the transport
		// (a library that lets only one channel at a time write to the connection is fine too:
		// then the second one simply waits)
		if !pipe.WaitParkedWrite(2, 300*time.Millisecond) {
			vh.Label("two-channels:second-write-waits-for-the-first")
		}
	} else {
		time.Sleep(300 * time.Microsecond)
	}
	release()
	for i := 0; i < 2; i++ {
		select {
		case err := <-errs:
			if err != nil {
				return vh.Failf("C01/send-error", "%+v: SendPackage: %v", c, err)
			}
		case <-time.After(5 * time.Second):
			return vh.Failf("C01/send-error", "%+v: SendPackage did not return", c)
		}
	}
	// what the transport saw after the setup packet
	written := pipe.Written()[off:]
	lensW := pipe.WriteLens()[1:]
	got := make([][]byte, 2)
	lastEOM := []bool{false, false}
	pos := 0
	for wi, n := range lensW {
		if pos+n > len(written) || n < 8 {
			return vh.Failf("C01/header-length-mismatch", "%+v: write %d has %d bytes", c, wi, n)
		}
		b := written[pos : pos+n]
		pos += n
		hl := int(b[2])<<8 | int(b[3])
		id := int(b[4])<<8 | int(b[5])
		if hl != n {
			return vh.Failf("C01/header-length-mismatch", "%+v: write %d of %d bytes carries header length %d (one write = one packet)", c, wi, n, hl)
		}
		if id > 1 {
			return vh.Failf("C01/wrong-channel-id", "%+v: write %d carries channel id %d", c, wi, id)
		}
		if lastEOM[id] {
			return vh.Failf("C01/eom-on-inner-packet", "%+v: channel %d sent a packet after its end-of-message packet", c, id)
		}
		lastEOM[id] = b[1]&rc.StatEOM != 0
		got[id] = append(got[id], b[8:]...)
	}
	for i := range chans {
		if !bytes.Equal(got[i], want[i]) {
			j := 0
			for j < len(got[i]) && j < len(want[i]) && got[i][j] == want[i][j] {
				j++
			}
			return vh.Failf("C01/body-mismatch", "%+v: channel %d: packet bodies (%d bytes) differ from the message (%d bytes) at offset %d while the other channel was sending too", c, i, len(got[i]), len(want[i]), j)
		}
		if !lastEOM[i] {
			return vh.Failf("C01/no-eom-on-last-packet", "%+v: channel %d: the last packet has no end-of-message flag", c, i)
		}
	}
	vh.Label("two-channels-sending-at-once")
	vh.NonTrivial(fmt.Sprintf("%+v", c))
	return nil
}

func TestTwoChannelsSendingAtOnce(t *testing.T) {
	gen := func(rt *rapid.T) twoChanCase {
		l := func(label string) int {
			if rapid.Bool().Draw(rt, label+"-short") {
				return rapid.IntRange(1, 400).Draw(rt, label)
			}
			return rapid.IntRange(400, 2600).Draw(rt, label)
		}
		c := twoChanCase{LenA: l("a"), LenB: l("b"), First: rapid.IntRange(0, 1).Draw(rt, "first"), Both: rapid.Bool().Draw(rt, "both")}
		vh.Sample("two-channels", c)
		return c
	}
	vh.Check(t, "TestTwoChannelsSendingAtOnce", vh.N(150, 3000), gen, runTwoChannels)
}
