// C18 — pooled names are unique among concurrent holders.
//
// Part A (TestSequentialModel): a sequential state machine over one pool, model = set of
// live ids. Part B (TestConcurrentHolders): 1..64 goroutines run pre-drawn programs against
// one pool; an online monitor (mutex-guarded set of live ids and texts) that is sound under
// every schedule decides uniqueness. The driver runs this package as a -race binary; a race
// report is a violation too.
package c18

import (
	"fmt"
	"reflect"
	"runtime"
	"sort"
	"strconv"
	"strings"
	"sync"
	"sync/atomic"
	"testing"
	"time"
	"unsafe"

	"github.com/SAP/go-dblib/namepool"
	"pgregory.net/rapid"
	"verif/internal/vh"
)

func TestMain(m *testing.M) {
	vh.Rule("formats: literal prefix + one base-10 verb (%d, %3d, %05d, %-4d, %+d) + literal suffix, literals from a token list incl. '%' (escaped), digits, blanks, non-ASCII. " +
		"TestSequentialModel: rapid histories of 1..80 ops {acquire, release slot i via pool.Release or Name.Release, immediate double release of slot i (both ways), late re-release of an already released *Name, Release(nil), runtime.GC (<=3 per case), forgetting all released names followed by two collections with pauses (finalizers get to run)}; formats incl. long ones (prefix 120..1000 bytes) against the model 'set of live ids'. " +
		"TestConcurrentHolders: goroutines 1..64 (buckets 1-2/3-8/9-32/33-64), GOMAXPROCS in {1,4,16}, 1..8 program templates over the op letters a(cquire) r/R(elease newest/oldest via pool) m (Name.Release) d/e (double release pool/method) x/y (late re-release of an old pointer) n (Release(nil)) g (Gosched) s/S (spin) G (runtime.GC, budget 0..3 per execution), every goroutine is assigned one template, all start together on a fresh pool; every case is executed Reps (3..6) times because the schedule is not part of the case. Runs of consecutive acquires (releases) are performed back to back with one monitor update after (before) them, so that library calls of different goroutines overlap without harness synchronisation in between. " +
		"Non-trivial: during an execution an id was handed to a different goroutine (sequential part: a different slot) after a release while other names were live; distinct by the whole case")
	vh.Assume("the monitor is sound, not complete: a holder registers its id/text after Acquire returns and deregisters before calling Release, so two registered holders of one id/text were really simultaneous holders; collisions whose overlap is shorter than the registration gap are only seen by repeated executions. " +
		"Expected texts come from strconv + own padding, not from fmt. 'Cleared' is observed as *name == namepool.Name{} and Name()/String() == \"\". " +
		"'Makes its id available again' is only observed (label id-reused): sync.Pool may drop items (always after two GCs, randomly under -race). " +
		"Data races are reported by the race detector through the driver, the harness mutex adds happens-before edges only between monitor updates")
	vh.Rule("also: 1..3 goroutines acquiring from OTHER pools (other formats) during the concurrent executions, their texts checked too; sequential histories that start three ids below 2^16, 2^31, 2^32 (the id counter is moved from the check, found by reflection)")
	vh.Main(m, "C18")
}

// ---------------------------------------------------------------------------------------
// formats

type fmtSpec struct {
	Prefix string `json:"prefix"` // literal text ('%' stands for itself)
	Verb   string `json:"verb"`
	Suffix string `json:"suffix"`
}

// only base-10 integer verbs: the constructor's documentation asks for exactly one %d.
var verbs = []string{"%d", "%d", "%d", "%3d", "%05d", "%-4d", "%+d"}

// ("%" stands for a literal percent sign, written %% in the format: followed by "d", "s" or "v" it
// looks like a verb and is none)
var literalTokens = []string{"", "n", "name ", "tbl_", "#", "%", "%", "d", "done", "s", "v", "é", "漢", "7", "0", " ", "_x", "-", "1"}

func esc(s string) string { return strings.ReplaceAll(s, "%", "%%") }

func (f fmtSpec) format() string { return esc(f.Prefix) + f.Verb + esc(f.Suffix) }

func pad(s string, w int, c byte, left bool) string {
	for len(s) < w {
		if left {
			s = string(c) + s
		} else {
			s = s + string(c)
		}
	}
	return s
}

// render is the reference formatting of one id (independent of fmt).
func render(verb string, id uint64) (string, bool) {
	d := strconv.FormatUint(id, 10)
	switch verb {
	case "%d":
		return d, true
	case "%3d":
		return pad(d, 3, ' ', true), true
	case "%05d":
		return pad(d, 5, '0', true), true
	case "%-4d":
		return pad(d, 4, ' ', false), true
	case "%+d":
		return "+" + d, true
	}
	return "", false
}

func (f fmtSpec) valid() bool { _, ok := render(f.Verb, 1); return ok }

func (f fmtSpec) text(id uint64) string {
	r, _ := render(f.Verb, id)
	return f.Prefix + r + f.Suffix
}

func genFmt(rt *rapid.T) fmtSpec {
	lit := func(label string) string {
		return strings.Join(rapid.SliceOfN(rapid.SampledFrom(literalTokens), 0, 3).Draw(rt, label), "")
	}
	f := fmtSpec{Prefix: lit("prefix"), Verb: rapid.SampledFrom(verbs).Draw(rt, "verb"), Suffix: lit("suffix")}
	if rapid.IntRange(0, 7).Draw(rt, "long") == 0 {
		// "all formats": long ones too (identifiers near and beyond 255 bytes)
		f.Prefix += strings.Repeat("p", rapid.SampledFrom([]int{120, 250, 251, 252, 253, 254, 255, 256, 300, 1000}).Draw(rt, "longprefix"))
	}
	return f
}

func isZero(n *namepool.Name) bool {
	return *n == (namepool.Name{}) && n.Name() == "" && n.String() == ""
}

// Failures here can depend on the schedule (and, in the race binary, on sync.Pool dropping
// one Put in four), but rapid only shrinks when re-running a failing input gives the very
// same error text. A case that failed once in this process therefore keeps its first
// failure (with the history of that execution); replay files are re-executed for real.
var (
	memoMu   sync.Mutex
	failMemo = map[string]*vh.Failure{}
)

func memoized[C any](run func(C) *vh.Failure) func(C) *vh.Failure {
	return func(c C) *vh.Failure {
		if vh.Replaying() {
			return run(c)
		}
		key := fmt.Sprintf("%T%+v", c, c)
		memoMu.Lock()
		f := failMemo[key]
		memoMu.Unlock()
		if f != nil {
			return f
		}
		if f = run(c); f != nil {
			memoMu.Lock()
			failMemo[key] = f
			memoMu.Unlock()
		}
		return f
	}
}

// shrinking reports whether a failure was already seen in this process, i.e. rapid is
// minimising: smaller cases fail less often, so executions are repeated more then.
func shrinking() bool {
	memoMu.Lock()
	defer memoMu.Unlock()
	return len(failMemo) > 0
}

// ---------------------------------------------------------------------------------------
// Part A: sequential state machine

type seqOp struct {
	K string `json:"k"` // a acquire, r pool.Release(slot), m slot.Release(), d/e double release (pool/method), x/y re-release old pointer (pool/method), n Release(nil), G GC
	I int    `json:"i"` // slot selector (mod number of candidates)
}

type seqCase struct {
	Fmt fmtSpec `json:"fmt"`
	Ops []seqOp `json:"ops"`
	// Skip: the history starts where a long-lived process arrives after 2^Skip acquisitions
	// (16, 31, 32): the pool's id counter is moved to three below that number first
	Skip int `json:"ids_already_used_2_to_the,omitempty"`
}

type heldName struct {
	n    *namepool.Name
	id   uint64
	text string
}

func runSeq(c seqCase) (fail *vh.Failure) {
	if !c.Fmt.valid() {
		vh.Label("invalid-case")
		return nil
	}
	stage, opi := "setup", -1
	defer func() {
		if r := recover(); r != nil {
			fail = vh.Failf("C18/panic-"+stage, "format %q, op %d of %v: panic: %v", c.Fmt.format(), opi, c.Ops, r)
		}
	}()
	pool := namepool.Pool(c.Fmt.format())
	if c.Skip > 0 {
		if skipIDs(pool, c.Skip) {
			vh.Label(fmt.Sprintf("ids-beyond-2^%d", c.Skip))
		} else {
			vh.Label("id-counter-not-found:history-starts-at-1")
		}
	}
	var held []heldName
	var released []heldName  // zeroed pointers with the id they had
	live := map[uint64]int{} // id -> op index of acquisition
	liveText := map[string]uint64{}
	everReleased := map[uint64]bool{}
	doubled := map[uint64]bool{}
	reuse, reuseWhileLive := 0, 0
	hasDouble, hasGC, hasNil, hasForget := false, false, false, false
	acquiredAfterRelease := false

	release := func(h heldName, method bool) *vh.Failure {
		// the name must still be what was acquired
		if h.n.ID() != h.id || h.n.Name() != h.text {
			return vh.Failf("C18/held-name-changed", "op %d: name acquired as id %d %q is now id %d %q", opi, h.id, h.text, h.n.ID(), h.n.Name())
		}
		delete(live, h.id)
		delete(liveText, h.text)
		everReleased[h.id] = true
		if method {
			h.n.Release()
		} else {
			pool.Release(h.n)
		}
		if !isZero(h.n) {
			return vh.Failf("C18/name-not-cleared-by-release", "op %d: after releasing id %d the Name is not the zero value: Name()=%q", opi, h.id, h.n.Name())
		}
		return nil
	}
	again := func(h heldName, method bool) *vh.Failure {
		doubled[h.id] = true
		if method {
			h.n.Release()
		} else {
			pool.Release(h.n)
		}
		if !isZero(h.n) {
			return vh.Failf("C18/name-not-cleared-by-release", "op %d: after the second release of id %d the Name is not the zero value: Name()=%q", opi, h.id, h.n.Name())
		}
		return nil
	}

	for i, op := range c.Ops {
		opi = i
		switch op.K {
		case "a":
			stage = "acquire"
			n := pool.Acquire()
			if n == nil {
				return vh.Failf("C18/acquire-nil", "op %d: Acquire returned nil", i)
			}
			id, text := n.ID(), n.Name()
			if id == 0 {
				return vh.Failf("C18/zero-id", "op %d: Acquire returned id 0 (text %q)", i, text)
			}
			if want := c.Fmt.text(id); text != want || n.String() != want {
				return vh.Failf("C18/text-not-format-of-id", "op %d: format %q id %d: Name()=%q String()=%q, want %q", i, c.Fmt.format(), id, text, n.String(), want)
			}
			if at, dup := live[id]; dup {
				cl := "C18/duplicate-id-among-live-holders"
				if doubled[id] {
					cl = "C18/double-release-duplicates-id"
				}
				return vh.Failf(cl, "format %q ops %v: op %d acquired id %d which is still held since op %d (double-released before: %v)", c.Fmt.format(), c.Ops, i, id, at, doubled[id])
			}
			if other, dup := liveText[text]; dup {
				return vh.Failf("C18/duplicate-text-among-live-holders", "op %d: id %d has text %q which live id %d also has", i, id, text, other)
			}
			if len(everReleased) > 0 && !hasGC {
				acquiredAfterRelease = true
			}
			if everReleased[id] {
				reuse++
				if len(live) > 0 {
					reuseWhileLive++
				}
			}
			live[id] = i
			liveText[text] = id
			held = append(held, heldName{n, id, text})
		case "r", "m", "d", "e":
			if len(held) == 0 {
				continue
			}
			stage = "release"
			k := ((op.I % len(held)) + len(held)) % len(held)
			h := held[k]
			held = append(held[:k:k], held[k+1:]...)
			method := op.K == "m" || op.K == "e"
			if f := release(h, method); f != nil {
				return f
			}
			if op.K == "d" || op.K == "e" {
				stage = "double-release"
				hasDouble = true
				if f := again(h, method); f != nil {
					return f
				}
			}
			released = append(released, h)
		case "x", "y":
			if len(released) == 0 {
				continue
			}
			stage = "double-release"
			hasDouble = true
			k := ((op.I % len(released)) + len(released)) % len(released)
			if f := again(released[k], op.K == "y"); f != nil {
				return f
			}
		case "n":
			stage = "release-nil"
			hasNil = true
			pool.Release(nil)
		case "G":
			stage = "gc"
			hasGC = true
			runtime.GC()
		case "F":
			// the holders forget the names they have released (nothing refers to those Name
			// structs any more), collections run and whatever the runtime does with
			// unreachable objects (finalizers, cleanups) gets time to happen
			stage = "gc"
			hasGC, hasForget = true, true
			released = nil
			for k := 0; k < 2; k++ {
				runtime.GC()
				time.Sleep(300 * time.Microsecond)
			}
		}
	}
	stage = "final"
	for _, h := range held {
		if h.n.ID() != h.id || h.n.Name() != h.text {
			return vh.Failf("C18/held-name-changed", "end: name acquired as id %d %q is now id %d %q", h.id, h.text, h.n.ID(), h.n.Name())
		}
	}
	vh.Label("seq:verb=" + c.Fmt.Verb)
	if hasDouble {
		vh.Label("seq:double-release")
	}
	if hasNil {
		vh.Label("seq:release-nil")
	}
	if hasGC {
		vh.Label("seq:gc")
	}
	if hasForget {
		vh.Label("seq:released-names-forgotten-and-collected")
	}
	if len(c.Fmt.Prefix) > 200 {
		vh.Label("seq:long-format")
	}
	if reuse > 0 {
		vh.Label("seq:id-reused")
		seqReused.Add(1)
	}
	if acquiredAfterRelease {
		seqCouldReuse.Add(1)
	}
	vh.LabelN("seq:ops", len(c.Ops))
	if reuseWhileLive > 0 {
		vh.Label("seq:id-reused-while-others-live")
		vh.NonTrivial("seq|" + fmt.Sprint(c))
	}
	return nil
}

func TestSequentialModel(t *testing.T) {
	kinds := []string{"a", "a", "a", "a", "a", "r", "r", "m", "d", "e", "x", "y", "n"}
	kindsGC := append([]string{"G"}, kinds...)
	gen := func(rt *rapid.T) seqCase {
		c := seqCase{Fmt: genFmt(rt)}
		n := rapid.IntRange(1, 80).Draw(rt, "n")
		// a forced collection costs ~1 ms in the race binary: only every third case has them,
		// and at most 3 (two in a row empty sync.Pool including its victim cache)
		ks := kinds
		if rapid.IntRange(0, 2).Draw(rt, "withGC") == 0 {
			ks = kindsGC
		}
		gcs := 0
		for i := 0; i < n; i++ {
			k := rapid.SampledFrom(ks).Draw(rt, "k")
			if k == "G" {
				if gcs++; gcs > 3 {
					k = "a"
				} else if rapid.Bool().Draw(rt, "forget") {
					k = "F"
				}
			}
			op := seqOp{K: k}
			switch k {
			case "r", "m", "d", "e", "x", "y":
				op.I = rapid.IntRange(0, 15).Draw(rt, "i")
			}
			c.Ops = append(c.Ops, op)
		}
		if rapid.IntRange(0, 5).Draw(rt, "skip") == 0 {
			c.Skip = rapid.SampledFrom([]int{16, 31, 32}).Draw(rt, "skipbits")
		}
		if n <= 8 {
			vh.Sample("sequential", c)
		}
		return c
	}
	vh.Check(t, "TestSequentialModel", vh.N(4000, 100000), gen, memoized(runSeq))
	// "releasing a name ... makes its id available again": sync.Pool does not promise that a
	// particular released id comes back, but over hundreds of histories that acquire after a
	// release (without a collection in between) not a single reuse means released ids are lost
	if could, did := seqCouldReuse.Load(), seqReused.Load(); !t.Failed() && !vh.Replaying() && could >= 200 && did == 0 {
		f := vh.Failf("C18/released-ids-never-available-again", "%d sequential histories acquired after a release (no collection in between), none of them ever got a released id back", could)
		path := vh.Violation("TestSequentialModel", f, map[string]int64{"histories_with_acquire_after_release": could, "histories_with_reuse": did})
		t.Errorf("[%s] %s (%s)", f.Class, f.Msg, path)
	}
}

var seqCouldReuse, seqReused atomic.Int64

// ---------------------------------------------------------------------------------------
// Part B: concurrent holders with an online monitor

type concCase struct {
	Fmt    fmtSpec  `json:"fmt"`
	Procs  int      `json:"procs"`  // GOMAXPROCS during the case
	Reps   int      `json:"reps"`   // executions of the case (schedules differ)
	GCs    int      `json:"gcs"`    // budget of 'G' ops that really collect, per execution
	Progs  []string `json:"progs"`  // program templates
	Assign []int    `json:"assign"` // goroutine -> template index
	// Others: that many further goroutines use OTHER pools (formats of their own) for as long as
	// the execution lasts: statements and cursors of one application are named from two pools
	Others int `json:"goroutines_on_other_pools,omitempty"`
}

type event struct {
	seq int
	g   int
	add bool
	id  uint64
}

func (e event) String() string {
	s := "-"
	if e.add {
		s = "+"
	}
	return fmt.Sprintf("#%d:g%d%s%d", e.seq, e.g, s, e.id)
}

type rawFail struct {
	class string
	msg   string
	id    uint64 // colliding id for duplicate classes
	dup   bool
	gs    []int // goroutines involved
}

type monitor struct {
	mu       sync.Mutex
	liveID   map[uint64]int
	liveText map[string]int
	lastRel  map[uint64]int
	seq      int
	ring     [192]event
	reuse    int // id handed to a different goroutine after a release while other names were live
	reuseAny int
	maxLive  int
	fail     *rawFail
}

func (m *monitor) log(g int, add bool, id uint64) {
	m.ring[m.seq%len(m.ring)] = event{m.seq, g, add, id}
	m.seq++
}

// history must be called with mu held.
func (m *monitor) history(id uint64) string {
	var all, mine []string
	lo := m.seq - len(m.ring)
	if lo < 0 {
		lo = 0
	}
	for s := lo; s < m.seq; s++ {
		e := m.ring[s%len(m.ring)]
		if e.id == id {
			mine = append(mine, e.String())
		}
		if s >= m.seq-40 {
			all = append(all, e.String())
		}
	}
	return fmt.Sprintf("monitor events of id %d (+ registered after Acquire, - deregistered before Release): %s; last monitor events: %s", id, strings.Join(mine, " "), strings.Join(all, " "))
}

func (m *monitor) setFail(f *rawFail) {
	if m.fail == nil {
		m.fail = f
	}
}

// insert registers names that g got from Acquire. It reports false on a collision.
func (m *monitor) insert(g, opi int, batch []heldName) bool {
	m.mu.Lock()
	defer m.mu.Unlock()
	for _, h := range batch {
		m.log(g, true, h.id)
		if other, dup := m.liveID[h.id]; dup {
			m.setFail(&rawFail{class: "C18/duplicate-id-among-live-holders", id: h.id, dup: true, gs: []int{g, other},
				msg: fmt.Sprintf("goroutine %d (ops up to %d) got id %d (text %q) from Acquire while goroutine %d holds a name with id %d; %s", g, opi, h.id, h.text, other, h.id, m.history(h.id))})
			return false
		}
		if other, dup := m.liveText[h.text]; dup {
			m.setFail(&rawFail{class: "C18/duplicate-text-among-live-holders", id: h.id, dup: true, gs: []int{g, other},
				msg: fmt.Sprintf("goroutine %d (ops up to %d) got text %q (id %d) from Acquire while goroutine %d holds a name with the same text; %s", g, opi, h.text, h.id, other, m.history(h.id))})
			return false
		}
		if r, ok := m.lastRel[h.id]; ok {
			m.reuseAny++
			if r != g && len(m.liveID) > 0 {
				m.reuse++
			}
		}
		m.liveID[h.id] = g
		m.liveText[h.text] = g
		if len(m.liveID) > m.maxLive {
			m.maxLive = len(m.liveID)
		}
	}
	return true
}

func (m *monitor) remove(g int, batch []heldName) {
	m.mu.Lock()
	for _, h := range batch {
		m.log(g, false, h.id)
		delete(m.liveID, h.id)
		delete(m.liveText, h.text)
		m.lastRel[h.id] = g
	}
	m.mu.Unlock()
}

func (m *monitor) failNow(f *rawFail) {
	m.mu.Lock()
	m.setFail(f)
	m.mu.Unlock()
}

type worker struct {
	g        int
	prog     string
	held     []heldName
	released []heldName
	doubled  []uint64
	ops      int
	sink     int
}

func spin(n int) int {
	x := 1
	for i := 0; i < n; i++ {
		x += i ^ (x >> 3)
	}
	return x
}

func isRelease(b byte) bool { return b == 'r' || b == 'R' || b == 'm' || b == 'd' || b == 'e' }

type poolT interface {
	Acquire() *namepool.Name
	Release(*namepool.Name)
}

func (w *worker) run(c *concCase, pool poolT, mon *monitor, gcBudget *int32) {
	stage, opi := "start", 0
	defer func() {
		if r := recover(); r != nil {
			mon.failNow(&rawFail{class: "C18/panic-" + stage, gs: []int{w.g}, msg: fmt.Sprintf("goroutine %d op %d (%q) of program %q: panic: %v", w.g, opi, w.opAt(opi), w.prog, r)})
		}
	}()
	prog := w.prog
	// one release (after deregistration): checks "cleared", remembers the pointer
	release := func(h heldName, kind byte) bool {
		method := kind == 'm' || kind == 'e'
		if method {
			h.n.Release()
		} else {
			pool.Release(h.n)
		}
		if !isZero(h.n) {
			mon.failNow(&rawFail{class: "C18/name-not-cleared-by-release", msg: fmt.Sprintf("goroutine %d op %d: after releasing id %d the Name is not the zero value: Name()=%q", w.g, opi, h.id, h.n.Name())})
			return false
		}
		if kind == 'd' || kind == 'e' {
			stage = "double-release"
			w.doubled = append(w.doubled, h.id)
			if method {
				h.n.Release()
			} else {
				pool.Release(h.n)
			}
			if !isZero(h.n) {
				mon.failNow(&rawFail{class: "C18/name-not-cleared-by-release", msg: fmt.Sprintf("goroutine %d op %d: after the second release of id %d the Name is not the zero value: Name()=%q", w.g, opi, h.id, h.n.Name())})
				return false
			}
			stage = "release"
		}
		w.released = append(w.released, h)
		return true
	}
	for i := 0; i < len(prog); {
		opi = i
		switch b := prog[i]; {
		case b == 'a':
			stage = "acquire"
			j := i
			for j < len(prog) && prog[j] == 'a' {
				j++
			}
			first := len(w.held)
			for k := i; k < j; k++ {
				opi = k
				n := pool.Acquire()
				w.ops++
				if n == nil {
					mon.failNow(&rawFail{class: "C18/acquire-nil", msg: fmt.Sprintf("goroutine %d op %d: Acquire returned nil", w.g, k)})
					return
				}
				id, text := n.ID(), n.Name()
				if id == 0 {
					mon.failNow(&rawFail{class: "C18/zero-id", msg: fmt.Sprintf("goroutine %d op %d: Acquire returned id 0 (text %q)", w.g, k, text)})
					return
				}
				if want := c.Fmt.text(id); text != want || n.String() != want {
					mon.failNow(&rawFail{class: "C18/text-not-format-of-id", msg: fmt.Sprintf("goroutine %d op %d: format %q id %d: Name()=%q String()=%q, want %q", w.g, k, c.Fmt.format(), id, text, n.String(), want)})
					return
				}
				w.held = append(w.held, heldName{n, id, text})
			}
			if !mon.insert(w.g, j-1, w.held[first:]) {
				return
			}
			i = j
		case isRelease(b):
			stage = "release"
			j := i
			var batch []heldName
			var kinds []byte
			for j < len(prog) && isRelease(prog[j]) {
				if len(w.held) > 0 {
					k := len(w.held) - 1
					if prog[j] == 'R' {
						k = 0
					}
					h := w.held[k]
					w.held = append(w.held[:k:k], w.held[k+1:]...)
					if h.n.ID() != h.id || h.n.Name() != h.text {
						mon.failNow(&rawFail{class: "C18/held-name-changed", msg: fmt.Sprintf("goroutine %d op %d: name acquired as id %d %q is now id %d %q", w.g, j, h.id, h.text, h.n.ID(), h.n.Name())})
						return
					}
					batch = append(batch, h)
					kinds = append(kinds, prog[j])
				}
				j++
			}
			if len(batch) > 0 {
				mon.remove(w.g, batch)
				for k, h := range batch {
					w.ops++
					if !release(h, kinds[k]) {
						return
					}
				}
			}
			i = j
		default:
			switch b {
			case 'x', 'y':
				if len(w.released) > 0 {
					stage = "double-release"
					// alternate between the most recent and the oldest released pointer
					h := w.released[len(w.released)-1]
					if i%2 == 1 {
						h = w.released[0]
					}
					w.doubled = append(w.doubled, h.id)
					if b == 'y' {
						h.n.Release()
					} else {
						pool.Release(h.n)
					}
					w.ops++
					if !isZero(h.n) {
						mon.failNow(&rawFail{class: "C18/name-not-cleared-by-release", msg: fmt.Sprintf("goroutine %d op %d: after re-releasing id %d the Name is not the zero value", w.g, i, h.id)})
						return
					}
				}
			case 'n':
				stage = "release-nil"
				pool.Release(nil)
				w.ops++
			case 'g':
				runtime.Gosched()
			case 's':
				w.sink += spin(40)
			case 'S':
				w.sink += spin(1500)
			case 'G':
				stage = "gc"
				if atomic.AddInt32(gcBudget, -1) >= 0 {
					runtime.GC()
				} else {
					runtime.Gosched()
				}
			}
			i++
		}
	}
	// hand everything back so that other goroutines that are still running can get the ids
	stage, opi = "release", len(prog)
	if len(w.held) > 0 {
		batch := w.held
		w.held = nil
		mon.remove(w.g, batch)
		for _, h := range batch {
			w.ops++
			if !release(h, 'r') {
				return
			}
		}
	}
}

func (w *worker) opAt(i int) string {
	if i >= 0 && i < len(w.prog) {
		return w.prog[i : i+1]
	}
	return "final release"
}

type execStats struct {
	ops, reuse, reuseAny, maxLive int
}

func execOnce(c *concCase, rep, reps int) (*vh.Failure, execStats) {
	pool := namepool.Pool(c.Fmt.format())
	mon := &monitor{liveID: map[uint64]int{}, liveText: map[string]int{}, lastRel: map[uint64]int{}}
	gcBudget := int32(c.GCs)
	ws := make([]*worker, len(c.Assign))
	start := make(chan struct{})
	var wg sync.WaitGroup
	for g := range ws {
		ws[g] = &worker{g: g, prog: c.Progs[c.Assign[g]]}
		wg.Add(1)
		go func(w *worker) {
			defer wg.Done()
			<-start
			w.run(c, pool, mon, &gcBudget)
		}(ws[g])
	}
	stopOthers := make(chan struct{})
	var owg sync.WaitGroup
	for o := 0; o < c.Others; o++ {
		owg.Add(1)
		go func(o int) {
			defer owg.Done()
			format := []string{"cursor_%d", "c%dx", "other_pool_no_%d_"}[o%3]
			other := namepool.Pool(format)
			<-start
			for i := 0; ; i++ {
				select {
				case <-stopOthers:
					return
				default:
				}
				n := other.Acquire()
				if want := fmt.Sprintf(format, n.ID()); n.Name() != want || n.String() != want {
					mon.failNow(&rawFail{class: "C18/text-not-format-of-id", msg: fmt.Sprintf("a goroutine using another pool (format %q) at the same time: id %d has the text Name()=%q String()=%q, want %q", format, n.ID(), n.Name(), n.String(), want)})
					other.Release(n)
					return
				}
				other.Release(n)
				if i%8 == 0 {
					runtime.Gosched()
				}
			}
		}(o)
	}
	close(start)
	wg.Wait()
	close(stopOthers)
	owg.Wait()
	if c.Others > 0 {
		vh.Label("other-pools-in-use-at-the-same-time")
	}
	st := execStats{reuse: mon.reuse, reuseAny: mon.reuseAny, maxLive: mon.maxLive}
	for _, w := range ws {
		st.ops += w.ops
	}
	if mon.fail == nil {
		return nil, st
	}
	rf := mon.fail
	note := ""
	if rf.dup {
		// not a class of its own here: with several goroutines the id may have been released
		// twice by a bystander, the sequential part classifies that root cause exactly
		for _, w := range ws {
			for _, id := range w.doubled {
				if id == rf.id {
					note = fmt.Sprintf(" (id %d was released twice by goroutine %d during this execution)", id, w.g)
				}
			}
		}
	}
	var who []string
	for _, g := range rf.gs {
		if g >= 0 && g < len(ws) {
			who = append(who, fmt.Sprintf("g%d runs template %d", g, c.Assign[g]))
		}
	}
	var progs []string
	for i, p := range c.Progs {
		progs = append(progs, fmt.Sprintf("[%d]=%q", i, p))
	}
	if len(who) > 0 {
		note += "; " + strings.Join(who, ", ")
	}
	return vh.Failf(rf.class, "execution %d of %d, GOMAXPROCS=%d, %d goroutines, format %q: %s%s; templates: %s",
		rep+1, reps, c.Procs, len(ws), c.Fmt.format(), rf.msg, note, strings.Join(progs, " ")), st
}

func gBucket(g int) string {
	switch {
	case g <= 2:
		return "goroutines=1-2"
	case g <= 8:
		return "goroutines=3-8"
	case g <= 32:
		return "goroutines=9-32"
	}
	return "goroutines=33-64"
}

func runConc(c concCase) *vh.Failure {
	if !c.Fmt.valid() || len(c.Assign) < 1 || len(c.Assign) > 64 || c.Procs < 1 || c.Procs > 64 || c.Reps < 1 || len(c.Progs) == 0 {
		vh.Label("invalid-case")
		return nil
	}
	for _, a := range c.Assign {
		if a < 0 || a >= len(c.Progs) {
			vh.Label("invalid-case")
			return nil
		}
	}
	old := runtime.GOMAXPROCS(c.Procs)
	defer runtime.GOMAXPROCS(old)
	var tot execStats
	reps := c.Reps
	if vh.Replaying() {
		// a saved case is only a recipe for schedules: try much harder to hit the bad one
		// (about 300k library calls, at least 20x and at most 20000 executions)
		size := 1
		for _, a := range c.Assign {
			size += len(c.Progs[a])
		}
		reps *= 20
		if r := 300000 / size; r > reps {
			reps = r
		}
		if reps > 20000 {
			reps = 20000
		}
	} else if shrinking() {
		reps *= 4
	}
	for rep := 0; rep < reps; rep++ {
		f, st := execOnce(&c, rep, reps)
		if f != nil {
			return f
		}
		tot.ops += st.ops
		tot.reuse += st.reuse
		tot.reuseAny += st.reuseAny
		if st.maxLive > tot.maxLive {
			tot.maxLive = st.maxLive
		}
	}
	all := strings.Join(c.Progs, "|")
	used := map[int]bool{}
	for _, a := range c.Assign {
		used[a] = true
	}
	var usedProgs []string
	for a := range used {
		usedProgs = append(usedProgs, c.Progs[a])
	}
	sort.Strings(usedProgs)
	up := strings.Join(usedProgs, "|")
	vh.Label(gBucket(len(c.Assign)), fmt.Sprintf("gomaxprocs=%d", c.Procs), "verb="+c.Fmt.Verb)
	if strings.ContainsAny(up, "dexy") {
		vh.Label("double-release-present")
	}
	if strings.ContainsAny(up, "xy") {
		vh.Label("late-re-release-present")
	}
	if strings.Contains(up, "n") {
		vh.Label("release-nil-present")
	}
	if c.GCs > 0 && strings.Contains(up, "G") {
		vh.Label("gc-present")
	}
	switch {
	case tot.maxLive >= 64:
		vh.Label("max-live>=64")
	case tot.maxLive >= 8:
		vh.Label("max-live=8-63")
	default:
		vh.Label("max-live<8")
	}
	vh.LabelN("executions", reps)
	vh.LabelN("ops(acquire+release calls)", tot.ops)
	vh.LabelN("cross-goroutine-reuses-while-others-live", tot.reuse)
	if tot.reuseAny > 0 {
		vh.Label("id-reused")
	}
	if tot.reuse > 0 {
		vh.Label("nontrivial")
		vh.NonTrivial(fmt.Sprintf("conc|%v|%d|%d|%s|%v", c.Fmt, c.Procs, c.GCs, all, c.Assign))
	}
	return nil
}

// op letters with their weights; G is only present in the gc style.
const (
	alphaMixed   = "aaaaaaaarrrRRmmddexxynngggsssS"
	alphaAcquire = "aaaaaaaaaaaarRmgs"
	alphaChurn   = "aaaarrRmddeexxyyng"
	alphaGC      = "aaaaaaarrRmdexyngsGG"
)

func TestConcurrentHolders(t *testing.T) {
	gen := func(rt *rapid.T) concCase {
		c := concCase{Fmt: genFmt(rt)}
		var g int
		switch rapid.IntRange(0, 3).Draw(rt, "gbucket") {
		case 0:
			g = rapid.IntRange(1, 2).Draw(rt, "g")
		case 1:
			g = rapid.IntRange(3, 8).Draw(rt, "g")
		case 2:
			g = rapid.IntRange(9, 32).Draw(rt, "g")
		default:
			g = rapid.IntRange(33, 64).Draw(rt, "g")
		}
		c.Procs = rapid.SampledFrom([]int{1, 4, 16}).Draw(rt, "procs")
		c.Reps = rapid.IntRange(3, 6).Draw(rt, "reps")
		if rapid.IntRange(0, 2).Draw(rt, "others") == 0 {
			c.Others = rapid.IntRange(1, 3).Draw(rt, "nothers")
		}
		alpha := alphaMixed
		switch rapid.IntRange(0, 4).Draw(rt, "style") {
		case 1:
			alpha = alphaAcquire
		case 2:
			alpha = alphaChurn
		case 3:
			alpha = alphaGC
			c.GCs = rapid.IntRange(1, 3).Draw(rt, "gcs")
		}
		letters := []byte(alpha)
		// templates: at most 8 different programs keep the case small and readable; goroutines
		// sharing a program contend symmetrically. Length bound keeps one execution <= ~1500 ops.
		nt := rapid.IntRange(1, 8).Draw(rt, "templates")
		if nt > g {
			nt = g
		}
		maxLen := 1500 / g
		if maxLen > 48 {
			maxLen = 48
		}
		for i := 0; i < nt; i++ {
			// length drawn explicitly: SliceOfN alone strongly prefers short slices
			n := rapid.IntRange(1, maxLen).Draw(rt, "len")
			c.Progs = append(c.Progs, string(rapid.SliceOfN(rapid.SampledFrom(letters), n, n).Draw(rt, "prog")))
		}
		c.Assign = make([]int, g)
		for i := range c.Assign {
			if i < nt {
				c.Assign[i] = i
			} else {
				c.Assign[i] = rapid.IntRange(0, nt-1).Draw(rt, "assign")
			}
		}
		if g <= 4 && len(c.Progs[0]) <= 12 {
			vh.Sample("concurrent-small", c)
		} else if g >= 33 {
			vh.Sample("concurrent-large", c)
		}
		return c
	}
	vh.Check(t, "TestConcurrentHolders", vh.N(1000, 30000), gen, memoized(runConc))
}

// skipIDs moves the pool's id counter to three below 2^bits (where a process arrives by itself
// after that many acquisitions: out of reach for a test otherwise). It looks the counter up by
// reflection - an unsigned integer member whose name contains "counter" - so that the check does
// not depend on how the pool is laid out; where there is no such member the history starts at 1.
func skipIDs(pool any, bits int) bool {
	v := reflect.ValueOf(pool)
	if v.Kind() != reflect.Ptr || v.Elem().Kind() != reflect.Struct {
		return false
	}
	st := v.Elem()
	for i := 0; i < st.NumField(); i++ {
		if !strings.Contains(strings.ToLower(st.Type().Field(i).Name), "counter") {
			continue
		}
		f := st.Field(i)
		target := uint64(1)<<uint(bits) - 3
		switch f.Kind() {
		case reflect.Uint64:
			*(*uint64)(unsafe.Pointer(f.UnsafeAddr())) = target
			return true
		case reflect.Uint32:
			*(*uint32)(unsafe.Pointer(f.UnsafeAddr())) = uint32(target)
			return true
		}
	}
	return false
}
