#!/usr/bin/env python3
"""Writes seeded/README.md from seeded/*/meta.json (one row per independently produced change)."""
import json, glob, os, re
rows = []
for f in sorted(glob.glob("/verif/seeded/*/meta.json")):
    m = json.load(open(f))
    name = os.path.basename(os.path.dirname(f))
    notes = open(os.path.dirname(f) + "/NOTES.md").read() if os.path.exists(os.path.dirname(f) + "/NOTES.md") else ""
    title = ""
    for l in notes.splitlines():
        if l.strip():
            title = re.sub(r"^#+\s*", "", l.strip())
            title = re.sub(r"^C\d\d\s*(seed(ed)?\s*(change)?|regression|/)?\s*\(?(change\s*)?[abc]\)?\s*[-:]*\s*", "", title, flags=re.I)
            break
    cls = re.sub(r"^class=", "", m.get("reported_class", "")).split(" ")[0]
    rows.append((name, m, title, cls))
out = ["# Independently seeded changes", "",
       "Each directory holds one change produced by a fresh sub-agent that saw only the text of the property and a",
       "scratch worktree of /repo (nothing from /verif): `patch.diff` (apply with `git -C /repo apply`), the agent's",
       "demonstration `demo_test.go.txt` (rename to `*_test.go` in the directory named in NOTES.md), `NOTES.md` (what the",
       "change is and what it needs to manifest) and `meta.json` (what was run to confirm it and the result of the quick",
       "check). None of them is committed in /repo. `sensitivity.sh` re-runs all of them (exit 1 expected from the check).",
       "",
       "Rounds: r1 = first round; r2 = second round, agents were told the two r1 changes and asked for rarer triggers;",
       "r3 = third round, told the four earlier ones; r4 / r5 = fourth / fifth round, told the six / eight earlier ones; r6 = sixth round, three changes per property (a, b, c), told the ten earlier ones and asked for changes that need a long history, an unusual but legal configuration, a boundary, or two sites that interact; r7 / r8 / r9 = seventh to ninth round, two changes each, told the thirteen / fifteen / seventeen earlier ones; r10 = tenth round, one change per property, told the nineteen (eighteen) earlier ones and asked for an error path, a second use of an object, an unusual configuration or two sites that only fail together; r11 = eleventh round, one change each for the ten properties whose round-10 change had been caught at once. `first run` is the result of the quick check as it was when the",
       "change came in; `now` the result with the committed machinery; `strengthened with` says what was added to the",
       "check (generator dimension or oracle clause, never a special case for the change) when the first run missed it.",
       "",
       "| change | what it is | first run | now | class reported | strengthened with |",
       "|---|---|---|---|---|---|"]
n = {"first_missed": 0, "now_missed": 0}
for name, m, title, cls in rows:
    first = m.get("first_run_before_strengthening", m.get("check_result", "?"))
    now = m.get("check_result", "?")
    if first == "MISSED":
        n["first_missed"] += 1
    if now != "CAUGHT":
        n["now_missed"] += 1
    out.append("| %s | %s | %s | %s | `%s` | %s |" % (name, title.replace("|", "/"), first, now, cls, m.get("strengthened_with", "").replace("|", "/")))
out += ["", "Not kept: C13 round 3 change b (Channel.Close without the sync.Once around the wake-up: two overlapping Close calls",
        "panic with 'close of closed channel'). The quick check missed it at first; the test added for it (TestOverlappingCloses)",
        "found that overlapping Close calls already race and can panic on the unchanged tree (both log out: concurrent sends on",
        "one channel). That was repaired in /repo (3edf52c, closes are serialised); on the repaired tree the seeded change is no",
        "longer observable (the second caller never reaches the wake-up), its demonstration passes with and without it, so it is",
        "not a valid change any more. See known_findings.json (fixed: property=C13 3edf52c)."]
out += ["", "Not kept: C05 round 7 change a (the tick of a time exactly halfway between two 1/300 s ticks is chosen with round-half-to-even",
        "instead of round-half-up). The property asks for the type's tick and for the TDS layout; which of the two neighbouring ticks",
        "an exact tie goes to is prescribed by neither, both results are within the tick C04 allows, so the change does not break the",
        "property as stated and the checks (rightly) accept it. The agent's demonstration compares with a half-up reference of its own."]
out += ["", "Not kept: C05 round 11 change a (math.RoundToEven instead of math.Round in MillisecondToFractionalSecond): the same change as C05 round 7 a,",
        "produced again by an agent that could not know about it (changes that are not kept are not in the list the agents are given); not kept for the same reason."]
out += ["", "%d changes; %d were missed by the quick check as it was when they came in; %d are missed now." % (len(rows), n["first_missed"], n["now_missed"]), ""]
open("/verif/seeded/README.md", "w").write("\n".join(out))
print(out[-2])
