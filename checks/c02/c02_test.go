// C02 — the received package stream does not depend on fragmentation.
package c02

import (
	"sync"
	"context"
	"errors"
	"fmt"
	"reflect"
	"sort"
	"testing"
	"time"

	"github.com/SAP/go-dblib/tds"
	"pgregory.net/rapid"
	"verif/internal/peer"
	"verif/internal/pkggen"
	rc "verif/internal/refcodec"
	"verif/internal/respgen"
	"verif/internal/vh"
)

func TestMain(m *testing.M) {
	vh.Rule("rapid: a response from a grammar over all server-side package types and data types (result sets with narrow/wide formats, ORDERBY, rows incl. NULLs, PARAMFMT/PARAMS, RETURNSTATUS, DONEPROC/DONEINPROC, MSG, LOGINACK, CAPABILITY, DYNAMIC ack, CURINFO, ERROR, interleaved ENVCHANGE/EED, terminated by DONE(FINAL), a non-final DONE or nothing) x a cut set (none, single, every byte, few, random density; incl. empty bodies = header-only packets) x for the byte level a partition of the TCP byte stream into read() results (whole, per packet, 1..7-byte reads, random, header-splitting; optionally io.EOF reported together with the last bytes), extra status bits (ATTNACK, EVENT) next to EOM in the packet headers, the client's own request completing only after the first response packets have arrived; run A = one packet/one read, run B = fragmented; exhaustive: every single cut (and every pair of cuts, thorough) of every response <= 160 bytes drawn, all 2^(n-1) cut sets of 5 streams of <= 15 bytes. Oracle: delivered package sequences of A and B are reflect.DeepEqual (same build), A equals the delivery model field by field, no error on the channel or connection error queue. Non-trivial: a cut falls strictly inside a package or a read splits a packet header; distinct by (response, cuts, reads)")
	vh.Assume("server packets carry type RESPONSE on channel 0 with EOM on the last packet; non-informational EED only between statements (the library resolves a row's format through the last delivered package); a DONE-family package with status 0 only as the last delivered package; responses are kept short (strings <= 40 bytes) so that cut sets can be enumerated")
	vh.Rule("also: Info.DebugLogPackages is on in a quarter of the cases (every package is printed while it is sent / received)")
	vh.QuietLog()
	vh.Rule("also: a channel that has already delivered an earlier response; header-only control packets (PROTACK) between the fragments; 2..3 channels of ONE connection whose response packets arrive interleaved packet by packet in a generated order (each channel delivers what its response delivers alone and unfragmented). Non-trivial there: a packet of another channel arrives inside a message")
	vh.Rule("also: rows with BLOB (0x24) columns whose values arrive as several data sets (random + every cut / pair of cuts of a fixed response; oracle: same delivery as the same bytes in one packet); responses of 300..9000 bytes in packets of 1..7 body bytes (thousands of packets)")
	vh.Rule("also: responses containing a token the library has no parser for (OPTIONCMD, CONTROL, KEY, ...) with arbitrary bytes behind it: same delivery and same number of errors however the message is cut")
	vh.Main(m, "C02")
}

type c02Case struct {
	Pkgs  []rc.P `json:"pkgs"`
	Cuts  []int  `json:"cuts"`
	Byte  bool   `json:"byte_level"`
	Reads []int  `json:"reads,omitempty"` // cut offsets in the TCP byte stream (byte level)
	// Extra status bits (ATTNACK 0x02, EVENT 0x08) OR-ed into the packet headers, cycled
	// over the packets: a server may set them next to EOM
	Extra []int `json:"extra_status_bits,omitempty"`
	// EOFWithData: (byte level) the transport reports io.EOF together with the last bytes
	EOFWithData bool `json:"eof_with_last_read,omitempty"`
	// SendAt > 0: (packet level) the client's request completes (SendPackage returns) only
	// when SendAt packets of the response have already arrived - a fast server
	SendAt int `json:"request_completes_after_packets,omitempty"`
	// Normal: the server's packets are typed NORMAL (0x0F) instead of RESPONSE (0x04)
	Normal bool `json:"packets_typed_normal,omitempty"`
	// ZeroReads: (byte level) offsets at which the transport additionally hands out a
	// zero-size read result (0, nil)
	ZeroReads []int `json:"zero_size_reads_at,omitempty"`
	// Used: (packet level) the channel has completed an earlier response before this one arrives
	Used bool `json:"channel_used_before,omitempty"`
	// Control: (packet level) before the packets with these indices a header-only control packet
	// (PROTACK) for the channel arrives; it is handed to the consumer as such and changes nothing else
	Control []int `json:"control_packets_before,omitempty"`
	// Log: the fragmented run has Info.DebugLogPackages on (every package received is printed)
	Log bool `json:"debug_log_packages,omitempty"`
}

type delivered struct {
	pkgs []tds.Package
	errs []string
	// hooks: what the message and environment hooks of the channel were told, in order
	hooks []string
	// controls: header-only control packets fed / handed to the consumer
	controls, gotControls int
}

// watch registers one message hook and one environment hook that record their calls.
func watch(ch *tds.Channel, d *delivered) {
	var mu sync.Mutex
	if err := ch.RegisterEEDHooks(func(e tds.EEDPackage) {
		mu.Lock()
		d.hooks = append(d.hooks, fmt.Sprintf("eed %d %q", e.MsgNumber, e.Msg))
		mu.Unlock()
	}); err != nil {
		vh.HarnessBug("RegisterEEDHooks: %v", err)
	}
	if err := ch.RegisterEnvChangeHooks(func(t tds.EnvChangeType, o, n string) {
		mu.Lock()
		d.hooks = append(d.hooks, fmt.Sprintf("env %d %q->%q", t, o, n))
		mu.Unlock()
	}); err != nil {
		vh.HarnessBug("RegisterEnvChangeHooks: %v", err)
	}
}

func drain(ctx context.Context, conn *tds.Conn, ch *tds.Channel, d *delivered) {
	for {
		p, err := ch.NextPackage(ctx, false)
		if err != nil {
			if errors.Is(err, tds.ErrNoPackageReady) {
				return
			}
			d.errs = append(d.errs, err.Error())
			if len(d.errs) > 20 {
				return
			}
			continue
		}
		if _, ok := p.(*tds.HeaderOnlyPackage); ok {
			d.gotControls++
			continue
		}
		d.pkgs = append(d.pkgs, p)
	}
}

func toLibPacket(p rc.Packet) *tds.Packet {
	return &tds.Packet{Header: tds.PacketHeader{MsgType: tds.PacketHeaderType(p.Type), Status: tds.PacketHeaderStatus(p.Status), Length: uint16(8 + len(p.Body)), Channel: p.Channel, PacketNr: p.Nr, Window: p.Window}, Data: append([]byte{}, p.Body...)}
}

// runPackets feeds packets through Channel.WritePacket (deterministic, single goroutine).
// pktOpts are the extras of a packet-level run.
type pktOpts struct {
	used    bool
	control []int
}

var curOpts pktOpts // set by runCase around the fragmented packet-level run (single goroutine)

func runPackets(packets []rc.Packet, sendAt ...int) (d delivered, f *vh.Failure) {
	opts := curOpts
	curOpts = pktOpts{}
	ctx, cancel := context.WithCancel(context.Background())
	defer cancel()
	conn, _, err := tds.VerifNewConn(ctx, peer.NewPipe(), &tds.Info{ChannelPackageQueueSize: 4096, DebugLogPackages: len(sendAt) > 1 && sendAt[1] == 1}, false)
	if err != nil {
		vh.HarnessBug("VerifNewConn: %v", err)
	}
	ch, err := conn.NewChannel()
	if err != nil {
		vh.HarnessBug("NewChannel: %v", err)
	}
	watch(ch, &d)
	if opts.used {
		ch.WritePacket(&tds.Packet{Header: tds.PacketHeader{MsgType: tds.TDS_BUF_RESPONSE, Status: tds.TDS_BUFSTAT_EOM, Length: 8 + 9}, Data: []byte{rc.TokDone, byte(rc.DoneCount), 0, 0, 0, 3, 0, 0, 0}})
		var first delivered
		drain(ctx, conn, ch, &first)
		if len(first.pkgs) != 2 || len(first.errs) != 0 {
			return d, vh.Failf("C02/fragmented-delivery-differs", "the response before the one under test ([DONE(COUNT)] in one packet) delivered %d packages, errors %v", len(first.pkgs), first.errs)
		}
		d.hooks = nil
	}
	for i, p := range packets {
		for _, ci := range opts.control {
			if ci == i {
				ch.WritePacket(&tds.Packet{Header: tds.PacketHeader{MsgType: tds.TDS_BUF_PROTACK, Length: 8}})
				d.controls++
			}
		}
		if len(sendAt) > 0 && sendAt[0] > 0 && (i == sendAt[0] || (i == len(packets)-1 && sendAt[0] >= len(packets))) {
			if err := ch.SendPackage(ctx, &tds.LanguagePackage{Cmd: "select 1"}); err != nil {
				d.errs = append(d.errs, "send: "+err.Error())
			}
		}
		ch.WritePacket(toLibPacket(p))
		drain(ctx, conn, ch, &d)
	}
	if e := conn.VerifConnErr(); e != nil {
		d.errs = append(d.errs, "connection: "+e.Error())
	}
	return d, nil
}

// runBytes feeds the TCP byte stream through the real reader goroutine.
func runBytes(stream []byte, reads []int, eofWithData bool, logPkgs ...bool) (d delivered, f *vh.Failure) {
	ctx, cancel := context.WithCancel(context.Background())
	pipe := peer.NewPipe()
	conn, done, err := tds.VerifNewConn(ctx, pipe, &tds.Info{ChannelPackageQueueSize: 100000, PacketReadTimeout: 5, DebugLogPackages: len(logPkgs) > 0 && logPkgs[0]}, true)
	if err != nil {
		vh.HarnessBug("VerifNewConn: %v", err)
	}
	defer func() {
		cancel()
		pipe.Close()
		select {
		case <-done:
		case <-time.After(10 * time.Second):
			if f == nil {
				f = vh.Failf("C02/reader-does-not-end", "reader goroutine still running 10 s after cancel+close")
			}
		}
	}()
	ch, err := conn.NewChannel()
	if err != nil {
		vh.HarnessBug("NewChannel: %v", err)
	}
	watch(ch, &d)
	if eofWithData {
		pipe.EOFWithLastBytes(len(stream))
	}
	pipe.FeedPartitionZero(stream, reads)
	if eofWithData {
		// the reader either ends after the last packet or (if the EOF came with a header read,
		// where it is not an error yet) starts reporting the end of the transport; either way
		// everything has been delivered by then
		deadline := time.Now().Add(20 * time.Second)
		for ended := false; !ended; {
			select {
			case <-done:
				ended = true
			default:
				if conn.VerifConnErrLen() > 0 {
					ended = true
				} else if time.Now().After(deadline) {
					return d, vh.Failf("C02/reader-stuck", "reader neither ended nor reported the end of the transport within 20 s after EOF arrived with the last bytes")
				} else {
					time.Sleep(100 * time.Microsecond)
				}
			}
		}
		drain(ctx, conn, ch, &d)
		// errors reported after the end of the transport are not part of the response
		d.errs = nil
		return d, nil
	} else if !pipe.WaitDrained(20 * time.Second) {
		_, _, given, _ := pipe.Stats()
		return d, vh.Failf("C02/reader-stuck", "reader did not come back for more input within 20 s (%d of %d bytes taken)", given, len(stream))
	}
	drain(ctx, conn, ch, &d)
	if e := conn.VerifConnErr(); e != nil {
		d.errs = append(d.errs, "connection: "+e.Error())
	}
	return d, nil
}

func describe(ps []tds.Package) string {
	s := ""
	for i, p := range ps {
		if i > 0 {
			s += " | "
		}
		x := fmt.Sprintf("%T", p)
		if dn, ok := p.(*tds.DonePackage); ok {
			x += fmt.Sprintf("(%#x)", uint16(dn.Status))
		}
		s += x
	}
	return s
}

func runCase(c c02Case) (f *vh.Failure) {
	defer func() {
		if r := recover(); r != nil {
			vh.CheckHarnessPanic(r)
			f = vh.Failf("C02/panic", "panic: %v", r)
		}
	}()
	stream, offs, spans, err := rc.EncodeStream(c.Pkgs)
	if err != nil {
		vh.HarnessBug("encode: %v", err)
	}
	// run A: one packet, one read
	whole := rc.Packetise(stream, nil, rc.BufResponse, 0)
	A, f := runPackets(whole)
	if f != nil {
		return f
	}
	if len(A.errs) > 0 {
		return vh.Failf("C02/unfragmented-error", "unfragmented response %s yields errors: %v", respgen.Describe(c.Pkgs), A.errs)
	}
	model, _ := respgen.Deliver(c.Pkgs)
	if len(A.pkgs) != len(model) {
		return vh.Failf("C02/unfragmented-differs-from-model", "response [%s]: delivered [%s], expected [%s]", respgen.Describe(c.Pkgs), describe(A.pkgs), respgen.Describe(model))
	}
	fmts := respgen.FormatBefore(model)
	for i, p := range model {
		if err := pkggen.LibEqual(p, fmts[i], A.pkgs[i]); err != nil {
			return vh.Failf("C02/unfragmented-differs-from-model", "response [%s]: delivered package %d (%T) differs from what was sent: %v", respgen.Describe(c.Pkgs), i, A.pkgs[i], err)
		}
	}
	// run B: fragmented
	ptype := byte(rc.BufResponse)
	if c.Normal {
		ptype = 0x0f
	}
	packets := rc.Packetise(stream, c.Cuts, ptype, 0)
	for i := range packets {
		if len(c.Extra) > 0 {
			packets[i].Status |= byte(c.Extra[i%len(c.Extra)])
		}
	}
	var B delivered
	empty := false
	for _, p := range packets {
		if len(p.Body) == 0 {
			empty = true
		}
	}
	splitsHeader := false
	if c.Byte {
		var tcp []byte
		var hdrs []int
		for _, p := range packets {
			hdrs = append(hdrs, len(tcp))
			tcp = append(tcp, p.Bytes()...)
		}
		for _, r := range c.Reads {
			for _, h := range hdrs {
				if r > h && r < h+8 {
					splitsHeader = true
				}
			}
		}
		reads := c.Reads
		if len(c.ZeroReads) > 0 {
			reads = append(append([]int{}, c.Reads...), c.ZeroReads...)
			sort.Ints(reads)
			vh.Label("zero-size-reads")
		}
		B, f = runBytes(tcp, reads, c.EOFWithData, c.Log)
	} else {
		curOpts = pktOpts{used: c.Used, control: c.Control}
		B, f = runPackets(packets, c.SendAt, map[bool]int{true: 1}[c.Log])
		if f == nil && B.controls != B.gotControls {
			return vh.Failf("C02/fragmented-control-packets", "response [%s]: %d control packets arrived between the response's packets, %d were handed to the consumer", respgen.Describe(c.Pkgs), B.controls, B.gotControls)
		}
	}
	if f != nil {
		return f
	}
	how := fmt.Sprintf("cuts %v", c.Cuts)
	if c.Byte {
		how += fmt.Sprintf(" reads %v", c.Reads)
	}
	cls := "C02/fragmented"
	switch {
	case empty:
		cls = "C02/header-only-packet-in-response"
	case splitsHeader:
		cls = "C02/read-splits-packet-header"
	}
	if len(B.errs) > 0 {
		return vh.Failf(cls+"-error", "response [%s] (%d bytes) %s: errors surfaced: %v", respgen.Describe(c.Pkgs), len(stream), how, B.errs)
	}
	if len(A.pkgs) != len(B.pkgs) {
		return vh.Failf(cls+"-delivery-differs", "response [%s] (%d bytes) %s: delivered [%s], unfragmented delivers [%s]", respgen.Describe(c.Pkgs), len(stream), how, describe(B.pkgs), describe(A.pkgs))
	}
	for i := range A.pkgs {
		// DeepEqual is the statement; it says "different" for NaN floats, which are
		// then compared field by field (bitwise) against the description instead
		if !reflect.DeepEqual(A.pkgs[i], B.pkgs[i]) && pkggen.LibEqual(model[i], fmts[i], B.pkgs[i]) != nil {
			return vh.Failf(cls+"-delivery-differs", "response [%s] %s: package %d differs: %v vs unfragmented %v", respgen.Describe(c.Pkgs), how, i, B.pkgs[i], A.pkgs[i])
		}
	}
	// the hooks were told the same, in the same order (every message and every environment
	// change member once, however often its package had to be parsed)
	if fmt.Sprint(A.hooks) != fmt.Sprint(B.hooks) {
		return vh.Failf(cls+"-hooks-differ", "response [%s] (%d bytes) %s: the hooks were told %v, unfragmented %v", respgen.Describe(c.Pkgs), len(stream), how, B.hooks, A.hooks)
	}
	// classification
	nt := splitsHeader
	for _, cut := range c.Cuts {
		k := respgen.CutClass(spans, offs, cut)
		vh.Label("cut:" + k)
		if k != "between-packages" {
			nt = true
		}
	}
	if empty {
		vh.Label("header-only-packet")
	}
	if splitsHeader {
		vh.Label("read-splits-header")
	}
	if len(c.Extra) > 0 {
		vh.Label("extra-status-bits")
	}
	if c.EOFWithData {
		vh.Label("eof-with-last-read")
	}
	if c.SendAt > 0 {
		vh.Label("request-completes-while-response-arrives")
	}
	if c.Log {
		vh.Label("debug-log-packages")
	}
	if c.Normal {
		vh.Label("packets-typed-normal")
	}
	if c.Used && !c.Byte {
		vh.Label("channel-used-before")
	}
	if len(c.Control) > 0 && !c.Byte {
		vh.Label("control-packets-between-fragments")
	}
	if c.Byte {
		vh.Label("level:byte")
	} else {
		vh.Label("level:packet")
	}
	vh.LabelN("packets", len(packets))
	if nt {
		vh.NonTrivial(fmt.Sprintf("%x|%v|%v", stream, c.Cuts, c.Reads))
	}
	return nil
}

func genReads(rt *rapid.T, packets []rc.Packet) []int {
	total := 0
	var hdrs []int
	for _, p := range packets {
		hdrs = append(hdrs, total)
		total += 8 + len(p.Body)
	}
	var reads []int
	switch rapid.IntRange(0, 5).Draw(rt, "readclass") {
	case 0: // one read
	case 1: // packet by packet
		reads = append(reads, hdrs[1:]...)
	case 2: // fixed small size
		k := rapid.IntRange(1, 7).Draw(rt, "readsize")
		if total/k > 4000 {
			k = total/4000 + 1
		}
		for i := k; i < total; i += k {
			reads = append(reads, i)
		}
	case 3: // split inside every header
		for _, h := range hdrs {
			reads = append(reads, h+rapid.IntRange(1, 7).Draw(rt, "hsplit"))
		}
	default:
		n := rapid.IntRange(1, 12).Draw(rt, "nreads")
		for i := 0; i < n && total > 1; i++ {
			reads = append(reads, rapid.IntRange(1, total-1).Draw(rt, "read"))
		}
	}
	sort.Ints(reads)
	var out []int
	for i, r := range reads {
		if r > 0 && r < total && (i == 0 || r != reads[i-1]) {
			out = append(out, r)
		}
	}
	return out
}

func genExtra(rt *rapid.T) []int {
	if rapid.IntRange(0, 2).Draw(rt, "extrabits") != 0 {
		return nil
	}
	return rapid.SliceOfN(rapid.SampledFrom([]int{0, 0x02, 0x08, 0x0a}), 1, 4).Draw(rt, "extra")
}

func genResponse(rt *rapid.T) []rc.P {
	return respgen.Gen(rt, respgen.Opts{MaxStatements: 3, MaxEED: 3, MaxEnv: 2, PackSizes: false})
}

func TestPacketLevel(t *testing.T) {
	gen := func(rt *rapid.T) c02Case {
		ps := genResponse(rt)
		stream, _, _, err := rc.EncodeStream(ps)
		if err != nil {
			vh.HarnessBug("encode: %v", err)
		}
		c := c02Case{Pkgs: ps, Cuts: respgen.Cuts(rt, len(stream), true), Extra: genExtra(rt)}
		if rapid.IntRange(0, 3).Draw(rt, "sendlate") == 0 {
			c.SendAt = rapid.IntRange(1, 4).Draw(rt, "sendat")
		}
		c.Log = rapid.IntRange(0, 3).Draw(rt, "log") == 0
		c.Normal = rapid.IntRange(0, 3).Draw(rt, "normal") == 0
		c.Used = rapid.IntRange(0, 2).Draw(rt, "used") == 0
		if rapid.IntRange(0, 3).Draw(rt, "control") == 0 {
			np := len(c.Cuts) + 1
			for k := rapid.IntRange(1, 2).Draw(rt, "ncontrol"); k > 0; k-- {
				c.Control = append(c.Control, rapid.IntRange(0, np-1).Draw(rt, "controlat"))
			}
		}
		if len(stream) < 60 {
			vh.Sample("packet-level", c)
		}
		return c
	}
	vh.Check(t, "TestPacketLevel", vh.N(5000, 150000), gen, runCase)
}

func TestByteLevel(t *testing.T) {
	gen := func(rt *rapid.T) c02Case {
		ps := genResponse(rt)
		stream, _, _, err := rc.EncodeStream(ps)
		if err != nil {
			vh.HarnessBug("encode: %v", err)
		}
		c := c02Case{Pkgs: ps, Cuts: respgen.Cuts(rt, len(stream), true), Byte: true, Extra: genExtra(rt), EOFWithData: rapid.IntRange(0, 4).Draw(rt, "eofwithdata") == 0}
		c.Reads = genReads(rt, rc.Packetise(stream, c.Cuts, rc.BufResponse, 0))
		c.Log = rapid.IntRange(0, 3).Draw(rt, "log") == 0
		c.Normal = rapid.IntRange(0, 3).Draw(rt, "normal") == 0
		if rapid.IntRange(0, 2).Draw(rt, "zeroreads") == 0 {
			// zero-size read results: at read boundaries already there (a read of 0 before the next
			// one) or anywhere else (which also splits the data there)
			total := len(stream) + 8*(len(c.Cuts)+1)
			for k := rapid.IntRange(1, 4).Draw(rt, "nzero"); k > 0; k-- {
				if len(c.Reads) > 0 && rapid.Bool().Draw(rt, "atread") {
					c.ZeroReads = append(c.ZeroReads, c.Reads[rapid.IntRange(0, len(c.Reads)-1).Draw(rt, "which")])
				} else if total > 1 {
					z := rapid.IntRange(1, total-1).Draw(rt, "zeroat")
					c.ZeroReads = append(c.ZeroReads, z, z)
				}
			}
		}
		if len(stream) < 60 {
			vh.Sample("byte-level", c)
		}
		return c
	}
	vh.Check(t, "TestByteLevel", vh.N(1200, 30000), gen, runCase)
}

// every single cut (and, thorough, every pair of cuts) of short responses
func TestCutsExhaustive(t *testing.T) {
	e := vh.NewEnum(t, "TestCutsExhaustive", runCase)
	if e.Skip() {
		return
	}
	nresp := vh.N(40, 60)
	for i := 0; i < nresp; i++ {
		var ps []rc.P
		// responses are drawn with rapid's generators from a fixed stream of seeds so
		// the enumeration is reproducible
		seed := int(vh.Seed())*1000 + i
		ps = rapid.Custom(genResponse).Example(seed)
		stream, _, _, _ := rc.EncodeStream(ps)
		if len(stream) > 160 || len(stream) < 2 {
			continue
		}
		for a := 0; a <= len(stream); a++ {
			// cut 0 and cut len give an empty first / last packet
			if !e.Do(c02Case{Pkgs: ps, Cuts: []int{a}}) {
				return
			}
			// two and three empty packets in a row at this position
			if !e.Do(c02Case{Pkgs: ps, Cuts: []int{a, a}}) || !e.Do(c02Case{Pkgs: ps, Cuts: []int{a, a, a}}) {
				return
			}
			if vh.Thorough() {
				for b := a + 1; b <= len(stream); b++ {
					if !e.Do(c02Case{Pkgs: ps, Cuts: []int{a, b}}) {
						return
					}
				}
			}
		}
	}
	e.Done("every single cut 0..len, the same position cut twice and three times (1-3 consecutive header-only packets anywhere incl. both ends), thorough: every pair of cuts, of every drawn response <= 160 bytes")
}

// all 2^(n-1) cut sets of short streams
func TestAllCutSetsOfShortStreams(t *testing.T) {
	e := vh.NewEnum(t, "TestAllCutSetsOfShortStreams", runCase)
	if e.Skip() {
		return
	}
	i32 := int32(7)
	streams := [][]rc.P{
		{{Done: &rc.Done{Tok: rc.TokDone, Status: rc.DoneFinal}}},
		{{Msg: &rc.Msg{Status: 1, ID: 3}}, {Done: &rc.Done{Tok: rc.TokDone, Status: rc.DoneCount, Count: 3}}},
		{{RetStat: &i32}, {Done: &rc.Done{Tok: rc.TokDoneProc, Status: rc.DoneProc}}},
		{{Env: &rc.EnvChange{Members: []rc.EnvMember{{Type: rc.EnvDB, New: "a", Old: "b"}}}}, {Msg: &rc.Msg{ID: 9}}},
		{{Msg: &rc.Msg{ID: 2}}, {Msg: &rc.Msg{ID: 3}}, {Msg: &rc.Msg{ID: 4}}},
	}
	n := 0
	for _, ps := range streams {
		stream, _, _, _ := rc.EncodeStream(ps)
		if len(stream) > 15 {
			vh.HarnessBug("stream too long for 2^(n-1) enumeration: %d", len(stream))
		}
		for mask := 0; mask < 1<<(len(stream)-1); mask++ {
			n++
			if !vh.Mine(n) {
				continue
			}
			var cuts []int
			for b := 0; b < len(stream)-1; b++ {
				if mask&(1<<b) != 0 {
					cuts = append(cuts, b+1)
				}
			}
			if !e.Do(c02Case{Pkgs: ps, Cuts: cuts}) {
				return
			}
			if mask%64 == 5 {
				if !e.Do(c02Case{Pkgs: ps, Cuts: cuts, Byte: true, Reads: []int{3}}) {
					return
				}
			}
		}
	}
	e.Done("all 2^(n-1) cut sets of 5 short streams (n <= 15)")
}
