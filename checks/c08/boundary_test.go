package c08

import (
	"fmt"
	"strings"
	"testing"
	"time"

	"pgregory.net/rapid"
	"verif/internal/loginpeer"
	"verif/internal/vh"
)

// The client's second message (encrypted credentials) grows with the key size and the remote
// server entries. Remote server names are chosen so that it ends exactly on a packet boundary
// (or one byte before / behind it): the server still has to get a complete message, i.e. the
// valid script must still lead to a successful login.

type boundaryCase struct {
	C c08Case `json:"login"`
	D int     `json:"bytes_beyond_the_packet_boundary"`
}

func runBoundary(b boundaryCase) *vh.Failure {
	c := b.C
	res := loginpeer.RunPatient(c.Cfg, c.Script, 2*time.Second)
	if res.Panic != nil || res.TimedOut || !res.GotMsg2 {
		return vh.Failf("C08/valid-reply-rejected", "measuring login (valid script): panic=%v timedout=%v second message=%v err=%v", res.Panic, res.TimedOut, res.GotMsg2, res.Err)
	}
	base := len(loginpeer.Body(res.Msg2))
	const body = 512 - 8
	want := ((base+body-1)/body)*body + b.D
	if want < base {
		want += body
	}
	extra := want - base
	for i := range c.Cfg.Remotes {
		room := 255 - len(c.Cfg.Remotes[i][0])
		if room > extra {
			room = extra
		}
		c.Cfg.Remotes[i][0] += strings.Repeat("N", room)
		extra -= room
	}
	if extra > 0 {
		vh.Label("boundary:not-reachable")
		return nil
	}
	c.Edit = fmt.Sprintf("none (second client message of %d bytes = %d packet bodies %+d)", want, want/body, b.D)
	if f := runCase(c); f != nil {
		return f
	}
	vh.Label(fmt.Sprintf("boundary:d=%+d", b.D))
	return nil
}

func TestSecondMessageAtPacketBoundary(t *testing.T) {
	gen := func(rt *rapid.T) boundaryCase {
		bits := rapid.SampledFrom([]int{1024, 1024, 1536, 2048}).Draw(rt, "bits")
		key := loginpeer.PoolKey(bits, rapid.IntRange(0, 1).Draw(rt, "keyidx"))
		nonce := rapid.SliceOfN(rapid.Byte(), 1, 40).Draw(rt, "nonce")
		s := validScript(false, key, nonce, rapid.Bool().Draw(rt, "widefmt"), rapid.Bool().Draw(rt, "extras"), 0)
		cfg := baseCfg(false)
		for i := rapid.IntRange(1, 3).Draw(rt, "remotes"); i > 0; i-- {
			cfg.Remotes = append(cfg.Remotes, [2]string{rapid.StringMatching(`[A-Z]{0,12}`).Draw(rt, "remname"), "remote-pw"})
		}
		return boundaryCase{C: c08Case{Cfg: cfg, Key: key, Script: s, Edit: "none"}, D: rapid.SampledFrom([]int{0, 0, -1, 1}).Draw(rt, "d")}
	}
	vh.Check(t, "TestSecondMessageAtPacketBoundary", vh.N(60, 1200), gen, runBoundary)
}
