package c11

import (
	"context"
	"fmt"
	"testing"

	"pgregory.net/rapid"
	"verif/internal/peer"
	rc "verif/internal/refcodec"
	"verif/internal/vh"

	"github.com/SAP/go-dblib/tds"
)

// A driver keeps its standard hooks in one slice (with room to grow) and registers them on every
// connection with hooks...; each connection then registers hooks of its own, and the driver goes
// on using its slice. What a channel calls are the functions registered on IT, each once.

type sharedCase struct {
	Shared  int  `json:"shared_hooks"`
	Spare   int  `json:"spare_capacity_of_the_shared_slice"`
	Chans   int  `json:"connections"`
	Reuse   bool `json:"caller_appends_to_its_slice_afterwards"`
	Message bool `json:"message_hooks_instead_of_environment_hooks"`
}

func runShared(c sharedCase) (f *vh.Failure) {
	defer func() {
		if r := recover(); r != nil {
			vh.CheckHarnessPanic(r)
			f = vh.Failf("C11/panic", "panic: %v", r)
		}
	}()
	ctx, cancel := context.WithCancel(context.Background())
	defer cancel()
	var calls []string
	envHook := func(name string) tds.EnvChangeHook {
		return func(tds.EnvChangeType, string, string) { calls = append(calls, name) }
	}
	eedHook := func(name string) tds.EEDHook {
		return func(tds.EEDPackage) { calls = append(calls, name) }
	}
	sharedEnv := make([]tds.EnvChangeHook, 0, c.Shared+c.Spare)
	sharedEED := make([]tds.EEDHook, 0, c.Shared+c.Spare)
	for i := 0; i < c.Shared; i++ {
		sharedEnv = append(sharedEnv, envHook(fmt.Sprintf("shared%d", i)))
		sharedEED = append(sharedEED, eedHook(fmt.Sprintf("shared%d", i)))
	}
	var chans []*tds.Channel
	for k := 0; k < c.Chans; k++ {
		conn, _, err := tds.VerifNewConn(ctx, peer.NewPipe(), &tds.Info{ChannelPackageQueueSize: 100}, false)
		if err != nil {
			vh.HarnessBug("VerifNewConn: %v", err)
		}
		ch, err := conn.NewChannel()
		if err != nil {
			vh.HarnessBug("NewChannel: %v", err)
		}
		if c.Message {
			err = ch.RegisterEEDHooks(sharedEED...)
		} else {
			err = ch.RegisterEnvChangeHooks(sharedEnv...)
		}
		if err != nil {
			return vh.Failf("C11/register", "registering the shared hooks on connection %d: %v", k, err)
		}
		chans = append(chans, ch)
	}
	for k, ch := range chans {
		var err error
		if c.Message {
			err = ch.RegisterEEDHooks(eedHook(fmt.Sprintf("own%d", k)))
		} else {
			err = ch.RegisterEnvChangeHooks(envHook(fmt.Sprintf("own%d", k)))
		}
		if err != nil {
			return vh.Failf("C11/register", "registering connection %d's own hook: %v", k, err)
		}
	}
	if c.Reuse {
		// the driver's slice is the driver's
		sharedEnv = append(sharedEnv, envHook("never-registered"))
		sharedEED = append(sharedEED, eedHook("never-registered"))
	}
	var p rc.P
	if c.Message {
		p = rc.P{EED: &rc.EED{MsgNumber: 2000, Class: 16, Msg: "m", Server: "s"}}
	} else {
		p = rc.P{Env: &rc.EnvChange{Members: []rc.EnvMember{{Type: rc.EnvDB, New: "db", Old: "master"}}}}
	}
	body, _, _, err := rc.EncodeStream([]rc.P{p, {Done: &rc.Done{Tok: rc.TokDone}}})
	if err != nil {
		vh.HarnessBug("encode: %v", err)
	}
	for k, ch := range chans {
		calls = nil
		ch.WritePacket(&tds.Packet{Header: tds.PacketHeader{MsgType: tds.TDS_BUF_RESPONSE, Status: tds.TDS_BUFSTAT_EOM, Length: uint16(8 + len(body))}, Data: body})
		for {
			if _, err := ch.NextPackage(ctx, false); err != nil {
				break
			}
		}
		var want []string
		for i := 0; i < c.Shared; i++ {
			want = append(want, fmt.Sprintf("shared%d", i))
		}
		want = append(want, fmt.Sprintf("own%d", k))
		if fmt.Sprint(calls) != fmt.Sprint(want) {
			return vh.Failf("C11/hooks-of-another-registration-called", "%+v: a message / environment change on connection %d was told to %v, registered there (in this order): %v", c, k, calls, want)
		}
	}
	vh.Label("shared-hook-slice")
	if c.Spare > 0 {
		vh.Label("shared-hook-slice:spare-capacity")
		vh.NonTrivial(fmt.Sprintf("%+v", c))
	}
	return nil
}

func TestSharedHookSlice(t *testing.T) {
	gen := func(rt *rapid.T) sharedCase {
		c := sharedCase{Shared: rapid.IntRange(1, 3).Draw(rt, "shared"), Spare: rapid.IntRange(0, 3).Draw(rt, "spare"), Chans: rapid.IntRange(1, 3).Draw(rt, "chans"),
			Reuse: rapid.Bool().Draw(rt, "reuse"), Message: rapid.Bool().Draw(rt, "message")}
		vh.Sample("shared-hooks", c)
		return c
	}
	vh.Check(t, "TestSharedHookSlice", vh.N(300, 6000), gen, runShared)
}
