#!/usr/bin/env python3
"""Validate MANIFEST.json and evidence/*.json against the schemas (needs python3-vt)."""
import json, sys, glob, jsonschema
ok = True
def chk(path, schema):
    global ok
    try:
        jsonschema.validate(json.load(open(path)), json.load(open(schema)))
        print("ok  ", path)
    except Exception as e:
        ok = False
        print("FAIL", path, str(e)[:400])
chk('/verif/MANIFEST.json', '/root/.vp/MANIFEST.schema.json')
for p in sorted(glob.glob('/verif/evidence/*.json')):
    chk(p, '/root/.vp/EVIDENCE.schema.json')
sys.exit(0 if ok else 1)
