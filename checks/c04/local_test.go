package c04

import (
	"fmt"
	"testing"
	"time"
	_ "time/tzdata"

	"github.com/SAP/go-dblib/asetypes"
	"pgregory.net/rapid"
	rc "verif/internal/refcodec"
	"verif/internal/vh"
)

// ---- temporal values that carry a location: what travels is the reading of the clock on the
// wall, so encoding a time.Time of any zone and decoding the bytes gives back that reading (to
// the type's tick) - also on the days a zone's clocks change (days of 23, 25 or 23.5 hours).

type localCase struct {
	T    byte   `json:"t"`
	Len  int64  `json:"len"`
	Loc  string `json:"location"`
	Y    int    `json:"y"`
	M    int    `json:"m"`
	D    int    `json:"d"`
	H    int    `json:"h"`
	Mi   int    `json:"mi"`
	S    int    `json:"s"`
	Ns   int    `json:"ns"`
	Secs int    `json:"fixed_zone_offset_s,omitempty"`
}

func runLocal(c localCase) (f *vh.Failure) {
	defer func() {
		if r := recover(); r != nil {
			f = vh.Failf("C04/local-time-panic", "%+v: panic: %v", c, r)
		}
	}()
	loc := time.FixedZone("fixed", c.Secs)
	if c.Loc != "fixed" {
		var err error
		if loc, err = time.LoadLocation(c.Loc); err != nil {
			vh.HarnessBug("LoadLocation(%q): %v", c.Loc, err)
		}
	}
	dt := asetypes.DataType(c.T)
	t := time.Date(c.Y, time.Month(c.M), c.D, c.H, c.Mi, c.S, c.Ns, loc)
	y, m, d := t.Date()
	hh, mm, ss := t.Clock()
	wall := time.Date(y, m, d, hh, mm, ss, t.Nanosecond(), time.UTC)
	bs, err := dt.Bytes(le, t, c.Len)
	if err != nil {
		vh.Label("local:out-of-range")
		return nil
	}
	got, err := dt.GoValue(le, bs)
	if err != nil {
		return vh.Failf("C04/local-time", "%s: GoValue(% x) of %v: %v", dt, bs, t, err)
	}
	g, ok := got.(time.Time)
	if !ok {
		return vh.Failf("C04/local-time", "%s decoded as %T", dt, got)
	}
	gy, gm, gd := g.Date()
	gh, gmi, gs := g.Clock()
	back := time.Date(gy, gm, gd, gh, gmi, gs, g.Nanosecond(), time.UTC)
	tick := time.Duration(3333334)
	switch {
	case c.Len == 4 && (c.T == rc.TDateTimeN || c.T == rc.TShortDate):
		tick = time.Minute
	case c.T == rc.TBigDateTimeN || c.T == rc.TBigTimeN:
		tick = time.Microsecond
	}
	want := wall
	switch c.T {
	case rc.TDate, rc.TDateN:
		want = time.Date(y, m, d, 0, 0, 0, 0, time.UTC)
		back = time.Date(gy, gm, gd, 0, 0, 0, 0, time.UTC)
	case rc.TTime, rc.TTimeN, rc.TBigTimeN:
		// time of day only: compare the clock readings
		want = time.Date(2000, 1, 1, hh, mm, ss, t.Nanosecond(), time.UTC)
		back = time.Date(2000, 1, 1, gh, gmi, gs, g.Nanosecond(), time.UTC)
	}
	diff := back.Sub(want)
	// (the last half tick of a day may come back as the first tick of the next day)
	if (c.T == rc.TTime || c.T == rc.TTimeN || c.T == rc.TBigTimeN) && diff < -12*time.Hour {
		diff += 24 * time.Hour
	}
	if diff <= -tick || diff >= tick {
		return vh.Failf("C04/local-time", "%s: %v (clock reading %v) came back as clock reading %v: off by %v (wire % x)", dt, t, wall.Format("2006-01-02 15:04:05.000000"), back.Format("2006-01-02 15:04:05.000000"), diff, bs)
	}
	_, off := t.Zone()
	_, offNoon := time.Date(y, m, d, 12, 0, 0, 0, loc).Zone()
	_, offMidnight := time.Date(y, m, d, 0, 0, 0, 0, loc).Zone()
	vh.Label("local:" + c.Loc)
	if off != offMidnight || offNoon != offMidnight {
		vh.Label("local:clock-change-day")
		vh.NonTrivial(fmt.Sprintf("%+v", c))
	}
	return nil
}

var localTypes = []struct {
	T   byte
	Len int64
}{{rc.TDateTime, 8}, {rc.TDateTimeN, 8}, {rc.TDateTimeN, 4}, {rc.TShortDate, 4}, {rc.TDate, 4}, {rc.TDateN, 4}, {rc.TTime, 4}, {rc.TTimeN, 4}, {rc.TBigDateTimeN, 8}, {rc.TBigTimeN, 8}}

var changeDays = map[string][][3]int{
	"Europe/Berlin":       {{2024, 3, 31}, {2024, 10, 27}, {1996, 10, 27}, {2031, 3, 30}},
	"America/New_York":    {{2024, 3, 10}, {2024, 11, 3}, {1987, 4, 5}},
	"Australia/Lord_Howe": {{2024, 4, 7}, {2024, 10, 6}},
	"America/Sao_Paulo":   {{2018, 11, 4}, {2019, 2, 17}},
}

func TestLocalTimesRoundTrip(t *testing.T) {
	gen := func(rt *rapid.T) localCase {
		tl := localTypes[rapid.IntRange(0, len(localTypes)-1).Draw(rt, "type")]
		c := localCase{T: tl.T, Len: tl.Len, Loc: rapid.SampledFrom([]string{"fixed", "Europe/Berlin", "Europe/Berlin", "America/New_York", "Australia/Lord_Howe", "America/Sao_Paulo", "UTC"}).Draw(rt, "loc")}
		c.Secs = rapid.IntRange(-14*3600, 14*3600).Draw(rt, "offset")
		c.Y, c.M, c.D = rapid.IntRange(1901, 2078).Draw(rt, "y"), rapid.IntRange(1, 12).Draw(rt, "m"), rapid.IntRange(1, 28).Draw(rt, "d")
		if days, ok := changeDays[c.Loc]; ok && rapid.IntRange(0, 2).Draw(rt, "changeday") != 0 {
			x := days[rapid.IntRange(0, len(days)-1).Draw(rt, "which")]
			c.Y, c.M, c.D = x[0], x[1], x[2]
		}
		c.H, c.Mi, c.S = rapid.IntRange(0, 23).Draw(rt, "h"), rapid.IntRange(0, 59).Draw(rt, "mi"), rapid.IntRange(0, 59).Draw(rt, "s")
		c.Ns = rapid.SampledFrom([]int{0, 0, 3333333, 500000000, 996666667, 123456000}).Draw(rt, "ns")
		return c
	}
	vh.Check(t, "TestLocalTimesRoundTrip", vh.N(12000, 300000), gen, runLocal)
}
