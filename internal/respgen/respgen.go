// Package respgen generates server responses (token streams) from a grammar over all
// server-side package types, computes what the channel must deliver for them (the
// delivery model) and cuts them into packets / transport reads.
package respgen

import (
	"fmt"
	"sort"

	"pgregory.net/rapid"
	"verif/internal/pkggen"
	rc "verif/internal/refcodec"
)

// Opts steer the grammar.
type Opts struct {
	MaxStatements int
	// EED / Env control how many special packages may be interleaved.
	MaxEED, MaxEnv int
	// Final: 0 random terminator, 1 force DONE(FINAL), 2 force a non-final DONE, 3 force none.
	Final int
	// NoDeliverables forces a response consisting only of filtered packages (+ optional terminator).
	NoDeliverables bool
	// PackSizes allows ENVCHANGE members of type PACKSIZE.
	PackSizes bool
}

func nonFinalDone(rt *rapid.T, tok byte) rc.P {
	// every single status bit of the low byte (0x20 is ATTN), frequent combinations, and now and
	// then any non-zero combination of the 16 bits
	st := uint16(rapid.SampledFrom([]int{rc.DoneMore, rc.DoneCount, rc.DoneMore | rc.DoneCount, rc.DoneProc, rc.DoneError, rc.DoneInxact, rc.DoneCount | rc.DoneProc, rc.DoneMore | rc.DoneError, rc.DoneEvent, 0x80, 0x20, 0x20, 0x20 | rc.DoneCount}).Draw(rt, "donebits"))
	if rapid.IntRange(0, 9).Draw(rt, "anybits") == 0 {
		st = uint16(rapid.IntRange(1, 0xffff).Draw(rt, "anydonebits"))
	}
	return rc.P{Done: &rc.Done{Tok: tok, Status: st, Tran: uint16(rapid.IntRange(0, 4).Draw(rt, "tran")), Count: int32(rapid.IntRange(0, 100000).Draw(rt, "count"))}}
}

func special(rt *rapid.T, o Opts, nEED, nEnv *int, infoOnly bool) []rc.P {
	var out []rc.P
	for rapid.IntRange(0, 3).Draw(rt, "special?") == 0 {
		kinds := []string{}
		if *nEED < o.MaxEED {
			kinds = append(kinds, "eed")
		}
		if *nEnv < o.MaxEnv {
			kinds = append(kinds, "env")
		}
		if len(kinds) == 0 {
			break
		}
		if rapid.SampledFrom(kinds).Draw(rt, "specialkind") == "eed" {
			var info *bool
			if infoOnly {
				t := true
				info = &t
			}
			e := pkggen.GenEED(rt, info)
			if len(e.Msg) > 24 {
				e.Msg = e.Msg[:24]
			}
			out = append(out, rc.P{EED: e})
			*nEED++
		} else {
			env := pkggen.GenEnv(rt, rapid.IntRange(0, 3).Draw(rt, "nmembers"))
			for i := range env.Members {
				m := &env.Members[i]
				if m.Type == rc.EnvPackSize && !o.PackSizes {
					m.Type = rc.EnvDB
				}
				// short values keep the responses small; values at the one-byte length limit
				// (254, 255 bytes) are let through
				if len(m.New) > 12 && len(m.New) < 254 {
					m.New = m.New[:12]
				}
				if len(m.Old) > 12 && len(m.Old) < 254 {
					m.Old = m.Old[:12]
				}
			}
			out = append(out, rc.P{Env: env})
			*nEnv++
		}
	}
	return out
}

// Gen draws one response.
func Gen(rt *rapid.T, o Opts) []rc.P {
	if o.MaxStatements == 0 {
		o.MaxStatements = 4
	}
	ctx := &pkggen.Ctx{Small: true}
	var ps []rc.P
	nEED, nEnv := 0, 0
	ps = append(ps, special(rt, o, &nEED, &nEnv, o.NoDeliverables)...)
	if !o.NoDeliverables {
		n := rapid.IntRange(0, o.MaxStatements).Draw(rt, "statements")
		for i := 0; i < n; i++ {
			switch rapid.SampledFrom([]string{"resultset", "resultset", "params", "single", "single"}).Draw(rt, "stmt") {
			case "resultset":
				fk := rapid.SampledFrom([]string{"rowfmt", "rowfmt2"}).Draw(rt, "fmtkind")
				f, row, _ := pkggen.GenWithFormat(rt, fk, ctx)
				ps = append(ps, f)
				if rapid.IntRange(0, 3).Draw(rt, "orderby?") == 0 {
					ps = append(ps, pkggen.Gen(rt, rapid.SampledFrom([]string{"orderby", "orderby2"}).Draw(rt, "okind"), ctx))
				}
				nrows := rapid.IntRange(0, 3).Draw(rt, "nrows")
				for j := 0; j < nrows; j++ {
					if j == 0 {
						ps = append(ps, row)
					} else {
						// another row of the same format: redraw the values
						ps = append(ps, regenRow(rt, *f.Fmt))
					}
					// filtered packages may arrive between rows
					ps = append(ps, special(rt, o, &nEED, &nEnv, true)...)
				}
				ps = append(ps, nonFinalDone(rt, rc.TokDone))
			case "params":
				fk := rapid.SampledFrom([]string{"paramfmt", "paramfmt2"}).Draw(rt, "fmtkind")
				f, row, _ := pkggen.GenWithFormat(rt, fk, ctx)
				ps = append(ps, f, row)
			default:
				k := rapid.SampledFrom([]string{"returnstatus", "doneproc", "doneinproc", "msg", "loginack", "capability", "dynamic-ack", "curinfo", "curinfo3", "error"}).Draw(rt, "single")
				switch k {
				case "doneproc":
					ps = append(ps, nonFinalDone(rt, rc.TokDoneProc))
				case "doneinproc":
					ps = append(ps, nonFinalDone(rt, rc.TokDoneInProc))
				default:
					ps = append(ps, pkggen.Gen(rt, k, ctx))
				}
			}
			ps = append(ps, special(rt, o, &nEED, &nEnv, false)...)
		}
	}
	fin := o.Final
	if fin == 0 {
		fin = rapid.IntRange(1, 3).Draw(rt, "terminator")
	}
	switch fin {
	case 1:
		tok := rapid.SampledFrom([]byte{rc.TokDone, rc.TokDone, rc.TokDoneProc}).Draw(rt, "finaltok")
		ps = append(ps, rc.P{Done: &rc.Done{Tok: tok, Status: rc.DoneFinal, Tran: uint16(rapid.IntRange(0, 4).Draw(rt, "tran")), Count: int32(rapid.IntRange(0, 1000).Draw(rt, "count"))}})
		// filtered packages may still follow the final DONE
		ps = append(ps, special(rt, o, &nEED, &nEnv, true)...)
	case 2:
		if len(ps) == 0 || ps[len(ps)-1].Done == nil {
			ps = append(ps, nonFinalDone(rt, rc.TokDone))
		}
	}
	if len(ps) == 0 {
		// an empty message cannot be sent; the shortest response is a lone DONE
		ps = append(ps, rc.P{Done: &rc.Done{Tok: rc.TokDone, Status: rc.DoneFinal}})
	}
	return ps
}

func regenRow(rt *rapid.T, f rc.Fmt) rc.P {
	// draw a fresh row for an existing format: values of the column types with the
	// widths the format fixes
	ctx := &pkggen.Ctx{Small: true}
	_ = ctx
	row := &rc.Row{Tok: rc.TokRow}
	for _, c := range f.Cols {
		row.Cells = append(row.Cells, pkggen.CellFor(rt, c))
	}
	return rc.P{Row: row}
}

// Filtered reports whether the channel keeps the package to itself (never delivered).
func Filtered(p rc.P) bool {
	return p.Env != nil || (p.EED != nil && p.EED.Status&rc.EEDInfo != 0)
}

// IsFinalDone: a DONE-family package with status 0.
func IsFinalDone(p rc.P) bool { return p.Done != nil && p.Done.Status == rc.DoneFinal }

// Deliver computes the delivery model: what the consumer must receive for the
// response, in order. prevLast is the last package delivered before this response
// (nil if none); synthetic reports whether the final DONE is supplied by the library.
func Deliver(ps []rc.P) (out []rc.P, synthetic bool) {
	for _, p := range ps {
		if !Filtered(p) {
			out = append(out, p)
		}
	}
	if len(out) == 0 || !IsFinalDone(out[len(out)-1]) {
		out = append(out, rc.P{Done: &rc.Done{Tok: rc.TokDone, Status: rc.DoneFinal}})
		synthetic = true
	}
	return out, synthetic
}

// FormatBefore returns, for every package index, the format in force (for comparing rows).
func FormatBefore(ps []rc.P) []*rc.Fmt {
	out := make([]*rc.Fmt, len(ps))
	var last *rc.Fmt
	for i, p := range ps {
		if p.Fmt != nil {
			last = p.Fmt
		}
		out[i] = last
	}
	return out
}

// ---- cutting

// Cuts draws a sorted cut set for a stream of n bytes. Equal neighbours produce
// empty bodies (header-only packets) and are only generated if allowEmpty.
func Cuts(rt *rapid.T, n int, allowEmpty bool) []int {
	if n <= 1 {
		return nil
	}
	var cuts []int
	switch rapid.IntRange(0, 5).Draw(rt, "cutclass") {
	case 0: // none
	case 1: // single
		cuts = []int{rapid.IntRange(1, n-1).Draw(rt, "cut")}
	case 2: // every byte its own packet (bounded)
		if n <= 200 {
			for i := 1; i < n; i++ {
				cuts = append(cuts, i)
			}
		} else {
			cuts = []int{1, 2, n - 1}
		}
	case 3: // few
		k := rapid.IntRange(2, 4).Draw(rt, "ncuts")
		for i := 0; i < k; i++ {
			cuts = append(cuts, rapid.IntRange(1, n-1).Draw(rt, "cut"))
		}
	default: // density
		den := rapid.IntRange(2, 40).Draw(rt, "density")
		for i := 1; i < n; i++ {
			if rapid.IntRange(0, den).Draw(rt, "cuthere") == 0 {
				cuts = append(cuts, i)
			}
		}
	}
	sort.Ints(cuts)
	if !allowEmpty {
		cuts = dedup(cuts)
	} else if rapid.IntRange(0, 3).Draw(rt, "empty?") == 0 {
		// empty bodies (header-only packets): 1..3 of them, in the middle (a duplicated cut),
		// at the very beginning, or at the end (one or several empty packets, the last one
		// carrying EOM), possibly several in a row
		k := rapid.IntRange(1, 3).Draw(rt, "nempty")
		for j := 0; j < k; j++ {
			switch rapid.IntRange(0, 3).Draw(rt, "emptywhere") {
			case 0:
				cuts = append(cuts, n)
			case 1:
				cuts = append([]int{0}, cuts...)
			default:
				if len(cuts) == 0 {
					cuts = append(cuts, n)
				} else {
					i := rapid.IntRange(0, len(cuts)-1).Draw(rt, "dup")
					cuts = append(cuts[:i+1], cuts[i:]...)
				}
			}
		}
		sort.Ints(cuts)
	}
	return cuts
}

func dedup(c []int) []int {
	var out []int
	for i, x := range c {
		if i == 0 || x != c[i-1] {
			out = append(out, x)
		}
	}
	return out
}

// CutClass classifies where a cut offset falls in the encoded stream.
func CutClass(spans []rc.Span, pkgOffs []int, cut int) string {
	for _, o := range pkgOffs {
		if o == cut {
			return "between-packages"
		}
	}
	for _, s := range spans {
		if cut > s.Off && cut < s.Off+s.Len {
			return "inside-" + s.Kind
		}
	}
	return "between-fields"
}

// Describe renders a short description of a response for messages.
func Describe(ps []rc.P) string {
	s := ""
	for i, p := range ps {
		if i > 0 {
			s += " "
		}
		s += pkggen.KindOf(p)
		if p.Done != nil {
			s += fmt.Sprintf("(%#x)", p.Done.Status)
		}
		if p.EED != nil && p.EED.Status&rc.EEDInfo != 0 {
			s += "(info)"
		}
	}
	return s
}
