#!/bin/bash
# Applies each deliberate property-breaking edit (mutants/<ID>/*.patch, seeded/<name>/patch.diff)
# to a scratch copy of /repo's working tree outside /repo and /verif, runs the quick check of
# the property against it and requires exit 1. Usage: sensitivity.sh [ID ...] (default: all)
# Env: TIER=quick|thorough, JOBS=n parallel mutants (default 4)
cd "$(dirname "$0")"
# every scratch copy has its own path, so nothing it builds is ever reused: a build cache of its
# own, removed at the end, keeps the user's cache from growing by ~200 MB per mutant
export GOCACHE=$(mktemp -d /tmp/vsens-cache-XXXXXX)
trap 'rm -rf "$GOCACHE"' EXIT
ROOT=$(pwd)
TIER=${TIER:-quick}
ids=("$@")
if [ ${#ids[@]} -eq 0 ]; then ids=($(ls mutants 2>/dev/null)); fi
res="$ROOT/work/sensitivity.txt"; mkdir -p "$ROOT/work"; : > "$res"
pname() { case "$1" in */seeded/*) echo "seeded/$(basename "$(dirname "$1")")" ;; *) basename "$1" ;; esac; }
run_one() {
  id=$1; patch=$2
  dir=$(mktemp -d /tmp/vmut-XXXXXX)
  rsync -a --exclude .git /repo/ "$dir/"
  if ! (cd "$dir" && patch -p1 -s < "$patch" >/dev/null 2>&1); then
    echo "PATCH-FAILED $id $(pname "$patch")" >> "$res"; rm -rf "$dir"; return
  fi
  if ! (cd "$dir" && GOFLAGS=-mod=mod GOPROXY=off go build ./... >/dev/null 2>&1); then
    echo "NO-COMPILE $id $(pname "$patch")" >> "$res"; rm -rf "$dir"; return
  fi
  out=$(VERIF_REPO="$dir" python3 "$ROOT/vcheck.py" "$id" --tier "$TIER" 2>&1); rc=$?
  cls=$(echo "$out" | grep -m1 "class=" | sed 's/^ *//' | cut -c1-160)
  if [ $rc -eq 1 ]; then echo "CAUGHT $id $(pname "$patch") :: $cls" >> "$res";
  elif [ $rc -eq 0 ]; then echo "MISSED $id $(pname "$patch")" >> "$res";
  else echo "INCONCLUSIVE($rc) $id $(pname "$patch") :: $(echo "$out" | tail -3 | tr '\n' ' ' | cut -c1-300)" >> "$res"; fi
  tag=$(printf %s "$dir" | sha256sum | cut -c1-8)
  rm -f "$ROOT"/bin/*.$tag.test "$ROOT"/bin/*.$tag.race.test "$ROOT"/bin/*.$tag.386.test "$ROOT"/work/alt.$tag.mod "$ROOT"/work/alt.$tag.sum
  rm -rf "$dir" "$ROOT/work/$id.$tag"
}
JOBS=${JOBS:-4}
for id in "${ids[@]}"; do
  for patch in "$ROOT"/mutants/"$id"/*.patch "$ROOT"/seeded/"$id"-r*/patch.diff; do
    [ -f "$patch" ] || continue
    while [ "$(jobs -r | wc -l)" -ge "$JOBS" ]; do sleep 0.5; done
    run_one "$id" "$patch" &
  done
done
wait
sort "$res"
grep -q "^MISSED\|^PATCH-FAILED" "$res" && exit 1 || exit 0
