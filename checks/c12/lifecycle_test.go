package c12

import (
	"context"
	"errors"
	"fmt"
	"runtime"
	"strings"
	"testing"
	"time"

	"pgregory.net/rapid"
	"verif/internal/peer"
	rc "verif/internal/refcodec"
	"verif/internal/vh"

	"github.com/SAP/go-dblib/dsn"
	"github.com/SAP/go-dblib/tds"
)

// life cycle of channels next to each other: (a) a channel whose consumer is behind (more
// packages than its queue holds, the reader is busy delivering to it) must not keep another
// channel from being closed; (b) channels created after others were closed: packets that still
// arrive for a closed channel are connection errors and reach nobody, and ids stay distinct
// over the history of the connection.

type lifeEnv struct {
	pipe *peer.Pipe
	srv  *server
	conn *tds.Conn
	bg   context.Context
	stop func()
}

func newLifeEnv(queue int) *lifeEnv {
	bg, cancel := context.WithCancel(context.Background())
	pipe := peer.NewPipe()
	srv := &server{pipe: pipe, idToIdx: map[int]int{}, nextNr: map[int]int{}, pending: map[int][]rc.Packet{}, reqSeen: map[int]int{}, msg: map[int][]byte{}, closed: map[int]bool{}, stop: make(chan struct{})}
	conn, done, err := tds.VerifNewConn(bg, pipe, &tds.Info{Info: dsn.Info{Host: "h"}, ChannelPackageQueueSize: queue, PacketReadTimeout: 5}, true)
	if err != nil {
		vh.HarnessBug("VerifNewConn: %v", err)
	}
	go srv.loop()
	e := &lifeEnv{pipe: pipe, srv: srv, conn: conn, bg: bg}
	e.stop = func() {
		close(srv.stop)
		cancel()
		pipe.Close()
		go func() {
			defer func() { recover() }()
			conn.Close()
		}()
		deadline := time.After(3 * time.Second)
		for {
			select {
			case <-done:
				return
			case <-deadline:
				return
			default:
				conn.VerifConnErr()
				time.Sleep(200 * time.Microsecond)
			}
		}
	}
	return e
}

func within(d time.Duration, fn func()) bool {
	done := make(chan struct{})
	go func() { defer close(done); fn() }()
	select {
	case <-done:
		return true
	case <-time.After(d):
		return false
	}
}

func retPacket(id, v int, eom bool) []byte {
	st := byte(0)
	if eom {
		st = rc.StatEOM
	}
	return rc.Packet{Type: rc.BufResponse, Channel: uint16(id), Status: st, Body: []byte{rc.TokReturnStatus, byte(v), byte(v >> 8), 0, 0}}.Bytes()
}

type backlogCase struct {
	Queue    int `json:"package_queue_size"`
	Logical  int `json:"logical_channels"`
	Behind   int `json:"channel_whose_consumer_is_behind"` // index into all channels (0 = main)
	Extra    int `json:"packages_beyond_the_queue"`
	CloseIdx int `json:"logical_channel_closed_meanwhile"` // index into the other logical channels
	Procs    int `json:"gomaxprocs"`
}

func runBacklog(c backlogCase) (f *vh.Failure) {
	defer func() {
		if r := recover(); r != nil {
			vh.CheckHarnessPanic(r)
			f = vh.Failf("C12/panic", "panic: %v", r)
		}
	}()
	old := runtime.GOMAXPROCS(c.Procs)
	defer runtime.GOMAXPROCS(old)
	e := newLifeEnv(c.Queue)
	defer e.stop()
	var chans []*tds.Channel
	for i := 0; i <= c.Logical; i++ {
		var ch *tds.Channel
		var err error
		if !within(5*time.Second, func() { ch, err = e.conn.NewChannel() }) || err != nil {
			return vh.Failf("C12/newchannel", "NewChannel %d: %v", i, err)
		}
		chans = append(chans, ch)
	}
	a := chans[c.Behind%len(chans)]
	var others []*tds.Channel
	for _, ch := range chans[1:] {
		if ch != a {
			others = append(others, ch)
		}
	}
	b := others[c.CloseIdx%len(others)]
	where := fmt.Sprintf("queue size %d, channels %d, channel %d is %d packages behind, channel %d is closed meanwhile, GOMAXPROCS %d", c.Queue, len(chans), a.VerifID(), c.Queue+1+c.Extra, b.VerifID(), c.Procs)
	n := c.Queue + 1 + c.Extra
	for v := 0; v < n; v++ {
		e.pipe.Feed(retPacket(a.VerifID(), v, false))
	}
	// the reader holds a's read lock while it delivers: wait until it is stuck there
	stuck := false
	for t0 := time.Now(); time.Since(t0) < 2*time.Second; {
		if a.TryLock() {
			a.Unlock()
			time.Sleep(100 * time.Microsecond)
			continue
		}
		// still held a little later?
		time.Sleep(300 * time.Microsecond)
		if !a.TryLock() {
			stuck = true
			break
		}
		a.Unlock()
	}
	if !stuck {
		vh.Label("backlog:reader-not-observed-stuck")
		return nil
	}
	var cerr error
	if !within(3*time.Second, func() { cerr = b.Close() }) {
		return vh.Failf("C12/close-blocked-by-backlog-of-another-channel", "%s: Close of the idle channel did not return within 3 s", where)
	}
	if cerr != nil {
		return vh.Failf("C12/close", "%s: Close: %v", where, cerr)
	}
	if _, err := b.NextPackage(e.bg, false); !errors.Is(err, tds.ErrChannelClosed) {
		return vh.Failf("C12/closed-channel-still-usable", "%s: NextPackage on the closed channel returns %v", where, err)
	}
	// the channel that was behind gets everything, in order
	for v := 0; v < n; v++ {
		wctx, cancel := context.WithTimeout(e.bg, 3*time.Second)
		p, err := a.NextPackage(wctx, true)
		cancel()
		if err != nil {
			return vh.Failf("C12/backlog-lost", "%s: package %d of %d: %v", where, v, n, err)
		}
		rs, ok := p.(*tds.ReturnStatusPackage)
		if !ok || fmt.Sprint(rs) == "" {
			return vh.Failf("C12/backlog-lost", "%s: package %d is a %T", where, v, p)
		}
	}
	e.srv.mu.Lock()
	problems := append([]string{}, e.srv.problems...)
	e.srv.mu.Unlock()
	if len(problems) > 0 {
		return vh.Failf("C12/peer-sees-wrong-packets", "%s: %s", where, problems[0])
	}
	vh.Label("backlog:other-channel-closed-while-reader-stuck")
	vh.NonTrivial(fmt.Sprintf("%+v", c))
	return nil
}

func TestBacklogIsolation(t *testing.T) {
	gen := func(rt *rapid.T) backlogCase {
		c := backlogCase{Queue: rapid.IntRange(1, 3).Draw(rt, "queue"), Logical: rapid.IntRange(2, 4).Draw(rt, "logical"), Extra: rapid.IntRange(1, 4).Draw(rt, "extra"), Procs: rapid.SampledFrom([]int{1, 2, 4, 16}).Draw(rt, "procs")}
		c.Behind = rapid.IntRange(0, c.Logical).Draw(rt, "behind")
		c.CloseIdx = rapid.IntRange(0, 3).Draw(rt, "closeidx")
		vh.Sample("backlog", c)
		return c
	}
	vh.Check(t, "TestBacklogIsolation", vh.N(40, 1200), gen, runBacklog)
}

type reuseCase struct {
	First  int   `json:"channels_created_first"`
	Close  []int `json:"indices_closed"` // indices into the first batch (taken mod, duplicates skipped)
	Second int   `json:"channels_created_afterwards"`
	Procs  int   `json:"gomaxprocs"`
	// Ack: the server acknowledges every teardown with a header-only CLOSE packet on that
	// channel right away - the reader has processed it before the write of the teardown returns,
	// while the channel is still registered
	Ack bool `json:"teardown_acknowledged_at_once"`
}

func runReuse(c reuseCase) (f *vh.Failure) {
	defer func() {
		if r := recover(); r != nil {
			vh.CheckHarnessPanic(r)
			f = vh.Failf("C12/panic", "panic: %v", r)
		}
	}()
	old := runtime.GOMAXPROCS(c.Procs)
	defer runtime.GOMAXPROCS(old)
	e := newLifeEnv(100)
	defer e.stop()
	create := func() (*tds.Channel, *vh.Failure) {
		var ch *tds.Channel
		var err error
		if !within(5*time.Second, func() { ch, err = e.conn.NewChannel() }) {
			return nil, vh.Failf("C12/newchannel", "%+v: NewChannel did not return within 5 s although the server acknowledges every setup", c)
		}
		if err != nil {
			return nil, vh.Failf("C12/newchannel", "%+v: NewChannel: %v", c, err)
		}
		return ch, nil
	}
	if _, f := create(); f != nil { // main channel
		return f
	}
	var first []*tds.Channel
	ids := map[int]string{0: "the main channel"}
	note := func(ch *tds.Channel, what string) *vh.Failure {
		if prev, dup := ids[ch.VerifID()]; dup {
			return vh.Failf("C12/channel-id-not-distinct", "%+v: %s got id %d, which %s has (or had) on this connection", c, what, ch.VerifID(), prev)
		}
		ids[ch.VerifID()] = what
		return nil
	}
	for i := 0; i < c.First; i++ {
		ch, f := create()
		if f != nil {
			return f
		}
		if f := note(ch, fmt.Sprintf("channel %d of the first batch", i)); f != nil {
			return f
		}
		first = append(first, ch)
	}
	var closedIDs []int
	closed := map[int]bool{}
	lastClosed := false
	for _, k := range c.Close {
		i := k % len(first)
		if closed[i] {
			continue
		}
		closed[i] = true
		var err error
		if c.Ack {
			id := first[i].VerifID()
			seen := e.pipe.WrittenLen()
			e.pipe.OnWrite(func() {
				// the teardown is among the packets written since (whatever their sizes)
				w := e.pipe.Written()
				found := false
				for at := seen; at+8 <= len(w); {
					if w[at] == rc.BufClose {
						found = true
					}
					n := int(w[at+2])<<8 | int(w[at+3])
					if n < 8 {
						break
					}
					at += n
				}
				if !found {
					return
				}
				e.pipe.OnWrite(nil)
				e.pipe.Feed(rc.Packet{Type: rc.BufClose, Channel: uint16(id), Status: rc.StatEOM}.Bytes())
				e.pipe.WaitDrained(3 * time.Second)
			})
		}
		// (with the acknowledgement delivered to the channel, Close may report what remained in it)
		if !within(5*time.Second, func() { err = first[i].Close() }) || (err != nil && !c.Ack) {
			return vh.Failf("C12/close", "%+v: Close of channel %d: %v", c, first[i].VerifID(), err)
		}
		e.pipe.OnWrite(nil)
		closedIDs = append(closedIDs, first[i].VerifID())
		lastClosed = lastClosed || i == len(first)-1
	}
	var second []*tds.Channel
	for i := 0; i < c.Second; i++ {
		ch, f := create()
		if f != nil {
			return f
		}
		if f := note(ch, fmt.Sprintf("channel %d created after the closes", i)); f != nil {
			return f
		}
		second = append(second, ch)
	}
	// what the server still had in flight for the closed channels: the acknowledgement of the
	// close and a package
	for e.conn.VerifConnErr() != nil {
	}
	for _, id := range closedIDs {
		e.pipe.Feed(rc.Packet{Type: rc.BufClose, Channel: uint16(id), Status: rc.StatEOM}.Bytes())
		e.pipe.Feed(rc.Packet{Type: rc.BufResponse, Channel: uint16(id), Status: rc.StatEOM, Body: []byte{rc.TokDone, 0, 0, 0, 0, 7, 0, 0, 0}}.Bytes())
	}
	got := 0
	deadline := time.Now().Add(20 * time.Second)
	for got < 2*len(closedIDs) && time.Now().Before(deadline) {
		if err := e.conn.VerifConnErr(); err != nil {
			got++
		} else {
			time.Sleep(100 * time.Microsecond)
		}
	}
	live := append([]*tds.Channel{}, second...)
	for i, ch := range first {
		if !closed[i] {
			live = append(live, ch)
		}
	}
	for _, ch := range live {
		if p, err := ch.NextPackage(e.bg, false); !errors.Is(err, tds.ErrNoPackageReady) {
			return vh.Failf("C12/packet-for-closed-channel-delivered-to-another-channel", "%+v: after late packets for the closed channels %v the live channel %d received %v (err %v)", c, closedIDs, ch.VerifID(), p, err)
		}
	}
	if got != 2*len(closedIDs) {
		return vh.Failf("C12/packet-for-closed-channel-not-reported", "%+v: %d late packets for the closed channels %v produced %d connection errors", c, 2*len(closedIDs), closedIDs, got)
	}
	e.srv.mu.Lock()
	problems := append([]string{}, e.srv.problems...)
	e.srv.mu.Unlock()
	if len(problems) > 0 {
		return vh.Failf("C12/peer-sees-wrong-packets", "%+v: %s", c, problems[0])
	}
	if lastClosed && c.Second > 0 {
		vh.Label("lifecycle:newest-channel-closed-then-another-created")
		vh.NonTrivial(fmt.Sprintf("%+v", c))
	}
	vh.Label("lifecycle:create-after-close")
	if c.Ack {
		vh.Label("lifecycle:teardown-acknowledged-while-channel-registered")
	}
	return nil
}

func TestCreateAfterClose(t *testing.T) {
	gen := func(rt *rapid.T) reuseCase {
		c := reuseCase{First: rapid.IntRange(1, 4).Draw(rt, "first"), Second: rapid.IntRange(1, 3).Draw(rt, "second"), Procs: rapid.SampledFrom([]int{1, 4}).Draw(rt, "procs")}
		c.Close = rapid.SliceOfN(rapid.IntRange(0, 3), 1, 3).Draw(rt, "close")
		if rapid.Bool().Draw(rt, "closenewest") {
			c.Close = append(c.Close, c.First-1)
		}
		c.Ack = rapid.Bool().Draw(rt, "ack")
		vh.Sample("create-after-close", c)
		return c
	}
	vh.Check(t, "TestCreateAfterClose", vh.N(40, 1200), gen, runReuse)
}

// ---- more stray packets than the connection's error queue holds (10), nobody reading errors:
// the reader waits until the errors are taken and then goes on; the response that follows still
// reaches its channel, and every stray packet was reported

type floodCase struct {
	Stray int `json:"stray_packets"`
	Procs int `json:"gomaxprocs"`
	// Status: the status bytes of the stray packets in turn (empty: all EOM). A stray packet
	// without EOM is the beginning of a message for a channel nobody has; what follows it on
	// the wire for OTHER channels is not part of that message
	Status []int `json:"stray_status,omitempty"`
}

func runFlood(c floodCase) (f *vh.Failure) {
	defer func() {
		if r := recover(); r != nil {
			vh.CheckHarnessPanic(r)
			f = vh.Failf("C12/panic", "panic: %v", r)
		}
	}()
	old := runtime.GOMAXPROCS(c.Procs)
	defer runtime.GOMAXPROCS(old)
	e := newLifeEnv(100)
	defer e.stop()
	var chans []*tds.Channel
	for i := 0; i < 2; i++ {
		var ch *tds.Channel
		var err error
		if !within(5*time.Second, func() { ch, err = e.conn.NewChannel() }) || err != nil {
			return vh.Failf("C12/newchannel", "NewChannel %d: %v", i, err)
		}
		chans = append(chans, ch)
	}
	ch := chans[1]
	for i := 0; i < c.Stray; i++ {
		st := byte(rc.StatEOM)
		if len(c.Status) > 0 {
			st = byte(c.Status[i%len(c.Status)])
		}
		e.pipe.Feed(rc.Packet{Type: rc.BufResponse, Channel: uint16(9 + i%3), Status: st, Body: []byte{rc.TokDone, 0, 0, 0, 0, 0, 0, 0, 0}}.Bytes())
	}
	if len(c.Status) > 0 {
		vh.Label("flood:stray-packets-without-eom")
	}
	time.Sleep(time.Millisecond)
	e.pipe.Feed(retPacket(ch.VerifID(), 42, true))
	// the consumer: every call either yields the package or one of the connection's errors
	errs := 0
	var got tds.Package
	deadline := time.Now().Add(20 * time.Second)
	for got == nil && time.Now().Before(deadline) {
		wctx, cancel := context.WithTimeout(e.bg, time.Second)
		p, err := ch.NextPackage(wctx, true)
		cancel()
		switch {
		case err == nil:
			got = p
		case errors.Is(err, context.DeadlineExceeded):
		default:
			errs++
		}
	}
	if got == nil {
		return vh.Failf("C12/delivery-stops-after-stray-packets", "%+v: after %d packets for channels nobody has, the response for channel %d was not delivered within 20 s (%d connection errors reported)", c, c.Stray, ch.VerifID(), errs)
	}
	if _, ok := got.(*tds.ReturnStatusPackage); !ok {
		return vh.Failf("C12/wrong-delivery", "%+v: channel %d received %T", c, ch.VerifID(), got)
	}
	// the remaining errors
	for dl := time.Now().Add(20 * time.Second); errs < c.Stray && time.Now().Before(dl); {
		if e.conn.VerifConnErr() != nil {
			errs++
		} else {
			time.Sleep(100 * time.Microsecond)
		}
	}
	if errs != c.Stray {
		return vh.Failf("C12/unknown-channel-not-reported", "%+v: %d stray packets produced %d connection errors", c, c.Stray, errs)
	}
	vh.Label("flood:stray-packets-then-a-response")
	if c.Stray > 10 {
		vh.Label("flood:more-than-the-error-queue-holds")
		vh.NonTrivial(fmt.Sprintf("%+v", c))
	}
	return nil
}

func TestStrayPacketFlood(t *testing.T) {
	gen := func(rt *rapid.T) floodCase {
		c := floodCase{Stray: rapid.SampledFrom([]int{1, 2, 9, 10, 11, 12, 20, 40}).Draw(rt, "stray"), Procs: rapid.SampledFrom([]int{1, 4}).Draw(rt, "procs")}
		if rapid.Bool().Draw(rt, "status?") {
			c.Status = rapid.SliceOfN(rapid.SampledFrom([]int{0, 0, 1, 2, 8, 9}), 1, 3).Draw(rt, "status")
		}
		vh.Sample("flood", c)
		return c
	}
	vh.Check(t, "TestStrayPacketFlood", vh.N(40, 1200), gen, runFlood)
}

// ---- Close of a logical channel while a packet of a send on it is still being written: the
// peer sees the channel's packets with consecutive numbers in the order they were numbered

type closeSendCase struct {
	Len   int `json:"request_bytes"`
	GapUs int `json:"close_starts_after_us"`
	Procs int `json:"gomaxprocs"`
}

func runCloseDuringSend(c closeSendCase) (f *vh.Failure) {
	defer func() {
		if r := recover(); r != nil {
			vh.CheckHarnessPanic(r)
			f = vh.Failf("C12/panic", "panic: %v", r)
		}
	}()
	old := runtime.GOMAXPROCS(c.Procs)
	defer runtime.GOMAXPROCS(old)
	e := newLifeEnv(100)
	defer e.stop()
	var ch *tds.Channel
	for i := 0; i < 2; i++ {
		var err error
		if !within(5*time.Second, func() { ch, err = e.conn.NewChannel() }) || err != nil {
			return vh.Failf("C12/newchannel", "NewChannel %d: %v", i, err)
		}
	}
	id := ch.VerifID()
	e.srv.mu.Lock()
	e.srv.idToIdx[id] = 0
	e.srv.c.Resp = [][]resp{{{Pkgs: []rc.P{{Done: &rc.Done{Tok: rc.TokDone}}}}}}
	e.srv.mu.Unlock()
	release := e.pipe.GateWrites()
	sent := make(chan error, 1)
	go func() {
		sent <- ch.SendPackage(e.bg, &tds.LanguagePackage{Cmd: fmt.Sprintf("chan=%d;round=0;%s", id, strings.Repeat("x", c.Len))})
	}()
	if !e.pipe.WaitParkedWrite(1, 3*time.Second) {
		release()
		return vh.Failf("C12/send", "%+v: SendPackage never reached the transport", c)
	}
	// the first packet of the request is stuck in the transport; whatever is written from now on goes through
	e.pipe.LetNewWritesPass()
	closed := make(chan error, 1)
	go func() { closed <- ch.Close() }()
	time.Sleep(time.Duration(c.GapUs) * time.Microsecond)
	release()
	for _, w := range []struct {
		name string
		c    chan error
	}{{"SendPackage", sent}, {"Close", closed}} {
		select {
		case <-w.c:
		case <-time.After(5 * time.Second):
			return vh.Failf("C12/hang", "%+v: %s did not return", c, w.name)
		}
	}
	time.Sleep(500 * time.Microsecond)
	e.srv.mu.Lock()
	problems := append([]string{}, e.srv.problems...)
	e.srv.mu.Unlock()
	for _, pr := range problems {
		if strings.Contains(pr, "packet number") {
			return vh.Failf("C12/peer-sees-wrong-packets", "%+v: Close while a packet of the send was still being written: %s", c, pr)
		}
	}
	vh.Label("close-during-send")
	vh.NonTrivial(fmt.Sprintf("%+v", c))
	return nil
}

func TestCloseDuringSend(t *testing.T) {
	gen := func(rt *rapid.T) closeSendCase {
		c := closeSendCase{Len: rapid.SampledFrom([]int{10, 400, 600, 1500, 6000, 30000, 60000}).Draw(rt, "len"), GapUs: rapid.SampledFrom([]int{200, 1000, 5000}).Draw(rt, "gap"), Procs: rapid.SampledFrom([]int{1, 2, 4}).Draw(rt, "procs")}
		vh.Sample("close-during-send", c)
		return c
	}
	vh.Check(t, "TestCloseDuringSend", vh.N(40, 1200), gen, runCloseDuringSend)
}

// ---- a long-lived connection: hundreds of logical channels are created and closed again over
// time, only a few are open at once. Every new channel is created without an error, gets an id
// no channel of the connection had before, announces exactly that id to the server, and
// receives what the server sends for that id.

type manyCase struct {
	Total int `json:"channels_created_over_time"`
	Open  int `json:"open_at_once"`
	Procs int `json:"gomaxprocs"`
}

func runManyChannels(c manyCase) (f *vh.Failure) {
	defer func() {
		if r := recover(); r != nil {
			vh.CheckHarnessPanic(r)
			f = vh.Failf("C12/panic", "panic: %v", r)
		}
	}()
	old := runtime.GOMAXPROCS(c.Procs)
	defer runtime.GOMAXPROCS(old)
	e := newLifeEnv(100)
	defer e.stop()
	var err error
	if !within(5*time.Second, func() { _, err = e.conn.NewChannel() }) || err != nil {
		vh.HarnessBug("main channel: %v", err)
	}
	seen := map[int]int{0: 0}
	var open []*tds.Channel
	for n := 1; n <= c.Total; n++ {
		where := fmt.Sprintf("logical channel number %d of the connection (%d open at this time)", n, len(open))
		var ch *tds.Channel
		if !within(5*time.Second, func() { ch, err = e.conn.NewChannel() }) {
			return vh.Failf("C12/newchannel", "%s: NewChannel did not return within 5 s", where)
		}
		if err != nil {
			return vh.Failf("C12/newchannel", "%s: NewChannel: %v", where, err)
		}
		id := ch.VerifID()
		if prev, dup := seen[id]; dup {
			return vh.Failf("C12/channel-id-not-distinct", "%s got id %d, which channel number %d has (or had) on this connection", where, id, prev)
		}
		seen[id] = n
		e.pipe.Feed(retPacket(id, n, true))
		wctx, cancel := context.WithTimeout(e.bg, 5*time.Second)
		p, err := ch.NextPackage(wctx, true)
		cancel()
		if err != nil {
			return vh.Failf("C12/response-not-routed", "%s (id %d): the response the server sent for that id did not arrive: %v", where, id, err)
		}
		if rs, ok := p.(*tds.ReturnStatusPackage); !ok || rs.ReturnValue != int32(n&0xffff) {
			return vh.Failf("C12/response-not-routed", "%s (id %d): received %v, sent was return status %d", where, id, p, n&0xffff)
		}
		// the end-of-message DONE the channel adds (queued right after the package)
		wctx, cancel = context.WithTimeout(e.bg, 2*time.Second)
		_, _ = ch.NextPackage(wctx, true)
		cancel()
		open = append(open, ch)
		if len(open) > c.Open {
			var cerr error
			if !within(5*time.Second, func() { cerr = open[0].Close() }) || cerr != nil {
				return vh.Failf("C12/close", "%s: Close of channel %d: %v", where, open[0].VerifID(), cerr)
			}
			open = open[1:]
		}
	}
	e.srv.mu.Lock()
	problems := append([]string{}, e.srv.problems...)
	e.srv.mu.Unlock()
	if len(problems) > 0 {
		return vh.Failf("C12/peer-sees-wrong-packets", "%+v: %s", c, problems[0])
	}
	for e.conn.VerifConnErr() != nil {
		return vh.Failf("C12/connection-error", "%+v: the connection reported an error", c)
	}
	vh.Label(fmt.Sprintf("lifecycle:channels-over-time>=%d", c.Total/100*100))
	vh.NonTrivial(fmt.Sprintf("%+v", c))
	return nil
}

func TestManyChannelsOverTime(t *testing.T) {
	gen := func(rt *rapid.T) manyCase {
		c := manyCase{Total: rapid.SampledFrom([]int{40, 130, 260, 300, 520}).Draw(rt, "total"), Open: rapid.IntRange(1, 16).Draw(rt, "open"), Procs: rapid.SampledFrom([]int{1, 4}).Draw(rt, "procs")}
		if vh.Thorough() {
			// (the scripted server re-reads everything written so far: long histories are slow)
			switch x := rapid.IntRange(0, 39).Draw(rt, "long"); {
			case x == 0:
				c.Total = 33000
			case x < 6:
				c.Total = rapid.SampledFrom([]int{1030, 4100}).Draw(rt, "total2")
			}
		}
		return c
	}
	vh.Check(t, "TestManyChannelsOverTime", vh.N(4, 16), gen, runManyChannels)
}

// ---- a channel whose ERROR queue is full (the server sent it more unparsable responses than
// the queue of 10 holds and nobody fetched the errors): the reader is busy with that channel;
// closing the channel gets it going again and the other channels receive their packages.

type errBacklogCase struct {
	Extra int  `json:"unparsable_responses_beyond_the_error_queue"`
	Procs int  `json:"gomaxprocs"`
	Main  bool `json:"channel_with_the_errors_is_the_main_channel"`
}

func runErrBacklog(c errBacklogCase) (f *vh.Failure) {
	defer func() {
		if r := recover(); r != nil {
			vh.CheckHarnessPanic(r)
			f = vh.Failf("C12/panic", "panic: %v", r)
		}
	}()
	old := runtime.GOMAXPROCS(c.Procs)
	defer runtime.GOMAXPROCS(old)
	e := newLifeEnv(100)
	defer e.stop()
	var chans []*tds.Channel
	for i := 0; i < 3; i++ {
		var ch *tds.Channel
		var err error
		if !within(5*time.Second, func() { ch, err = e.conn.NewChannel() }) || err != nil {
			return vh.Failf("C12/newchannel", "NewChannel %d: %v", i, err)
		}
		chans = append(chans, ch)
	}
	a, b := chans[1], chans[2]
	if c.Main {
		a = chans[0]
	}
	where := fmt.Sprintf("%+v: channel %d got %d unparsable responses, nobody fetched its errors", c, a.VerifID(), 10+c.Extra)
	for v := 0; v < 10+c.Extra; v++ {
		// a ROW without a format in front of it
		e.pipe.Feed(rc.Packet{Type: rc.BufResponse, Channel: uint16(a.VerifID()), Status: rc.StatEOM, Body: []byte{rc.TokRow, 1, 2, 3}}.Bytes())
	}
	stuck := false
	for t0 := time.Now(); time.Since(t0) < 2*time.Second; {
		if a.TryLock() {
			a.Unlock()
			time.Sleep(100 * time.Microsecond)
			continue
		}
		time.Sleep(300 * time.Microsecond)
		if !a.TryLock() {
			stuck = true
			break
		}
		a.Unlock()
	}
	if !stuck {
		vh.Label("error-backlog:reader-not-observed-stuck")
	}
	if !within(5*time.Second, func() { _ = a.Close() }) {
		return vh.Failf("C12/close-blocked-by-full-error-queue", "%s: Close of that channel did not return within 5 s", where)
	}
	e.pipe.Feed(retPacket(b.VerifID(), 77, true))
	// (what was still on its way to the closed channel is reported as connection errors to
	// whoever asks next: those are skipped)
	wctx, cancel := context.WithTimeout(e.bg, 5*time.Second)
	var p tds.Package
	var err error
	for {
		p, err = b.NextPackage(wctx, true)
		if err == nil || wctx.Err() != nil || !strings.Contains(err.Error(), "invalid channel") {
			break
		}
	}
	cancel()
	if err != nil {
		return vh.Failf("C12/other-channel-starved-by-full-error-queue", "%s: after it was closed, channel %d did not receive the response sent to it: %v", where, b.VerifID(), err)
	}
	if rs, ok := p.(*tds.ReturnStatusPackage); !ok || rs.ReturnValue != 77 {
		return vh.Failf("C12/other-channel-starved-by-full-error-queue", "%s: channel %d received %v", where, b.VerifID(), p)
	}
	vh.Label("error-backlog:channel-closed-with-full-error-queue")
	if stuck {
		vh.NonTrivial(fmt.Sprintf("%+v", c))
	}
	return nil
}

func TestErrorBacklogIsolation(t *testing.T) {
	gen := func(rt *rapid.T) errBacklogCase {
		return errBacklogCase{Extra: rapid.IntRange(1, 5).Draw(rt, "extra"), Procs: rapid.SampledFrom([]int{1, 2, 4, 16}).Draw(rt, "procs"), Main: rapid.IntRange(0, 3).Draw(rt, "main") == 0}
	}
	vh.Check(t, "TestErrorBacklogIsolation", vh.N(30, 800), gen, runErrBacklog)
}
