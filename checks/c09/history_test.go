package c09

import (
	"bytes"
	"fmt"
	"testing"
	"time"

	"pgregory.net/rapid"
	"verif/internal/loginpeer"
	rc "verif/internal/refcodec"
	"verif/internal/vh"
)

// Several logins over ONE connection (the server rejects the first attempt, the application
// corrects the password and logs in again; or it logs in again after a success): every login
// must satisfy the decryption oracle on its own, and what has to be fresh per login (session
// key, every ciphertext) must also differ between the logins of the connection.

type historyCase struct {
	Logins []c09Case `json:"logins_over_one_connection"`
	// Reuse: the application keeps ONE login configuration object and logs in again with it
	// (credentials, encryption setting changed on the object); earlier logins may have used the
	// plain flow (Plain set on them)
	Reuse bool `json:"login_config_object_reused,omitempty"`
}

func runHistory(h historyCase) *vh.Failure {
	sess := loginpeer.NewSession(cfg(h.Logins[0], h.Logins[0].Password))
	defer sess.Close()
	var symkeys, allCiphers [][]byte
	for li, c := range h.Logins {
		where := fmt.Sprintf("login %d of %d over one connection (user %q password %d bytes, %d remotes, key %d bits, nonce %d bytes, reject=%q)", li+1, len(h.Logins), c.User, len(c.Password), len(c.Remotes), c.Key.Bits, len(c.Nonce), c.Reject)
		lc := cfg(c, c.Password)
		lc.ReuseConf = h.Reuse
		res := sess.Login(lc, script(c), 20*time.Second)
		if res.Panic != nil {
			return vh.Failf("C09/login-panics", "%s: %v", where, res.Panic)
		}
		if res.TimedOut {
			return vh.Failf("C09/login-hangs", "%s: Login did not return", where)
		}
		if c.Reject == "" && res.Err != nil {
			return vh.Failf("C09/valid-login-failed", "%s: %v", where, res.Err)
		}
		if c.Reject != "" && res.Err == nil {
			return vh.Failf("C09/unexpected-success", "%s: login succeeded although the server rejected it", where)
		}
		if c.Plain {
			// an earlier login of the application that did not ask for password encryption: only
			// what it leaves behind for the later ones matters here
			vh.Label("history:plain-login-first")
			continue
		}
		if body1 := loginpeer.Body(res.Msg1); len(body1) > 0 {
			lr, err := rc.DecodeLoginRecord(body1)
			if err != nil {
				return vh.Failf("C09/login-record-layout", "%s: %v", where, err)
			}
			for i, b := range lr.PasswordSlot {
				if b != 0 {
					return vh.Failf("C09/password-slot-not-empty", "%s: byte %d of the login record's password slot is %#x", where, i, b)
				}
			}
		}
		if !res.GotMsg2 {
			return vh.Failf("C09/no-second-message", "%s: the client never sent the encrypted credentials (err %v)", where, res.Err)
		}
		for i, pw := range append([][]byte{c.Password}, func() (r [][]byte) {
			for _, x := range c.Remotes {
				r = append(r, x.Password)
			}
			return
		}()...) {
			if distinctive(pw, c) && bytes.Contains(res.Written, pw) {
				return vh.Failf("C09/password-in-clear-on-wire", "%s: secret %d occurs in clear in the written bytes", where, i)
			}
		}
		p2, err := decodePhase2(res.Msg2)
		if err != nil {
			return vh.Failf("C09/second-message-layout", "%s: independent decoder rejects the second client message: %v", where, err)
		}
		if want := 1 + (1 + len(c.Remotes)) + 1; len(p2.ciphers) != want {
			return vh.Failf("C09/second-message-layout", "%s: %d LONGBINARY values, expected %d; shape %s", where, len(p2.ciphers), want, p2.shape)
		}
		var plain [][]byte
		for i, ct := range p2.ciphers {
			pt, err := c.Key.Decrypt(ct)
			if err != nil {
				return vh.Failf("C09/not-oaep-under-server-key", "%s: LONGBINARY value %d does not decrypt under the server key: %v", where, i, err)
			}
			if !bytes.HasPrefix(pt, c.Nonce) {
				return vh.Failf("C09/nonce-missing", "%s: plaintext %d does not start with the nonce the server sent for THIS login", where, i)
			}
			plain = append(plain, pt[len(c.Nonce):])
		}
		if !bytes.Equal(plain[0], c.Password) || !bytes.Equal(plain[1], c.Password) {
			return vh.Failf("C09/wrong-secret-encrypted", "%s: account password entries decrypt to nonce||%q and nonce||%q", where, plain[0], plain[1])
		}
		for i, r := range c.Remotes {
			if !bytes.Equal(plain[2+i], r.Password) {
				return vh.Failf("C09/wrong-secret-encrypted", "%s: remote entry %d decrypts to nonce||%q, not the remote password", where, i, plain[2+i])
			}
		}
		key := plain[len(plain)-1]
		if len(key) != 32 {
			return vh.Failf("C09/session-key", "%s: session key is %d bytes, want 32", where, len(key))
		}
		for pj, prev := range symkeys {
			if bytes.Equal(prev, key) {
				return vh.Failf("C09/session-key-not-fresh", "%s: the session key is the one already sent with login %d of this connection", where, pj+1)
			}
		}
		symkeys = append(symkeys, key)
		for _, ct := range p2.ciphers {
			for _, prev := range allCiphers {
				if bytes.Equal(prev, ct) {
					return vh.Failf("C09/no-fresh-randomness", "%s: a ciphertext of this login equals one sent earlier on the connection", where)
				}
			}
		}
		allCiphers = append(allCiphers, p2.ciphers...)
		if c.Reject != "" {
			vh.Label("history:login-after-rejected-login")
		}
	}
	vh.Label(fmt.Sprintf("history:logins=%d", len(h.Logins)))
	vh.NonTrivial(fmt.Sprintf("%x|%d", h.Logins[0].Password, len(h.Logins)))
	return nil
}

func TestLoginsOverOneConnection(t *testing.T) {
	gen := func(rt *rapid.T) historyCase {
		var h historyCase
		n := rapid.IntRange(2, 3).Draw(rt, "logins")
		for i := 0; i < n; i++ {
			c := genCase(rt)
			shortNames(&c)
			c.PackSize = 0
			c.Reject = ""
			if i < n-1 && rapid.Bool().Draw(rt, "rejected") {
				c.Reject = "login-failed"
			}
			if i > 0 {
				// same client, same server: only credentials, nonce (and possibly the key) change
				c.Host, c.App = h.Logins[0].Host, h.Logins[0].App
				if rapid.Bool().Draw(rt, "samekey") {
					c.Key = h.Logins[0].Key
					if c.Key.Capacity()-len(c.Nonce) < 33 {
						c.Nonce = c.Nonce[:8]
					}
				}
			}
			// every secret fits the key (logins that cannot be encrypted are TestPasswordSecrecy's subject)
			max := c.Key.Capacity() - len(c.Nonce)
			if len(c.Password) > max {
				c.Password = c.Password[:max]
			}
			for j := range c.Remotes {
				if len(c.Remotes[j].Password) > max {
					c.Remotes[j].Password = c.Remotes[j].Password[:max]
				}
			}
			h.Logins = append(h.Logins, c)
		}
		h.Reuse = rapid.Bool().Draw(rt, "reuseconf")
		if rapid.IntRange(0, 2).Draw(rt, "plainfirst") == 0 {
			// the first login(s) without password encryption, the last one with it
			for i := 0; i < n-1; i++ {
				h.Logins[i].Plain, h.Logins[i].Reject, h.Logins[i].Remotes = true, "", nil
				if len(h.Logins[i].Password) > 30 {
					h.Logins[i].Password = h.Logins[i].Password[:30]
				}
			}
		}
		return h
	}
	vh.Check(t, "TestLoginsOverOneConnection", vh.N(150, 3000), gen, runHistory)
}
