package pkggen

import (
	"bytes"
	"fmt"
	"strings"

	"github.com/SAP/go-dblib/asetypes"
	"github.com/SAP/go-dblib/tds"
	"verif/internal/flatch"
	rc "verif/internal/refcodec"
	"verif/internal/valgen"
)

func neq(what string, got, want interface{}) error {
	return fmt.Errorf("%s: library has %v, sent %v", what, trunc(got), trunc(want))
}

func trunc(x interface{}) interface{} {
	s := fmt.Sprintf("%v", x)
	if len(s) > 70 {
		return s[:70] + fmt.Sprintf("…(%d)", len(s))
	}
	return s
}

// ColEqual compares a library field format with a column description.
func ColEqual(c rc.Col, tok byte, f tds.FieldFmt) error {
	if f == nil {
		return fmt.Errorf("nil field format")
	}
	if byte(f.DataType()) != c.T {
		return neq("data type", f.DataType(), asetypes.DataType(c.T))
	}
	if f.Name() != c.Name {
		return neq("name", f.Name(), c.Name)
	}
	if uint32(f.Status()) != c.Status {
		return neq("status", f.Status(), c.Status)
	}
	if f.UserType() != c.User {
		return neq("user type", f.UserType(), c.User)
	}
	if f.LocaleInfo() != c.Locale {
		return neq("locale", f.LocaleInfo(), c.Locale)
	}
	if tok == rc.TokRowFmt2 {
		if f.ColumnLabel() != c.Label || f.Catalogue() != c.Catalog || f.Schema() != c.Schema || f.Table() != c.Table {
			return neq("label/catalogue/schema/table", []string{f.ColumnLabel(), f.Catalogue(), f.Schema(), f.Table()}, []string{c.Label, c.Catalog, c.Schema, c.Table})
		}
	}
	if rc.FixedSize(c.T) == 0 {
		if f.MaxLength() != int64(c.MaxLen) {
			return neq("max length", f.MaxLength(), c.MaxLen)
		}
	}
	switch c.T {
	case rc.TDecN, rc.TNumN:
		ps, ok := f.(interface {
			Precision() uint8
			Scale() uint8
		})
		if !ok {
			return fmt.Errorf("%T has no precision/scale", f)
		}
		if ps.Precision() != c.Prec || ps.Scale() != c.Scale {
			return neq("precision/scale", []uint8{ps.Precision(), ps.Scale()}, []uint8{c.Prec, c.Scale})
		}
	case rc.TBigDateTimeN, rc.TBigTimeN:
		s, ok := f.(interface{ Scale() uint8 })
		if !ok || s.Scale() != c.Scale {
			return neq("scale", f, c.Scale)
		}
	case rc.TText, rc.TImage, rc.TUnitext, rc.TXML:
		tn, ok := tds.VerifTableName(f)
		if !ok || tn != c.TabName {
			return neq("table name", tn, c.TabName)
		}
	}
	return nil
}

// CellEqual compares a library data field with a cell description.
func CellEqual(cell rc.Cell, col rc.Col, d tds.FieldData) error {
	if d == nil {
		return fmt.Errorf("nil data field")
	}
	if isTxtPtr(col.T) {
		tp, ts, ok := tds.VerifTxtPtr(d)
		if !ok {
			return fmt.Errorf("%T is not text pointer data", d)
		}
		wantTS := make([]byte, 8)
		copy(wantTS, cell.TS)
		if !bytes.Equal(tp, cell.TxtPtr) || !bytes.Equal(ts, wantTS) {
			return neq("text pointer/timestamp", [][]byte{tp, ts}, [][]byte{cell.TxtPtr, wantTS})
		}
		want, _ := rc.Encode(cell.V)
		if cell.Null {
			want = nil
		}
		got, ok := d.Value().([]byte)
		if !ok || !bytes.Equal(got, want) {
			return neq("text/image data", d.Value(), want)
		}
		return nil
	}
	if col.Status&rc.ColumnStatus != 0 && uint8(d.Status()) != cell.DStatus {
		return neq("data status", d.Status(), cell.DStatus)
	}
	if err := valgen.Match(valgen.Val{V: cell.V}, d.Value()); err != nil {
		return err
	}
	if (col.T == rc.TDecN || col.T == rc.TNumN) && !cell.Null {
		dec := d.Value().(*asetypes.Decimal)
		if dec.Precision != int(col.Prec) || dec.Scale != int(col.Scale) {
			return neq("decimal precision/scale", []int{dec.Precision, dec.Scale}, []uint8{col.Prec, col.Scale})
		}
	}
	return nil
}

// LibEqual compares a library package with its description. last is the format in force.
func LibEqual(p rc.P, last *rc.Fmt, pkg tds.Package) error {
	wrong := func() error { return fmt.Errorf("library produced a %T for a %s", pkg, KindOf(p)) }
	switch {
	case p.Done != nil:
		g, ok := pkg.(*tds.DonePackage)
		if !ok {
			return wrong()
		}
		if uint16(g.Status) != p.Done.Status || uint16(g.TranState) != p.Done.Tran || g.Count != p.Done.Count {
			return neq("done", *g, *p.Done)
		}
	case p.EED != nil:
		g, ok := pkg.(*tds.EEDPackage)
		if !ok {
			return wrong()
		}
		return EEDEqual(*p.EED, *g)
	case p.Err != nil:
		g, ok := pkg.(*tds.ErrorPackage)
		if !ok {
			return wrong()
		}
		d := p.Err
		if g.ErrorNumber != d.Number || g.State != d.State || g.Class != d.Class || g.ErrorMsg != d.Msg || g.ServerName != d.Server || g.ProcName != d.Proc || g.LineNr != d.Line {
			return neq("error", *g, *d)
		}
	case p.LoginAck != nil:
		g, ok := pkg.(*tds.LoginAckPackage)
		if !ok {
			return wrong()
		}
		d := p.LoginAck
		if uint8(g.Status) != d.Status || g.ProgramName != d.Name || g.Version == nil || g.ProgramVersion == nil ||
			!bytes.Equal(g.Version.Bytes(), d.Version[:]) || !bytes.Equal(g.ProgramVersion.Bytes(), d.ProgVer[:]) {
			return neq("loginack", g, *d)
		}
	case p.Msg != nil:
		g, ok := pkg.(*tds.MsgPackage)
		if !ok {
			return wrong()
		}
		if uint8(g.Status) != p.Msg.Status || uint16(g.MsgId) != p.Msg.ID {
			return neq("msg", *g, *p.Msg)
		}
	case p.Cap != nil:
		g, ok := pkg.(*tds.CapabilityPackage)
		if !ok {
			return wrong()
		}
		return CapEqual(*p.Cap, g)
	case p.Env != nil:
		g, ok := pkg.(*tds.EnvChangePackage)
		if !ok {
			return wrong()
		}
		ms := g.VerifMembers()
		if len(ms) != len(p.Env.Members) {
			return neq("envchange member count", len(ms), len(p.Env.Members))
		}
		for i, m := range p.Env.Members {
			if uint8(ms[i].Type) != m.Type || ms[i].NewValue != m.New || ms[i].OldValue != m.Old {
				return neq(fmt.Sprintf("envchange member %d", i), ms[i], m)
			}
		}
	case p.RetStat != nil:
		g, ok := pkg.(*tds.ReturnStatusPackage)
		if !ok {
			return wrong()
		}
		if g.ReturnValue != *p.RetStat {
			return neq("return status", g.ReturnValue, *p.RetStat)
		}
	case p.OrderBy != nil:
		var cols []int
		switch g := pkg.(type) {
		case *tds.OrderByPackage:
			if p.OrderBy.Wide {
				return wrong()
			}
			cols = g.ColumnOrder
		case *tds.OrderBy2Package:
			if !p.OrderBy.Wide {
				return wrong()
			}
			cols = g.ColumnOrder
		default:
			return wrong()
		}
		if len(cols) != len(p.OrderBy.Cols) {
			return neq("orderby column count", len(cols), len(p.OrderBy.Cols))
		}
		for i := range cols {
			if cols[i] != p.OrderBy.Cols[i] {
				return neq("orderby columns", cols, p.OrderBy.Cols)
			}
		}
	case p.Fmt != nil:
		var fs []tds.FieldFmt
		switch g := pkg.(type) {
		case *tds.RowFmtPackage:
			if !p.Fmt.IsRow() || g.VerifWide() != p.Fmt.Wide() {
				return wrong()
			}
			fs = g.Fmts
		case *tds.ParamFmtPackage:
			if p.Fmt.IsRow() || g.VerifWide() != p.Fmt.Wide() {
				return wrong()
			}
			fs = g.Fmts
		default:
			return wrong()
		}
		if len(fs) != len(p.Fmt.Cols) {
			return neq("column count", len(fs), len(p.Fmt.Cols))
		}
		for i, c := range p.Fmt.Cols {
			if err := ColEqual(c, p.Fmt.Tok, fs[i]); err != nil {
				return fmt.Errorf("column %d (%s): %w", i, asetypes.DataType(c.T), err)
			}
		}
	case p.Row != nil:
		var ds []tds.FieldData
		switch g := pkg.(type) {
		case *tds.RowPackage:
			if p.Row.Tok != rc.TokRow {
				return wrong()
			}
			ds = g.DataFields
		case *tds.ParamsPackage:
			if p.Row.Tok != rc.TokParams {
				return wrong()
			}
			ds = g.DataFields
		default:
			return wrong()
		}
		if last == nil || len(ds) != len(p.Row.Cells) {
			return neq("field count", len(ds), len(p.Row.Cells))
		}
		for i, c := range p.Row.Cells {
			if err := CellEqual(c, last.Cols[i], ds[i]); err != nil {
				return fmt.Errorf("field %d (%s): %w", i, asetypes.DataType(last.Cols[i].T), err)
			}
		}
	case p.Lang != nil:
		g, ok := pkg.(*tds.LanguagePackage)
		if !ok {
			return wrong()
		}
		if uint8(g.Status) != p.Lang.Status || g.Cmd != p.Lang.Cmd {
			return neq("language", *g, *p.Lang)
		}
	case p.Dyn != nil:
		g, ok := pkg.(*tds.DynamicPackage)
		if !ok || g.VerifWide() != p.Dyn.Wide {
			return wrong()
		}
		if uint8(g.Type) != p.Dyn.Type || uint8(g.Status) != p.Dyn.Status || g.ID != p.Dyn.ID || g.Stmt != p.Dyn.Stmt {
			return neq("dynamic", *g, *p.Dyn)
		}
	case p.Logout != nil:
		g, ok := pkg.(*tds.LogoutPackage)
		if !ok {
			return wrong()
		}
		if g.Options != *p.Logout {
			return neq("logout", g.Options, *p.Logout)
		}
	case p.CurDeclare != nil:
		g, ok := pkg.(*tds.CurDeclarePackage)
		if !ok || g.VerifWide() != p.CurDeclare.Wide {
			return wrong()
		}
		d := p.CurDeclare
		if g.Name != d.Name || uint32(g.Options) != d.Options || uint8(g.Status) != d.Status || g.Stmt != d.Stmt || fmt.Sprint(g.VerifColumns()) != fmt.Sprint(d.Columns) && !(len(g.VerifColumns()) == 0 && len(d.Columns) == 0) {
			return neq("curdeclare", *g, *d)
		}
	case p.CurInfo != nil:
		g, ok := pkg.(*tds.CurInfoPackage)
		if !ok || g.VerifWide() != p.CurInfo.Wide {
			return wrong()
		}
		d := p.CurInfo
		if g.CursorID != d.ID || g.Name != d.Name || uint8(g.Command) != d.Command || uint32(g.Status) != d.Status || g.RowNum != d.RowNum || g.TotalRows != d.TotalRows || g.RowCount != d.RowCount {
			return neq("curinfo", *g, *d)
		}
	case p.Cur != nil:
		d := p.Cur
		switch g := pkg.(type) {
		case *tds.CurOpenPackage:
			if d.Tok != rc.TokCurOpen || g.CursorID != d.ID || g.Name != d.Name || uint8(g.Status) != d.Status {
				return neq("curopen", *g, *d)
			}
		case *tds.CurClosePackage:
			if d.Tok != rc.TokCurClose || g.CursorID != d.ID || g.Name != d.Name || uint8(g.Options) != d.Status {
				return neq("curclose", *g, *d)
			}
		case *tds.CurFetchPackage:
			if d.Tok != rc.TokCurFetch || g.CursorID != d.ID || g.Name != d.Name || uint8(g.Type) != d.Status || g.RowNumber != d.RowNum {
				return neq("curfetch", *g, *d)
			}
		case *tds.CurDeletePackage:
			if d.Tok != rc.TokCurDelete || g.CursorID != d.ID || g.Name != d.Name || uint8(g.Status) != d.Status || g.TableName != d.Table {
				return neq("curdelete", *g, *d)
			}
		case *tds.CurUpdatePackage:
			if d.Tok != rc.TokCurUpdate || g.CursorID != d.ID || g.Name != d.Name || uint8(g.Status) != d.Status || g.TableName != d.Table || g.Stmt != d.Stmt {
				return neq("curupdate", *g, *d)
			}
		default:
			return wrong()
		}
	case p.OptionCmd != nil:
		g, ok := pkg.(*tds.OptionCmdPackage)
		if !ok {
			return wrong()
		}
		if uint8(g.Cmd) != p.OptionCmd.Cmd || uint8(g.Option) != p.OptionCmd.Option || !bytes.Equal(g.OptionArg, p.OptionCmd.Arg) {
			return neq("optioncmd", *g, *p.OptionCmd)
		}
	default:
		return fmt.Errorf("pkggen: cannot compare %s", KindOf(p))
	}
	return nil
}

// EEDEqual compares an EED description with a library EED package.
func EEDEqual(d rc.EED, g tds.EEDPackage) error {
	if g.MsgNumber != d.MsgNumber || g.State != d.State || g.Class != d.Class || !bytes.Equal(g.SQLState, d.SQLState) || uint8(g.Status) != d.Status ||
		g.TranState != d.Tran || g.Msg != strings.TrimSuffix(d.Msg, "\n") || g.ServerName != d.Server || g.ProcName != d.Proc || g.LineNr != d.Line {
		return neq("eed", g, d)
	}
	return nil
}

// CapEqual compares every capability bit of every mask type (later masks of one type
// replace earlier ones, as in the library's map).
func CapEqual(d rc.Capability, g *tds.CapabilityPackage) error {
	final := map[uint8]rc.CapMask{}
	for _, m := range d.Masks {
		final[m.Type] = m
	}
	for t, m := range final {
		if _, ok := g.Capabilities[tds.CapabilityType(t)]; !ok {
			return fmt.Errorf("capability type %d missing", t)
		}
		for n := 0; n < 8*len(m.Mask)+8; n++ {
			if got := g.HasCapability(tds.CapabilityType(t), n); got != m.Has(n) {
				return fmt.Errorf("capability type %d bit %d: library %v, sent %v (mask % x)", t, n, got, m.Has(n), m.Mask)
			}
		}
	}
	return nil
}

// LibDecode runs the library parser for one package: LookupPackage on the token,
// LastPkg with the previous package, ReadFrom on ch (positioned behind the token).
func LibDecode(tok byte, lastPkg tds.Package, ch tds.BytesChannel) (tds.Package, error) {
	pkg, err := tds.LookupPackage(tds.Token(tok))
	if err != nil {
		return nil, err
	}
	if acc, ok := pkg.(tds.LastPkgAcceptor); ok {
		if err := acc.LastPkg(lastPkg); err != nil {
			return nil, fmt.Errorf("LastPkg: %w", err)
		}
	}
	if err := pkg.ReadFrom(ch); err != nil {
		return pkg, err
	}
	return pkg, nil
}

// LibDecodeStream decodes a reference-encoded stream of packages with the library from
// a flat channel, keeping track of the last package like the channel does.
func LibDecodeStream(b []byte) ([]tds.Package, *flatch.Ch, error) {
	ch := flatch.New(b)
	var out []tds.Package
	var last tds.Package
	for ch.Left() > 0 {
		tok, _ := ch.Byte()
		pkg, err := LibDecode(tok, last, ch)
		if err != nil {
			return out, ch, fmt.Errorf("package %d (token %#x): %w", len(out), tok, err)
		}
		out = append(out, pkg)
		last = pkg
	}
	return out, ch, nil
}
