// C01 — outgoing messages are well-formed TDS packet sequences.
package c01

import (
	"errors"
	"bytes"
	"context"
	"fmt"
	"testing"
	"time"

	"github.com/SAP/go-dblib/tds"
	"pgregory.net/rapid"
	"verif/internal/flatch"
	"verif/internal/peer"
	rc "verif/internal/refcodec"
	"verif/internal/vh"
)

func TestMain(m *testing.M) {
	vh.Rule("rapid: histories of 1..4 successive messages on channel 0 of a Conn over a capturing transport; per message a packet size (boundary set 256,257,511,512,513,1024,4096,65535 or uniform 256..65535, changed the way a server does it: an ENVCHANGE(PACKSIZE) response fed through Channel.WritePacket), a header type out of all PacketHeaderTypes, 1..6 packages of mixed types (LANGUAGE, DYNAMIC/2, MSG, LOGOUT, cursor packages, PARAMFMT+PARAMS) with one LANGUAGE sized so that the total length is k*(packetSize-8)+d (k 1..4, d in -1,0,+1) in half the cases, and a split of the calls into QueuePackage*+SendRemainingPackets or a final SendPackage; raw blob packages whose buffer the caller overwrites right after queueing; messages whose flush is attempted with a cancelled context (nothing may be written or left behind); exhaustive: packet sizes {256,257,512,513,1024,65535} x k 1..3 x d -1..1 x 3 package layouts x both flush styles. Oracle: expected bytes come from Package.WriteTo on an own flat BytesChannel; captured bytes must parse as packets (one Write per packet, header length = write size <= packet size in force, all but the last full, type and channel id right, EOM on the last packet of each message and on no other, bodies concatenate to the expected encoding, header type back to NORMAL afterwards). Non-trivial: the message spans >= 2 packets, or its length is an exact multiple of the packet body size, or the packet size changed before it; a history is non-trivial if one of its messages is; distinct by the (packet size, total length, layout, header type, flush style) of its non-trivial messages")
	vh.Assume("channel 0 only (logical channels are covered with C12); no concurrency; error paths of a failing WriteTo are outside the statement; packet sizes 256..65535 (what a server may negotiate and the 16-bit header length can carry)")
	vh.Rule("also: Info.DebugLogPackages is on in a quarter of the cases (every package is printed while it is sent / received)")
	vh.QuietLog()
	vh.Rule("also: a package whose encoding fails half-way (some bytes produced, then an error), followed by Reset: nothing of it reaches the transport and the next message is exact")
	vh.Rule("also: in the middle of a message a package that cannot be serialised at all, or only for its first n bytes (n up to several packet bodies): the call reports the error, the message goes on; packets framed correctly, the other packages complete and in order (the n bytes may stay or be taken back); the ENVCHANGE announcing the packet size carries other members before / after PACKSIZE; a message whose caller gives up at the first error without flushing leaves nothing behind")
	vh.Rule("also: the last message of a history is flushed by closing the channel instead of SendRemainingPackets: everything queued goes out followed by the logout package, EOM on the last packet")
	vh.Main(m, "C01")
}

type pdesc struct {
	Kind string `json:"kind"`
	N    int    `json:"n,omitempty"` // payload size knob
}

type msgCase struct {
	// Abort: the message is queued, but the flush is attempted with an already cancelled
	// context: nothing may be written, and nothing of it may turn up in the next message
	Abort      bool    `json:"flush_with_cancelled_context,omitempty"`
	PacketSize int     `json:"packet_size"`
	HeaderType int     `json:"header_type"`
	Pkgs       []pdesc `json:"pkgs"`
	SendLast   bool    `json:"send_last"` // last package via SendPackage instead of QueuePackage + SendRemainingPackets
	// RxAfter k > 0: after k packages of the message have been queued, the tail of the previous
	// exchange arrives from the server (a final DONE with EOM, or an empty EOM packet) and is
	// consumed; what has been queued so far must go out with the rest of the message all the same
	RxAfter int `json:"response_tail_arrives_after_packages,omitempty"`
	// FailFirst: before this message the client tried another one whose first package failed
	// half-way through its serialisation (bytes of it are queued), gave it up with Reset()
	FailFirst bool `json:"abandoned_attempt_first,omitempty"`
	// RefusedAfter k > 0: after k packages of the message the client tries to queue a package
	// that cannot be serialised at all (its WriteTo fails before producing a byte); the call
	// reports the error, the message goes on and is sent complete, with its header type
	RefusedAfter int `json:"unserialisable_package_after_packages,omitempty"`
	// EnvBefore / EnvAfter: the ENVCHANGE token that announces the packet size carries that many
	// other members (database, language, charset) before / after the PACKSIZE member
	EnvBefore int `json:"env_members_before_packsize,omitempty"`
	EnvAfter  int `json:"env_members_after_packsize,omitempty"`
	// HalfAfter k > 0 / HalfLen n: after the first k package descriptions the client tries to
	// queue a package whose serialisation fails after n bytes (possibly more than a packet holds)
	// and goes on with the message regardless. Whether the n bytes stay in the message or are
	// taken back is the library's choice; the packets must be framed correctly either way and
	// carry the other packages completely and in order.
	HalfAfter int `json:"half_serialised_package_after,omitempty"`
	HalfLen   int `json:"half_serialised_bytes,omitempty"`
	// ByClose: (last message of a history) the packages are queued and the channel is closed
	// without a flush: Close's logout package completes the message - everything queued goes
	// out, followed by the logout, EOM on the last packet
	ByClose bool `json:"flushed_by_closing_the_channel,omitempty"`
}

// halfN is a package whose serialisation fails after n bytes.
type halfN struct{ n int }

func (halfN) ReadFrom(tds.BytesChannel) error { return errors.New("not readable") }
func (h halfN) WriteTo(ch tds.BytesChannel) error {
	if err := ch.WriteBytes(bytes.Repeat([]byte{0xee}, h.n)); err != nil {
		return err
	}
	return errors.New("halfN: value of the wrong type")
}
func (h halfN) String() string { return fmt.Sprintf("halfN(%d)", h.n) }

// refused is a package of the application's own that cannot be serialised.
type refused struct{}

func (refused) ReadFrom(tds.BytesChannel) error { return errors.New("not readable") }
func (refused) WriteTo(tds.BytesChannel) error  { return errors.New("refused: nothing to serialise") }
func (refused) String() string                  { return "refused" }

// halfWritten is a package of the application's own whose serialisation fails after some bytes.
type halfWritten struct{}

func (halfWritten) ReadFrom(tds.BytesChannel) error { return errors.New("not readable") }
func (halfWritten) WriteTo(ch tds.BytesChannel) error {
	if err := ch.WriteBytes([]byte{0xd7, 0xde, 0xad, 0xbe, 0xef}); err != nil {
		return err
	}
	return errors.New("value cannot be converted")
}
func (halfWritten) String() string { return "halfWritten" }

type c01Case struct {
	Msgs []msgCase `json:"msgs"`
	// Log: Info.DebugLogPackages - every package sent is printed (Package.String)
	Log bool `json:"debug_log_packages,omitempty"`
}

func pattern(n int, salt byte) string {
	b := make([]byte, n)
	for i := range b {
		b[i] = 'A' + byte((i+int(salt)*7)%53)
		if i%11 == 0 {
			b[i] = '0' + byte((i/11+int(salt))%10)
		}
	}
	return string(b)
}

// build constructs the library packages for a description (fresh objects every time).
func build(d pdesc, salt byte) []tds.Package {
	switch d.Kind {
	case "language":
		return []tds.Package{&tds.LanguagePackage{Status: tds.TDS_LANGUAGE_NOARGS, Cmd: pattern(d.N, salt)}}
	case "dynamic":
		p := tds.NewDynamicPackage(false)
		p.Type, p.ID, p.Stmt = tds.TDS_DYN_PREPARE, "stmt"+fmt.Sprint(salt), pattern(d.N%30000, salt)
		return []tds.Package{p}
	case "dynamic2":
		p := tds.NewDynamicPackage(true)
		p.Type, p.ID, p.Stmt = tds.TDS_DYN_EXEC_IMMED, "s", pattern(d.N, salt)
		return []tds.Package{p}
	case "msg":
		return []tds.Package{tds.NewMsgPackage(tds.TDS_MSG_HASARGS, tds.TDS_MSG_SEC_LOGPWD3)}
	case "logout":
		return []tds.Package{&tds.LogoutPackage{}}
	case "curopen":
		return []tds.Package{&tds.CurOpenPackage{Name: pattern(d.N%200, salt)}}
	case "curfetch":
		return []tds.Package{&tds.CurFetchPackage{CursorID: 7, Type: tds.TDS_CUR_ABS, RowNumber: int32(d.N)}}
	case "curdeclare":
		p, _ := tds.NewCurDeclarePackage("c"+fmt.Sprint(salt), pattern(d.N, salt), tds.TDS_CUR_DSTAT_UNUSED, tds.TDS_CUR_DOPT_RDONLY)
		return []tds.Package{p}
	case "tokenless":
		// a raw blob (like the login record); the caller owns the buffer and may reuse it
		// as soon as QueuePackage has returned
		p := tds.NewTokenlessPackage()
		p.Data.WriteString(pattern(d.N+1, salt))
		return []tds.Package{p}
	case "params":
		// PARAMFMT + PARAMS the way Login builds them: INT4 and LONGBINARY
		f1, d1, _ := tds.LookupFieldFmtData(0x38)
		f2, d2, _ := tds.LookupFieldFmtData(0xE1)
		d1.SetValue(int32(d.N))
		d2.SetValue([]byte(pattern(d.N, salt)))
		return []tds.Package{tds.NewParamFmtPackage(false, f1, f2), tds.NewParamsPackage(d1, d2)}
	}
	panic("bad kind " + d.Kind)
}

// expected encoding through an own BytesChannel (no PacketQueue involved)
func expected(ds []pdesc, salt byte) ([]byte, error) {
	out := flatch.New(nil)
	var last tds.Package
	for i, d := range ds {
		for _, p := range build(d, salt+byte(i)) {
			if acc, ok := p.(tds.LastPkgAcceptor); ok {
				if err := acc.LastPkg(last); err != nil {
					return nil, err
				}
			}
			if err := p.WriteTo(out); err != nil {
				return nil, err
			}
			last = p
		}
	}
	return out.B, nil
}

func runCase(c c01Case) (f *vh.Failure) {
	defer func() {
		if r := recover(); r != nil {
			f = vh.Failf("C01/panic", "panic: %v", r)
		}
	}()
	ctx, cancel := context.WithCancel(context.Background())
	defer cancel()
	pipe := peer.NewPipe()
	conn, _, err := tds.VerifNewConn(ctx, pipe, &tds.Info{ChannelPackageQueueSize: 100, DebugLogPackages: c.Log}, false)
	if err != nil {
		vh.HarnessBug("VerifNewConn: %v", err)
	}
	ch, err := conn.NewChannel()
	if err != nil {
		vh.HarnessBug("NewChannel: %v", err)
	}
	cur := 512
	off := 0
	nw := 0
	ntKey := ""
	for mi, m := range c.Msgs {
		sizeChanged := false
		if m.PacketSize != cur {
			// the server announces a new packet size in a response
			var members []rc.EnvMember
			others := []rc.EnvMember{{Type: rc.EnvDB, New: "db1", Old: "master"}, {Type: rc.EnvLang, New: "us_english", Old: ""}, {Type: rc.EnvCharset, New: "utf8", Old: "iso_1"}}
			for i := 0; i < m.EnvBefore; i++ {
				members = append(members, others[i%3])
			}
			members = append(members, rc.EnvMember{Type: rc.EnvPackSize, New: fmt.Sprint(m.PacketSize), Old: fmt.Sprint(cur)})
			for i := 0; i < m.EnvAfter; i++ {
				members = append(members, others[(i+1)%3])
			}
			if m.EnvBefore > 0 {
				vh.Label("packet-size-not-the-first-member-of-its-envchange")
			}
			env := rc.P{Env: &rc.EnvChange{Members: members}}
			b, _, _, _ := rc.EncodeStream([]rc.P{env, {Done: &rc.Done{Tok: rc.TokDone}}})
			ch.WritePacket(&tds.Packet{Header: tds.PacketHeader{MsgType: tds.TDS_BUF_RESPONSE, Status: tds.TDS_BUFSTAT_EOM, Length: uint16(8 + len(b))}, Data: b})
			for {
				if _, err := ch.NextPackage(ctx, false); err != nil {
					break
				}
			}
			if conn.PacketSize() != m.PacketSize {
				return vh.Failf("C01/packet-size-not-applied", "message %d: server announced packet size %d, connection reports %d", mi, m.PacketSize, conn.PacketSize())
			}
			cur = m.PacketSize
			sizeChanged = true
		}
		want, err := expected(m.Pkgs, byte(mi))
		if err != nil {
			vh.HarnessBug("expected encoding: %v", err)
		}
		if m.FailFirst {
			if err := ch.QueuePackage(ctx, halfWritten{}); err == nil {
				return vh.Failf("C01/send-error", "message %d: QueuePackage of a package whose WriteTo fails returned nil", mi)
			}
			ch.Reset()
			if n := len(pipe.Written()) - off; n != 0 {
				return vh.Failf("C01/abandoned-message-written", "message %d: %d bytes of the abandoned attempt reached the transport", mi, n)
			}
			vh.Label("abandoned-attempt-before-the-message")
		}
		ch.CurrentHeaderType = tds.PacketHeaderType(m.HeaderType)
		var pkgs []tds.Package
		var bounds []int
		for i, d := range m.Pkgs {
			pkgs = append(pkgs, build(d, byte(mi)+byte(i))...)
			bounds = append(bounds, len(pkgs))
		}
		var wantAlt []byte
		if m.Abort {
			// queue everything but the last package normally (full packets may go out), then
			// flush with a cancelled context
			cctx, ccancel := context.WithCancel(ctx)
			ccancel()
			// (the caller has to be told by one of the calls; a flush that finds nothing left to
			// send after a failed QueuePackage has nothing to report)
			var qerr error
			if m.SendLast {
				// the caller gives up at the first error, as with SendPackage: no flush is
				// attempted after a failed QueuePackage
				for i, p := range pkgs {
					if i == len(pkgs)-1 {
						qerr = ch.SendPackage(cctx, p)
					} else {
						qerr = ch.QueuePackage(cctx, p)
					}
					if qerr != nil {
						break
					}
				}
				if qerr == nil {
					return vh.Failf("C01/cancelled-flush-succeeds", "message %d: QueuePackage / SendPackage with a cancelled context all returned nil", mi)
				}
				vh.Label("aborted-message-without-flush")
			} else if mi%2 == 1 || m.RxAfter > 0 {
				// the packages are queued while the context is still live (full packets may go
				// out), the context ends before the flush: the flush reports it, writes nothing
				// more, and leaves nothing behind - the rest of the message is given up
				for i, p := range pkgs {
					if err := ch.QueuePackage(ctx, p); err != nil {
						return vh.Failf("C01/send-error", "message %d package %d: %v", mi, i, err)
					}
				}
				before := len(pipe.Written())
				if err := ch.SendRemainingPackets(cctx); err == nil {
					return vh.Failf("C01/cancelled-flush-succeeds", "message %d: SendRemainingPackets with a cancelled context returned nil", mi)
				}
				if n := len(pipe.Written()) - before; n != 0 {
					return vh.Failf("C01/cancelled-flush-writes", "message %d: the flush with a cancelled context wrote %d bytes", mi, n)
				}
				// what went out before the flush is an unfinished message; the next one starts behind it
				off = len(pipe.Written())
				nw = len(pipe.WriteLens())
				vh.Label("aborted-message:only-the-flush-cancelled")
			} else {
				for _, p := range pkgs {
					if qerr = ch.QueuePackage(cctx, p); qerr != nil {
						break
					}
				}
				if err := ch.SendRemainingPackets(cctx); err == nil && qerr == nil {
					return vh.Failf("C01/cancelled-flush-succeeds", "message %d: QueuePackage and SendRemainingPackets with a cancelled context all returned nil", mi)
				}
			}
			if n := len(pipe.Written()) - off; n != 0 {
				return vh.Failf("C01/cancelled-flush-writes", "message %d: %d bytes written although the context was cancelled before the first call", mi, n)
			}
			if ch.CurrentHeaderType != tds.TDS_BUF_NORMAL {
				return vh.Failf("C01/header-type-not-reset", "message %d: CurrentHeaderType is %d after the aborted message", mi, ch.CurrentHeaderType)
			}
			vh.Label("aborted-message")
			continue
		}
		byClose := m.ByClose && mi == len(c.Msgs)-1
		for i, p := range pkgs {
			if m.SendLast && i == len(pkgs)-1 && !byClose {
				err = ch.SendPackage(ctx, p)
			} else {
				err = ch.QueuePackage(ctx, p)
			}
			if err != nil {
				return vh.Failf("C01/send-error", "message %d package %d: %v", mi, i, err)
			}
			if m.HalfAfter > 0 && m.HalfAfter <= len(bounds) && i+1 == bounds[m.HalfAfter-1] && i+1 < len(pkgs) && !m.Abort {
				if err := ch.QueuePackage(ctx, halfN{m.HalfLen}); err == nil {
					return vh.Failf("C01/send-error", "message %d: QueuePackage of a package whose WriteTo fails returned nil", mi)
				}
				pre, err := expected(m.Pkgs[:m.HalfAfter], byte(mi))
				if err != nil {
					vh.HarnessBug("expected encoding: %v", err)
				}
				wantAlt = append(append(append([]byte{}, pre...), bytes.Repeat([]byte{0xee}, m.HalfLen)...), want[len(pre):]...)
				vh.Label("half-serialised-package-mid-message")
				if m.HalfLen > cur-8 {
					vh.Label("half-serialised-package-longer-than-a-packet")
				}
			}
			if m.RefusedAfter > 0 && i+1 == m.RefusedAfter && i+1 < len(pkgs) {
				if err := ch.QueuePackage(ctx, refused{}); err == nil {
					return vh.Failf("C01/send-error", "message %d: QueuePackage of a package whose WriteTo fails returned nil", mi)
				}
				vh.Label("unserialisable-package-mid-message")
			}
			if m.RxAfter > 0 && i+1 == m.RxAfter && i+1 < len(pkgs) {
				body := []byte{0xfd, 0, 0, 0, 0, 0, 0, 0, 0} // DONE(FINAL)
				if mi%2 == 1 {
					body = nil // message of the previous exchange ended exactly on a packet boundary
				}
				ch.WritePacket(&tds.Packet{Header: tds.PacketHeader{MsgType: tds.TDS_BUF_RESPONSE, Status: tds.TDS_BUFSTAT_EOM, Length: uint16(8 + len(body))}, Data: body})
				for {
					if _, err := ch.NextPackage(ctx, false); err != nil {
						break
					}
				}
				vh.Label("response-tail-arrives-mid-message")
			}
			if tl, ok := p.(*tds.TokenlessPackage); ok {
				// the package has been queued: what the caller does with its buffer afterwards
				// must not change what is sent
				b := tl.Data.Bytes()
				for j := range b {
					b[j] = '#'
				}
				vh.Label("buffer-reused-after-queueing")
			}
		}
		if byClose {
			closed := make(chan error, 1)
			go func() {
				defer func() {
					if r := recover(); r != nil {
						closed <- fmt.Errorf("panic: %v", r)
					}
				}()
				closed <- ch.Close()
			}()
			// the server answers the logout once it has seen the end of the message
			if _, _, err := pipe.WaitMessage(off, 5*time.Second); err != nil {
				return vh.Failf("C01/no-eom-on-last-packet", "message %d, flushed by closing the channel: no packet with EOM reached the transport within 5 s: %v", mi, err)
			}
			ch.WritePacket(&tds.Packet{Header: tds.PacketHeader{MsgType: tds.TDS_BUF_RESPONSE, Status: tds.TDS_BUFSTAT_EOM, Length: 17}, Data: []byte{0xfd, 0, 0, 0, 0, 0, 0, 0, 0}})
			select {
			case <-closed:
			case <-time.After(10 * time.Second):
				return vh.Failf("C01/send-error", "message %d: Close did not return within 10 s of the server's answer to the logout", mi)
			}
			want = append(want, 0x71, 0x00)
			if wantAlt != nil {
				wantAlt = append(wantAlt, 0x71, 0x00)
			}
			vh.Label("message-flushed-by-closing-the-channel")
		} else if !m.SendLast {
			if err := ch.SendRemainingPackets(ctx); err != nil {
				return vh.Failf("C01/send-error", "message %d: SendRemainingPackets: %v", mi, err)
			}
		}
		got := pipe.Written()[off:]
		lens := pipe.WriteLens()[nw:]
		off += len(got)
		nw += len(lens)
		desc := fmt.Sprintf("message %d (packet size %d, %d bytes = %d*%d%+d, header type %d, sendLast=%v)", mi, cur, len(want), len(want)/(cur-8), cur-8, len(want)%(cur-8), m.HeaderType, m.SendLast)
		pk, err := rc.ParsePackets(got)
		if err != nil {
			return vh.Failf("C01/not-a-packet-sequence", "%s: bytes on the transport do not parse as packets: %v", desc, err)
		}
		if len(pk) == 0 {
			return vh.Failf("C01/nothing-sent", "%s: nothing was written", desc)
		}
		if len(lens) != len(pk) {
			return vh.Failf("C01/header-length-mismatch", "%s: %d writes but %d packets by header lengths (%v)", desc, len(lens), len(pk), lens)
		}
		var body []byte
		for i, p := range pk {
			if int(p.Len) != lens[i] {
				return vh.Failf("C01/header-length-mismatch", "%s: packet %d header length %d, real size %d", desc, i, p.Len, lens[i])
			}
			if int(p.Len) > cur {
				return vh.Failf("C01/packet-too-large", "%s: packet %d has %d bytes, packet size in force is %d", desc, i, p.Len, cur)
			}
			last := i == len(pk)-1
			if !last && int(p.Len) != cur {
				return vh.Failf("C01/inner-packet-not-full", "%s: packet %d of %d has %d bytes, packet size is %d", desc, i, len(pk), p.Len, cur)
			}
			if int(p.Type) != m.HeaderType {
				return vh.Failf("C01/wrong-header-type", "%s: packet %d has type %d", desc, i, p.Type)
			}
			if p.Channel != 0 {
				return vh.Failf("C01/wrong-channel", "%s: packet %d carries channel %d", desc, i, p.Channel)
			}
			eom := p.Status&rc.StatEOM != 0
			if eom != last {
				cls := "C01/eom-on-inner-packet"
				if last {
					cls = "C01/no-eom-on-last-packet"
				}
				return vh.Failf(cls, "%s: packet %d of %d (%d bytes) has EOM=%v", desc, i, len(pk), p.Len, eom)
			}
			body = append(body, p.Body...)
		}
		if wantAlt != nil && bytes.Equal(body, wantAlt) {
			want = wantAlt // the bytes of the failed package stayed in the message
		}
		if !bytes.Equal(body, want) {
			i := 0
			for i < len(body) && i < len(want) && body[i] == want[i] {
				i++
			}
			return vh.Failf("C01/body-mismatch", "%s: packet bodies (%d bytes) differ from the packages' encodings (%d bytes) at offset %d", desc, len(body), len(want), i)
		}
		if ch.CurrentHeaderType != tds.TDS_BUF_NORMAL && !byClose {
			return vh.Failf("C01/header-type-not-reset", "%s: CurrentHeaderType is %d after the message", desc, ch.CurrentHeaderType)
		}
		multiple := len(want)%(cur-8) == 0
		vh.Label(fmt.Sprintf("d=%+d", map[bool]int{true: 0, false: sign(len(want)%(cur-8), cur-8)}[multiple]))
		if len(pk) >= 2 || multiple || sizeChanged {
			ntKey += fmt.Sprintf("%d/%d/%v/%d/%v;", cur, len(want), m.Pkgs, m.HeaderType, m.SendLast)
			if len(pk) >= 2 {
				vh.Label("multi-packet")
			}
			if multiple {
				vh.Label("exact-multiple")
			}
			if sizeChanged {
				vh.Label("size-changed")
			}
		}
	}
	vh.Label(fmt.Sprintf("messages=%d", len(c.Msgs)))
	if c.Log {
		vh.Label("debug-log-packages")
	}
	if ntKey != "" {
		vh.NonTrivial(ntKey)
	}
	return nil
}

func sign(r, body int) int {
	switch r {
	case 1:
		return 1
	case body - 1:
		return -1
	}
	return 9 // elsewhere
}

var smallKinds = []string{"msg", "logout", "curopen", "curfetch", "curdeclare", "dynamic", "dynamic2", "params", "tokenless"}
var boundarySizes = []int{256, 257, 511, 512, 513, 1024, 4096, 65535}

func encLen(ds []pdesc) int {
	b, err := expected(ds, 0)
	if err != nil {
		panic(err)
	}
	return len(b)
}

func genMsg(rt *rapid.T) msgCase {
	m := msgCase{SendLast: rapid.Bool().Draw(rt, "sendlast"), Abort: rapid.IntRange(0, 7).Draw(rt, "abort") == 0}
	if rapid.IntRange(0, 2).Draw(rt, "sizeclass") < 2 {
		m.PacketSize = rapid.SampledFrom(boundarySizes).Draw(rt, "psize")
	} else {
		m.PacketSize = rapid.IntRange(256, 65535).Draw(rt, "psizeu")
	}
	if rapid.IntRange(0, 3).Draw(rt, "htclass") == 0 {
		m.HeaderType = rapid.IntRange(1, 23).Draw(rt, "htype")
	} else {
		m.HeaderType = rapid.SampledFrom([]int{15, 2, 1, 3, 13}).Draw(rt, "htypec")
	}
	m.FailFirst = rapid.IntRange(0, 5).Draw(rt, "failfirst") == 0
	if rapid.IntRange(0, 5).Draw(rt, "refused") == 0 {
		m.RefusedAfter = rapid.IntRange(1, 3).Draw(rt, "refusedafter")
	}
	if rapid.IntRange(0, 5).Draw(rt, "half") == 0 {
		m.HalfAfter = rapid.IntRange(1, 3).Draw(rt, "halfafter")
		m.HalfLen = rapid.OneOf(rapid.IntRange(1, 40), rapid.IntRange(200, 1200)).Draw(rt, "halflen")
	}
	if rapid.IntRange(0, 2).Draw(rt, "envmembers") == 0 {
		m.EnvBefore = rapid.IntRange(0, 2).Draw(rt, "envbefore")
		m.EnvAfter = rapid.IntRange(0, 2).Draw(rt, "envafter")
	}
	if rapid.IntRange(0, 4).Draw(rt, "rxmid") == 0 {
		m.RxAfter = rapid.IntRange(1, 3).Draw(rt, "rxafter")
	}
	n := rapid.IntRange(0, 4).Draw(rt, "nsmall")
	for i := 0; i < n; i++ {
		m.Pkgs = append(m.Pkgs, pdesc{Kind: rapid.SampledFrom(smallKinds).Draw(rt, "kind"), N: rapid.IntRange(0, 300).Draw(rt, "n")})
	}
	body := m.PacketSize - 8
	other := 0
	if len(m.Pkgs) > 0 {
		other = encLen(m.Pkgs)
	}
	var T int
	if rapid.Bool().Draw(rt, "boundary") {
		k := rapid.IntRange(1, 4).Draw(rt, "k")
		if m.PacketSize > 5000 {
			k = rapid.IntRange(1, 2).Draw(rt, "kbig")
		}
		T = k*body + rapid.IntRange(-1, 1).Draw(rt, "d")
	} else {
		hi := 4 * body
		if hi > 20000 {
			hi = 20000
		}
		T = rapid.IntRange(1, hi).Draw(rt, "T")
	}
	fill := T - other - 6 // LANGUAGE = token + 4 length + status + cmd
	if fill >= 0 {
		pos := rapid.IntRange(0, len(m.Pkgs)).Draw(rt, "langpos")
		m.Pkgs = append(m.Pkgs[:pos], append([]pdesc{{Kind: "language", N: fill}}, m.Pkgs[pos:]...)...)
	} else if len(m.Pkgs) == 0 {
		m.Pkgs = []pdesc{{Kind: "msg"}}
	}
	return m
}

func TestMessages(t *testing.T) {
	gen := func(rt *rapid.T) c01Case {
		n := rapid.IntRange(1, 4).Draw(rt, "nmsgs")
		var c c01Case
		for i := 0; i < n; i++ {
			c.Msgs = append(c.Msgs, genMsg(rt))
		}
		c.Log = rapid.IntRange(0, 3).Draw(rt, "log") == 0
		if last := &c.Msgs[n-1]; !last.Abort && rapid.IntRange(0, 5).Draw(rt, "byclose") == 0 {
			last.ByClose = true
		}
		if n == 1 && len(c.Msgs[0].Pkgs) <= 2 {
			vh.Sample("history", c)
		}
		return c
	}
	vh.Check(t, "TestMessages", vh.N(2500, 60000), gen, runCase)
}

func TestBoundaryExhaustive(t *testing.T) {
	e := vh.NewEnum(t, "TestBoundaryExhaustive", runCase)
	if e.Skip() {
		return
	}
	i := 0
	for _, p := range []int{256, 257, 512, 513, 1024, 65535} {
		for k := 1; k <= 3; k++ {
			for d := -1; d <= 1; d++ {
				for layout := 0; layout < 3; layout++ {
					for _, sl := range []bool{false, true} {
						for _, prevSize := range []int{512, 300} {
							i++
							if !vh.Mine(i) {
								continue
							}
							T := k*(p-8) + d
							var pk []pdesc
							switch layout {
							case 0:
								pk = []pdesc{{Kind: "language", N: T - 6}}
							case 1:
								o := encLen([]pdesc{{Kind: "msg"}})
								pk = []pdesc{{Kind: "msg"}, {Kind: "language", N: T - 6 - o}}
							default:
								o := encLen([]pdesc{{Kind: "params", N: 40}})
								pk = []pdesc{{Kind: "language", N: T - 6 - o}, {Kind: "params", N: 40}}
							}
							c := c01Case{Msgs: []msgCase{{PacketSize: prevSize, HeaderType: 15, Pkgs: []pdesc{{Kind: "msg"}}}, {PacketSize: p, HeaderType: 15, Pkgs: pk, SendLast: sl},
								{PacketSize: p, HeaderType: 1, Pkgs: []pdesc{{Kind: "language", N: 10}}}}}
							if !e.Do(c) {
								return
							}
						}
					}
				}
			}
		}
	}
	e.Done("packet sizes {256,257,512,513,1024,65535} x k 1..3 x d -1..1 x 3 layouts x 2 flush styles x 2 previous sizes, each followed by a further message")
}
