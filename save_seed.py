#!/usr/bin/env python3
"""save_seed.py <round> <ID> <variant> "<verify line>" - copies a verified seeded change into seeded/."""
import json, os, shutil, sys, re
rnd, pid, x, line = sys.argv[1:5]
src = "/tmp/seedout%s-%s/%s" % ("" if rnd == "1" else rnd, pid, x)
dst = "/verif/seeded/%s-r%s%s" % (pid, rnd, x)
os.makedirs(dst, exist_ok=True)
shutil.copy(src + "/patch.diff", dst + "/patch.diff")
shutil.copy(src + "/demo_test.go", dst + "/demo_test.go.txt")  # .txt: must not be compiled as part of module verif
notes = open(src + "/NOTES.md").read() if os.path.exists(src + "/NOTES.md") else ""
open(dst + "/NOTES.md", "w").write(notes)
m = re.match(r"SEED \S+ suite=(\S+) demo_clean=(\S+) demo_patched=(\S+) check=(\S+) :: ?(.*)", line)
extra = json.loads(sys.argv[5]) if len(sys.argv) > 5 else {}
meta = {
    "property": pid, "round": int(rnd), "variant": x,
    "produced_by": "fresh sub-agent that saw only the property text and a scratch worktree of /repo (nothing from /verif)",
    "what_it_needs_to_manifest": (notes.split("\n\n")[0][:600] if notes else ""),
    "what_i_ran": "verify_seed.sh: scratch copy of /repo; demo on the clean copy (must pass); git apply patch.diff; existing suite `go test -vet=off -count=1 ./...` (must pass); demo with the change (must fail); `VERIF_REPO=<copy> python3 vcheck.py %s` (quick tier)" % pid,
    "existing_suite_with_change": m.group(1) if m else "?",
    "demo_on_clean_tree": m.group(2) if m else "?",
    "demo_with_change": m.group(3) if m else "?",
    "check_result": m.group(4) if m else "?",
    "reported_class": (m.group(5)[:300] if m else ""),
}
meta.update(extra)
json.dump(meta, open(dst + "/meta.json", "w"), indent=1)
print("saved", dst)
