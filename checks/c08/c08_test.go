// C08 — login succeeds exactly when the server accepted it.
package c08

import (
	"sync"
	"crypto/x509"
	"encoding/pem"
	"fmt"
	"strconv"
	"strings"
	"testing"
	"time"

	"github.com/SAP/go-dblib/tds"
	"pgregory.net/rapid"
	"verif/internal/loginpeer"
	"verif/internal/pkggen"
	rc "verif/internal/refcodec"
	"verif/internal/respgen"
	"verif/internal/vh"
)

func TestMain(m *testing.M) {
	vh.Rule("both login flows against a scripted peer. exhaustive: the valid reply scripts (plain: LOGINACK(SUCCEED) DONE(FINAL); encrypted: LOGINACK(NEGOTIATE) MSG(ENCRYPT4) PARAMFMT(INT4,LONGBINARY,LONGBINARY) PARAMS(1, PEM PKCS#1 key, nonce) DONE, then LOGINACK(SUCCEED) CAPABILITY DONE(FINAL), with ENVCHANGE(PACKSIZE) and info EEDs in between) and EVERY single-edit mutation of them: delete / duplicate / swap-adjacent each package, alter each field (ack status, msg id, parameter count, each parameter type, cipher-suite value, key truncated/garbled/empty/wrong PEM type, nonce empty/long, capability masks all zero, DONE status bits), peer going silent in the middle of either response; rapid: random multi-edit scripts, all packetisations, RSA 1024/1536/2048, nonces 0..64 bytes, 0..3 remote servers. Oracle: a reference acceptor written from the property text classifies each script; Login must return nil iff ACCEPT, an error (never a panic, never later than context deadline + 3 s) otherwise; after success Conn.Caps equals the server's masks and PacketSize() the announced size. Non-trivial: the script differs from the valid one; distinct by the script")
	vh.Assume("packages after the final DONE of a response are out of scope (next response); a key followed by trailing bytes, an empty nonce and capability packages that lack a mask type are not judged; the password and the 32-byte session key fit the key (nonce+secret <= OAEP capacity); context deadline 2 s for complete scripts (never reached on a correct tree), 300 ms where the peer goes silent")
	vh.Rule("also: cipher suites 3, 5, 257, 65537, -1, ...; informational message / environment change / packet size announcement inserted at every position of both replies (accepted: the channel filters them); the valid replies of the other flow (rejected); an additional LOGINACK of every status (FAIL, NEGOTIATE, SUCCEED, undefined values) and an additional DONE (more / final) inserted at every position of both replies")
	vh.Main(m, "C08")
}

type c08Case struct {
	Cfg    loginpeer.Config `json:"cfg"`
	Key    loginpeer.Key    `json:"key"`
	Script loginpeer.Script `json:"script"`
	Edit   string           `json:"edit"`
}

// ---- building the valid scripts

func lbCol(name string) rc.Col {
	return rc.Col{Name: name, T: rc.TLongBinary, MaxLen: 2147483647}
}

func extraAck(st uint8) rc.P {
	return rc.P{LoginAck: &rc.LoginAck{Status: st, Version: [4]byte{5, 0, 0, 0}, Name: "ASE", ProgVer: [4]byte{16, 0, 0, 0}}}
}

func validScript(plain bool, key loginpeer.Key, nonce []byte, wideFmt bool, extras bool, packSize int) loginpeer.Script {
	var s loginpeer.Script
	ack := func(st uint8) rc.P {
		return rc.P{LoginAck: &rc.LoginAck{Status: st, Version: [4]byte{5, 0, 0, 0}, Name: "ASE", ProgVer: [4]byte{16, 0, 0, 0}}}
	}
	info := rc.P{EED: &rc.EED{MsgNumber: 5701, Class: 10, Status: rc.EEDInfo, Msg: "Changed database context to 'master'.", Server: "ASE"}}
	env := rc.P{Env: &rc.EnvChange{Members: []rc.EnvMember{{Type: rc.EnvDB, New: "master", Old: ""}}}}
	done := rc.P{Done: &rc.Done{Tok: rc.TokDone, Status: rc.DoneFinal}}
	if plain {
		if extras {
			s.R1 = append(s.R1, env)
		}
		if packSize != 0 {
			s.R1 = append(s.R1, rc.P{Env: &rc.EnvChange{Members: []rc.EnvMember{{Type: rc.EnvPackSize, New: strconv.Itoa(packSize), Old: "512"}}}})
		}
		s.R1 = append(s.R1, ack(rc.LogSucceed))
		if extras {
			s.R1 = append(s.R1, info)
		}
		s.R1 = append(s.R1, done)
		return s
	}
	tok := byte(rc.TokParamFmt)
	if wideFmt {
		tok = rc.TokParamFmt2
	}
	f := rc.Fmt{Tok: tok, Cols: []rc.Col{{Name: "cipher", T: rc.TInt4}, lbCol("key"), lbCol("nonce")}}
	row := rc.Row{Tok: rc.TokParams, Cells: []rc.Cell{{V: rc.V{T: rc.TInt4, I: 1}}, {V: rc.V{T: rc.TLongBinary, B: []byte(key.PubPEM)}}, {V: rc.V{T: rc.TLongBinary, B: nonce, Null: len(nonce) == 0}}}}
	if extras {
		s.R1 = append(s.R1, info)
	}
	s.R1 = append(s.R1, ack(rc.LogNegotiate), rc.P{Msg: &rc.Msg{Status: rc.MsgHasArgs, ID: rc.MsgSecEncrypt4}}, rc.P{Fmt: &f}, rc.P{Row: &row}, done)
	if extras {
		s.R2 = append(s.R2, env, info)
	}
	if packSize != 0 {
		s.R2 = append(s.R2, rc.P{Env: &rc.EnvChange{Members: []rc.EnvMember{{Type: rc.EnvPackSize, New: strconv.Itoa(packSize), Old: "512"}}}})
	}
	req := rc.CapMask{Type: 1, Mask: make([]byte, 14)}
	res := rc.CapMask{Type: 2, Mask: make([]byte, 8)}
	for _, b := range []int{1, 3, 5, 12, 40, 63, 71, 96} {
		req.Set(b)
	}
	for _, b := range []int{2, 9, 33} {
		res.Set(b)
	}
	s.R2 = append(s.R2, ack(rc.LogSucceed), rc.P{Cap: &rc.Capability{Masks: []rc.CapMask{req, res}}}, done)
	return s
}

// ---- reference acceptor (from the property text)

type verdict struct {
	Accept bool
	Judge  bool   // false: out of scope, not judged
	Class  string // class key of the violation if the library accepts although the verdict is reject
	Why    string
}

// arrived returns the non-filtered packages of a response that arrive completely and
// whether the response arrives completely (EOM seen).
func arrived(ps []rc.P, cuts []int, stall bool) ([]rc.P, bool) {
	if !stall {
		var d []rc.P
		for _, p := range ps {
			if !respgen.Filtered(p) {
				d = append(d, p)
			}
		}
		return d, true
	}
	stream, offs, _, _ := rc.EncodeStream(ps)
	limit := len(stream)
	var valid []int
	for _, c := range cuts {
		if c > 0 && c < len(stream) && (len(valid) == 0 || c > valid[len(valid)-1]) {
			valid = append(valid, c)
		}
	}
	if len(valid) > 0 {
		limit = valid[len(valid)-1] // the last packet never arrives
	}
	var d []rc.P
	for i, p := range ps {
		if offs[i+1] > limit {
			break
		}
		if !respgen.Filtered(p) {
			d = append(d, p)
		}
	}
	return d, false
}

func isDone(p rc.P) bool { return p.Done != nil }

func keyUsable(b []byte) (usable bool, judge bool) {
	blk, rest := pem.Decode(b)
	if blk == nil {
		return false, true
	}
	if len(rest) > 0 {
		return false, false // trailing bytes: not judged
	}
	_, err := x509.ParsePKCS1PublicKey(blk.Bytes)
	return err == nil, true
}

func phase1OK(d []rc.P) (n int, ok bool, judge bool, why string) {
	if len(d) < 4 {
		return 0, false, true, "phase 1: fewer than four packages"
	}
	if d[0].LoginAck == nil || d[0].LoginAck.Status != rc.LogNegotiate {
		return 0, false, true, "phase 1: first package is not LOGINACK(NEGOTIATE)"
	}
	if d[1].Msg == nil || d[1].Msg.ID != rc.MsgSecEncrypt4 {
		return 0, false, true, "phase 1: second package is not MSG(ENCRYPT4)"
	}
	f := d[2].Fmt
	if f == nil || f.IsRow() || len(f.Cols) != 3 || f.Cols[0].T != rc.TInt4 || f.Cols[1].T != rc.TLongBinary || f.Cols[2].T != rc.TLongBinary {
		return 0, false, true, "phase 1: third package is not PARAMFMT(INT4, LONGBINARY, LONGBINARY)"
	}
	r := d[3].Row
	if r == nil || r.Tok != rc.TokParams || len(r.Cells) != 3 {
		return 0, false, true, "phase 1: fourth package is not PARAMS with three values"
	}
	if r.Cells[0].Null || r.Cells[0].I != 1 {
		return 0, false, true, "phase 1: cipher suite is not 1"
	}
	if r.Cells[2].Null || len(r.Cells[2].B) == 0 {
		return 0, false, false, "phase 1: empty nonce"
	}
	usable, judge := keyUsable(r.Cells[1].B)
	if !judge {
		return 0, false, false, "phase 1: key with trailing bytes"
	}
	if !usable {
		return 0, false, true, "phase 1: key not usable"
	}
	return 4, true, true, ""
}

func classify(c c08Case) verdict {
	d1, complete1 := arrived(c.Script.R1, c.Script.Cuts1, c.Script.Stall1)
	reject := func(why string) verdict { return verdict{Judge: true, Class: "C08/invalid-reply-accepted", Why: why} }
	if c.Cfg.Plain {
		if len(d1) == 0 || d1[0].LoginAck == nil || d1[0].LoginAck.Status != rc.LogSucceed {
			return reject("plain: first package is not LOGINACK(SUCCEED)")
		}
		if len(d1) == 1 {
			if complete1 {
				return verdict{Judge: true, Class: "C08/missing-final-done-masked-by-synthetic-done", Why: "plain: the server sent no DONE at all"}
			}
			return reject("plain: peer silent after LOGINACK")
		}
		if !isDone(d1[1]) {
			return reject("plain: second package is not DONE")
		}
		if d1[1].Done.Status != rc.DoneFinal {
			return verdict{Judge: true, Class: "C08/non-final-done-accepted", Why: "plain: DONE is not final"}
		}
		if len(d1) > 2 {
			return verdict{Judge: false, Why: "packages after the final DONE"}
		}
		return verdict{Accept: true, Judge: true}
	}
	n, ok, judge, why := phase1OK(d1)
	if !judge {
		return verdict{Judge: false, Why: why}
	}
	if !ok {
		return reject(why)
	}
	rest := d1[n:]
	if len(rest) == 0 {
		if complete1 {
			return verdict{Judge: true, Class: "C08/missing-final-done-masked-by-synthetic-done", Why: "phase 1: the server sent no DONE"}
		}
		return reject("phase 1: peer silent before DONE")
	}
	if !isDone(rest[0]) {
		return reject("phase 1: fifth package is not DONE")
	}
	extra1 := rest[1:]
	d2, complete2 := arrived(c.Script.R2, c.Script.Cuts2, c.Script.Stall2)
	all2 := append(append([]rc.P{}, extra1...), d2...)
	// phase 2: LOGINACK(SUCCEED) CAPABILITY DONE(FINAL)
	i := 0
	for i < len(all2) && all2[i].LoginAck == nil {
		i++
	}
	if i == len(all2) {
		return reject("phase 2: no LOGINACK")
	}
	if all2[i].LoginAck.Status != rc.LogSucceed {
		return reject("phase 2: LOGINACK is not SUCCEED")
	}
	extraBefore := i > 0
	tail := all2[i+1:]
	if len(tail) == 0 || tail[0].Cap == nil {
		return reject("phase 2: LOGINACK is not followed by CAPABILITY")
	}
	have := map[uint8]bool{}
	for _, m := range tail[0].Cap.Masks {
		if len(m.Mask) > 0 {
			have[m.Type] = true
		}
	}
	if !have[1] || !have[2] {
		return verdict{Judge: false, Why: "capability package without a request or response mask"}
	}
	allZero, someZero := true, false
	nm := 0
	for _, m := range tail[0].Cap.Masks {
		if len(m.Mask) == 0 {
			continue
		}
		nm++
		z := true
		for _, b := range m.Mask {
			if b != 0 {
				z = false
			}
		}
		if z {
			someZero = true
		} else {
			allZero = false
		}
	}
	if nm > 0 && allZero {
		return reject("phase 2: all capability masks are zero")
	}
	if someZero {
		// an all-zero value mask means the server did not understand that capability request
		return reject("phase 2: a capability mask is all zero")
	}
	if len(tail) == 1 {
		if complete2 {
			return verdict{Judge: true, Class: "C08/missing-final-done-masked-by-synthetic-done", Why: "phase 2: the server sent no DONE"}
		}
		return reject("phase 2: peer silent before DONE")
	}
	if !isDone(tail[1]) {
		return reject("phase 2: CAPABILITY is not followed by DONE")
	}
	if tail[1].Done.Status != rc.DoneFinal {
		return verdict{Judge: true, Class: "C08/non-final-done-accepted", Why: "phase 2: DONE is not final"}
	}
	if extraBefore {
		return verdict{Judge: true, Class: "C08/extra-package-before-final-ack-skipped", Why: "phase 2: unexpected packages before LOGINACK"}
	}
	if len(tail) > 2 {
		return verdict{Judge: false, Why: "packages after the final DONE"}
	}
	return verdict{Accept: true, Judge: true}
}

// ---- running

// announcedPackSize is the last packet size announced before Login has what it waits for;
// certain is false if a response goes on with another announcement after its final DONE (or
// does not arrive completely): whether that one is applied by the time Login returns depends on
// the packetisation.
func announcedPackSize(s loginpeer.Script) (size int, certain bool) {
	size, certain = 512, true
	for ri, r := range [][]rc.P{s.R1, s.R2} {
		if (ri == 0 && s.Stall1) || (ri == 1 && s.Stall2) {
			certain = false
		}
		finalSeen := false
		for _, p := range r {
			if p.Done != nil && p.Done.Status == rc.DoneFinal {
				finalSeen = true
			}
			if p.Env != nil {
				for _, m := range p.Env.Members {
					if m.Type == rc.EnvPackSize {
						if finalSeen {
							certain = false
							continue
						}
						size, _ = strconv.Atoi(m.New)
					}
				}
			}
		}
	}
	return size, certain
}

// runCase judges one script. Verdicts that rest on the wall clock alone (Login not back in
// time, a valid login failing by its deadline) are only reported if they repeat: a machine
// busy with other work can delay a goroutine by seconds, a library that ignores the context or
// waits for something that never comes does so every time.
func runCase(c c08Case) *vh.Failure {
	f := runCaseOnce(c, 1)
	for try := 0; f != nil && try < 2 && (f.Class == "C08/login-outlives-context" || (f.Class == "C08/valid-reply-rejected" && strings.Contains(f.Msg, "context deadline exceeded"))); try++ {
		vh.Label("timing-verdict-repeated")
		f = runCaseOnce(c, 5)
	}
	return f
}

func runCaseOnce(c c08Case, patience int) *vh.Failure {
	v := classify(c)
	timeout := 2 * time.Second
	if c.Script.Stall1 || c.Script.Stall2 {
		timeout = 300 * time.Millisecond
	}
	timeout *= time.Duration(patience)
	res := loginpeer.Run(c.Cfg, c.Script, timeout)
	flow := "encrypted"
	if c.Cfg.Plain {
		flow = "plain"
	}
	where := fmt.Sprintf("%s flow, edit %q, R1 [%s] R2 [%s]", flow, c.Edit, respgen.Describe(c.Script.R1), respgen.Describe(c.Script.R2))
	if c.Cfg.QueueSize != 0 {
		where += fmt.Sprintf(", package queue size %d", map[bool]int{true: 0, false: c.Cfg.QueueSize}[c.Cfg.QueueSize < 0])
		vh.Label("small-package-queue")
	}
	if res.Panic != nil {
		cls := "C08/login-panics"
		if strings.Contains(fmt.Sprint(res.Panic), "nil pointer") {
			cls = "C08/login-panics-on-key-without-pem-block"
		}
		return vh.Failf(cls, "%s: Login panicked: %v", where, res.Panic)
	}
	if res.TimedOut {
		return vh.Failf("C08/login-outlives-context", "%s: Login did not return within context deadline (%v) + 3 s", where, timeout)
	}
	if res.Err != nil && res.Elapsed > timeout+1500*time.Millisecond {
		return vh.Failf("C08/login-outlives-context", "%s: Login returned after %v, context deadline was %v", where, res.Elapsed, timeout)
	}
	vh.Label("flow:"+flow, "edit:"+editFamily(c.Edit))
	if !v.Judge {
		vh.Label("not-judged")
		return nil
	}
	if v.Accept {
		if res.Err != nil {
			return vh.Failf("C08/valid-reply-rejected", "%s: the server accepted, Login returned %v", where, res.Err)
		}
		// capabilities and packet size
		if !c.Cfg.Plain {
			var cp *rc.Capability
			for _, p := range c.Script.R2 {
				if p.Cap != nil {
					cp = p.Cap
				}
			}
			if err := pkggen.CapEqual(*cp, res.Conn.Caps); err != nil {
				return vh.Failf("C08/capabilities-not-adopted", "%s: Conn.Caps after login: %v", where, err)
			}
			// ... and it stays that connection's set, whatever other connections of the process
			// negotiate later
			prevMu.Lock()
			if prevConn != nil {
				if err := pkggen.CapEqual(prevCaps, prevConn.Caps); err != nil {
					prevMu.Unlock()
					return vh.Failf("C08/capabilities-changed-by-a-later-login", "%s: the capability set of the connection logged in BEFORE this one no longer is what its server returned: %v", where, err)
				}
			}
			prevConn, prevCaps = res.Conn, *cp
			prevMu.Unlock()
		}
		if want, certain := announcedPackSize(c.Script); certain && res.Conn.PacketSize() != want {
			return vh.Failf("C08/packet-size-not-adopted", "%s: PacketSize() = %d, server announced %d", where, res.Conn.PacketSize(), want)
		}
		vh.Label("verdict:accept")
		if c.Edit != "none" {
			vh.NonTrivial(fmt.Sprintf("%+v", c.Script))
		}
		return nil
	}
	if res.Err == nil {
		return vh.Failf(v.Class, "%s: Login reports success although %s", where, v.Why)
	}
	vh.Label("verdict:reject")
	vh.NonTrivial(fmt.Sprintf("%+v", c.Script))
	return nil
}

func editFamily(e string) string {
	if i := strings.IndexAny(e, ":#"); i > 0 {
		return e[:i]
	}
	return e
}

// ---- edits

type edit struct {
	Label string
	Apply func(s *loginpeer.Script)
}

func clone(ps []rc.P) []rc.P { return append([]rc.P{}, ps...) }

func editsFor(s loginpeer.Script, plain bool) []edit {
	var es []edit
	resp := func(s *loginpeer.Script, r int) *[]rc.P {
		if r == 1 {
			return &s.R1
		}
		return &s.R2
	}
	for r := 1; r <= 2; r++ {
		r := r
		ps := *resp(&s, r)
		for i := range ps {
			i := i
			kind := pkggen.KindOf(ps[i])
			es = append(es, edit{fmt.Sprintf("delete:R%d[%d]=%s", r, i, kind), func(s *loginpeer.Script) {
				p := resp(s, r)
				*p = append(clone((*p)[:i]), (*p)[i+1:]...)
			}})
			es = append(es, edit{fmt.Sprintf("duplicate:R%d[%d]=%s", r, i, kind), func(s *loginpeer.Script) {
				p := resp(s, r)
				*p = append(clone((*p)[:i+1]), (*p)[i:]...)
			}})
			if i+1 < len(ps) {
				es = append(es, edit{fmt.Sprintf("swap:R%d[%d,%d]", r, i, i+1), func(s *loginpeer.Script) {
					p := clone(*resp(s, r))
					p[i], p[i+1] = p[i+1], p[i]
					*resp(s, r) = p
				}})
			}
			switch {
			case ps[i].LoginAck != nil:
				for _, st := range []uint8{rc.LogSucceed, rc.LogFail, rc.LogNegotiate, 0, 8} {
					st := st
					if st == ps[i].LoginAck.Status {
						continue
					}
					es = append(es, edit{fmt.Sprintf("ackstatus:R%d=%d", r, st), func(s *loginpeer.Script) {
						p := clone(*resp(s, r))
						la := *p[i].LoginAck
						la.Status = st
						p[i] = rc.P{LoginAck: &la}
						*resp(s, r) = p
					}})
				}
			case ps[i].Msg != nil:
				for _, id := range []uint16{1, 14, 30, 31, 34, 36, 0} {
					id := id
					es = append(es, edit{fmt.Sprintf("msgid:%d", id), func(s *loginpeer.Script) {
						p := clone(*resp(s, r))
						p[i] = rc.P{Msg: &rc.Msg{Status: rc.MsgHasArgs, ID: id}}
						*resp(s, r) = p
					}})
				}
			case ps[i].Done != nil:
				for _, st := range []uint16{rc.DoneMore, rc.DoneError, rc.DoneMore | rc.DoneError, rc.DoneCount, rc.DoneProc, rc.DoneInxact, 0x100} {
					st := st
					es = append(es, edit{fmt.Sprintf("donestatus:R%d=%#x", r, st), func(s *loginpeer.Script) {
						p := clone(*resp(s, r))
						d := *p[i].Done
						d.Status = st
						p[i] = rc.P{Done: &d}
						*resp(s, r) = p
					}})
				}
			case ps[i].Cap != nil:
				es = append(es, edit{"caps:all-zero", func(s *loginpeer.Script) {
					p := clone(*resp(s, r))
					p[i] = rc.P{Cap: &rc.Capability{Masks: []rc.CapMask{{Type: 1, Mask: make([]byte, 14)}, {Type: 2, Mask: make([]byte, 8)}}}}
					*resp(s, r) = p
				}})
				es = append(es, edit{"caps:request-mask-zero", func(s *loginpeer.Script) {
					p := clone(*resp(s, r))
					p[i] = rc.P{Cap: &rc.Capability{Masks: []rc.CapMask{{Type: 1, Mask: make([]byte, 14)}, p[i].Cap.Masks[1]}}}
					*resp(s, r) = p
				}})
				es = append(es, edit{"caps:response-mask-zero", func(s *loginpeer.Script) {
					p := clone(*resp(s, r))
					p[i] = rc.P{Cap: &rc.Capability{Masks: []rc.CapMask{p[i].Cap.Masks[0], {Type: 2, Mask: make([]byte, 8)}}}}
					*resp(s, r) = p
				}})
				es = append(es, edit{"caps:request-only", func(s *loginpeer.Script) {
					p := clone(*resp(s, r))
					p[i] = rc.P{Cap: &rc.Capability{Masks: p[i].Cap.Masks[:1]}}
					*resp(s, r) = p
				}})
			case ps[i].Fmt != nil:
				// parameter count and types
				mod := func(label string, f func(*rc.Fmt, *rc.Row)) {
					es = append(es, edit{label, func(s *loginpeer.Script) {
						p := clone(*resp(s, r))
						nf := *p[i].Fmt
						nf.Cols = append([]rc.Col{}, nf.Cols...)
						nr := *p[i+1].Row
						nr.Cells = append([]rc.Cell{}, nr.Cells...)
						func() {
							// an earlier edit of a multi-edit script may have removed the parameter
							// this one alters: then it alters nothing
							defer func() { recover() }()
							f(&nf, &nr)
						}()
						p[i], p[i+1] = rc.P{Fmt: &nf}, rc.P{Row: &nr}
						*resp(s, r) = p
					}})
				}
				if i+1 < len(ps) && ps[i+1].Row != nil {
					mod("paramcount:2", func(f *rc.Fmt, r *rc.Row) { f.Cols, r.Cells = f.Cols[:2], r.Cells[:2] })
					mod("paramcount:4", func(f *rc.Fmt, r *rc.Row) {
						f.Cols = append(f.Cols, rc.Col{Name: "x", T: rc.TInt4})
						r.Cells = append(r.Cells, rc.Cell{V: rc.V{T: rc.TInt4, I: 9}})
					})
					mod("paramtype:cipher-int2", func(f *rc.Fmt, r *rc.Row) { f.Cols[0].T = rc.TInt2; r.Cells[0].V = rc.V{T: rc.TInt2, I: 1} })
					mod("paramtype:cipher-intn", func(f *rc.Fmt, r *rc.Row) {
						f.Cols[0].T, f.Cols[0].MaxLen = rc.TIntN, 4
						r.Cells[0].V = rc.V{T: rc.TIntN, W: 4, I: 1}
					})
					mod("paramtype:key-varbinary", func(f *rc.Fmt, r *rc.Row) {
						f.Cols[1].T, f.Cols[1].MaxLen = rc.TVarBinary, 255
						b := r.Cells[1].B
						if len(b) > 255 {
							b = b[:255]
						}
						r.Cells[1].V = rc.V{T: rc.TVarBinary, B: b}
					})
					mod("paramtype:nonce-longchar", func(f *rc.Fmt, r *rc.Row) {
						f.Cols[2].T = rc.TLongChar
						r.Cells[2].V = rc.V{T: rc.TLongChar, S: "nonce"}
					})
					mod("cipher:0", func(f *rc.Fmt, r *rc.Row) { r.Cells[0].I = 0 })
					mod("cipher:2", func(f *rc.Fmt, r *rc.Row) { r.Cells[0].I = 2 })
					// (suites that share bits or bytes with the one the client supports)
					for _, v := range []int64{3, 5, 257, 65537, 16777217, -1, -2147483647, 2147483647} {
						v := v
						mod(fmt.Sprintf("cipher:%d", v), func(f *rc.Fmt, r *rc.Row) { r.Cells[0].I = v })
					}
					mod("key:truncated", func(f *rc.Fmt, r *rc.Row) { r.Cells[1].B = r.Cells[1].B[:len(r.Cells[1].B)/2] })
					mod("key:garbled", func(f *rc.Fmt, r *rc.Row) {
						b := append([]byte{}, r.Cells[1].B...)
						for j := 40; j < 60 && j < len(b); j++ {
							b[j] = '!'
						}
						r.Cells[1].B = b
					})
					mod("key:empty", func(f *rc.Fmt, r *rc.Row) { r.Cells[1].V = rc.V{T: rc.TLongBinary, Null: true} })
					mod("key:not-pem", func(f *rc.Fmt, r *rc.Row) { r.Cells[1].B = []byte("this is not a key") })
					mod("key:whitespace", func(f *rc.Fmt, r *rc.Row) { r.Cells[1].B = []byte("\r\n \n") })
					mod("key:single-newline", func(f *rc.Fmt, r *rc.Row) { r.Cells[1].B = []byte("\n") })
					mod("key:header-only", func(f *rc.Fmt, r *rc.Row) { r.Cells[1].B = []byte("-----BEGIN RSA PUBLIC KEY-----\n") })
					mod("key:pkix-type", func(f *rc.Fmt, r *rc.Row) {
						blk, _ := pem.Decode(r.Cells[1].B)
						if blk == nil {
							return
						}
						k, err := x509.ParsePKCS1PublicKey(blk.Bytes)
						if err != nil {
							return
						}
						der, _ := x509.MarshalPKIXPublicKey(k)
						r.Cells[1].B = pem.EncodeToMemory(&pem.Block{Type: "PUBLIC KEY", Bytes: der})
					})
					mod("key:trailing-bytes", func(f *rc.Fmt, r *rc.Row) { r.Cells[1].B = append(append([]byte{}, r.Cells[1].B...), 0) })
					mod("nonce:empty", func(f *rc.Fmt, r *rc.Row) { r.Cells[2].V = rc.V{T: rc.TLongBinary, Null: true} })
				}
			}
		}
		// insert an unexpected package at every position
		for i := 0; i <= len(ps); i++ {
			i := i
			i32 := int32(0)
			// (the last three are packages the channel filters out: an informational message, an
			// environment change, a packet size announcement - harmless wherever they stand, also
			// between the format and the values of the key parameters)
			for _, x := range []rc.P{{Msg: &rc.Msg{ID: 13}}, {RetStat: &i32}, {EED: &rc.EED{MsgNumber: 4002, Class: 14, Msg: "Login failed."}},
				{EED: &rc.EED{MsgNumber: 5703, Class: 10, Status: rc.EEDInfo, Msg: "Changed language setting to 'us_english'.", Server: "ASE"}},
				{Env: &rc.EnvChange{Members: []rc.EnvMember{{Type: rc.EnvLang, New: "us_english", Old: ""}}}},
				{Env: &rc.EnvChange{Members: []rc.EnvMember{{Type: rc.EnvPackSize, New: "2048", Old: "512"}}}},
				// an additional acknowledgement (not a copy of one that is there) with each kind of status
				extraAck(rc.LogFail), extraAck(rc.LogNegotiate), extraAck(0), extraAck(8), extraAck(rc.LogSucceed),
				{Done: &rc.Done{Tok: rc.TokDone, Status: rc.DoneMore}}, {Done: &rc.Done{Tok: rc.TokDone, Status: rc.DoneFinal}}} {
				x := x
				lbl := pkggen.KindOf(x)
				if x.LoginAck != nil {
					lbl = fmt.Sprintf("loginack(%d)", x.LoginAck.Status)
				} else if x.Done != nil {
					lbl = fmt.Sprintf("done(%#x)", x.Done.Status)
				}
				es = append(es, edit{fmt.Sprintf("insert:R%d[%d]=%s", r, i, lbl), func(s *loginpeer.Script) {
					p := resp(s, r)
					*p = append(append(clone((*p)[:i]), x), (*p)[i:]...)
				}})
			}
		}
		if len(ps) > 0 {
			es = append(es, edit{fmt.Sprintf("stall:R%d", r), func(s *loginpeer.Script) {
				stream, offs, _, _ := rc.EncodeStream(*resp(s, r))
				_ = stream
				// cut before the last package and drop it
				cut := offs[len(offs)-2]
				if r == 1 {
					s.Stall1 = true
					if cut > 0 {
						s.Cuts1 = []int{cut}
					}
				} else {
					s.Stall2 = true
					if cut > 0 {
						s.Cuts2 = []int{cut}
					}
				}
			}})
		}
		if plain {
			break
		}
	}
	return es
}

// encodable: a row without its format cannot be put on the wire by the reference codec
func encodable(s loginpeer.Script) bool {
	if _, _, _, err := rc.EncodeStream(s.R1); err != nil {
		return false
	}
	if len(s.R2) > 0 {
		if _, _, _, err := rc.EncodeStream(s.R2); err != nil {
			return false
		}
	}
	return true
}

func baseCfg(plain bool) loginpeer.Config {
	return loginpeer.Config{User: "sa", Password: "secret-pw", Host: "client", App: "app", Server: "srv", Plain: plain}
}

func TestSingleEditsExhaustive(t *testing.T) {
	e := vh.NewEnum(t, "TestSingleEditsExhaustive", runCase)
	if e.Skip() {
		return
	}
	key := loginpeer.PoolKey(1024, 0)
	n := 0
	for _, plain := range []bool{true, false} {
		for _, extras := range []bool{false, true} {
			base := validScript(plain, key, []byte("0123456789abcdef"), extras, extras, map[bool]int{false: 0, true: 40000}[extras])
			// positive control
			if !e.Do(c08Case{Cfg: baseCfg(plain), Key: key, Script: base, Edit: "none"}) {
				return
			}
			// the valid replies of the OTHER flow: a client that asked for password encryption is
			// not logged in by the plain flow's acceptance, and vice versa
			if !e.Do(c08Case{Cfg: baseCfg(!plain), Key: key, Script: base, Edit: "cross-flow: valid replies of the other flow"}) {
				return
			}
			for _, ed := range editsFor(base, plain) {
				n++
				if !vh.Mine(n) {
					continue
				}
				s := base
				s.R1, s.R2 = clone(base.R1), clone(base.R2)
				ed.Apply(&s)
				if !encodable(s) {
					vh.Label("edit-not-encodable")
					continue
				}
				for _, frag := range []bool{false, true} {
					c := c08Case{Cfg: baseCfg(plain), Key: key, Script: s, Edit: ed.Label}
					if frag && !s.Stall1 && !s.Stall2 {
						c.Script.Cuts1, c.Script.Cuts2 = []int{1, 7, 8, 30}, []int{2, 5, 21}
					}
					if !e.Do(c) {
						return
					}
				}
				if n%2 == 0 && !s.Stall1 && !s.Stall2 {
					// a tiny package queue: the reader has to wait for Login to take the packages
					c := c08Case{Cfg: baseCfg(plain), Key: key, Script: s, Edit: ed.Label}
					c.Cfg.QueueSize = []int{-1, 1}[n/2%2]
					if !e.Do(c) {
						return
					}
				}
				if n%97 == 0 {
					vh.Sample("single-edit", c08Case{Cfg: baseCfg(plain), Key: key, Script: s, Edit: ed.Label})
				}
			}
			// a reply that makes Login give up (wrong acknowledgement status, a refusal message)
			// AND then goes silent before its end: Login has to come back by its context's
			// deadline, whatever it still wanted to read
			all := editsFor(base, plain)
			for _, st := range all {
				if !strings.HasPrefix(st.Label, "stall:") {
					continue
				}
				r := st.Label[len("stall:"):]
				for _, ed := range all {
					if !(strings.HasPrefix(ed.Label, "ackstatus:"+r) || (strings.HasPrefix(ed.Label, "insert:"+r) && strings.HasSuffix(ed.Label, "=eed"))) {
						continue
					}
					n++
					if !vh.Mine(n) {
						continue
					}
					s := base
					s.R1, s.R2 = clone(base.R1), clone(base.R2)
					func() {
						defer func() { recover() }()
						ed.Apply(&s)
						st.Apply(&s)
					}()
					if !encodable(s) {
						continue
					}
					c := c08Case{Cfg: baseCfg(plain), Key: key, Script: s, Edit: "multi#" + ed.Label + "+" + st.Label}
					if n%2 == 0 {
						c.Cfg.QueueSize = 2
					}
					if !e.Do(c) {
						return
					}
				}
			}
		}
	}
	e.Done("every single-edit mutation of the four valid scripts (plain/encrypted, with/without interleaved ENVCHANGE and info EED), unfragmented and fragmented")
}

func TestRandomScripts(t *testing.T) {
	gen := func(rt *rapid.T) c08Case {
		plain := rapid.IntRange(0, 3).Draw(rt, "plain") == 0
		bits := rapid.SampledFrom([]int{1024, 1024, 1024, 1024, 1280, 1536, 1536, 1792, 2048}).Draw(rt, "bits")
		if !vh.Thorough() && bits == 2048 && rapid.IntRange(0, 3).Draw(rt, "skip2048") != 0 {
			bits = 1024
		}
		key := loginpeer.PoolKey(bits, rapid.IntRange(0, 1).Draw(rt, "keyidx"))
		var nonce []byte
		if rapid.IntRange(0, 3).Draw(rt, "nonceclass") == 0 {
			// boundary: the 32-byte session key is the largest secret; nonce + 32 fills the OAEP
			// capacity of the key exactly (or stays one / two bytes below)
			n := key.Capacity() - 32 - rapid.IntRange(0, 2).Draw(rt, "below")
			nonce = rapid.SliceOfN(rapid.Byte(), n, n).Draw(rt, "nonce-at-capacity")
		} else {
			// (the 32-byte session key has to fit behind the nonce: a longer nonce makes the
			// client give up on a reply that is an acceptance - C09 judges those logins)
			max := key.Capacity() - 32
			if max > 64 {
				max = 64
			}
			nonce = rapid.SliceOfN(rapid.Byte(), 0, max).Draw(rt, "nonce")
		}
		extras := rapid.Bool().Draw(rt, "extras")
		ps := 0
		if rapid.Bool().Draw(rt, "packsize") {
			ps = rapid.SampledFrom([]int{512, 1024, 2048, 4096, 16384, 32767, 32768, 40000, 65535, 256, 513}).Draw(rt, "ps")
		}
		s := validScript(plain, key, nonce, rapid.Bool().Draw(rt, "widefmt"), extras, ps)
		if !plain && rapid.Bool().Draw(rt, "owncaps") {
			// every server has its own capability set
			for i := range s.R2 {
				if s.R2[i].Cap == nil {
					continue
				}
				req := rc.CapMask{Type: 1, Mask: make([]byte, 14)}
				res := rc.CapMask{Type: 2, Mask: make([]byte, 8)}
				for k := rapid.IntRange(1, 12).Draw(rt, "nreq"); k > 0; k-- {
					req.Set(rapid.IntRange(1, 105).Draw(rt, "reqbit"))
				}
				for k := rapid.IntRange(1, 6).Draw(rt, "nres"); k > 0; k-- {
					res.Set(rapid.IntRange(1, 55).Draw(rt, "resbit"))
				}
				masks := []rc.CapMask{req, res}
				switch rapid.IntRange(0, 3).Draw(rt, "sectype") {
				case 0: // a further capability type the client did not ask about, nothing in it
					masks = append(masks, rc.CapMask{Type: 3, Mask: []byte{}})
				case 1: // ... with something in it
					sec := rc.CapMask{Type: 3, Mask: make([]byte, 2)}
					sec.Set(rapid.IntRange(1, 15).Draw(rt, "secbit"))
					masks = append(masks, sec)
				}
				s.R2[i] = rc.P{Cap: &rc.Capability{Masks: masks}}
			}
		}
		cfg := baseCfg(plain)
		cfg.Password = pkggen.Str(rt, "password", 30)
		if room := key.Capacity() - len(nonce); len(cfg.Password) > room {
			cfg.Password = cfg.Password[:room]
		}
		nrem := rapid.IntRange(0, 3).Draw(rt, "remotes")
		for i := 0; i < nrem; i++ {
			rp := pkggen.Str(rt, "rempw", 30)
			if room := key.Capacity() - len(nonce); len(rp) > room {
				rp = rp[:room]
			}
			cfg.Remotes = append(cfg.Remotes, [2]string{pkggen.Str(rt, "remname", 30), rp})
		}
		label := "none"
		nedits := rapid.SampledFrom([]int{0, 1, 1, 2, 3}).Draw(rt, "nedits")
		for i := 0; i < nedits; i++ {
			es := editsFor(s, plain)
			ed := es[rapid.IntRange(0, len(es)-1).Draw(rt, "edit")]
			ns := s
			ns.R1, ns.R2 = clone(s.R1), clone(s.R2)
			applied := func() (ok bool) {
				// an edit is written against the valid script; after an earlier edit it may find the
				// package or field it alters gone - then it is skipped
				defer func() {
					if recover() != nil {
						ok = false
					}
				}()
				ed.Apply(&ns)
				return true
			}()
			if !applied || !encodable(ns) {
				continue
			}
			s = ns
			if i == 0 {
				label = ed.Label
			} else {
				label = "multi#" + label + "+" + ed.Label
			}
		}
		if !s.Stall1 {
			st, _, _, _ := rc.EncodeStream(s.R1)
			s.Cuts1 = respgen.Cuts(rt, len(st), false)
		}
		if !s.Stall2 && len(s.R2) > 0 {
			st, _, _, _ := rc.EncodeStream(s.R2)
			s.Cuts2 = respgen.Cuts(rt, len(st), false)
		}
		cfg.QueueSize = rapid.SampledFrom([]int{0, 0, -1, 1, 2, 5}).Draw(rt, "queuesize")
		return c08Case{Cfg: cfg, Key: key, Script: s, Edit: label}
	}
	vh.Check(t, "TestRandomScripts", vh.N(600, 12000), gen, runCase)
}

var _ = tds.TDS_LOG_SUCCEED

// the connection of the last accepted encrypted login of this process and what its server returned
var (
	prevMu   sync.Mutex
	prevConn *tds.Conn
	prevCaps rc.Capability
)
