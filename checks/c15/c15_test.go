// C15 — the packet queue behaves as a byte FIFO across packet boundaries.
package c15

import (
	"bytes"
	"encoding/binary"
	"errors"
	"fmt"
	"testing"

	"github.com/SAP/go-dblib/tds"
	"pgregory.net/rapid"
	"verif/internal/vh"
)

func TestMain(m *testing.M) {
	vh.Rule("rapid: operation sequences (3..40 ops) in the library's two usages of PacketQueue, each compared step by step with a flat []byte model. rx: AddPacket (bodies 0..3x the packet body, occasionally empty), Bytes(n) incl. n beyond the available bytes, all typed reads, String, Read(p), Position/SetPosition to a position saved since the last discard, DiscardUntilCurrentPosition, Reset, AllPacketsConsumed/IsEOM. tx: WriteBytes/Write/typed writes with a packet-size function changing between writes (9..600), Position after every step against the layout model 'each packet is created with the size current at creation and filled completely before the next is opened', discard, reset, rewind-and-read-back of written bytes. exhaustive: all sequences of <=5 (quick) / <=6 (thorough) operations from a 9-letter (rx) and 7-letter (tx) alphabet over packet sizes 9..10 with 1-3 byte payloads. Non-trivial: a read or write crossed a packet boundary, or a failed read was followed by restore/discard; distinct by the operation sequence")
	vh.Assume("byte order of typed reads/writes is the library's announced little endian; writes into the middle of existing data and reads past the write frontier inside a padded tx packet are not generated (no caller does either); a saved position is only restored before the next discard (documented as volatile)")
	vh.Rule("also: three queues (two receive sides, one transmit side) used in turns by a generated schedule; slices handed out by Bytes keep their content over later operations")
	vh.Rule("also: the caller treats slices returned by Bytes as its own memory (changes every byte, appends to them): later reads, also after a restore, still return the enqueued bytes")
	vh.Rule("also: a failed Bytes / Read hands out all the bytes it consumed (n counts them)")
	vh.Rule("also: packets enqueued, everything read, then typed and untyped writes: what was written reads back from where the reads ended, and everything from the start (known finding: empty enqueued packets behind the position)")
	vh.Main(m, "C15")
}

type op struct {
	K string `json:"k"`
	N int    `json:"n,omitempty"`
	B []byte `json:"b,omitempty"`
	E bool   `json:"e,omitempty"` // EOM flag on an added packet
	O bool   `json:"o,omitempty"` // bytes: the caller treats the result as its own memory (changes it, appends to it)
}

type rxCase struct {
	Ops []op `json:"ops"`
	// step, if set, is called before every operation (two queues used in turns)
	step func()
}

func safely(f func() *vh.Failure) (res *vh.Failure) {
	defer func() {
		if r := recover(); r != nil {
			res = vh.Failf("C15/panic", "panic: %v", r)
		}
	}()
	return f()
}

var typedSize = map[string]int{"u8": 1, "i8": 1, "byte": 1, "u16": 2, "i16": 2, "u32": 4, "i32": 4, "u64": 8, "i64": 8}

func runRx(c rxCase) *vh.Failure {
	return safely(func() *vh.Failure {
		q := tds.NewPacketQueue(func() int { return 512 })
		var flat []byte // unread bytes
		type saved struct{ pi, di, unread int }
		var save *saved
		total := 0 // bytes ever added since reset (for save bookkeeping)
		consumed := 0
		eom := false
		empties := false
		nontrivial := false
		failedRead := false
		var held [][2][]byte // slices returned by Bytes and what they contained then
		pktEnds := []int{}   // absolute end offsets (in "total" coordinates) of packets, to detect boundary crossing
		crosses := func(from, to int) bool {
			for _, e := range pktEnds {
				if from < e && e < to {
					return true
				}
			}
			return false
		}
		for i, o := range c.Ops {
			if c.step != nil {
				c.step()
			}
			fail := func(class, f string, a ...any) *vh.Failure {
				return vh.Failf(class, "op %d %s: %s", i, o.K, fmt.Sprintf(f, a...))
			}
			switch o.K {
			case "add":
				p := &tds.Packet{Header: tds.PacketHeader{MsgType: tds.TDS_BUF_RESPONSE, Length: uint16(8 + len(o.B))}, Data: append([]byte{}, o.B...)}
				if o.E {
					p.Header.Status = tds.TDS_BUFSTAT_EOM
					eom = true
				}
				if len(o.B) == 0 {
					empties = true
				}
				q.AddPacket(p)
				flat = append(flat, o.B...)
				total += len(o.B)
				pktEnds = append(pktEnds, total)
			case "bytes", "string", "read", "u8", "i8", "byte", "u16", "i16", "u32", "i32", "u64", "i64":
				n := o.N
				if sz, ok := typedSize[o.K]; ok {
					n = sz
				}
				var got []byte
				var err error
				readCount := 0
				switch o.K {
				case "bytes":
					got, err = q.Bytes(n)
					if err == nil && len(got) != n {
						return fail("C15/bytes-length", "Bytes(%d) returned %d bytes without error", n, len(got))
					}
				case "string":
					var s string
					s, err = q.String(n)
					got = []byte(s)
				case "read":
					p := make([]byte, n)
					for j := range p {
						p[j] = 0xEE
					}
					var m int
					m, err = q.Read(p)
					readCount = m
					if err == nil && m != n {
						return fail("C15/read-count", "Read(p[%d]) returned n=%d, nil", n, m)
					}
					got = p
				case "byte":
					var b byte
					b, err = q.Byte()
					got = []byte{b}
				case "u8":
					var v uint8
					v, err = q.Uint8()
					got = []byte{v}
				case "i8":
					var v int8
					v, err = q.Int8()
					got = []byte{byte(v)}
				case "u16":
					var v uint16
					v, err = q.Uint16()
					got = binary.LittleEndian.AppendUint16(nil, v)
				case "i16":
					var v int16
					v, err = q.Int16()
					got = binary.LittleEndian.AppendUint16(nil, uint16(v))
				case "u32":
					var v uint32
					v, err = q.Uint32()
					got = binary.LittleEndian.AppendUint32(nil, v)
				case "i32":
					var v int32
					v, err = q.Int32()
					got = binary.LittleEndian.AppendUint32(nil, uint32(v))
				case "u64":
					var v uint64
					v, err = q.Uint64()
					got = binary.LittleEndian.AppendUint64(nil, v)
				case "i64":
					var v int64
					v, err = q.Int64()
					got = binary.LittleEndian.AppendUint64(nil, uint64(v))
				}
				// slices handed out earlier still hold what they held (the caller keeps them:
				// a parsed package refers to them)
				for _, h := range held {
					if !bytes.Equal(h[0], h[1]) {
						return fail("C15/earlier-result-overwritten", "a slice returned by an earlier Bytes call read %x when it was returned and reads %x now", h[1], h[0])
					}
				}
				if o.K == "bytes" && err == nil && len(got) > 0 && !o.O {
					held = append(held, [2][]byte{got, append([]byte{}, got...)})
					if len(held) > 4 {
						held = held[1:]
					}
				}
				if n <= len(flat) {
					if err != nil {
						return fail("C15/spurious-error", "%d bytes requested, %d available, error %v", n, len(flat), err)
					}
					if !bytes.Equal(got, flat[:n]) {
						cls := "C15/wrong-bytes"
						if o.K == "read" {
							cls = "C15/read-does-not-fill-buffer"
						}
						return fail(cls, "%d bytes requested: got %x, model %x", n, got, flat[:n])
					}
					if crosses(consumed, consumed+n) {
						nontrivial = true
						vh.Label("rx:read-crosses-boundary")
					}
					flat = flat[n:]
					consumed += n
					if o.K == "bytes" && o.O {
						// the result is the caller's: it may change it and append to it; the queue
						// keeps returning the bytes that were enqueued (also after a restore)
						for i := range got {
							got[i] ^= 0xFF
						}
						got = append(got, 0xEE, 0xEE, 0xEE)
						_ = got
						vh.Label("rx:caller-modifies-result")
					}
				} else {
					if !errors.Is(err, tds.ErrNotEnoughBytes) {
						return fail("C15/short-read-not-reported", "%d bytes requested, only %d available, error = %v (want ErrNotEnoughBytes)", n, len(flat), err)
					}
					// what the failed attempt hands back anyway (documented: "the bytes that were
					// available") must be bytes of the stream: never more than there are, never
					// bytes nobody wrote
					switch o.K {
					case "bytes", "string":
						if len(got) > len(flat) || !bytes.Equal(got, flat[:len(got)]) {
							return fail("C15/short-read-invents-bytes", "%d bytes requested, %d available: the failed %s returned %x, available were %x", n, len(flat), o.K, got, flat)
						}
					case "read":
						if m := readCount; m > len(flat) || m < 0 || !bytes.Equal(got[:m], flat[:m]) {
							return fail("C15/short-read-invents-bytes", "Read(p[%d]) with %d available returned n=%d and p[:n]=%x, available were %x", n, len(flat), m, got[:minInt(m, len(got))], flat)
						}
					}
					// ... and all of them: the failed attempt has consumed what was available, so
					// bytes it does not hand out are lost to a consumer that goes on reading
					// (Bytes documents "the bytes that were available"; Read is an io.Reader:
					// n counts the bytes read also when an error is returned)
					handed := len(got)
					if o.K == "read" {
						handed = readCount
					}
					if (o.K == "read" || o.K == "bytes") && handed != len(flat) {
						return fail("C15/short-read-drops-bytes", "%s of %d bytes with %d available failed and handed out %d bytes; the %d available ones are consumed", o.K, n, len(flat), handed, len(flat))
					}
					// everything available counts as consumed by the failed attempt
					consumed += len(flat)
					flat = nil
					failedRead = true
					vh.Label("rx:read-beyond-available")
				}
			case "save":
				pi, di := q.Position()
				save = &saved{pi, di, consumed}
			case "restore":
				if save == nil {
					continue // no valid saved position: skip
				}
				q.SetPosition(save.pi, save.di)
				// the model needs the bytes back: keep a history of all bytes since reset
				back := consumed - save.unread
				if back > 0 {
					flat = append(append([]byte{}, histTail(c.Ops[:i+1], total, save.unread, back)...), flat...)
				}
				consumed = save.unread
				if failedRead {
					nontrivial = true
					vh.Label("rx:restore-after-failed-read")
					failedRead = false
				}
			case "discard":
				q.DiscardUntilCurrentPosition()
				save = nil // positions are documented as volatile across a discard
				if failedRead {
					nontrivial = true
					vh.Label("rx:discard-after-failed-read")
					failedRead = false
				}
				vh.Label("rx:discard")
			case "reset":
				q.Reset()
				flat, save, total, consumed, eom, empties, failedRead = nil, nil, 0, 0, false, false, false
				pktEnds = pktEnds[:0]
			case "state":
				if !empties {
					want := len(flat) == 0
					if got := q.AllPacketsConsumed(); got != want {
						return fail("C15/consumed-flag", "AllPacketsConsumed() = %v with %d unread bytes", got, len(flat))
					}
					if got := q.IsEOM(); got != (want && eom) {
						return fail("C15/eom-flag", "IsEOM() = %v with %d unread bytes, eom packet added=%v", got, len(flat), eom)
					}
				}
			default:
				panic("bad op " + o.K)
			}
		}
		// final drain: whatever is unread must come out in order
		got, err := q.Bytes(len(flat))
		if err != nil || !bytes.Equal(got, flat) {
			return vh.Failf("C15/wrong-bytes", "final drain of %d unread bytes: got %x err %v, model %x", len(flat), got, err, flat)
		}
		if nontrivial {
			vh.NonTrivial("rx" + fmt.Sprint(c.Ops))
		}
		return nil
	})
}

// histTail recomputes bytes [from, from+n) of the added stream since the last reset.
func histTail(ops []op, total, from, n int) []byte {
	var all []byte
	for _, o := range ops {
		switch o.K {
		case "add":
			all = append(all, o.B...)
		case "reset":
			all = nil
		}
	}
	return all[from : from+n]
}

func genBytes(rt *rapid.T, n int, ctr *byte) []byte {
	b := make([]byte, n)
	if rapid.Bool().Draw(rt, "counter") {
		for i := range b {
			*ctr++
			b[i] = *ctr
		}
		return b
	}
	return rapid.SliceOfN(rapid.Byte(), n, n).Draw(rt, "payload")
}

func genRx(rt *rapid.T) rxCase {
	n := rapid.IntRange(3, 40).Draw(rt, "nops")
	body := rapid.SampledFrom([]int{1, 2, 3, 8, 17, 64, 504}).Draw(rt, "body")
	var ctr byte
	avail := 0
	ops := make([]op, 0, n)
	if rapid.IntRange(0, 11).Draw(rt, "longqueue") == 0 {
		// a long message: well over a hundred packets queued before anything is read
		// (hundreds of packets are ordinary for a result set; only the bytes per packet are small here)
		m := rapid.IntRange(120, 300).Draw(rt, "manypackets")
		for i := 0; i < m; i++ {
			sz := rapid.IntRange(1, 3).Draw(rt, "smallsize")
			ops = append(ops, op{K: "add", B: genBytes(rt, sz, &ctr)})
			avail += sz
		}
		n += m
	}
	kinds := []string{"add", "add", "add", "bytes", "bytes", "bytes", "string", "read", "read", "u8", "i8", "byte", "u16", "i16", "u32", "i32", "u64", "i64", "save", "restore", "discard", "discard", "reset", "state", "state"}
	for len(ops) < n {
		k := rapid.SampledFrom(kinds).Draw(rt, "kind")
		o := op{K: k}
		switch k {
		case "add":
			sz := rapid.IntRange(0, 3*body).Draw(rt, "size")
			if rapid.IntRange(0, 9).Draw(rt, "empty?") == 0 {
				sz = 0
			}
			o.B = genBytes(rt, sz, &ctr)
			o.E = rapid.IntRange(0, 3).Draw(rt, "eom") == 0
			avail += sz
		case "bytes", "string", "read":
			o.N = rapid.IntRange(0, avail+3).Draw(rt, "n")
			if k == "bytes" {
				if rapid.Bool().Draw(rt, "short") {
					o.N = rapid.IntRange(0, 6).Draw(rt, "n")
				}
				o.O = rapid.IntRange(0, 2).Draw(rt, "own") == 0
			}
			if o.N > avail {
				avail = 0
			} else {
				avail -= o.N
			}
		case "reset":
			avail = 0
		case "restore":
			avail += 3 * body // loose upper bound; only steers generation
		default:
			if sz, ok := typedSize[k]; ok {
				if sz > avail {
					avail = 0
				} else {
					avail -= sz
				}
			}
		}
		ops = append(ops, o)
	}
	c := rxCase{Ops: ops}
	if n <= 8 {
		vh.Sample("rx", c)
	}
	return c
}

func TestRxModel(t *testing.T) {
	vh.Check(t, "TestRxModel", vh.N(40000, 600000), genRx, runRx)
}

// ---- tx side

type txCase struct {
	Size0 int  `json:"size0"`
	Ops   []op `json:"ops"`
	step  func()
}

type mpkt struct{ cap, fill int }

func runTx(c txCase) *vh.Failure {
	return safely(func() *vh.Failure {
		size := c.Size0
		q := tds.NewPacketQueue(func() int { return size })
		var pk []mpkt   // model layout
		var flat []byte // bytes in the queue (written, not discarded)
		cur := 0        // model packet index of the write frontier
		nontrivial := false
		sizeChanged := false
		modelPos := func() (int, int) {
			if len(pk) == 0 {
				return 0, 0
			}
			return cur, pk[cur].fill
		}
		write := func(b []byte) {
			for len(b) > 0 {
				if cur == len(pk) {
					pk = append(pk, mpkt{cap: size - 8})
				}
				if pk[cur].fill == pk[cur].cap {
					pk = append(pk, mpkt{cap: size - 8})
					cur++
					nontrivial = true
					vh.Label("tx:write-crosses-boundary")
					if sizeChanged {
						vh.Label("tx:new-packet-after-size-change")
					}
				}
				k := pk[cur].cap - pk[cur].fill
				if k > len(b) {
					k = len(b)
				}
				pk[cur].fill += k
				flat = append(flat, b[:k]...)
				b = b[k:]
			}
		}
		for i, o := range c.Ops {
			if c.step != nil {
				c.step()
			}
			fail := func(class, f string, a ...any) *vh.Failure {
				return vh.Failf(class, "op %d %s: %s", i, o.K, fmt.Sprintf(f, a...))
			}
			var err error
			switch o.K {
			case "size":
				size = o.N
				sizeChanged = true
			case "write":
				// the caller's buffer is the caller's: it is reused (here: overwritten) as soon
				// as the call is back, as io.Writer permits
				buf := append([]byte{}, o.B...)
				err = q.WriteBytes(buf)
				for j := range buf {
					buf[j] = 0xEE
				}
				write(o.B)
			case "iowrite":
				var m int
				buf := append([]byte{}, o.B...)
				m, err = q.Write(buf)
				for j := range buf {
					buf[j] = 0xEE
				}
				if err == nil && m != len(o.B) {
					return fail("C15/write-count", "Write returned %d for %d bytes", m, len(o.B))
				}
				write(o.B)
			case "wstring":
				err = q.WriteString(string(o.B))
				write(o.B)
			case "wbyte":
				err = q.WriteByte(byte(o.N))
				write([]byte{byte(o.N)})
			case "wu8":
				err = q.WriteUint8(uint8(o.N))
				write([]byte{byte(o.N)})
			case "wi8":
				err = q.WriteInt8(int8(o.N))
				write([]byte{byte(int8(o.N))})
			case "wu16":
				err = q.WriteUint16(uint16(o.N))
				write(binary.LittleEndian.AppendUint16(nil, uint16(o.N)))
			case "wi16":
				err = q.WriteInt16(int16(o.N))
				write(binary.LittleEndian.AppendUint16(nil, uint16(int16(o.N))))
			case "wu32":
				err = q.WriteUint32(uint32(o.N))
				write(binary.LittleEndian.AppendUint32(nil, uint32(o.N)))
			case "wi32":
				err = q.WriteInt32(int32(o.N))
				write(binary.LittleEndian.AppendUint32(nil, uint32(int32(o.N))))
			case "wu64":
				err = q.WriteUint64(uint64(o.N) * 0x100000001)
				write(binary.LittleEndian.AppendUint64(nil, uint64(o.N)*0x100000001))
			case "wi64":
				err = q.WriteInt64(-int64(o.N) * 0x100000001)
				write(binary.LittleEndian.AppendUint64(nil, uint64(-int64(o.N)*0x100000001)))
			case "discard":
				q.DiscardUntilCurrentPosition()
				if len(pk) > 0 {
					// packets before the frontier are dropped; so is the frontier packet if it is full
					drop := 0
					for j := 0; j < cur; j++ {
						drop += pk[j].fill
					}
					pk = pk[cur:]
					cur = 0
					if pk[0].fill >= pk[0].cap {
						drop += pk[0].fill
						pk = pk[1:]
					}
					flat = flat[drop:]
				}
				vh.Label("tx:discard")
			case "reset":
				q.Reset()
				pk, flat, cur = nil, nil, 0
			case "readback":
				// rewind to the start of the queue, read exactly what was written, return to the frontier
				fp, fd := q.Position()
				q.SetPosition(0, 0)
				got, rerr := q.Bytes(len(flat))
				q.SetPosition(fp, fd)
				if rerr != nil || !bytes.Equal(got, flat) {
					return fail("C15/wrong-bytes", "read back %d written bytes: got %x err %v, model %x", len(flat), got, rerr, flat)
				}
				if len(pk) > 1 && len(flat) > 0 {
					nontrivial = true
					vh.Label("tx:readback-crosses-boundary")
				}
			default:
				panic("bad op " + o.K)
			}
			if err != nil {
				return fail("C15/write-error", "unexpected error %v", err)
			}
			wp, wd := modelPos()
			if gp, gd := q.Position(); gp != wp || gd != wd {
				return fail("C15/tx-layout", "Position() = (%d,%d), layout model says (%d,%d) [packet size now %d, model packets %v]", gp, gd, wp, wd, size, pk)
			}
		}
		if nontrivial {
			vh.NonTrivial("tx" + fmt.Sprint(c.Size0, c.Ops))
		}
		return nil
	})
}

func genTx(rt *rapid.T) txCase {
	sizes := rapid.OneOf(rapid.IntRange(9, 24), rapid.IntRange(9, 600), rapid.SampledFrom([]int{9, 10, 16, 256, 512, 600}))
	size := sizes.Draw(rt, "size0")
	init := size
	n := rapid.IntRange(3, 40).Draw(rt, "nops")
	var ctr byte
	kinds := []string{"write", "write", "write", "write", "iowrite", "wstring", "wbyte", "wu8", "wi8", "wu16", "wi16", "wu32", "wi32", "wu64", "wi64", "size", "discard", "discard", "readback", "readback", "reset"}
	ops := make([]op, 0, n)
	if rapid.IntRange(0, 11).Draw(rt, "longqueue") == 0 {
		// a long message: one write (or a few) filling well over a hundred packets
		for k := rapid.IntRange(1, 3).Draw(rt, "bigwrites"); k > 0; k-- {
			pk := rapid.IntRange(50, 300).Draw(rt, "manypackets")
			sz := pk * (size - 8)
			if sz > 40000 {
				sz = 40000
			}
			ops = append(ops, op{K: "write", B: genBytes(rt, sz+rapid.IntRange(0, 3).Draw(rt, "tail"), &ctr)})
			if rapid.Bool().Draw(rt, "smallbetween") {
				ops = append(ops, op{K: "wu32", N: 7})
			}
		}
		n += len(ops)
	}
	for len(ops) < n {
		k := rapid.SampledFrom(kinds).Draw(rt, "kind")
		o := op{K: k}
		switch k {
		case "write", "iowrite", "wstring":
			body := size - 8
			var sz int
			if rapid.Bool().Draw(rt, "boundary") {
				// aim at a packet boundary: k*body + d
				sz = rapid.IntRange(0, 3).Draw(rt, "k")*body + rapid.IntRange(-1, 1).Draw(rt, "d")
				if sz < 0 {
					sz = 0
				}
			} else {
				sz = rapid.IntRange(0, 3*body).Draw(rt, "size")
			}
			o.B = genBytes(rt, sz, &ctr)
		case "size":
			o.N = sizes.Draw(rt, "newsize")
			size = o.N
		case "reset", "discard", "readback":
		default:
			o.N = rapid.IntRange(0, 1<<31-1).Draw(rt, "v")
		}
		ops = append(ops, o)
	}
	c := txCase{Size0: init, Ops: ops}
	if n <= 8 {
		vh.Sample("tx", c)
	}
	return c
}

func TestTxModel(t *testing.T) {
	vh.Check(t, "TestTxModel", vh.N(40000, 600000), genTx, runTx)
}

// ---- exhaustive small scope

func forAllSeqs(alphabet []op, maxLen int, f func(seq []op) bool) int {
	count := 0
	seq := make([]op, 0, maxLen)
	var rec func() bool
	rec = func() bool {
		if len(seq) > 0 {
			if vh.Mine(count) {
				if !f(seq) {
					return false
				}
			}
			count++
		}
		if len(seq) == maxLen {
			return true
		}
		for _, a := range alphabet {
			seq = append(seq, a)
			if !rec() {
				return false
			}
			seq = seq[:len(seq)-1]
		}
		return true
	}
	rec()
	return count
}

func TestRxExhaustive(t *testing.T) {
	e := vh.NewEnum(t, "TestRxExhaustive", runRx)
	if e.Skip() {
		return
	}
	alphabet := []op{
		{K: "add", B: []byte{1}}, {K: "add", B: []byte{2, 3}}, {K: "add", B: []byte{4, 5, 6}, E: true},
		{K: "bytes", N: 1}, {K: "read", N: 2}, {K: "u32"},
		{K: "save"}, {K: "restore"}, {K: "discard"},
	}
	maxLen := 5
	if vh.Thorough() {
		maxLen = 7
	}
	forAllSeqs(alphabet, maxLen, func(seq []op) bool {
		return e.Do(rxCase{Ops: append([]op{}, seq...)})
	})
	e.Done(fmt.Sprintf("rx: all sequences of <=%d ops over a 9-letter alphabet", maxLen))
}

func TestTxExhaustive(t *testing.T) {
	e := vh.NewEnum(t, "TestTxExhaustive", runTx)
	if e.Skip() {
		return
	}
	alphabet := []op{
		{K: "write", B: []byte{1}}, {K: "write", B: []byte{2, 3}}, {K: "iowrite", B: []byte{4, 5, 6}},
		{K: "size", N: 9}, {K: "size", N: 10}, {K: "discard"}, {K: "readback"},
	}
	maxLen := 6
	if vh.Thorough() {
		maxLen = 8
	}
	for _, s0 := range []int{9, 10} {
		forAllSeqs(alphabet, maxLen, func(seq []op) bool {
			return e.Do(txCase{Size0: s0, Ops: append([]op{}, seq...)})
		})
	}
	e.Done(fmt.Sprintf("tx: all sequences of <=%d ops over a 7-letter alphabet, initial packet size 9 and 10", maxLen))
}

func minInt(a, b int) int {
	if a < b {
		return a
	}
	return b
}

// ---- two queues of one process used in turns (a receive queue and a transmit queue, or
// the queues of two channels): what one does must not show in the other

type pairCase struct {
	Rx    rxCase `json:"receive_side"`
	Tx    txCase `json:"transmit_side"`
	Other rxCase `json:"second_receive_side"`
	Turns []int  `json:"turns"` // which of the three gets to do its next operation
}

func runPair(c pairCase) *vh.Failure {
	// three runners in their own goroutines, but only one of them runs at any time: a
	// baton is handed over according to Turns (round robin once Turns is used up)
	type runner struct {
		baton chan struct{}
		done  chan *vh.Failure
		ended bool
	}
	rs := []*runner{{}, {}, {}}
	back := make(chan int, 1)
	for i := range rs {
		rs[i].baton, rs[i].done = make(chan struct{}), make(chan *vh.Failure, 1)
	}
	mk := func(i int) func() {
		return func() {
			back <- i     // ready for the next operation
			<-rs[i].baton // wait for the turn
		}
	}
	rx, tx, other := c.Rx, c.Tx, c.Other
	rx.step, tx.step, other.step = mk(0), mk(1), mk(2)
	go func() { f := runRx(rx); rs[0].done <- f; back <- -1 }()
	go func() { f := runTx(tx); rs[1].done <- f; back <- -2 }()
	go func() { f := runRx(other); rs[2].done <- f; back <- -3 }()
	waiting := map[int]bool{}
	live := 3
	turn := 0
	var first *vh.Failure
	for live > 0 {
		// collect announcements until every live runner is waiting or has ended
		for len(waiting) < live {
			i := <-back
			if i < 0 {
				r := rs[-i-1]
				r.ended = true
				live--
				if f := <-r.done; f != nil && first == nil {
					first = f
					f.Msg = fmt.Sprintf("(queue %d of three used in turns) %s", -i, f.Msg)
				}
				continue
			}
			waiting[i] = true
		}
		if live == 0 {
			break
		}
		var cand []int
		for i := range rs {
			if waiting[i] {
				cand = append(cand, i)
			}
		}
		pick := cand[turn%len(cand)]
		if turn < len(c.Turns) {
			pick = cand[c.Turns[turn]%len(cand)]
		}
		turn++
		delete(waiting, pick)
		rs[pick].baton <- struct{}{}
	}
	if first == nil {
		vh.Label("pair:three-queues-in-turns")
	}
	return first
}

func TestQueuesInTurns(t *testing.T) {
	gen := func(rt *rapid.T) pairCase {
		c := pairCase{Rx: genRx(rt), Tx: genTx(rt), Other: genRx(rt)}
		n := len(c.Rx.Ops) + len(c.Tx.Ops) + len(c.Other.Ops)
		c.Turns = rapid.SliceOfN(rapid.IntRange(0, 2), n, n).Draw(rt, "turns")
		return c
	}
	vh.Check(t, "TestQueuesInTurns", vh.N(3000, 60000), gen, runPair)
}
