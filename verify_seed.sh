#!/bin/bash
# verify_seed.sh <ID> <variant> [outdir]: confirms an independently produced breaking change
# (patch.diff + demo_test.go): existing suite passes with it, the demonstration fails with it and
# passes without it; then runs the quick check of the property against it.
# Output: one line  SEED <ID>/<variant> suite=<ok|FAIL> demo_clean=<pass|FAIL> demo_patched=<fail|PASS> check=<CAUGHT|MISSED|INCONCLUSIVE> :: class
id=$1; x=$2; out=${3:-/tmp/seedout${SEEDROUND:-}-$id/$x}
[ "${SEEDROUND:-}" = 1 ] && out=${3:-/tmp/seedout-$id/$x}
export GOFLAGS=-mod=mod GOPROXY=off GOSUMDB=off GOTOOLCHAIN=local
# a build cache of its own (the scratch copy's path is unique, nothing would be reused), removed at the end
export GOCACHE=$(mktemp -d /tmp/vseed-cache-XXXXXX)
trap 'rm -rf "$GOCACHE"' EXIT
d=$(mktemp -d /tmp/vseed-XXXXXX)
rsync -a --exclude .git /repo/ "$d/"
pkg=$(grep -m1 '^package ' "$out/demo_test.go" | awk '{print $2}' | sed 's/_test$//')
case "$pkg" in dblib) dir=. ;; *) dir=$pkg ;; esac
[ -d "$d/$dir" ] || dir=$(cd "$d" && grep -rl "^package $pkg\$" --include=*.go . | head -1 | xargs dirname)
cp "$out/demo_test.go" "$d/$dir/zz_demo_test.go"
# run exactly the tests the demonstration file defines
runre="^($(grep -oE '^func Test[A-Za-z0-9_]+' "$out/demo_test.go" | sed 's/^func //' | paste -sd'|'))\$"
demo_clean=FAIL; (cd "$d" && timeout 600 go test -tags verif -count=1 -run "$runre" ./$dir/ >"$d/demo_clean.log" 2>&1) && demo_clean=pass
if ! (cd "$d" && patch -p1 -s < "$out/patch.diff" >/dev/null 2>&1); then echo "SEED $id/$x PATCH-FAILED"; rm -rf "$d"; exit 0; fi
demo_patched=PASS; (cd "$d" && timeout 600 go test -tags verif -count=1 -run "$runre" ./$dir/ >"$d/demo_patched.log" 2>&1) || demo_patched=fail
rm "$d/$dir/zz_demo_test.go"
suite=FAIL; (cd "$d" && go build ./... && go vet ./... >/dev/null 2>&1; go test -vet=off -count=1 ./... >"$d/suite.log" 2>&1) && suite=ok
res=$(VERIF_REPO="$d" python3 /verif/vcheck.py "$id" 2>&1); rc=$?
cls=$(echo "$res" | grep -m1 "class=" | sed 's/^ *//' | cut -c1-220)
case $rc in 1) c=CAUGHT ;; 0) c=MISSED ;; *) c="INCONCLUSIVE($rc)"; cls=$(echo "$res" | tail -2 | tr '\n' ' ' | cut -c1-200) ;; esac
echo "SEED $id/$x suite=$suite demo_clean=$demo_clean demo_patched=$demo_patched check=$c :: $cls"
rm -rf "$d"
tag=$(printf %s "$d" | sha256sum | cut -c1-8); rm -rf /verif/work/$id.$tag; rm -f /verif/bin/*.$tag.test /verif/bin/*.$tag.race.test /verif/bin/*.$tag.386.test /verif/work/alt.$tag.mod /verif/work/alt.$tag.sum 2>/dev/null
