#!/usr/bin/env python3
"""Driver for the go-dblib property checks.

  vcheck.py <ID> [--tier quick|thorough] [--replay FILE] [--keep]
  vcheck.py --setup            build (warm the cache for) every check binary

exit 0  property held on everything explored (KNOWN-FINDING lines may be printed)
exit 1  violation: a line `VIOLATION property=<id> replay=<path>` is printed
exit 2  inconclusive (build failure, timeout, worker death) - never a violation
"""
import array
import hashlib
import json
import os
import re
import shutil
import subprocess
import sys
import time

ROOT = os.path.dirname(os.path.abspath(__file__))
ENV = dict(os.environ)
ENV.update(GOFLAGS="-mod=mod", GOPROXY="off", GOSUMDB="off", GOTOOLCHAIN="local", VERIF_ROOT=ROOT)
ENV.setdefault("GOCACHE", os.path.expanduser("~/.cache/go-build"))

# per property: package dir under checks/, evidence level, and the process runs.
# run keys: name, race, run (regexp for -test.run), shards (quick, thorough),
#           timeout (quick, thorough) seconds, env (extra), fuzz (target, seconds) thorough only
def R(name="main", race=False, run=".", shards=(1, 16), timeout=(300, 3000), env=None, tiers=("quick", "thorough")):
    return dict(name=name, race=race, run=run, shards=shards, timeout=timeout, env=env or {}, tiers=tiers)

def FZ(target, seconds=60, pkg=None):
    return dict(name="fuzz-" + target, fuzz=target, seconds=seconds, tiers=("thorough",), pkg=pkg)

CFG = {
    "C20": dict(pkg="c20", level="exploration", runs=[R(shards=(16, 32)), R(name="race", race=True, run="TestConcurrent", shards=(2, 4)), R(name="386", race="386", run="Exhaustive|EveryLevelValue|FirstCall", shards=(2, 4))]),
}
try:
    sys.path.insert(0, ROOT)
    from vcfg import CFG as _EXTRA  # noqa
    CFG.update(_EXTRA(R, FZ))
except ImportError:
    pass


def log(*a):
    print(*a, flush=True)


ALT_REPO = os.environ.get("VERIF_REPO", "")  # sensitivity runs: build against a scratch copy of /repo
ALT_TAG = ("." + hashlib.sha256(ALT_REPO.encode()).hexdigest()[:8]) if ALT_REPO else ""


def modfile_args():
    """With VERIF_REPO set, a temporary go.mod pointing the replace directive at that copy."""
    if not ALT_REPO:
        return []
    os.makedirs(os.path.join(ROOT, "work"), exist_ok=True)
    mf = os.path.join(ROOT, "work", "alt%s.mod" % ALT_TAG)
    with open(os.path.join(ROOT, "go.mod")) as f:
        txt = f.read().replace("=> /repo", "=> " + ALT_REPO)
    with open(mf, "w") as f:
        f.write(txt)
    shutil.copy(os.path.join(ROOT, "go.sum"), mf[:-4] + ".sum")
    return ["-modfile=" + mf]


def build(pid, cfg, race):
    os.makedirs(os.path.join(ROOT, "bin"), exist_ok=True)
    # race: False (plain build), True (race detector build) or "386" (the library built for a
    # 32-bit platform; the binary runs natively on this machine)
    out = os.path.join(ROOT, "bin", cfg["pkg"] + ALT_TAG + (".386" if race == "386" else ".race" if race else "") + ".test")
    cmd = ["go", "test", "-c", "-tags", "verif", "-vet=off", "-o", out] + modfile_args()
    benv = ENV
    if race == "386":
        benv = dict(ENV, GOARCH="386", CGO_ENABLED="0")
    elif race:
        cmd.append("-race")
    cmd.append("./checks/" + cfg["pkg"])
    t0 = time.time()
    p = subprocess.run(cmd, cwd=ROOT, env=benv, stdout=subprocess.PIPE, stderr=subprocess.STDOUT, text=True)
    if p.returncode != 0:
        log("BUILD-FAILED property=%s (inconclusive)\n%s" % (pid, p.stdout[-4000:]))
        return None
    log("built %s in %.1fs" % (os.path.relpath(out, ROOT), time.time() - t0))
    return out


def load_known(pid):
    path = os.path.join(ROOT, "known_findings.json")
    if not os.path.exists(path):
        return []
    with open(path) as f:
        kf = json.load(f)
    return [o for o in kf.get("open", []) if o.get("property") == pid]


def save_log_replay(pid, kind, text):
    os.makedirs(os.path.join(ROOT, "replays"), exist_ok=True)
    h = hashlib.sha256(text.encode("utf-8", "replace")).hexdigest()[:10]
    path = os.path.join(ROOT, "replays", "%s-%s-%s.log" % (pid, kind, h))
    with open(path, "w") as f:
        f.write(text)
    return path


def main():
    args = sys.argv[1:]
    if args and args[0] == "--setup":
        ok = True
        for pid, cfg in sorted(CFG.items()):
            races = sorted({r.get("race") or False for r in cfg["runs"] if "fuzz" not in r}, key=str)
            for race in races:
                if build(pid, cfg, race) is None:
                    ok = False
        return 0 if ok else 2
    if not args:
        log(__doc__)
        return 2
    pid = args[0]
    tier = os.environ.get("VERIF_TIER", "quick")
    replay = None
    keep = False
    i = 1
    while i < len(args):
        if args[i] == "--tier":
            tier = args[i + 1]
            i += 2
        elif args[i] == "--replay":
            replay = os.path.abspath(args[i + 1])
            i += 2
        elif args[i] == "--keep":
            keep = True
            i += 1
        else:
            log("unknown argument", args[i])
            return 2
    if tier not in ("quick", "thorough"):
        tier = "quick"
    if pid not in CFG:
        log("unknown property", pid)
        return 2
    cfg = CFG[pid]
    try:
        seed = int(os.environ.get("VERIF_SEED", "1"))
    except ValueError:
        seed = 1
    t0 = time.time()
    work = os.path.join(ROOT, "work", pid + ALT_TAG + ("-replay" if replay else ""))
    shutil.rmtree(work, ignore_errors=True)
    os.makedirs(work)
    # rapid replays testdata/rapid first: make sure none exists
    shutil.rmtree(os.path.join(ROOT, "checks", cfg["pkg"], "testdata", "rapid"), ignore_errors=True)

    bins = {}
    skipped_runs = []
    procs = []
    inconclusive = []
    violations = []  # (class, replay, msg)
    fuzz_execs = 0
    ti = 0 if tier == "quick" else 1

    if replay:
        # crash logs are not re-runnable cases
        if replay.endswith(".log"):
            log("replay file is a crash/race log; re-run the check to reproduce")
            return 2
        with open(replay) as f:
            env_case = json.load(f)
        runs = [r for r in cfg["runs"] if "fuzz" not in r]
        done = False
        for r in runs:
            b = build(pid, cfg, r["race"])
            if b is None:
                return 2
            e = dict(ENV, VERIF_TIER=tier, VERIF_SEED=str(seed), VERIF_OUT=os.path.join(work, "replay.json"))
            e.update(r["env"])
            p = subprocess.run([b, "-test.run", r["run"], "-test.timeout", "600s", "-replay", replay], cwd=os.path.join(ROOT, "checks", cfg["pkg"]), env=e,
                               stdout=subprocess.PIPE, stderr=subprocess.STDOUT, text=True)
            sys.stdout.write(p.stdout[-6000:])
            if "WARNING: DATA RACE" in p.stdout or "REPLAY-FAIL" in p.stdout or ("REPLAY-PASS" not in p.stdout and p.returncode not in (0, 2)):
                log("VIOLATION property=%s replay=%s" % (pid, replay))
                return 1
            if "REPLAY-PASS" in p.stdout:
                done = True
                break
        if done:
            log("replayed case passes: property=%s check=%s" % (pid, env_case.get("check")))
            return 0
        log("replay: no run accepted the case")
        return 2

    for r in cfg["runs"]:
        if tier not in r["tiers"]:
            continue
        if "fuzz" in r:
            continue
        key = r["race"] or False
        if key not in bins:
            b = build(pid, cfg, key)
            if b is None:
                return 2
            if key == "386":
                # the 32-bit binary needs a kernel that runs 32-bit programs; where it does not,
                # the run is left out (and the evidence says so) instead of counting as a failure
                # (only the operating system refusing to start it counts; what the program does is
                # the business of the run itself)
                ok386 = True
                try:
                    subprocess.run([b, "-test.list", "^$"], stdout=subprocess.DEVNULL, stderr=subprocess.DEVNULL, timeout=60)
                except OSError:
                    ok386 = False
                except subprocess.TimeoutExpired:
                    pass
                if not ok386:
                    log("note: 32-bit binaries do not run here; run '%s' left out" % r["name"])
                    skipped_runs.append(r["name"])
                    bins[key] = None
                    continue
            bins[key] = b
        if bins[key] is None:
            continue
        shards = r["shards"][ti]
        for s in range(shards):
            out = os.path.join(work, "%s-%d.json" % (r["name"], s))
            lg = os.path.join(work, "%s-%d.log" % (r["name"], s))
            e = dict(ENV, VERIF_TIER=tier, VERIF_SEED=str(seed), VERIF_SHARD=str(s), VERIF_SHARDS=str(shards), VERIF_OUT=out)
            e.update(r["env"])
            cmd = [bins[key], "-test.run", r["run"], "-test.timeout", "%ds" % r["timeout"][ti]]
            f = open(lg, "w")
            p = subprocess.Popen(cmd, cwd=os.path.join(ROOT, "checks", cfg["pkg"]), env=e, stdout=f, stderr=subprocess.STDOUT)
            procs.append((r, s, p, f, out, lg))

    stats = []
    for r, s, p, f, out, lg in procs:
        try:
            rc = p.wait(timeout=r["timeout"][ti] + 120)
        except subprocess.TimeoutExpired:
            p.kill()
            rc = -9
        f.close()
        text = open(lg, errors="replace").read()
        st = None
        if os.path.exists(out):
            try:
                st = json.load(open(out))
                st["_hashes"] = out + ".hashes"
                stats.append(st)
            except Exception:
                st = None
        nviol = len(st.get("violations") or []) if st else 0
        if "WARNING: DATA RACE" in text:
            # a report counts against the library only if one of the two racing accesses is in library code
            lib_race = None
            for rep in text.split("WARNING: DATA RACE")[1:]:
                rep = rep.split("==================")[0]
                acc = re.split(r"\n\s*\n", rep)
                stacks = [a for a in acc if re.match(r"\s*(Read|Write|Previous read|Previous write|Atomic|Previous atomic)", a.lstrip("\n"))]
                tops = []
                for a in stacks:
                    fr = [l.strip() for l in a.splitlines()[1:] if l.startswith("  ") and not l.startswith("      ")]
                    fr = [x for x in fr if not x.startswith(("runtime.", "sync.", "sync/atomic.", "internal/"))]
                    tops.append(fr[0] if fr else "")
                if any("github.com/SAP/go-dblib" in t_ for t_ in tops):
                    lib_race = rep
                    break
            if lib_race is not None:
                path = save_log_replay(pid, "race", "WARNING: DATA RACE" + lib_race[:12000])
                violations.append((pid + "/data-race", path, "race detector report"))
            else:
                inconclusive.append("%s shard %d: data race inside the harness (no library frame on top of either access)" % (r["name"], s))
        if rc != 0:
            if "HARNESS-BUG" in text:
                inconclusive.append("%s shard %d: %s" % (r["name"], s, text[text.find("HARNESS-BUG"):][:400]))
            elif "panic: test timed out" in text or rc == -9:
                inconclusive.append("%s shard %d: timeout" % (r["name"], s))
            elif nviol == 0 and "WARNING: DATA RACE" not in text:
                if "panic:" in text or "fatal error:" in text or "SIGSEGV" in text:
                    m = max(text.find("panic:"), 0) if "panic:" in text else max(text.find("fatal error:"), 0)
                    if "cannot allocate memory" in text or "out of memory" in text:
                        inconclusive.append("%s shard %d: out of memory" % (r["name"], s))
                    else:
                        path = save_log_replay(pid, "crash", text[max(0, m - 2000):m + 12000])
                        violations.append((pid + "/crash", path, "test process crashed: " + text[m:m + 300].replace("\n", " | ")))
                elif st is None:
                    inconclusive.append("%s shard %d: exit %d without stats" % (r["name"], s, rc))
                else:
                    path = save_log_replay(pid, "fail", text[-12000:])
                    violations.append((pid + "/unclassified-failure", path, "test failed outside a recorded violation"))
        if st:
            for v in st.get("violations") or []:
                violations.append((v["class"], v["replay"], v["msg"]))
        else:
            # a process that did not get to write its statistics (it hung in a later test and was
            # stopped, or died): what it had recorded until then is in its output
            for m in re.finditer(r"VIOLATION-RECORD property=\S+ check=\S+ class=(\S+) replay=(\S+)\n  ([^\n]*)", text):
                if os.path.exists(m.group(2)) and not Known_class(pid, m.group(1)):
                    violations.append((m.group(1), m.group(2), m.group(3)))

    # regression tier: saved minimal failing cases of repaired defects, re-run without rapid
    regdir = os.path.join(ROOT, "regress", pid)
    regress_run = 0
    if os.path.isdir(regdir):
        rprocs = []
        for fn in sorted(os.listdir(regdir)):
            if not fn.endswith(".json"):
                continue
            path = os.path.join(regdir, fn)
            for r in cfg["runs"]:
                if "fuzz" in r or not bins.get(r["race"] or False):
                    continue
                e = dict(ENV, VERIF_TIER=tier, VERIF_SEED=str(seed))
                e.pop("VERIF_OUT", None)
                e.update(r["env"])
                p = subprocess.Popen([bins[r["race"] or False], "-test.run", r["run"], "-test.timeout", "300s", "-replay", path],
                                     cwd=os.path.join(ROOT, "checks", cfg["pkg"]), env=e, stdout=subprocess.PIPE, stderr=subprocess.STDOUT, text=True)
                rprocs.append((path, p))
                break
            if len(rprocs) >= 32:
                for path_, p_ in rprocs:
                    out_, _ = p_.communicate()
                    regress_run += 1
                    if "REPLAY-FAIL" in out_:
                        violations.append((pid + "/regression", path_, "saved regression case fails again: " + out_[out_.find("REPLAY-FAIL"):][:400]))
                rprocs = []
        for path_, p_ in rprocs:
            out_, _ = p_.communicate()
            regress_run += 1
            if "REPLAY-FAIL" in out_:
                violations.append((pid + "/regression", path_, "saved regression case fails again: " + out_[out_.find("REPLAY-FAIL"):][:400]))

    # native fuzz campaigns (thorough only)
    for r in cfg["runs"]:
        if "fuzz" not in r or tier not in r["tiers"]:
            continue
        pkgdir = "./checks/" + (r.get("pkg") or cfg["pkg"])
        cmd = ["go", "test", "-tags", "verif", "-vet=off"] + modfile_args() + ["-run", "^$", "-fuzz", "^" + r["fuzz"] + "$", "-fuzztime", "%ds" % r["seconds"], pkgdir]
        e = dict(ENV, VERIF_TIER=tier, VERIF_SEED=str(seed), VERIF_FUZZ="1")
        e.pop("VERIF_OUT", None)
        lg = os.path.join(work, r["name"] + ".log")
        with open(lg, "w") as f:
            try:
                p = subprocess.run(cmd, cwd=ROOT, env=e, stdout=f, stderr=subprocess.STDOUT, timeout=r["seconds"] + 600)
                rc = p.returncode
            except subprocess.TimeoutExpired:
                rc = -9
        text = open(lg, errors="replace").read()
        ex = re.findall(r"execs: (\d+)", text)
        if ex:
            fuzz_execs += int(ex[-1])
        if rc != 0:
            m = re.search(r"Failing input written to (\S+)", text)
            if m:
                src = os.path.join(ROOT, "checks", r.get("pkg") or cfg["pkg"], m.group(1))
                os.makedirs(os.path.join(ROOT, "replays"), exist_ok=True)
                dst = os.path.join(ROOT, "replays", "%s-%s-%s.fuzz" % (pid, r["fuzz"], os.path.basename(m.group(1))[:12]))
                try:
                    shutil.copy(src, dst)
                    os.remove(src)  # do not leave a crasher in testdata: it would fail the next run before any search
                except OSError:
                    dst = save_log_replay(pid, "fuzz", text[-8000:])
                vm = re.search(r"VIOLATION-RECORD property=\S+ check=\S+ class=(\S+) replay=(\S+)", text)
                if vm and Known_class(pid, vm.group(1)):
                    pass
                else:
                    violations.append(((vm.group(1) if vm else pid + "/fuzz"), (vm.group(2) if vm else dst), "native fuzz target %s failed; input %s" % (r["fuzz"], dst)))
            elif rc == -9 or "context deadline exceeded" in text:
                inconclusive.append("fuzz %s: timeout" % r["fuzz"])
            else:
                inconclusive.append("fuzz %s: exit %s without a failing input\n%s" % (r["fuzz"], rc, text[-1500:]))

    # cross-process agreement
    agree = {}
    for st in stats:
        for k, v in (st.get("agree") or {}).items():
            if k in agree and agree[k][0] != v:
                path = save_log_replay(pid, "disagree", json.dumps({"key": k, "a": agree[k][0], "shard_a": agree[k][1], "b": v, "shard_b": st["shard"]}, indent=1))
                violations.append((pid + "/disagreement", path, "%s is %r in one process and %r in another" % (k, agree[k][0], v)))
            agree.setdefault(k, (v, st["shard"]))

    # merge stats
    evals = sum(s["evaluations"] for s in stats) + fuzz_execs
    labels, exhaustive, excluded, known_hits = {}, {}, {}, {}
    for s in stats:
        for d, src in ((labels, "labels"), (exhaustive, "exhaustive"), (excluded, "excluded"), (known_hits, "known_hits")):
            for k, v in (s.get(src) or {}).items():
                d[k] = d.get(k, 0) + v
    hashes = set()
    dropped = 0
    for s in stats:
        dropped += s.get("hash_dropped", 0)
        try:
            a = array.array("Q")
            with open(s["_hashes"], "rb") as f:
                a.frombytes(f.read())
            hashes.update(a)
        except Exception:
            pass
    samples = []
    seen_kinds = {}
    for s in stats:
        for smp in s.get("samples") or []:
            k = smp.get("kind", "")
            if seen_kinds.get(k, 0) >= 2 or len(samples) >= 14:
                continue
            seen_kinds[k] = seen_kinds.get(k, 0) + 1
            samples.append(smp)
    rules = []
    assumptions = []
    notes = []
    for s in stats:
        for n in s.get("notes") or []:
            if n.startswith("RULE: "):
                if n[6:] not in rules:
                    rules.append(n[6:])
            elif n.startswith("ASSUME: "):
                if n[8:] not in assumptions:
                    assumptions.append(n[8:])
            elif n not in notes:
                notes.append(n)
    rule = "; ".join(rules)
    known = load_known(pid)
    open_classes = {o["class"] for o in known}
    real = [(c, p_, m) for (c, p_, m) in violations if c not in open_classes]
    wall = time.time() - t0
    spaces_complete = bool(exhaustive) and not real and not inconclusive
    ev = {
        "property_id": pid,
        "tier": tier,
        "seed": seed,
        "level": cfg["level"],
        "coverage": {
            "evaluations": int(evals),
            "distinct_nontrivial": len(hashes),
            "distinct_nontrivial_note": ("hash set capped; %d further non-trivial cases not tested for distinctness" % dropped) if dropped else "all non-trivial cases hashed",
            "rule": rule or "see DESIGN.md section for " + pid,
            "samples": samples if samples else ["(no sample captured)"],
            "labels": labels,
            "exhaustive_spaces": exhaustive,
            "exhaustive": spaces_complete and cfg.get("exhaustive_only", False),
            "excluded_by_construction": excluded,
            "known_finding_hits": known_hits,
            "processes": len(stats),
            "native_fuzz_execs": fuzz_execs,
            "regression_cases_replayed": regress_run,
            "notes": (notes + ["run(s) left out because 32-bit binaries do not execute on this machine: " + ", ".join(skipped_runs)] if skipped_runs else notes)[:40],
        },
        "assumptions": assumptions,
        "wall_s": round(wall, 2),
        "violations": len(real),
    }
    if inconclusive:
        ev["coverage"]["inconclusive"] = inconclusive
    evdir = os.path.join(ROOT, "evidence") if not ALT_REPO else os.path.join(work, "evidence")
    os.makedirs(evdir, exist_ok=True)
    with open(os.path.join(evdir, pid + ".json"), "w") as f:
        json.dump(ev, f, indent=1, sort_keys=True)
        f.write("\n")

    for o in known:
        log("KNOWN-FINDING: property=%s %s [%s] (hits this run: %d)" % (pid, o.get("what", ""), o["class"], known_hits.get(o["class"], 0)))
    log("property=%s tier=%s seed=%d evaluations=%d distinct_nontrivial=%d processes=%d wall=%.1fs" % (pid, tier, seed, evals, len(hashes), len(stats), wall))
    if real:
        seen = set()
        for c, path, msg in real:
            if path in seen or c in seen or len(seen) >= 12:
                continue
            seen.add(path)
            seen.add(c)
            log("VIOLATION property=%s replay=%s" % (pid, path))
            log("  class=%s %s" % (c, msg[:600]))
        return 1
    if inconclusive:
        for x in inconclusive:
            log("INCONCLUSIVE property=%s %s" % (pid, x))
        return 2
    if not keep:
        shutil.rmtree(work, ignore_errors=True)
    return 0


def Known_class(pid, cls):
    return any(o["class"] == cls for o in load_known(pid))


if __name__ == "__main__":
    try:
        rc = main()
    except Exception:  # a driver bug is never a violation
        import traceback
        traceback.print_exc()
        print("INCONCLUSIVE driver error", flush=True)
        rc = 2
    sys.exit(rc)
