// C09 — passwords never cross the wire in clear when encryption is negotiated.
package c09

import (
	"bytes"
	"fmt"
	"strconv"
	"strings"
	"sync"
	"testing"
	"time"

	"pgregory.net/rapid"
	"verif/internal/loginpeer"
	rc "verif/internal/refcodec"
	"verif/internal/vh"

	"github.com/SAP/go-dblib/tds"
)

func TestMain(m *testing.M) {
	vh.Rule("rapid: default (ENCRYPT4) login configurations against the scripted peer: passwords of arbitrary bytes, length 0..key capacity (incl. passwords equal to / substrings of user, host, app name, '512', the program name), 0..3 remote servers with own passwords, nonces 1..64 bytes, RSA 1024/1536/2048/3072 (4096 in the thorough tier), remote servers configured from one shared slice in half the cases, packet sizes announced by the server 256..4096. Oracles: (1) the login record's password slot (offset 62, 30+1 bytes) is all zero; (2) non-interference: a second login identical except for same-length passwords produces byte-identical traffic outside the LONGBINARY ciphertexts located by the independent decoder; (3) a password >= 6 bytes that is not a substring of another configured field occurs in no written byte and in no error text of failing logins; (4) the peer decrypts (RSA-OAEP/SHA-1, empty label) every ciphertext to nonce||secret: account password (LOGPWD3 and first REMPWD3 entry), each remote password, a 32-byte session key; (5) freshness: no two ciphertexts of a login are equal (the account password is sent twice, remote passwords may equal the account's or each other's), session keys of the two logins differ; the same for 2..8 logins running concurrently; (6) control: in the plain flow the password IS in the slot. Non-trivial: password length >= 1; distinct by (password, config)")
	vh.Assume("crypto randomness is not reproducible by seed: the case stores key and nonce, the oracles do not depend on particular random bytes; capability masks are compared semantically (the library writes the mask types in map order)")
	vh.Rule("also: failing logins cover the refusals of the first reply one by one (unknown cipher suite, 2 / 4 / no parameters, parameters of the wrong type, LOGINACK(FAIL) at once, garbled key, wrong message id) and of the second (login failed, all-zero capabilities); oracle (3) applies to each error text")
	vh.Rule("also: 20..1030 logins (10010 in the thorough tier) in one process, each on its own connection: no session key and no ciphertext is ever sent twice")
	vh.Rule("also: Info.TLSEnable set (a quarter of the cases); nonces of capacity-31..capacity bytes (room for short secrets, not for the 32-byte session key): the login has to fail and nothing sent may decrypt to anything but nonce||secret")
	vh.Rule("also: histories over one connection with ONE LoginConfig object reused (members reassigned), earlier logins in the plain flow; the password slot of every encrypted login's record is empty")
	vh.Main(m, "C09")
}

type c09Case struct {
	User      string        `json:"user"`
	Host      string        `json:"host"`
	App       string        `json:"app"`
	Password  []byte        `json:"password"`
	Password2 []byte        `json:"password2"` // same length, for the non-interference run
	Remotes   []remote      `json:"remotes"`
	Key       loginpeer.Key `json:"key"`
	Nonce     []byte        `json:"nonce"`
	PackSize  int           `json:"pack_size"`
	Reject    string        `json:"reject"` // "": valid script; otherwise which failing script to use
	Plain     bool          `json:"plain"`  // control
	// LongName: one remote server name is longer than 255 bytes
	LongName bool `json:"remote_server_name_over_255_bytes,omitempty"`
	// TLS: the connection is described as a TLS connection (Info.TLSEnable); password
	// encryption is negotiated all the same unless the login configuration says otherwise
	TLS bool `json:"tls_enable,omitempty"`
}

type remote struct {
	Name     string `json:"name"`
	Password []byte `json:"password"`
}

func script(c c09Case) loginpeer.Script {
	ack := func(st uint8) rc.P {
		return rc.P{LoginAck: &rc.LoginAck{Status: st, Version: [4]byte{5, 0, 0, 0}, Name: "ASE", ProgVer: [4]byte{16, 0, 0, 0}}}
	}
	done := rc.P{Done: &rc.Done{Tok: rc.TokDone}}
	var s loginpeer.Script
	if c.Plain {
		s.R1 = []rc.P{ack(rc.LogSucceed), done}
		return s
	}
	f := rc.Fmt{Tok: rc.TokParamFmt, Cols: []rc.Col{{Name: "c", T: rc.TInt4}, {Name: "k", T: rc.TLongBinary, MaxLen: 2147483647}, {Name: "n", T: rc.TLongBinary, MaxLen: 2147483647}}}
	key := []byte(c.Key.PubPEM)
	if c.Reject == "garbled-key" {
		key = append([]byte{}, key...)
		for j := 40; j < 60; j++ {
			key[j] = '!'
		}
	}
	row := rc.Row{Tok: rc.TokParams, Cells: []rc.Cell{{V: rc.V{T: rc.TInt4, I: 1}}, {V: rc.V{T: rc.TLongBinary, B: key}}, {V: rc.V{T: rc.TLongBinary, B: c.Nonce}}}}
	if c.PackSize != 0 {
		s.R1 = append(s.R1, rc.P{Env: &rc.EnvChange{Members: []rc.EnvMember{{Type: rc.EnvPackSize, New: strconv.Itoa(c.PackSize), Old: "512"}}}})
	}
	msgid := uint16(rc.MsgSecEncrypt4)
	if c.Reject == "wrong-msgid" {
		msgid = 30
	}
	// further refusals, each met by a different error return of Login before the second message
	switch c.Reject {
	case "unknown-suite":
		row.Cells[0].V.I = []int64{0, 2, 3, 7, 255, -1}[len(c.Nonce)%6]
	case "two-params":
		f.Cols, row.Cells = f.Cols[:2], row.Cells[:2]
	case "four-params":
		f.Cols = append(f.Cols, rc.Col{Name: "x", T: rc.TInt4})
		row.Cells = append(row.Cells, rc.Cell{V: rc.V{T: rc.TInt4, I: 7}})
	case "suite-not-int":
		f.Cols[0] = rc.Col{Name: "c", T: rc.TLongBinary, MaxLen: 2147483647}
		row.Cells[0] = rc.Cell{V: rc.V{T: rc.TLongBinary, B: []byte{1, 0, 0, 0}}}
	case "key-not-binary":
		f.Cols[1] = rc.Col{Name: "k", T: rc.TInt4}
		row.Cells[1] = rc.Cell{V: rc.V{T: rc.TInt4, I: 1}}
	case "nonce-not-binary":
		f.Cols[2] = rc.Col{Name: "n", T: rc.TInt4}
		row.Cells[2] = rc.Cell{V: rc.V{T: rc.TInt4, I: 1}}
	}
	first := ack(rc.LogNegotiate)
	if c.Reject == "refused-at-once" {
		first = ack(rc.LogFail)
	}
	s.R1 = append(s.R1, first, rc.P{Msg: &rc.Msg{Status: 1, ID: msgid}}, rc.P{Fmt: &f}, rc.P{Row: &row}, done)
	if c.Reject == "no-params" {
		s.R1 = append(s.R1[:len(s.R1)-2], done)
	}
	req := rc.CapMask{Type: 1, Mask: make([]byte, 14)}
	res := rc.CapMask{Type: 2, Mask: make([]byte, 8)}
	if c.Reject != "zero-caps" {
		req.Set(1)
		req.Set(50)
		res.Set(3)
	}
	st := uint8(rc.LogSucceed)
	if c.Reject == "login-failed" {
		st = rc.LogFail
		s.R2 = append(s.R2, rc.P{EED: &rc.EED{MsgNumber: 4002, Class: 14, Msg: "Login failed.", Server: "ASE"}})
	}
	s.R2 = append(s.R2, ack(st), rc.P{Cap: &rc.Capability{Masks: []rc.CapMask{req, res}}}, done)
	return s
}

// earlyReject: refusals that end the login before the client sends its second message
var earlyReject = map[string]bool{"garbled-key": true, "wrong-msgid": true, "unknown-suite": true, "two-params": true, "four-params": true,
	"suite-not-int": true, "key-not-binary": true, "nonce-not-binary": true, "refused-at-once": true, "no-params": true}

func cfg(c c09Case, pw []byte) loginpeer.Config {
	l := loginpeer.Config{User: c.User, Password: string(pw), Host: c.Host, App: c.App, Server: "srv", Plain: c.Plain, TLS: c.TLS}
	for _, r := range c.Remotes {
		l.Remotes = append(l.Remotes, [2]string{r.Name, string(r.Password)})
	}
	return l
}

// phase2 is the decoded second client message with the ciphertexts taken out.
type phase2 struct {
	shape   string   // everything but the ciphertext bytes
	ciphers [][]byte // in order of appearance
	names   []string // remote server names as sent
}

func decodePhase2(msg []rc.Packet) (phase2, error) {
	var out phase2
	ps, err := rc.DecodeStream(loginpeer.Body(msg))
	if err != nil {
		return out, err
	}
	for _, p := range ps {
		switch {
		case p.Msg != nil:
			out.shape += fmt.Sprintf("MSG(%d,%d);", p.Msg.Status, p.Msg.ID)
		case p.Fmt != nil:
			out.shape += fmt.Sprintf("FMT(%#x", p.Fmt.Tok)
			for _, c := range p.Fmt.Cols {
				out.shape += fmt.Sprintf("[%q,%d,%d,%#x,%d,%q]", c.Name, c.Status, c.User, c.T, c.MaxLen, c.Locale)
			}
			out.shape += ");"
		case p.Row != nil:
			out.shape += "ROW("
			for _, c := range p.Row.Cells {
				if c.T == rc.TLongBinary {
					out.shape += fmt.Sprintf("lb[%d]", len(c.B))
					out.ciphers = append(out.ciphers, c.B)
				} else {
					out.shape += fmt.Sprintf("%#x:%q/%v", c.T, c.S+string(c.B), c.Null)
					out.names = append(out.names, c.S+string(c.B))
				}
			}
			out.shape += ");"
		default:
			out.shape += fmt.Sprintf("OTHER(%#x);", p.Token())
		}
	}
	return out, nil
}

func packetShape(ps []rc.Packet) string {
	s := ""
	for _, p := range ps {
		s += fmt.Sprintf("[%d,%d,%d,%d]", p.Type, p.Status, p.Channel, p.Len)
	}
	return s
}

func distinctive(pw []byte, c c09Case) bool {
	if len(pw) < 6 {
		return false
	}
	others := []string{c.User, c.Host, c.App, "srv", "512", "go-ase/tds", "us_english", "utf8", "github.com/SAP/go-dblib/tds"}
	for _, r := range c.Remotes {
		others = append(others, r.Name)
	}
	for _, o := range others {
		if strings.Contains(o, string(pw)) {
			return false
		}
	}
	// zero padding and the (numeric) process id must not count as an occurrence: the
	// secret needs four distinct byte values, no NUL and a non-digit
	seen := map[byte]bool{}
	nondigit := false
	for _, b := range pw {
		if b == 0 {
			return false
		}
		seen[b] = true
		if b < '0' || b > '9' {
			nondigit = true
		}
	}
	return nondigit && len(seen) >= 4
}

func runCase(c c09Case) *vh.Failure {
	s := script(c)
	// the application keeps its remote servers in one slice (with room to grow) and configures
	// every login from it: both logins of this case get the very same slice
	var shared []tds.LoginConfigRemoteServer
	if len(c.Remotes) > 0 && len(c.Password)%2 == 0 {
		shared = make([]tds.LoginConfigRemoteServer, 0, len(c.Remotes)+2)
		for _, r := range c.Remotes {
			shared = append(shared, tds.LoginConfigRemoteServer{Name: r.Name, Password: string(r.Password)})
		}
		vh.Label("remote-servers-from-one-shared-slice")
	}
	cfg := func(c c09Case, pw []byte) loginpeer.Config {
		l := cfg(c, pw)
		l.RemoteList = shared
		return l
	}
	res := loginpeer.Run(cfg(c, c.Password), s, 2*time.Second)
	if c.Reject == "" && loginpeer.Patient(res) {
		// a valid login that failed by the deadline alone: the machine is busy - once more, patiently
		res = loginpeer.Run(cfg(c, c.Password), s, 20*time.Second)
	}
	where := fmt.Sprintf("user %q password %d bytes, %d remotes, key %d bits, nonce %d bytes, packet size %d, reject=%q plain=%v", c.User, len(c.Password), len(c.Remotes), c.Key.Bits, len(c.Nonce), c.PackSize, c.Reject, c.Plain)
	if res.Panic != nil {
		return vh.Failf("C09/login-panics", "%s: %v", where, res.Panic)
	}
	if res.TimedOut {
		return vh.Failf("C09/login-hangs", "%s: Login did not return", where)
	}
	if c.LongName {
		// a remote server name beyond what its one-byte length prefix can carry: whatever the
		// library makes of it (refuse it up front, send it mangled), the secrets stay secret;
		// nothing else is judged
		all := [][]byte{c.Password}
		for _, r := range c.Remotes {
			all = append(all, r.Password)
		}
		for i, pw := range all {
			if !distinctive(pw, c) {
				continue
			}
			if j := bytes.Index(res.Written, pw); j >= 0 {
				return vh.Failf("C09/password-in-clear-on-wire", "%s, a remote server name of over 255 bytes: secret %d occurs in clear at offset %d of the written bytes", where, i, j)
			}
			if res.Err != nil && strings.Contains(res.Err.Error(), string(pw)) {
				return vh.Failf("C09/password-in-error-text", "%s, a remote server name of over 255 bytes: secret %d occurs in the error text %q", where, i, res.Err.Error())
			}
			vh.Label("searched-for-secret")
		}
		vh.Label("remote-server-name-over-255-bytes")
		return nil
	}
	if len(res.Msg1) == 0 {
		return vh.Failf("C09/no-login-record", "%s: the client sent no login message (err %v)", where, res.Err)
	}
	body1 := loginpeer.Body(res.Msg1)
	lr, err := rc.DecodeLoginRecord(body1)
	if err != nil {
		return vh.Failf("C09/login-record-layout", "%s: %v", where, err)
	}
	if c.Plain {
		// control: the search oracle must be able to see a password
		if lr.Password != string(c.Password) {
			return vh.Failf("C09/control-failed", "%s: plain flow does not carry the password in its slot (%q) - the oracle would be vacuous", where, lr.Password)
		}
		if len(c.Password) >= 6 && !bytes.Contains(res.Written, c.Password) {
			return vh.Failf("C09/control-failed", "%s: plain-flow password not found in the written bytes", where)
		}
		vh.Label("control:plain-password-visible")
		return nil
	}
	// (1) password slot empty
	for i, b := range lr.PasswordSlot {
		if b != 0 {
			return vh.Failf("C09/password-slot-not-empty", "%s: byte %d of the login record's password slot is %#x", where, i, b)
		}
	}
	capacity := c.Key.Capacity() - len(c.Nonce)
	// (the 32-byte session key has to fit behind the nonce as well)
	fits := len(c.Password) <= capacity && capacity >= 32
	if capacity < 32 {
		vh.Label("nonce-leaves-no-room-for-the-session-key")
	}
	for _, r := range c.Remotes {
		if len(r.Password) > capacity {
			fits = false
		}
	}
	// (3) no clear-text occurrence in bytes or error text
	secrets := [][]byte{c.Password}
	for _, r := range c.Remotes {
		secrets = append(secrets, r.Password)
	}
	for i, pw := range secrets {
		if !distinctive(pw, c) {
			continue
		}
		if j := bytes.Index(res.Written, pw); j >= 0 {
			return vh.Failf("C09/password-in-clear-on-wire", "%s: secret %d (%d bytes) occurs in clear at offset %d of the written bytes", where, i, len(pw), j)
		}
		if res.Err != nil && strings.Contains(res.Err.Error(), string(pw)) {
			return vh.Failf("C09/password-in-error-text", "%s: secret %d occurs in the error text %q", where, i, res.Err.Error())
		}
		vh.Label("searched-for-secret")
	}
	if c.Reject != "" || !fits {
		if res.Err == nil {
			return vh.Failf("C09/unexpected-success", "%s: login succeeded although it cannot (reject script / password over key capacity)", where)
		}
		vh.Label("failing-login:" + map[bool]string{true: c.Reject, false: "over-capacity"}[c.Reject != ""])
		if c.TLS {
			vh.Label("tls-enabled-in-the-connection-description")
		}
		if earlyReject[c.Reject] || !fits {
			return nil // the client never sent the second message
		}
	} else if res.Err != nil {
		return vh.Failf("C09/valid-login-failed", "%s: %v", where, res.Err)
	}
	if !res.GotMsg2 {
		return vh.Failf("C09/no-second-message", "%s: the client never sent the encrypted credentials (err %v)", where, res.Err)
	}
	p2, err := decodePhase2(res.Msg2)
	if err != nil {
		return vh.Failf("C09/second-message-layout", "%s: independent decoder rejects the second client message: %v", where, err)
	}
	// (4) decryption
	wantCiphers := 1 + (1 + len(c.Remotes)) + 1
	if len(p2.ciphers) != wantCiphers {
		return vh.Failf("C09/second-message-layout", "%s: %d LONGBINARY values, expected %d (password, %d remote entries, session key); shape %s", where, len(p2.ciphers), wantCiphers, 1+len(c.Remotes), p2.shape)
	}
	plain := make([][]byte, len(p2.ciphers))
	for i, ct := range p2.ciphers {
		pt, err := c.Key.Decrypt(ct)
		if err != nil {
			return vh.Failf("C09/not-oaep-under-server-key", "%s: LONGBINARY value %d (%d bytes) does not decrypt with RSA-OAEP/SHA-1 under the server key: %v", where, i, len(ct), err)
		}
		if !bytes.HasPrefix(pt, c.Nonce) {
			return vh.Failf("C09/nonce-missing", "%s: plaintext %d does not start with the server nonce", where, i)
		}
		plain[i] = pt[len(c.Nonce):]
	}
	if !bytes.Equal(plain[0], c.Password) {
		return vh.Failf("C09/wrong-secret-encrypted", "%s: LOGPWD3 decrypts to nonce||%q, not the password", where, plain[0])
	}
	if !bytes.Equal(plain[1], c.Password) {
		return vh.Failf("C09/wrong-secret-encrypted", "%s: first REMPWD3 entry decrypts to nonce||%q, not the account password", where, plain[1])
	}
	for i, r := range c.Remotes {
		if !bytes.Equal(plain[2+i], r.Password) {
			return vh.Failf("C09/wrong-secret-encrypted", "%s: remote entry %d decrypts to nonce||%q, not the remote password", where, i, plain[2+i])
		}
	}
	wantNames := []string{""}
	for _, r := range c.Remotes {
		wantNames = append(wantNames, r.Name)
	}
	if fmt.Sprint(p2.names) != fmt.Sprint(wantNames) {
		return vh.Failf("C09/remote-names", "%s: remote server names on the wire %q, configured %q", where, p2.names, wantNames)
	}
	symkey := plain[len(plain)-1]
	if len(symkey) != 32 {
		return vh.Failf("C09/session-key", "%s: session key is %d bytes, want 32", where, len(symkey))
	}
	constant := true
	for _, b := range symkey {
		if b != symkey[0] {
			constant = false
		}
	}
	if constant {
		return vh.Failf("C09/session-key", "%s: session key is 32 times the byte %#x", where, symkey[0])
	}
	// (5) freshness: every ciphertext is made with its own randomness - no two are equal,
	// also where the secrets are (the account password is sent twice, remote servers may share
	// a password with the account or with each other)
	for i := range p2.ciphers {
		for j := i + 1; j < len(p2.ciphers); j++ {
			if bytes.Equal(p2.ciphers[i], p2.ciphers[j]) {
				return vh.Failf("C09/no-fresh-randomness", "%s: ciphertexts %d and %d of the second client message are identical (equal secrets must still be encrypted with fresh randomness)", where, i, j)
			}
		}
	}
	// (2) non-interference
	res2 := loginpeer.Run(cfg(c, c.Password2), s, 2*time.Second)
	if loginpeer.Patient(res2) {
		res2 = loginpeer.Run(cfg(c, c.Password2), s, 20*time.Second)
	}
	if res2.Panic != nil || res2.TimedOut || !res2.GotMsg2 {
		return vh.Failf("C09/non-interference", "%s: second login (other password of the same length) behaves differently: panic=%v timedout=%v msg2=%v err=%v", where, res2.Panic, res2.TimedOut, res2.GotMsg2, res2.Err)
	}
	b1, b2 := loginpeer.Body(res.Msg1), loginpeer.Body(res2.Msg1)
	if !bytes.Equal(b1[:rc.LoginRecordSize], b2[:rc.LoginRecordSize]) {
		return vh.Failf("C09/non-interference", "%s: the login record depends on the password", where)
	}
	c1, e1 := rc.DecodeStream(b1[rc.LoginRecordSize:])
	c2, e2 := rc.DecodeStream(b2[rc.LoginRecordSize:])
	if e1 != nil || e2 != nil || len(c1) != 1 || len(c2) != 1 || c1[0].Cap == nil || c2[0].Cap == nil {
		return vh.Failf("C09/non-interference", "%s: first message is not login record + capability package (%v %v)", where, e1, e2)
	}
	if capKey(c1[0].Cap) != capKey(c2[0].Cap) {
		return vh.Failf("C09/non-interference", "%s: capability package depends on the password", where)
	}
	q2, err := decodePhase2(res2.Msg2)
	if err != nil || q2.shape != p2.shape {
		return vh.Failf("C09/non-interference", "%s: the second message depends on the password outside the ciphertexts:\n %s\n %s (%v)", where, p2.shape, q2.shape, err)
	}
	if packetShape(res.Msg2) != packetShape(res2.Msg2) || packetShape(res.Msg1) != packetShape(res2.Msg1) {
		return vh.Failf("C09/non-interference", "%s: packetisation depends on the password: %s vs %s", where, packetShape(res.Msg2), packetShape(res2.Msg2))
	}
	pt2, err := c.Key.Decrypt(q2.ciphers[len(q2.ciphers)-1])
	if err == nil && bytes.Equal(pt2[len(c.Nonce):], symkey) {
		return vh.Failf("C09/session-key", "%s: two logins use the same session key", where)
	}
	if want := map[bool]int{true: c.PackSize, false: 512}[c.PackSize != 0]; len(res.Msg2) > 0 && int(res.Msg2[0].Len) > want {
		return vh.Failf("C09/packet-size", "%s: second message packet of %d bytes, packet size %d", where, res.Msg2[0].Len, want)
	}
	vh.Label(fmt.Sprintf("remotes=%d", len(c.Remotes)), fmt.Sprintf("bits=%d", c.Key.Bits))
	if len(c.Password) >= capacity-2 {
		vh.Label("password-at-capacity")
	}
	if len(c.Password) >= 1 {
		vh.NonTrivial(fmt.Sprintf("%x|%s|%s|%s|%v|%d|%x", c.Password, c.User, c.Host, c.App, c.Remotes, c.Key.Bits, c.Nonce))
	}
	return nil
}

func capKey(c *rc.Capability) string {
	m := map[uint8]string{}
	for _, x := range c.Masks {
		m[x.Type] = fmt.Sprintf("%x", x.Mask)
	}
	return fmt.Sprint(m[1], "|", m[2], "|", m[3], "|", len(m))
}

func genSecret(rt *rapid.T, label string, maxLen int, c *c09Case) []byte {
	if maxLen <= 0 {
		return []byte{}
	}
	switch rapid.IntRange(0, 7).Draw(rt, label+"-class") {
	case 0: // collides with another login field
		s := rapid.SampledFrom([]string{c.User, c.Host, c.App, "512", "go-ase/tds", "srv", "utf8"}).Draw(rt, label+"-collide")
		if len(s) > maxLen {
			s = s[:maxLen]
		}
		return []byte(s)
	case 1:
		return rapid.SliceOfN(rapid.Byte(), maxLen, maxLen).Draw(rt, label+"-max")
	case 2:
		return []byte{}
	case 3:
		return rapid.SliceOfN(rapid.Byte(), 0, minI(maxLen, 40)).Draw(rt, label+"-bytes")
	}
	n := rapid.IntRange(1, minI(maxLen, 30)+0).Draw(rt, label+"-len")
	if n > maxLen {
		n = maxLen
	}
	return []byte(rapid.StringMatching(`[a-zA-Z0-9!#$%&*+,./:;<=>?@^_~ -]{30}`).Draw(rt, label))[:n]
}

func minI(a, b int) int {
	if a < b {
		return a
	}
	return b
}

func genCase(rt *rapid.T) c09Case {
	c := c09Case{
		User: rapid.StringMatching(`[a-z_]{1,12}`).Draw(rt, "user"),
		Host: rapid.StringMatching(`[a-z0-9.-]{1,20}`).Draw(rt, "host"),
		App:  rapid.StringMatching(`[a-zA-Z /.]{1,24}`).Draw(rt, "app"),
	}
	bits := rapid.SampledFrom([]int{1024, 1024, 1024, 1024, 1536, 1536, 2048, 2048, 3072}).Draw(rt, "bits")
	if vh.Thorough() && bits == 3072 && rapid.Bool().Draw(rt, "4096") {
		bits = 4096
	}
	c.Key = loginpeer.PoolKey(bits, rapid.IntRange(0, 1).Draw(rt, "keyidx"))
	if rapid.IntRange(0, 4).Draw(rt, "nonceclass") == 0 {
		// nonce + 32-byte session key fill the OAEP capacity exactly (or nearly)
		n := c.Key.Capacity() - 32 - rapid.IntRange(0, 1).Draw(rt, "below")
		c.Nonce = rapid.SliceOfN(rapid.Byte(), n, n).Draw(rt, "nonce-at-capacity")
	} else {
		// the 32-byte session key has to fit behind the nonce (a longer nonce makes every login
		// fail, which is C08's subject)
		c.Nonce = rapid.SliceOfN(rapid.Byte(), 1, minI(64, c.Key.Capacity()-32)).Draw(rt, "nonce")
	}
	if rapid.IntRange(0, 14).Draw(rt, "nonce-too-long-for-session-key") == 0 {
		// a nonce that leaves room for short secrets but not for the 32-byte session key: such a
		// login cannot be completed as the property describes it and has to fail
		n := c.Key.Capacity() - rapid.IntRange(0, 31).Draw(rt, "room")
		c.Nonce = rapid.SliceOfN(rapid.Byte(), n, n).Draw(rt, "long-nonce")
	}
	c.TLS = rapid.IntRange(0, 3).Draw(rt, "tls") == 0
	capacity := c.Key.Capacity() - len(c.Nonce)
	over := rapid.IntRange(0, 19).Draw(rt, "overcapacity") == 0 && capacity >= 32
	c.Password = genSecret(rt, "password", capacity, &c)
	if over {
		c.Password = rapid.SliceOfN(rapid.Byte(), capacity+1, capacity+20).Draw(rt, "overpw")
	}
	c.Password2 = make([]byte, len(c.Password))
	for i := range c.Password2 {
		c.Password2[i] = c.Password[i] ^ 0x15
	}
	n := rapid.IntRange(0, 3).Draw(rt, "remotes")
	for i := 0; i < n; i++ {
		r := remote{Name: rapid.StringMatching(`[A-Z0-9_]{0,20}`).Draw(rt, "remname"), Password: genSecret(rt, "rempw", minI(capacity, 60), &c)}
		switch rapid.IntRange(0, 5).Draw(rt, "rempwsame") {
		case 0: // same password as the account
			r.Password = append([]byte{}, c.Password...)
		case 1: // same password as the previous remote server
			if i > 0 {
				r.Password = append([]byte{}, c.Remotes[i-1].Password...)
			}
		}
		c.Remotes = append(c.Remotes, r)
	}
	if len(c.Remotes) > 0 && rapid.IntRange(0, 9).Draw(rt, "longname") == 0 {
		i := rapid.IntRange(0, len(c.Remotes)-1).Draw(rt, "whichlong")
		c.Remotes[i].Name = strings.Repeat("R", rapid.SampledFrom([]int{256, 257, 300, 511, 512, 1000}).Draw(rt, "longlen"))
		c.LongName = true
	}
	if rapid.Bool().Draw(rt, "packsize") {
		c.PackSize = rapid.SampledFrom([]int{256, 512, 1024, 2048, 4096}).Draw(rt, "ps")
	}
	if rapid.IntRange(0, 4).Draw(rt, "reject?") == 0 {
		c.Reject = rapid.SampledFrom([]string{"login-failed", "zero-caps", "garbled-key", "wrong-msgid", "unknown-suite", "two-params", "four-params", "suite-not-int", "key-not-binary", "nonce-not-binary", "refused-at-once", "no-params"}).Draw(rt, "reject")
	}
	return c
}

// shortNames undoes the over-long remote server name and the over-long nonce of a generated
// case (for the tests that need logins that succeed).
func shortNames(c *c09Case) {
	if c.Key.Capacity()-len(c.Nonce) < 32 {
		c.Nonce = c.Nonce[:c.Key.Capacity()-32]
	}
	for i := range c.Remotes {
		if len(c.Remotes[i].Name) > 255 {
			c.Remotes[i].Name = c.Remotes[i].Name[:20]
		}
	}
	c.LongName = false
}

func TestPasswordSecrecy(t *testing.T) {
	gen := func(rt *rapid.T) c09Case {
		c := genCase(rt)
		if len(c.Password) < 12 && len(c.Remotes) <= 1 {
			s := c
			s.Key.PrivPEM = "(omitted in sample)"
			vh.Sample("login", s)
		}
		return c
	}
	vh.Check(t, "TestPasswordSecrecy", vh.N(450, 8000), gen, runCase)
}

func TestPlainFlowControl(t *testing.T) {
	gen := func(rt *rapid.T) c09Case {
		c := genCase(rt)
		c.Plain, c.Reject, c.Remotes, c.LongName = true, "", nil, false
		if len(c.Password) > 30 {
			c.Password = c.Password[:30]
		}
		// the fixed-width slot cannot carry NUL padding ambiguity: no trailing NULs
		c.Password = bytes.TrimRight(c.Password, "\x00")
		return c
	}
	vh.Check(t, "TestPlainFlowControl", vh.N(60, 1000), gen, runCase)
}

// several connections logging in at the same time (a connection pool filling up): every
// login must still satisfy all oracles
func TestConcurrentLogins(t *testing.T) {
	gen := func(rt *rapid.T) []c09Case {
		n := rapid.IntRange(2, 8).Draw(rt, "logins")
		var cs []c09Case
		for i := 0; i < n; i++ {
			c := genCase(rt)
			c.Reject = ""
			shortNames(&c)
			if len(c.Password) > c.Key.Capacity()-len(c.Nonce) {
				c.Password = c.Password[:c.Key.Capacity()-len(c.Nonce)]
				c.Password2 = c.Password2[:len(c.Password)]
			}
			cs = append(cs, c)
		}
		return cs
	}
	run := func(cs []c09Case) *vh.Failure {
		res := make([]*vh.Failure, len(cs))
		var wg sync.WaitGroup
		for round := 0; round < 4; round++ {
			for i := range cs {
				wg.Add(1)
				go func(i int) {
					defer wg.Done()
					if f := runCase(cs[i]); f != nil {
						res[i] = f
					}
				}(i)
			}
			wg.Wait()
		}
		for _, f := range res {
			if f != nil {
				f.Msg = fmt.Sprintf("(%d logins running concurrently) %s", len(cs), f.Msg)
				return f
			}
		}
		vh.Label("concurrent-logins")
		return nil
	}
	vh.Check(t, "TestConcurrentLogins", vh.N(25, 500), gen, run)
}
