// C12 — logical channels are isolated and correctly routed under concurrency.
package c12

import (
	"context"
	"errors"
	"fmt"
	"io"
	"net"
	"runtime"
	"sort"
	"strings"
	"sync"
	"testing"
	"time"

	"github.com/SAP/go-dblib/dsn"
	"github.com/SAP/go-dblib/tds"
	"pgregory.net/rapid"
	"verif/internal/peer"
	"verif/internal/pkggen"
	rc "verif/internal/refcodec"
	"verif/internal/respgen"
	"verif/internal/vh"
)

func TestMain(m *testing.M) {
	vh.Rule("rapid histories on one Conn with 1..16 channels against a scripted peer (race-detector build): channels 1..n are created concurrently by 1..n creator goroutines (the peer acknowledges SETUP with PROTACK on the same id), every channel has its own goroutine that runs 1..3 request/response rounds (request of 1..3 packets, response from the grammar, read up to the final DONE), the peer waits for the requests of a round and then interleaves the responses of all channels packet by packet in a generated order, packets for never-created ids are injected between rounds, finally logical channels are closed concurrently and the connection is closed; GOMAXPROCS in {1,2,4,16}; a slice of the cases runs through the real NewConn over loopback TCP. Oracle: all ids distinct, NewChannel succeeds, per channel the delivered packages = that channel's script in order (and nothing of another script), the peer sees the right id and consecutive packet numbers (mod 256) on every packet of a logical channel and the channel's own request text in it, every junk packet yields one connection error and changes no stream, no race-detector report. Non-trivial: >= 2 channels whose responses were interleaved and >= 1 concurrent creation or close; distinct by the history")
	vh.Assume("one sender/consumer goroutine per channel (concurrent use of one channel is outside what the API supports); schedules are sampled, not enumerated; junk packets are injected while no consumer waits, so the connection error cannot be picked up by a consumer's select; no PACKSIZE change while several channels are active")
	vh.Rule("also: the server acknowledges a teardown (header-only CLOSE) while the channel is still registered - channels created afterwards still work; 40..520 logical channels (33000 in the thorough tier) created and closed over the life of one connection with 1..16 open at once: every NewChannel succeeds, every id is new, every response is routed to its channel")
	vh.Rule("also: a channel that received more unparsable responses than its error queue holds, errors never fetched: Close of it returns and the other channels receive their packages")
	vh.Rule("also: stray packets (for channels nobody has) with and without EOM and with other status bits, followed by the response of an existing channel: the response is delivered, every stray packet is reported")
	vh.Main(m, "C12")
}

type resp struct {
	Pkgs []rc.P `json:"pkgs"`
	Cuts []int  `json:"cuts"`
}

type c12Case struct {
	Channels int      `json:"channels"` // total, including channel 0
	Creators int      `json:"creators"`
	Rounds   int      `json:"rounds"`
	Resp     [][]resp `json:"resp"`    // [channel index][round]
	ReqPad   []int    `json:"req_pad"` // request padding per channel (bytes)
	Order    []int    `json:"order"`
	Procs    int      `json:"gomaxprocs"`
	Junk     []int    `json:"junk_ids"`
	TCP      bool     `json:"tcp"`
	// ReadTimeout is Info.PacketReadTimeout in seconds (0 is what an Info built by hand carries)
	ReadTimeout int `json:"packet_read_timeout_s"`
}

// server is the peer's view: it parses what the client wrote and feeds responses.
type server struct {
	mu          sync.Mutex
	pipe        *peer.Pipe
	c           c12Case
	idToIdx     map[int]int // channel id -> channel index (registered by the harness after NewChannel)
	nextNr      map[int]int
	problems    []string
	pending     map[int][]rc.Packet // channel id -> response packets still to feed
	reqSeen     map[int]int         // channel id -> requests seen
	msg         map[int][]byte      // channel id -> body of the message being assembled
	closed      map[int]bool
	ord         int
	interleaved bool
	stop        chan struct{}
	batchStart  time.Time
}

func (s *server) problem(format string, a ...any) {
	s.problems = append(s.problems, fmt.Sprintf(format, a...))
}

func (s *server) feedPacket(p rc.Packet) { s.pipe.Feed(p.Bytes()) }

// loop consumes client packets until stopped.
func (s *server) loop() {
	off := 0
	for {
		select {
		case <-s.stop:
			return
		default:
		}
		b := s.pipe.WrittenFrom(off)
		at := 0
		progressed := false
		for len(b)-at >= 8 {
			n := int(b[at+2])<<8 | int(b[at+3])
			if n < 8 {
				s.mu.Lock()
				s.problem("client wrote a packet with header length %d", n)
				s.mu.Unlock()
				return
			}
			if at+n > len(b) {
				break
			}
			p := rc.Packet{Type: b[at], Status: b[at+1], Channel: uint16(b[at+4])<<8 | uint16(b[at+5]), Nr: b[at+6], Window: b[at+7], Body: append([]byte{}, b[at+8:at+n]...), Len: uint16(n)}
			at += n
			off += n
			progressed = true
			s.handle(p)
		}
		s.schedule()
		if !progressed {
			time.Sleep(50 * time.Microsecond)
		}
	}
}

func (s *server) handle(p rc.Packet) {
	s.mu.Lock()
	defer s.mu.Unlock()
	id := int(p.Channel)
	if id > 0 {
		want := s.nextNr[id]
		if int(p.Nr) != want {
			s.problem("channel %d: packet number %d, expected %d (consecutive mod 256)", id, p.Nr, want)
		}
		s.nextNr[id] = (int(p.Nr) + 1) % 256
	}
	switch p.Type {
	case rc.BufSetup:
		if len(p.Body) != 0 {
			s.problem("channel %d: SETUP packet with a body", id)
		}
		s.feedPacket(rc.Packet{Type: rc.BufProtAck, Channel: uint16(id), Status: rc.StatEOM})
		return
	case rc.BufClose:
		s.closed[id] = true
		return
	}
	s.msg[id] = append(s.msg[id], p.Body...)
	if p.Status&rc.StatEOM == 0 {
		return
	}
	body := s.msg[id]
	s.msg[id] = nil
	if len(body) > 0 && body[0] == rc.TokLogout {
		s.feedPacket(rc.Packet{Type: rc.BufResponse, Channel: uint16(id), Status: rc.StatEOM, Body: []byte{rc.TokDone, 0, 0, 0, 0, 0, 0, 0, 0}})
		return
	}
	// a request: its text names the channel it was sent on
	ps, err := rc.DecodeStream(body)
	if err != nil || len(ps) != 1 || ps[0].Lang == nil {
		s.problem("channel %d: request is not a LANGUAGE package: %v", id, err)
		return
	}
	var cid, round int
	if _, err := fmt.Sscanf(ps[0].Lang.Cmd, "chan=%d;round=%d;", &cid, &round); err != nil || cid != id {
		s.problem("packet header says channel %d, the request inside was sent on channel %d (%q)", id, cid, trunc(ps[0].Lang.Cmd))
		return
	}
	idx, ok := s.idToIdx[id]
	if !ok {
		s.problem("request on channel id %d which the harness never registered", id)
		return
	}
	if round != s.reqSeen[id] {
		s.problem("channel %d: request of round %d arrived as request number %d", id, round, s.reqSeen[id])
	}
	s.reqSeen[id]++
	r := s.c.Resp[idx][round]
	stream, _, _, err := rc.EncodeStream(r.Pkgs)
	if err != nil {
		panic("c12: " + err.Error())
	}
	s.pending[id] = append(s.pending[id], rc.Packetise(stream, r.Cuts, rc.BufResponse, uint16(id))...)
}

// schedule feeds pending response packets, one at a time, choosing the channel by the
// generated order. It waits until every live channel has its request in (so responses
// really interleave) or 30 ms passed since the first request of the batch.
func (s *server) schedule() {
	s.mu.Lock()
	defer s.mu.Unlock()
	if len(s.pending) == 0 {
		s.batchStart = time.Time{}
		return
	}
	if s.batchStart.IsZero() {
		s.batchStart = time.Now()
	}
	live := 0
	for id := range s.idToIdx {
		if !s.closed[id] {
			live++
		}
	}
	if len(s.pending) < live && time.Since(s.batchStart) < 30*time.Millisecond {
		return
	}
	if len(s.pending) >= 2 {
		s.interleaved = true
	}
	for len(s.pending) > 0 {
		ids := make([]int, 0, len(s.pending))
		for id := range s.pending {
			ids = append(ids, id)
		}
		sort.Ints(ids)
		pick := 0
		if len(s.c.Order) > 0 {
			pick = s.c.Order[s.ord%len(s.c.Order)] % len(ids)
			s.ord++
		}
		id := ids[pick]
		s.feedPacket(s.pending[id][0])
		s.pending[id] = s.pending[id][1:]
		if len(s.pending[id]) == 0 {
			delete(s.pending, id)
		}
	}
	s.batchStart = time.Time{}
}

func trunc(s string) string {
	if len(s) > 40 {
		return s[:40] + "…"
	}
	return s
}

func isFinal(p tds.Package) bool {
	d, ok := p.(*tds.DonePackage)
	return ok && d.Status == tds.TDS_DONE_FINAL
}

func runCase(c c12Case) (f *vh.Failure) {
	defer func() {
		if r := recover(); r != nil {
			vh.CheckHarnessPanic(r)
			f = vh.Failf("C12/panic", "panic: %v", r)
		}
	}()
	old := runtime.GOMAXPROCS(c.Procs)
	defer runtime.GOMAXPROCS(old)
	bg, cancel := context.WithCancel(context.Background())
	defer cancel()
	pipe := peer.NewPipe()
	srv := &server{pipe: pipe, c: c, idToIdx: map[int]int{}, nextNr: map[int]int{}, pending: map[int][]rc.Packet{}, reqSeen: map[int]int{}, msg: map[int][]byte{}, closed: map[int]bool{}, stop: make(chan struct{})}
	var conn *tds.Conn
	var cleanup []func()
	defer func() {
		for _, fn := range cleanup {
			fn()
		}
	}()
	info := &tds.Info{Info: dsn.Info{Host: "127.0.0.1"}, Network: "tcp", ChannelPackageQueueSize: 1000, PacketReadTimeout: c.ReadTimeout}
	if c.TCP {
		var ln net.Listener
		var port string
		for {
			var err error
			ln, err = net.Listen("tcp", "127.0.0.1:0")
			if err != nil {
				vh.Note("loopback listen failed: %v (TCP slice skipped)", err)
				return nil
			}
			_, port, _ = net.SplitHostPort(ln.Addr().String())
			// NewConn switches to TLS for every port that reads "443" once its zeros are removed
			// (4430, 40403, 44300, ...); the handshake with this plain peer would never end
			if strings.ReplaceAll(port, "0", "") != "443" {
				break
			}
			ln.Close()
		}
		cleanup = append(cleanup, func() { ln.Close() })
		info.Port = port
		accepted := make(chan net.Conn, 1)
		go func() {
			sc, err := ln.Accept()
			if err == nil {
				accepted <- sc
			}
		}()
		var err2 error
		conn, err2 = tds.NewConn(bg, info)
		if err2 != nil {
			return vh.Failf("C12/newconn", "NewConn over loopback: %v", err2)
		}
		var sc net.Conn
		select {
		case sc = <-accepted:
		case <-time.After(5 * time.Second):
			return vh.Failf("C12/newconn", "peer never accepted the connection")
		}
		cleanup = append(cleanup, func() { sc.Close() })
		// client -> pipe.Write (the server's view of what the client wrote)
		go func() {
			buf := make([]byte, 4096)
			for {
				n, err := sc.Read(buf)
				if n > 0 {
					pipe.Write(buf[:n])
				}
				if err != nil {
					return
				}
			}
		}()
		// pipe.Feed -> client
		go func() {
			buf := make([]byte, 4096)
			for {
				n, err := pipe.Read(buf)
				if n > 0 {
					if _, werr := sc.Write(buf[:n]); werr != nil {
						return
					}
				}
				if err != nil {
					return
				}
			}
		}()
	} else {
		var err error
		conn, _, err = tds.VerifNewConn(bg, pipe, info, true)
		if err != nil {
			vh.HarnessBug("VerifNewConn: %v", err)
		}
	}
	go srv.loop()
	defer close(srv.stop)

	type failure struct {
		class, msg string
	}
	var fmu sync.Mutex
	var fails []failure
	fail := func(class, format string, a ...any) {
		fmu.Lock()
		fails = append(fails, failure{class, fmt.Sprintf(format, a...)})
		fmu.Unlock()
	}
	watch := func(what string, d time.Duration, fn func()) bool {
		done := make(chan struct{})
		go func() { defer close(done); fn() }()
		select {
		case <-done:
			return true
		case <-time.After(d):
			fail("C12/hang", "%s did not finish within %v", what, d)
			return false
		}
	}

	// ---- creation: channel 0 first (needs no setup), the others concurrently
	chans := make([]*tds.Channel, c.Channels)
	ch0, err := conn.NewChannel()
	if err != nil {
		return vh.Failf("C12/newchannel", "NewChannel for the main channel: %v", err)
	}
	chans[0] = ch0
	srv.mu.Lock()
	srv.idToIdx[ch0.VerifID()] = 0
	srv.mu.Unlock()
	if c.Channels > 1 {
		var wg sync.WaitGroup
		next := make(chan int, c.Channels)
		for i := 1; i < c.Channels; i++ {
			next <- i
		}
		close(next)
		ok := watch("concurrent NewChannel", 10*time.Second, func() {
			for g := 0; g < c.Creators; g++ {
				wg.Add(1)
				go func() {
					defer wg.Done()
					defer func() {
						if r := recover(); r != nil {
							fail("C12/panic", "NewChannel panicked: %v", r)
						}
					}()
					for i := range next {
						ch, err := conn.NewChannel()
						if err != nil {
							fail("C12/newchannel-fails-despite-ack", "NewChannel (logical channel %d of %d, %d creators): %v", i, c.Channels-1, c.Creators, err)
							continue
						}
						chans[i] = ch
					}
				}()
			}
			wg.Wait()
		})
		if !ok || len(fails) > 0 {
			return vh.Failf(fails[0].class, "%s", fails[0].msg)
		}
	}
	ids := map[int]int{}
	for i, ch := range chans {
		id := ch.VerifID()
		if j, dup := ids[id]; dup {
			return vh.Failf("C12/duplicate-channel-id", "channels %d and %d both have id %d (%d creators, GOMAXPROCS %d)", j, i, id, c.Creators, c.Procs)
		}
		ids[id] = i
		srv.mu.Lock()
		srv.idToIdx[id] = i
		srv.mu.Unlock()
	}
	if n := conn.VerifChannelCount(); n != c.Channels {
		return vh.Failf("C12/channel-registration", "%d channels created, connection has %d registered", c.Channels, n)
	}

	// ---- rounds
	runRound := func(round int) {
		var wg sync.WaitGroup
		for i, ch := range chans {
			wg.Add(1)
			go func(i int, ch *tds.Channel) {
				defer wg.Done()
				defer func() {
					if r := recover(); r != nil {
						fail("C12/panic", "channel %d round %d panicked: %v", ch.VerifID(), round, r)
					}
				}()
				id := ch.VerifID()
				cmd := fmt.Sprintf("chan=%d;round=%d;", id, round) + strings.Repeat("x", c.ReqPad[i])
				ctx, cancel := context.WithTimeout(bg, 8*time.Second)
				defer cancel()
				if err := ch.SendPackage(ctx, &tds.LanguagePackage{Cmd: cmd}); err != nil {
					fail("C12/send", "channel %d round %d: SendPackage: %v", id, round, err)
					return
				}
				model, _ := respgen.Deliver(c.Resp[i][round].Pkgs)
				fmts := respgen.FormatBefore(model)
				var seen []tds.Package
				for {
					p, err := ch.NextPackage(ctx, true)
					if err != nil {
						fail("C12/receive", "channel %d round %d: after %d of %d packages NextPackage: %v", id, round, len(seen), len(model), err)
						return
					}
					seen = append(seen, p)
					if isFinal(p) {
						break
					}
					if len(seen) > len(model)+3 {
						break
					}
				}
				if len(seen) != len(model) {
					fail("C12/wrong-delivery", "channel %d round %d: received %d packages, its script has %d [%s]", id, round, len(seen), len(model), respgen.Describe(model))
					return
				}
				for k := range model {
					if err := pkggen.LibEqual(model[k], fmts[k], seen[k]); err != nil {
						fail("C12/wrong-delivery", "channel %d round %d package %d (%T) is not from this channel's script: %v", id, round, k, seen[k], err)
						return
					}
				}
			}(i, ch)
		}
		wg.Wait()
	}
	for round := 0; round < c.Rounds; round++ {
		if !watch(fmt.Sprintf("round %d on %d channels", round, c.Channels), 12*time.Second, func() { runRound(round) }) || len(fails) > 0 {
			break
		}
		if round == 0 && len(c.Junk) > 0 {
			// packets for channels that do not exist, while nobody waits
			for _, j := range c.Junk {
				pipe.Feed(rc.Packet{Type: rc.BufResponse, Channel: uint16(j), Status: rc.StatEOM, Body: []byte{rc.TokDone, 0, 0, 0, 0, 0, 0, 0, 0}}.Bytes())
			}
			got := 0
			// (patient: with GOMAXPROCS 1 on a machine busy with other work the reader goroutine
			// can be held back for seconds; a report that is lost never comes)
			deadline := time.Now().Add(20 * time.Second)
			for got < len(c.Junk) && time.Now().Before(deadline) {
				if e := conn.VerifConnErr(); e != nil {
					got++
				} else {
					time.Sleep(100 * time.Microsecond)
				}
			}
			if got != len(c.Junk) {
				fail("C12/unknown-channel-not-reported", "%d packets for unknown channel ids %v, %d connection errors", len(c.Junk), c.Junk, got)
			}
			for _, ch := range chans {
				if p, err := ch.NextPackage(bg, false); !errors.Is(err, tds.ErrNoPackageReady) {
					fail("C12/unknown-channel-packet-delivered", "after packets for unknown ids channel %d has %v / %v", ch.VerifID(), p, err)
				}
			}
		}
	}
	// ---- close: logical channels concurrently, then the connection
	if len(fails) == 0 {
		watch("closing", 10*time.Second, func() {
			var wg sync.WaitGroup
			for _, ch := range chans[1:] {
				wg.Add(1)
				go func(ch *tds.Channel) {
					defer wg.Done()
					defer func() {
						if r := recover(); r != nil {
							fail("C12/panic", "Close of channel %d panicked: %v", ch.VerifID(), r)
						}
					}()
					if err := ch.Close(); err != nil {
						fail("C12/close", "Close of channel %d: %v", ch.VerifID(), err)
					}
				}(ch)
			}
			wg.Wait()
			if n := conn.VerifChannelCount(); n != 1 {
				fail("C12/channel-registration", "after closing the logical channels %d channels are registered", n)
			}
			// the closed channels do not exist any more: a packet for each of them is a
			// connection error (the most recently used one first)
			for conn.VerifConnErr() != nil {
			}
			var closedIDs []int
			for _, ch := range chans[1:] {
				closedIDs = append(closedIDs, ch.VerifID())
			}
			sort.Sort(sort.Reverse(sort.IntSlice(closedIDs)))
			if len(closedIDs) > 4 {
				closedIDs = closedIDs[:4]
			}
			for k := 0; k < 2; k++ {
				for _, id := range closedIDs {
					pipe.Feed(rc.Packet{Type: rc.BufResponse, Channel: uint16(id), Status: rc.StatEOM, Body: []byte{rc.TokDone, 0, 0, 0, 0, 0, 0, 0, 0}}.Bytes())
				}
			}
			got := 0
			deadline := time.Now().Add(20 * time.Second)
			for got < 2*len(closedIDs) && time.Now().Before(deadline) {
				if e := conn.VerifConnErr(); e != nil {
					got++
				} else {
					time.Sleep(100 * time.Microsecond)
				}
			}
			if got != 2*len(closedIDs) {
				fail("C12/packet-for-closed-channel-not-reported", "%d packets for the closed channels %v produced %d connection errors", 2*len(closedIDs), closedIDs, got)
			}
			if err := conn.Close(); err != nil {
				fail("C12/close", "Conn.Close: %v", err)
			}
		})
	}
	time.Sleep(200 * time.Microsecond)
	srv.mu.Lock()
	problems := append([]string{}, srv.problems...)
	interleaved := srv.interleaved
	srv.mu.Unlock()
	if len(fails) > 0 {
		return vh.Failf(fails[0].class, "%d channels, %d creators, GOMAXPROCS %d, tcp=%v: %s", c.Channels, c.Creators, c.Procs, c.TCP, fails[0].msg)
	}
	if len(problems) > 0 {
		return vh.Failf("C12/peer-sees-wrong-packets", "%d channels, GOMAXPROCS %d: %s", c.Channels, c.Procs, problems[0])
	}
	vh.Label(fmt.Sprintf("gomaxprocs=%d", c.Procs), fmt.Sprintf("channels=%s", bucket(c.Channels)))
	if c.TCP {
		vh.Label("real-NewConn-over-loopback")
	}
	if interleaved {
		vh.Label("responses-interleaved")
	}
	if c.Channels >= 2 && interleaved && (c.Creators >= 2 || c.Channels >= 3) {
		vh.NonTrivial(fmt.Sprintf("%+v", c))
	}
	return nil
}

func bucket(n int) string {
	switch {
	case n == 1:
		return "1"
	case n <= 3:
		return "2-3"
	case n <= 8:
		return "4-8"
	}
	return "9-16"
}

func genCase(rt *rapid.T, tcp bool) c12Case {
	c := c12Case{TCP: tcp}
	c.Channels = rapid.SampledFrom([]int{1, 2, 2, 3, 4, 6, 8, 12, 16}).Draw(rt, "channels")
	c.Creators = 1
	if c.Channels > 2 {
		c.Creators = rapid.IntRange(1, c.Channels-1).Draw(rt, "creators")
	}
	c.Rounds = rapid.IntRange(1, 3).Draw(rt, "rounds")
	c.Procs = rapid.SampledFrom([]int{1, 2, 4, 16}).Draw(rt, "gomaxprocs")
	for i := 0; i < c.Channels; i++ {
		var rs []resp
		for r := 0; r < c.Rounds; r++ {
			ps := respgen.Gen(rt, respgen.Opts{MaxStatements: 2, MaxEED: 1, MaxEnv: 1})
			// nothing may follow a server-sent final DONE here: the consumer closes the
			// channel once it has seen it, and trailing (filtered) packages would then be
			// packets for a channel that no longer exists
			for len(ps) > 1 && respgen.Filtered(ps[len(ps)-1]) {
				cut := false
				for _, q := range ps[:len(ps)-1] {
					if respgen.IsFinalDone(q) {
						cut = true
					}
				}
				if !cut {
					break
				}
				ps = ps[:len(ps)-1]
			}
			// make the script unmistakably this channel's
			v := int32(i*1000 + r)
			ps = append([]rc.P{{RetStat: &v}}, ps...)
			stream, _, _, _ := rc.EncodeStream(ps)
			// header-only packets inside the response are allowed; none at its end: the consumer
			// closes its channel once it has seen the final DONE, and an empty EOM packet arriving
			// after that would be a packet for a channel that no longer exists
			cuts := respgen.Cuts(rt, len(stream), true)
			for len(cuts) > 0 && cuts[len(cuts)-1] >= len(stream) {
				cuts = cuts[:len(cuts)-1]
			}
			rs = append(rs, resp{Pkgs: ps, Cuts: cuts})
		}
		c.Resp = append(c.Resp, rs)
		c.ReqPad = append(c.ReqPad, rapid.SampledFrom([]int{0, 10, 470, 480, 490, 1200}).Draw(rt, "reqpad"))
	}
	n := rapid.IntRange(1, 24).Draw(rt, "orderlen")
	for i := 0; i < n; i++ {
		c.Order = append(c.Order, rapid.IntRange(0, 15).Draw(rt, "pick"))
	}
	c.ReadTimeout = rapid.SampledFrom([]int{0, 0, 5, 50}).Draw(rt, "readtimeout")
	nj := rapid.IntRange(0, 3).Draw(rt, "njunk")
	for i := 0; i < nj; i++ {
		c.Junk = append(c.Junk, rapid.IntRange(c.Channels+1, 65535).Draw(rt, "junkid"))
	}
	return c
}

func TestChannels(t *testing.T) {
	gen := func(rt *rapid.T) c12Case {
		c := genCase(rt, false)
		if c.Channels <= 2 && c.Rounds == 1 && len(fmt.Sprint(c)) < 800 {
			vh.Sample("history", c)
		}
		return c
	}
	vh.Check(t, "TestChannels", vh.N(250, 6000), gen, runCase)
}

// a slice through the real NewConn over loopback TCP (the hook mirrors NewConn's tail;
// a change inside NewConn itself would otherwise be invisible)
func TestChannelsOverLoopback(t *testing.T) {
	gen := func(rt *rapid.T) c12Case { return genCase(rt, true) }
	vh.Check(t, "TestChannelsOverLoopback", vh.N(40, 600), gen, runCase)
}

var _ = io.EOF

// a logical channel that sends more than 256 packets in its life: the packet number wraps
// from 255 to 0
func TestPacketNumberWrap(t *testing.T) {
	gen := func(rt *rapid.T) c12Case {
		c := c12Case{Channels: 2, Creators: 1, Rounds: rapid.IntRange(1, 3).Draw(rt, "rounds"), Procs: rapid.SampledFrom([]int{1, 4}).Draw(rt, "procs")}
		for i := 0; i < c.Channels; i++ {
			var rs []resp
			for r := 0; r < c.Rounds; r++ {
				v := int32(i*1000 + r)
				rs = append(rs, resp{Pkgs: []rc.P{{RetStat: &v}, {Done: &rc.Done{Tok: rc.TokDone}}}})
			}
			c.Resp = append(c.Resp, rs)
		}
		// about 260 / rounds packets per request on the logical channel
		total := rapid.IntRange(258, 300).Draw(rt, "packets")
		c.ReqPad = []int{10, total / c.Rounds * 504}
		c.Order = []int{0, 1}
		return c
	}
	vh.Check(t, "TestPacketNumberWrap", vh.N(6, 100), gen, func(c c12Case) *vh.Failure {
		f := runCase(c)
		if f == nil {
			vh.Label("packet-number-wraps")
		}
		return f
	})
}
