// Package refcodec is an independently written TDS 5.0 codec (values, packages,
// packets, login record). It imports nothing from go-dblib: it is the oracle the
// library's encoders/decoders are compared with, and the generator of server traffic.
package refcodec

import (
	"encoding/binary"
	"errors"
	"fmt"
	"math"
	"math/big"
	"unicode/utf16"
)

// TDS data type tokens (TDS 5.0 functional specification).
const (
	TBigDateTimeN = 0xBB
	TBigTimeN     = 0xBC
	TBinary       = 0x2D
	TBit          = 0x32
	TBlob         = 0x24
	TChar         = 0x2F
	TDate         = 0x31
	TDateN        = 0x7B
	TDateTime     = 0x3D
	TDateTimeN    = 0x6F
	TDecN         = 0x6A
	TFlt4         = 0x3B
	TFlt8         = 0x3E
	TFltN         = 0x6D
	TImage        = 0x22
	TInt1         = 0x30
	TInt2         = 0x34
	TInt4         = 0x38
	TInt8         = 0xBF
	TIntN         = 0x26
	TLongBinary   = 0xE1
	TLongChar     = 0xAF
	TMoney        = 0x3C
	TMoneyN       = 0x6E
	TNumN         = 0x6C
	TShortDate    = 0x3A
	TShortMoney   = 0x7A
	TText         = 0x23
	TTime         = 0x33
	TTimeN        = 0x93
	TUint2        = 0x41
	TUint4        = 0x42
	TUint8        = 0x43
	TUintN        = 0x44
	TUnitext      = 0xAE
	TVarBinary    = 0x25
	TVarChar      = 0x27
	TXML          = 0xA3
)

// V is a data type independent description of one value. Which members are
// meaningful depends on T (and W for the nullable families).
type V struct {
	T    byte `json:"t"`
	W    int  `json:"w,omitempty"` // wire width for the nullable numeric/temporal families
	Null bool `json:"null,omitempty"`

	I    int64  `json:"i,omitempty"`    // signed integers, money count (1/10000), bigtime
	U    uint64 `json:"u,omitempty"`    // unsigned integers, float bit patterns, microseconds
	Bool bool   `json:"bool,omitempty"` // bit
	Neg  bool   `json:"neg,omitempty"`  // numeric sign
	Mag  string `json:"mag,omitempty"`  // numeric: unscaled magnitude, decimal digits
	Prec int    `json:"prec,omitempty"`
	Scal int    `json:"scale,omitempty"`
	Day  int32  `json:"day,omitempty"`  // days since 1900-01-01
	Tick uint32 `json:"tick,omitempty"` // 1/300 s since midnight, or minutes for smalldatetime
	B    []byte `json:"b,omitempty"`
	S    string `json:"s,omitempty"`
}

var le = binary.LittleEndian

// FixedSize returns the wire size of fixed-length types, 0 otherwise.
func FixedSize(t byte) int {
	switch t {
	case TBit, TInt1:
		return 1
	case TInt2, TUint2:
		return 2
	case TInt4, TUint4, TFlt4, TDate, TTime, TShortDate, TShortMoney:
		return 4
	case TInt8, TUint8, TFlt8, TDateTime, TMoney:
		return 8
	}
	return 0
}

// LengthPrefix returns the size of the data length prefix of variable-length types
// (0 for fixed-length types).
func LengthPrefix(t byte) int {
	switch t {
	case TImage, TText, TUnitext, TXML, TLongBinary, TLongChar:
		return 4
	}
	if FixedSize(t) > 0 {
		return 0
	}
	return 1
}

// NumericBytes is the number of bytes (sign byte included) a server uses for a
// numeric/decimal of the given precision.
func NumericBytes(prec int) int {
	return 1 + int(math.Ceil(float64(prec)*math.Log2(10)/8))
}

// Encode returns the wire bytes of the value (without status byte and length prefix).
func Encode(v V) ([]byte, error) {
	if v.Null {
		return []byte{}, nil
	}
	width := v.W
	if fs := FixedSize(v.T); fs > 0 {
		width = fs
	}
	switch v.T {
	case TInt1:
		return []byte{byte(v.U)}, nil
	case TInt2, TInt4, TInt8, TIntN:
		return leInt(uint64(v.I), width)
	case TUint2, TUint4, TUint8, TUintN:
		return leInt(v.U, width)
	case TFlt4, TFlt8, TFltN:
		return leInt(v.U, width)
	case TBit:
		if v.Bool {
			return []byte{1}, nil
		}
		return []byte{0}, nil
	case TMoney, TShortMoney, TMoneyN:
		switch width {
		case 4:
			return leInt(uint64(v.I), 4)
		case 8:
			b := make([]byte, 8)
			le.PutUint32(b[0:], uint32(uint64(v.I)>>32)) // high word first
			le.PutUint32(b[4:], uint32(uint64(v.I)))
			return b, nil
		}
		return nil, fmt.Errorf("money width %d", width)
	case TDecN, TNumN:
		m, ok := new(big.Int).SetString(v.Mag, 10)
		if !ok || m.Sign() < 0 {
			return nil, fmt.Errorf("bad magnitude %q", v.Mag)
		}
		n := NumericBytes(v.Prec)
		mb := m.Bytes()
		if len(mb) > n-1 {
			return nil, fmt.Errorf("magnitude needs %d bytes, precision %d has %d", len(mb), v.Prec, n-1)
		}
		b := make([]byte, n)
		copy(b[n-len(mb):], mb)
		if v.Neg {
			b[0] = 1
		}
		return b, nil
	case TDate, TDateN:
		return leInt(uint64(int64(v.Day)), 4)
	case TTime, TTimeN:
		return leInt(uint64(v.Tick), 4)
	case TDateTime, TShortDate, TDateTimeN:
		switch width {
		case 4:
			b := make([]byte, 4)
			le.PutUint16(b[0:], uint16(v.Day))
			le.PutUint16(b[2:], uint16(v.Tick))
			return b, nil
		case 8:
			b := make([]byte, 8)
			le.PutUint32(b[0:], uint32(v.Day))
			le.PutUint32(b[4:], v.Tick)
			return b, nil
		}
		return nil, fmt.Errorf("datetime width %d", width)
	case TBigDateTimeN, TBigTimeN:
		return leInt(v.U, 8)
	case TBinary, TVarBinary, TLongBinary, TImage, TXML:
		return append([]byte{}, v.B...), nil
	case TChar, TVarChar, TLongChar, TText:
		return []byte(v.S), nil
	case TUnitext:
		u := utf16.Encode([]rune(v.S))
		b := make([]byte, 2*len(u))
		for i, c := range u {
			le.PutUint16(b[2*i:], c)
		}
		return b, nil
	}
	return nil, fmt.Errorf("refcodec: unsupported type %#x", v.T)
}

func leInt(u uint64, width int) ([]byte, error) {
	b := make([]byte, 8)
	le.PutUint64(b, u)
	switch width {
	case 1, 2, 4, 8:
		return b[:width], nil
	}
	return nil, fmt.Errorf("bad integer width %d", width)
}

var ErrBadLength = errors.New("refcodec: length not valid for type")

// Decode is the inverse of Encode for wire bytes bs of type t. prec/scale are taken
// from the format for numerics.
func Decode(t byte, bs []byte, prec, scale int) (V, error) {
	v := V{T: t}
	if fs := FixedSize(t); fs > 0 && len(bs) != fs {
		return v, ErrBadLength
	}
	if len(bs) == 0 {
		v.Null = true
		return v, nil
	}
	u := func() uint64 {
		b := make([]byte, 8)
		copy(b, bs)
		return le.Uint64(b)
	}
	sx := func() int64 {
		switch len(bs) {
		case 1:
			return int64(int8(bs[0]))
		case 2:
			return int64(int16(le.Uint16(bs)))
		case 4:
			return int64(int32(le.Uint32(bs)))
		}
		return int64(le.Uint64(bs))
	}
	okw := func(ws ...int) bool {
		for _, w := range ws {
			if len(bs) == w {
				return true
			}
		}
		return false
	}
	switch t {
	case TInt1:
		v.U = uint64(bs[0])
	case TInt2, TInt4, TInt8:
		v.I = sx()
	case TIntN:
		if !okw(1, 2, 4, 8) {
			return v, ErrBadLength
		}
		v.W = len(bs)
		if len(bs) == 1 {
			v.I = int64(bs[0]) // tinyint is unsigned
		} else {
			v.I = sx()
		}
	case TUint2, TUint4, TUint8:
		v.U = u()
	case TUintN:
		if !okw(1, 2, 4, 8) {
			return v, ErrBadLength
		}
		v.W = len(bs)
		v.U = u()
	case TFlt4, TFlt8:
		v.U = u()
	case TFltN:
		if !okw(4, 8) {
			return v, ErrBadLength
		}
		v.W = len(bs)
		v.U = u()
	case TBit:
		v.Bool = bs[0] != 0
	case TMoney, TShortMoney, TMoneyN:
		switch len(bs) {
		case 4:
			v.I = int64(int32(le.Uint32(bs)))
		case 8:
			v.I = int64(uint64(le.Uint32(bs[0:]))<<32 | uint64(le.Uint32(bs[4:])))
		default:
			return v, ErrBadLength
		}
		v.W = len(bs)
	case TDecN, TNumN:
		v.Neg = bs[0] != 0
		v.Mag = new(big.Int).SetBytes(bs[1:]).String()
		v.Prec, v.Scal = prec, scale
	case TDate, TDateN:
		if !okw(4) {
			return v, ErrBadLength
		}
		v.Day = int32(le.Uint32(bs))
	case TTime, TTimeN:
		if !okw(4) {
			return v, ErrBadLength
		}
		v.Tick = le.Uint32(bs)
	case TDateTime, TShortDate, TDateTimeN:
		switch len(bs) {
		case 4:
			v.Day = int32(le.Uint16(bs[0:]))
			v.Tick = uint32(le.Uint16(bs[2:]))
		case 8:
			v.Day = int32(le.Uint32(bs[0:]))
			v.Tick = le.Uint32(bs[4:])
		default:
			return v, ErrBadLength
		}
		v.W = len(bs)
	case TBigDateTimeN, TBigTimeN:
		if !okw(8) {
			return v, ErrBadLength
		}
		v.U = le.Uint64(bs)
	case TBinary, TVarBinary, TLongBinary, TImage, TXML:
		v.B = append([]byte{}, bs...)
	case TChar, TVarChar, TLongChar, TText:
		v.S = string(bs)
	case TUnitext:
		if len(bs)%2 != 0 {
			return v, ErrBadLength
		}
		u16 := make([]uint16, len(bs)/2)
		for i := range u16 {
			u16[i] = le.Uint16(bs[2*i:])
		}
		v.S = string(utf16.Decode(u16))
	default:
		return v, fmt.Errorf("refcodec: unsupported type %#x", t)
	}
	return v, nil
}

// ---- proleptic Gregorian civil-date arithmetic (independent of package time and of
// the Julian-day formulas used by the library): Howard Hinnant's algorithms.

// DaysFromCivil returns the number of days since 1970-01-01 of the given civil date.
func DaysFromCivil(y, m, d int) int64 {
	yy := int64(y)
	if m <= 2 {
		yy--
	}
	var era int64
	if yy >= 0 {
		era = yy / 400
	} else {
		era = (yy - 399) / 400
	}
	yoe := yy - era*400
	mp := int64((m + 9) % 12)
	doy := (153*mp+2)/5 + int64(d) - 1
	doe := yoe*365 + yoe/4 - yoe/100 + doy
	return era*146097 + doe - 719468
}

// CivilFromDays is the inverse of DaysFromCivil.
func CivilFromDays(z int64) (y, m, d int) {
	z += 719468
	var era int64
	if z >= 0 {
		era = z / 146097
	} else {
		era = (z - 146096) / 146097
	}
	doe := z - era*146097
	yoe := (doe - doe/1460 + doe/36524 - doe/146096) / 365
	yy := yoe + era*400
	doy := doe - (365*yoe + yoe/4 - yoe/100)
	mp := (5*doy + 2) / 153
	d = int(doy - (153*mp+2)/5 + 1)
	if mp < 10 {
		m = int(mp + 3)
	} else {
		m = int(mp - 9)
	}
	if m <= 2 {
		yy++
	}
	return int(yy), m, d
}

var (
	epoch1900 = DaysFromCivil(1900, 1, 1)
	epoch0000 = DaysFromCivil(0, 1, 1)
)

// DaysSince1900 converts a civil date to the TDS date count.
func DaysSince1900(y, m, d int) int64 { return DaysFromCivil(y, m, d) - epoch1900 }

// CivilFrom1900 converts a TDS date count to a civil date.
func CivilFrom1900(days int64) (int, int, int) { return CivilFromDays(days + epoch1900) }

const UsPerDay = 86400 * 1000000

// UsSinceYear0 is the bigdatetime count of a civil date + microsecond of day.
func UsSinceYear0(y, m, d int, usOfDay int64) uint64 {
	return uint64((DaysFromCivil(y, m, d)-epoch0000)*UsPerDay + usOfDay)
}

// CivilFromUs is the inverse of UsSinceYear0.
func CivilFromUs(us uint64) (y, m, d int, usOfDay int64) {
	days := int64(us / UsPerDay)
	y, m, d = CivilFromDays(days + epoch0000)
	return y, m, d, int64(us % UsPerDay)
}
