"""Per-property process configuration for vcheck.py (see CFG there)."""


def CFG(R, FZ):
    return {
        "C01": dict(pkg="c01", level="exploration", runs=[R(shards=(8, 16))]),
        "C02": dict(pkg="c02", level="exploration", runs=[R(shards=(8, 16))]),
        "C03": dict(pkg="c03", level="exploration", runs=[R(shards=(8, 16))]),
        "C04": dict(pkg="c04", level="exploration", runs=[R(shards=(8, 16)), R(name="race", race=True, run="TestConcurrent", shards=(2, 4))]),
        "C05": dict(pkg="c05", level="exploration", runs=[R(shards=(8, 16)), R(name="race", race=True, run="TestConcurrent", shards=(2, 4))]),
        "C06": dict(pkg="c06", level="exploration", runs=[R(shards=(8, 16))]),
        "C10": dict(pkg="c10", level="exploration", runs=[R(shards=(8, 16), timeout=(300, 3000)), FZ("FuzzValue", seconds=45), FZ("FuzzPackage", seconds=90), FZ("FuzzChannel", seconds=90)]),
        "C07": dict(pkg="c07", level="exploration", runs=[R(shards=(8, 16))]),
        "C08": dict(pkg="c08", level="exploration", runs=[R(shards=(8, 16))]),
        "C09": dict(pkg="c09", level="exploration", runs=[R(shards=(8, 16))]),
        "C11": dict(pkg="c11", level="exploration", runs=[R(shards=(8, 16))]),
        "C12": dict(pkg="c12", level="exploration", runs=[R(name="race", race=True, shards=(8, 16), timeout=(300, 3000))]),
        "C13": dict(pkg="c13", level="exploration", runs=[R(name="race", race=True, shards=(8, 16), timeout=(300, 3000))]),
        "C14": dict(pkg="c14", level="fault_enumeration", runs=[R(shards=(8, 16))]),
        "C15": dict(pkg="c15", level="exploration", runs=[R(shards=(8, 16))]),
        "C16": dict(pkg="c16", level="exploration", runs=[R(shards=(4, 16)), R(name="race", race=True, run="TestConcurrent", shards=(2, 4))]),
        "C17": dict(pkg="c17", level="exploration", runs=[R(shards=(4, 16), timeout=(300, 3000)), R(name="race", race=True, run="TestConcurrent", shards=(2, 4)), FZ("FuzzParse", seconds=90)]),
        "C18": dict(pkg="c18", level="exploration", runs=[R(name="race", race=True, shards=(4, 16))]),
        "C19": dict(pkg="c19", level="exploration", runs=[R(shards=(4, 16))]),
    }
