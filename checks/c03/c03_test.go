// C03 — each response is delimited by exactly one final DONE and fully drained.
package c03

import (
	"context"
	"errors"
	"fmt"
	"io"
	"runtime"
	"sync/atomic"
	"testing"
	"time"

	"github.com/SAP/go-dblib/tds"
	"pgregory.net/rapid"
	"verif/internal/peer"
	"verif/internal/pkggen"
	rc "verif/internal/refcodec"
	"verif/internal/respgen"
	"verif/internal/vh"
)

func TestMain(m *testing.M) {
	vh.Rule("rapid: histories of 1..6 request/response rounds on one channel (packet level, deterministic); per round a response from the grammar (empty of delivered packages, rows, several result sets with DONE(MORE), trailing DONE with COUNT/PROC/ERROR/INXACT bits, EED interleaved, final DONE by the server, a non-final DONE, or none), a packetisation (optionally with extra status bits next to EOM), an optional request sent before it or completing only after the first response packets have arrived, and a consumer strategy: NextPackage until the final DONE, or NextPackageUntil with a per-package plan of callback results (continue, true, io.EOF, another error, an error that wraps io.EOF) or a nil callback. Oracle: a model holds the expected consumer view of every round; the consumer must see exactly that (one DONE with final status, last), a callback error must come back (errors.Is) with the queue empty afterwards, nothing may be left over or duplicated into the next round; a 2 s watchdog only fires if the final DONE is missing. Non-trivial: >= 2 rounds and (the previous round ended with a server DONE(FINAL), or the callback aborted early, or the response spans several packets); distinct by the history")
	vh.Assume("a DONE-family package with status 0 only ends a response; all packets of a response are delivered before the consumer reads (the concurrent case is C12/C13); non-informational EED only between statements")
	vh.Rule("also: Info.DebugLogPackages is on in a quarter of the cases (every package is printed while it is sent / received)")
	vh.Rule("also: package queues (Info.ChannelPackageQueueSize) of 0, 1, 2, 3 slots and of exactly as many slots as the response delivers packages (one less, one more), packets arriving from a goroutine of their own, consumer starting late (arrival parked on the full queue) or at once, 1..3 responses in a row: delivery model, exactly one final DONE at its end, arrival not stuck, nothing left over; enumerated for k = 1..100 DONE packages x last status x k-1..k+1 slots")
	vh.QuietLog()
	vh.Rule("also: a callback that cancels the context of its own call and then fails")
	vh.Rule("also: packets of type NORMAL; responses with an ENVCHANGE whose packet size the library refuses (not a number, not a possible size), anywhere in the response, any packetisation: exactly one channel error, members in front reported once, packet size unchanged, everything else delivered with one final DONE, the next response complete")
	vh.Rule("also: when the callback fails, the returned error carries at least the non-informational server messages that precede the failing package in the response (judged when one call consumed the response up to there)")
	vh.Main(m, "C03")
}

type round struct {
	Pkgs     []rc.P `json:"pkgs"`
	Cuts     []int  `json:"cuts"`
	Strategy string `json:"strategy"` // next | until | nilcb
	Plan     []int  `json:"plan"`     // per callback invocation: 0 continue, 1 true, 2 io.EOF, 3 error, 4 error wrapping io.EOF, 5 (true, error), 6 error after the caller cancelled its own context
	Send     bool   `json:"send_before"`
	// SendAfter > 0: the request completes only after that many response packets have
	// already arrived (a fast server answers while the last request packet is still being
	// written); requires Send
	SendAfter int `json:"send_after_packets,omitempty"`
	// Extra status bits OR-ed into the packet headers (ATTNACK 0x02, EVENT 0x08), cycled
	Extra []int `json:"extra_status_bits,omitempty"`
	// Hold > 0: the last Hold packets of the response arrive only after the consumer has
	// started on the first part (it runs in its own goroutine then); Wait: the consumer
	// passes wait=true instead of polling with wait=false
	Hold int  `json:"packets_arriving_while_the_consumer_is_underway,omitempty"`
	Wait bool `json:"consumer_waits,omitempty"`
	// Normal: the response arrives in packets of type NORMAL (15) instead of RESPONSE (4)
	Normal bool `json:"packet_type_normal,omitempty"`
}

type c03Case struct {
	Rounds []round `json:"rounds"`
	// Log: Info.DebugLogPackages - every package sent / received is printed
	Log bool `json:"debug_log_packages,omitempty"`
}

var errCB = errors.New("consumer callback failed")

func isFinal(p tds.Package) bool {
	d, ok := p.(*tds.DonePackage)
	return ok && d.Status == tds.TDS_DONE_FINAL
}

func kinds(ps []tds.Package) string {
	s := ""
	for i, p := range ps {
		if i > 0 {
			s += " | "
		}
		x := fmt.Sprintf("%T", p)
		if d, ok := p.(*tds.DonePackage); ok {
			x += fmt.Sprintf("(%#x)", uint16(d.Status))
		}
		s += x
	}
	return s
}

// patience is the wall-clock bound of a round's consumer. A verdict reached after a bound has
// been hit (the case took as long as the bound) is only reported if the case fails again with
// ten times the patience: a machine busy with other work (load 90 during a thorough run beside
// other jobs) can hold a goroutine back for seconds, a library that blocks does so every time.
var patience = 2 * time.Second

func runCase(c c03Case) *vh.Failure {
	t0 := time.Now()
	f := runCaseOnce(c)
	if f != nil && time.Since(t0) >= patience-100*time.Millisecond {
		vh.Label("timing-verdict-repeated")
		patience *= 10
		f = runCaseOnce(c)
		patience /= 10
		if f == nil {
			vh.Label("timing-verdict-not-confirmed")
		}
	}
	return f
}

func runCaseOnce(c c03Case) (f *vh.Failure) {
	defer func() {
		if r := recover(); r != nil {
			vh.CheckHarnessPanic(r)
			f = vh.Failf("C03/panic", "panic: %v", r)
		}
	}()
	bg, cancel := context.WithCancel(context.Background())
	defer cancel()
	pipe := peer.NewPipe()
	conn, _, err := tds.VerifNewConn(bg, pipe, &tds.Info{ChannelPackageQueueSize: 4096, DebugLogPackages: c.Log}, false)
	if err != nil {
		vh.HarnessBug("VerifNewConn: %v", err)
	}
	ch, err := conn.NewChannel()
	if err != nil {
		vh.HarnessBug("NewChannel: %v", err)
	}
	prevServerFinal := false
	nontrivial := false
	for ri, r := range c.Rounds {
		where := fmt.Sprintf("round %d/%d [%s] cuts %v strategy %s plan %v", ri+1, len(c.Rounds), respgen.Describe(r.Pkgs), r.Cuts, r.Strategy, r.Plan)
		send := func() *vh.Failure {
			if err := ch.SendPackage(bg, &tds.LanguagePackage{Cmd: "select 1"}); err != nil {
				return vh.Failf("C03/send-error", "%s: SendPackage: %v", where, err)
			}
			return nil
		}
		if r.Send && r.SendAfter == 0 {
			if f := send(); f != nil {
				return f
			}
		}
		stream, _, _, err := rc.EncodeStream(r.Pkgs)
		if err != nil {
			vh.HarnessBug("encode: %v", err)
		}
		ptype := byte(rc.BufResponse)
		if r.Normal {
			ptype = rc.BufNormal
			vh.Label("packets-of-type-normal")
		}
		packets := rc.Packetise(stream, r.Cuts, ptype, 0)
		hold := r.Hold
		if hold >= len(packets) {
			hold = len(packets) - 1
		}
		if r.Send && r.SendAfter > 0 && len(packets)-hold <= r.SendAfter {
			hold = 0 // the request has to be out before the consumer starts
		}
		var allFed atomic.Bool
		underway := make(chan struct{}, 1)
		feed := func(from, to int) *vh.Failure {
			for i := from; i < to; i++ {
				p := packets[i]
				if r.Send && r.SendAfter > 0 && (i == r.SendAfter || (i == 0 && r.SendAfter >= len(packets))) {
					// the client's send call returns only now, with the response partly arrived
					if f := send(); f != nil {
						return f
					}
					vh.Label("send-completes-after-first-response-packets")
				}
				st := p.Status
				if len(r.Extra) > 0 {
					st |= byte(r.Extra[i%len(r.Extra)])
				}
				ch.WritePacket(&tds.Packet{Header: tds.PacketHeader{MsgType: tds.PacketHeaderType(p.Type), Status: tds.PacketHeaderStatus(st), Length: uint16(8 + len(p.Body))}, Data: p.Body})
			}
			return nil
		}
		if f := feed(0, len(packets)-hold); f != nil {
			return f
		}
		if hold == 0 {
			allFed.Store(true)
		}
		model, synthetic := respgen.Deliver(r.Pkgs)
		fmts := respgen.FormatBefore(model)
		serverFinal := !synthetic
		emptyOfDeliverables := len(model) == 1 && synthetic
		// classes of the known history-dependent shape
		cls := func(base string) string {
			if emptyOfDeliverables && prevServerFinal {
				return "C03/no-final-done-for-empty-response-after-server-final-done"
			}
			return base
		}
		var seen []tds.Package // what the consumer was handed, EEDs included where visible
		var seenIdx []int      // index into model for each seen package
		eedHidden := r.Strategy != "next"
		want := []int{}
		for i, p := range model {
			if eedHidden && p.EED != nil {
				continue
			}
			want = append(want, i)
		}
		wctx, wcancel := context.WithTimeout(bg, patience)
		aborted := false
		gotFinal := false
		progress := func() {
			select {
			case underway <- struct{}{}:
			default:
			}
		}
		consume := func() *vh.Failure {
			switch r.Strategy {
			case "next":
				for !gotFinal {
					fed := allFed.Load()
					p, err := ch.NextPackage(wctx, r.Wait)
					if errors.Is(err, tds.ErrNoPackageReady) && !fed && wctx.Err() == nil {
						progress()
						runtime.Gosched()
						continue
					}
					progress()
					if err != nil {
						wcancel()
						return vh.Failf(cls("C03/missing-final-done"), "%s: after %d packages [%s] NextPackage returns %v before a final DONE was seen (expected [%s])", where, len(seen), kinds(seen), err, respgen.Describe(model))
					}
					seen = append(seen, p)
					gotFinal = isFinal(p)
				}
			case "until", "nilcb":
				calls := 0
				lastAct := 0
				var cb func(tds.Package) (bool, error)
				if r.Strategy == "until" {
					cb = func(p tds.Package) (bool, error) {
						progress()
						seen = append(seen, p)
						act := 0
						if calls < len(r.Plan) {
							act = r.Plan[calls]
						}
						calls++
						lastAct = act
						if isFinal(p) {
							gotFinal = true
						}
						switch act {
						case 1:
							return true, nil
						case 2:
							return false, io.EOF
						case 3:
							return false, errCB
						case 6:
							// the consumer gives up because its own context has ended (return false,
							// ctx.Err() in real code): what of the response is already there is consumed all the same
							wcancel()
							return false, errCB
						case 5:
							// "stop" together with an error (the form the library's own documentation
							// shows: return true, DefinedError) is an abort with an error all the same
							return true, errCB
						case 4:
							// an error that merely wraps io.EOF is not "an unwrapped io.EOF": the rest
							// of the response has to be consumed like for any other error
							return false, fmt.Errorf("%w (and the consumer's own failure: %w)", errCB, io.EOF)
						}
						if isFinal(p) {
							return true, nil // the consumer's own end condition
						}
						return false, nil
					}
				}
				libCalls := 0
				for !gotFinal && !aborted {
					lastAct = 0
					fed := allFed.Load()
					_, err := ch.NextPackageUntil(wctx, r.Wait, cb)
					if errors.Is(err, tds.ErrNoPackageReady) && !fed && wctx.Err() == nil {
						progress()
						runtime.Gosched()
						continue
					}
					libCalls++
					if (lastAct == 3 || lastAct == 4 || lastAct == 5 || lastAct == 6) && !errors.Is(err, errCB) {
						wcancel()
						return vh.Failf("C03/callback-error-not-returned", "%s: the callback failed (plan action %d) but NextPackageUntil returned %v", where, lastAct, err)
					}
					switch {
					case err == nil:
						if r.Strategy == "nilcb" {
							gotFinal = true // the whole response is consumed by contract
						}
					case err == io.EOF:
						if r.Strategy == "nilcb" {
							gotFinal = true
						}
					case errors.Is(err, errCB):
						aborted = true
						// the server's messages are packages of the response too: those that came
						// before the package the callback failed on are not lost, the error carries
						// them (judged when one call consumed the response up to there)
						if libCalls == 1 {
							k, n := 0, 0
							for _, x := range r.Pkgs {
								if x.EED != nil && x.EED.Status&rc.EEDInfo == 0 {
									k++
									continue
								}
								if respgen.Filtered(x) {
									continue
								}
								if n++; n == len(seen) {
									break
								}
							}
							var ee *tds.EEDError
							if k > 0 && (!errors.As(err, &ee) || len(ee.EEDPackages) < k) {
								have := 0
								if ee != nil {
									have = len(ee.EEDPackages)
								}
								wcancel()
								return vh.Failf("C03/messages-lost-from-callback-error", "%s: the callback failed on package %d; %d server messages precede it in the response, the error carries %d (%v)", where, len(seen), k, have, err)
							}
							if k > 0 {
								vh.Label("callback-error-carries-the-messages")
							}
						}
					default:
						wcancel()
						return vh.Failf(cls("C03/missing-final-done"), "%s: NextPackageUntil returns %v after the callback saw [%s] (expected [%s])", where, err, kinds(seen), respgen.Describe(model))
					}
				}
			}
			return nil
		}
		if hold == 0 {
			if f := consume(); f != nil {
				wcancel()
				return f
			}
		} else {
			res := make(chan *vh.Failure, 1)
			go func() { res <- consume() }()
			// the rest arrives once the consumer is underway (it has been handed a package,
			// or has found nothing ready yet), or blocked in its wait
			select {
			case <-underway:
			case <-time.After(2 * time.Millisecond):
			}
			for i := len(packets) - hold; i < len(packets); i++ {
				time.Sleep(50 * time.Microsecond)
				if f := feed(i, i+1); f != nil {
					wcancel()
					return f
				}
				if i == len(packets)-1 {
					allFed.Store(true)
				}
			}
			select {
			case f := <-res:
				if f != nil {
					wcancel()
					return f
				}
			case <-time.After(patience + 3*time.Second):
				wcancel()
				return vh.Failf("C03/consumer-blocked", "%s: the consumer did not finish although the whole response has arrived", where)
			}
			vh.Label("rest-of-response-arrives-while-consumer-underway")
			if r.Wait {
				vh.Label("consumer-waits")
			} else {
				vh.Label("consumer-polls")
			}
		}
		wcancel()
		// compare what was seen with the model
		if r.Strategy != "nilcb" {
			n := len(seen)
			if !aborted && n != len(want) {
				return vh.Failf("C03/consumer-view-differs", "%s: consumer saw [%s], expected [%s]", where, kinds(seen), respgen.Describe(model))
			}
			if n > len(want) {
				return vh.Failf("C03/consumer-view-differs", "%s: consumer saw more packages [%s] than the response has [%s]", where, kinds(seen), respgen.Describe(model))
			}
			for i := 0; i < n; i++ {
				mi := want[i]
				if err := pkggen.LibEqual(model[mi], fmts[mi], seen[i]); err != nil {
					return vh.Failf("C03/consumer-view-differs", "%s: package %d seen by the consumer (%T) is not package %d of the response: %v", where, i, seen[i], mi, err)
				}
				seenIdx = append(seenIdx, mi)
			}
			finals := 0
			for _, p := range seen {
				if isFinal(p) {
					finals++
				}
			}
			if !aborted && (finals != 1 || !isFinal(seen[len(seen)-1])) {
				return vh.Failf("C03/final-done-count", "%s: %d final DONEs seen, last package %T", where, finals, seen[len(seen)-1])
			}
		}
		// whatever the strategy: the response is consumed completely
		if p, err := ch.NextPackage(bg, false); !errors.Is(err, tds.ErrNoPackageReady) {
			cl := "C03/leftover-after-response"
			if aborted {
				cl = "C03/leftover-after-callback-error"
			}
			return vh.Failf(cl, "%s: after the round the queue still holds %v (err %v); consumer had seen [%s]", where, p, err, kinds(seen))
		}
		if e := ch.VerifChanErr(); e != nil {
			return vh.Failf("C03/channel-error", "%s: channel error queued: %v", where, e)
		}
		if ri > 0 && (prevServerFinal || aborted || len(r.Cuts) > 0) {
			nontrivial = true
		}
		vh.Label("strategy:" + r.Strategy)
		if aborted {
			vh.Label("callback-aborted")
		}
		if emptyOfDeliverables {
			vh.Label("response-without-deliverables")
			if prevServerFinal {
				vh.Label("empty-after-server-final")
			}
		}
		if synthetic {
			vh.Label("synthetic-done")
		} else {
			vh.Label("server-final-done")
		}
		prevServerFinal = serverFinal
	}
	vh.Label(fmt.Sprintf("rounds=%d", len(c.Rounds)))
	if c.Log {
		vh.Label("debug-log-packages")
	}
	if nontrivial {
		vh.NonTrivial(fmt.Sprintf("%+v", c))
	}
	return nil
}

func genRound(rt *rapid.T) round {
	o := respgen.Opts{MaxStatements: 3, MaxEED: 2, MaxEnv: 2}
	switch rapid.IntRange(0, 5).Draw(rt, "shape") {
	case 0:
		o.NoDeliverables = true
	case 1:
		o.Final = 1
	case 2:
		o.Final = 3
	}
	r := round{Pkgs: respgen.Gen(rt, o), Send: rapid.Bool().Draw(rt, "send")}
	stream, _, _, _ := rc.EncodeStream(r.Pkgs)
	if rapid.Bool().Draw(rt, "fragment") {
		r.Cuts = respgen.Cuts(rt, len(stream), true)
	}
	if r.Send && rapid.IntRange(0, 2).Draw(rt, "sendlate") == 0 {
		r.SendAfter = rapid.IntRange(1, 3).Draw(rt, "sendafter")
	}
	if rapid.IntRange(0, 2).Draw(rt, "extrabits") == 0 {
		r.Extra = rapid.SliceOfN(rapid.SampledFrom([]int{0, 0x02, 0x08, 0x0a}), 1, 3).Draw(rt, "extra")
	}
	if len(r.Cuts) > 0 && rapid.IntRange(0, 2).Draw(rt, "hold?") == 0 {
		r.Hold = rapid.IntRange(1, 3).Draw(rt, "hold")
	}
	r.Wait = rapid.IntRange(0, 2).Draw(rt, "wait") == 0
	r.Normal = rapid.IntRange(0, 3).Draw(rt, "normal") == 0
	r.Strategy = rapid.SampledFrom([]string{"next", "until", "until", "nilcb"}).Draw(rt, "strategy")
	if r.Strategy == "until" {
		n := rapid.IntRange(0, 8).Draw(rt, "planlen")
		acts := []int{0, 0, 0, 1, 2, 3, 4, 5}
		if r.Hold == 0 {
			acts = append(acts, 6) // needs the whole response to have arrived
		}
		for i := 0; i < n; i++ {
			r.Plan = append(r.Plan, rapid.SampledFrom(acts).Draw(rt, "act"))
		}
	}
	return r
}

func TestRounds(t *testing.T) {
	gen := func(rt *rapid.T) c03Case {
		n := rapid.IntRange(1, 6).Draw(rt, "rounds")
		var c c03Case
		for i := 0; i < n; i++ {
			c.Rounds = append(c.Rounds, genRound(rt))
		}
		c.Log = rapid.IntRange(0, 3).Draw(rt, "log") == 0
		if n <= 2 && len(fmt.Sprint(c)) < 600 {
			vh.Sample("history", c)
		}
		return c
	}
	vh.Check(t, "TestRounds", vh.N(4000, 100000), gen, runCase)
}

// small exhaustive core: all ordered pairs of 6 response shapes x 3 strategies
func TestShapePairsExhaustive(t *testing.T) {
	e := vh.NewEnum(t, "TestShapePairsExhaustive", runCase)
	if e.Skip() {
		return
	}
	i32 := int32(1)
	done := func(st uint16) rc.P { return rc.P{Done: &rc.Done{Tok: rc.TokDone, Status: st}} }
	env := rc.P{Env: &rc.EnvChange{Members: []rc.EnvMember{{Type: rc.EnvDB, New: "db", Old: "master"}}}}
	info := rc.P{EED: &rc.EED{MsgNumber: 5701, Status: rc.EEDInfo, Msg: "changed database"}}
	eed := rc.P{EED: &rc.EED{MsgNumber: 208, Class: 16, Msg: "not found"}}
	shapes := [][]rc.P{
		{done(rc.DoneFinal)},
		{env},
		{info, env},
		{{RetStat: &i32}, done(rc.DoneProc | rc.DoneCount)},
		{eed, done(rc.DoneError)},
		{{Msg: &rc.Msg{ID: 3}}},
		{{RetStat: &i32}, done(rc.DoneMore), {Msg: &rc.Msg{ID: 4}}, done(rc.DoneFinal), env},
	}
	strategies := []round{{Strategy: "next"}, {Strategy: "until"}, {Strategy: "until", Plan: []int{3}}, {Strategy: "until", Plan: []int{0, 2, 1}}, {Strategy: "until", Plan: []int{4}}, {Strategy: "until", Plan: []int{0, 5}}, {Strategy: "nilcb"}}
	for _, a := range shapes {
		for _, b := range shapes {
			for _, c3 := range shapes {
				for _, sa := range strategies {
					for _, sb := range strategies {
						r1, r2, r3 := sa, sb, round{Strategy: "next"}
						r1.Pkgs, r2.Pkgs, r3.Pkgs = a, b, c3
						if !e.Do(c03Case{Rounds: []round{r1, r2, r3}}) {
							return
						}
					}
				}
			}
		}
	}
	e.Done("all ordered triples of 7 response shapes x 6x6 consumer strategies")
}
