package refcodec

import (
	"errors"
	"fmt"
)

// TDS tokens.
const (
	TokCurDeclare3  = 0x10
	TokParamFmt2    = 0x20
	TokLanguage     = 0x21
	TokOrderBy2     = 0x22
	TokRowFmt2      = 0x61
	TokDynamic2     = 0x62
	TokMsg          = 0x65
	TokLogout       = 0x71
	TokReturnStatus = 0x79
	TokCurClose     = 0x80
	TokCurDelete    = 0x81
	TokCurFetch     = 0x82
	TokCurInfo      = 0x83
	TokCurOpen      = 0x84
	TokCurUpdate    = 0x85
	TokCurDeclare   = 0x86
	TokCurInfo3     = 0x88
	TokOptionCmd    = 0xA6
	TokOrderBy      = 0xA9
	TokError        = 0xAA
	TokLoginAck     = 0xAD
	TokKey          = 0xCA
	TokRow          = 0xD1
	TokParams       = 0xD7
	TokCapability   = 0xE2
	TokEnvChange    = 0xE3
	TokEED          = 0xE5
	TokDynamic      = 0xE7
	TokParamFmt     = 0xEC
	TokRowFmt       = 0xEE
	TokDone         = 0xFD
	TokDoneProc     = 0xFE
	TokDoneInProc   = 0xFF
)

// Done status bits.
const (
	DoneFinal  = 0x0
	DoneMore   = 0x1
	DoneError  = 0x2
	DoneInxact = 0x4
	DoneProc   = 0x8
	DoneCount  = 0x10
	DoneAttn   = 0x20
	DoneEvent  = 0x40
)

const (
	EEDInfo        = 0x2
	ColumnStatus   = 0x8 // format status bit: a status byte precedes each data field
	LogSucceed     = 5
	LogFail        = 6
	LogNegotiate   = 7
	EnvDB          = 1
	EnvLang        = 2
	EnvCharset     = 3
	EnvPackSize    = 4
	MsgHasArgs     = 1
	MsgSecEncrypt4 = 35
	MsgSecLogPwd3  = 31
	MsgSecRemPwd3  = 32
	MsgSecSymKey   = 34
)

// W is a little-endian byte writer.
type W struct{ B []byte }

func (w *W) U8(v uint8)   { w.B = append(w.B, v) }
func (w *W) U16(v uint16) { w.B = le.AppendUint16(w.B, v) }
func (w *W) U32(v uint32) { w.B = le.AppendUint32(w.B, v) }
func (w *W) I32(v int32)  { w.B = le.AppendUint32(w.B, uint32(v)) }
func (w *W) Raw(b []byte) { w.B = append(w.B, b...) }
func (w *W) S8(s string)  { w.U8(uint8(len(s))); w.B = append(w.B, s...) }
func (w *W) S16(s string) { w.U16(uint16(len(s))); w.B = append(w.B, s...) }

// R is a little-endian byte reader with a sticky error.
type R struct {
	B   []byte
	Off int
	Err error
}

var ErrShort = errors.New("refcodec: short input")

func (r *R) take(n int) []byte {
	if r.Err != nil {
		return make([]byte, n)
	}
	if n < 0 || r.Off+n > len(r.B) {
		r.Err = ErrShort
		return make([]byte, max(n, 0))
	}
	b := r.B[r.Off : r.Off+n]
	r.Off += n
	return b
}
func (r *R) U8() uint8          { return r.take(1)[0] }
func (r *R) U16() uint16        { return le.Uint16(r.take(2)) }
func (r *R) U32() uint32        { return le.Uint32(r.take(4)) }
func (r *R) I32() int32         { return int32(r.U32()) }
func (r *R) Bytes(n int) []byte { return append([]byte{}, r.take(n)...) }
func (r *R) S8() string         { return string(r.take(int(r.U8()))) }
func (r *R) S16() string        { return string(r.take(int(r.U16()))) }
func (r *R) Left() int          { return len(r.B) - r.Off }

// ---- package descriptions

type Done struct {
	Tok    byte   `json:"tok"` // TokDone, TokDoneProc, TokDoneInProc
	Status uint16 `json:"status"`
	Tran   uint16 `json:"tran"`
	Count  int32  `json:"count"`
}

type EED struct {
	MsgNumber uint32 `json:"num"`
	State     uint8  `json:"state"`
	Class     uint8  `json:"class"`
	SQLState  []byte `json:"sqlstate"`
	Status    uint8  `json:"status"`
	Tran      uint16 `json:"tran"`
	Msg       string `json:"msg"`
	Server    string `json:"server"`
	Proc      string `json:"proc"`
	Line      uint16 `json:"line"`
}

type ErrTok struct {
	Number int32  `json:"num"`
	State  uint8  `json:"state"`
	Class  uint8  `json:"class"`
	Msg    string `json:"msg"`
	Server string `json:"server"`
	Proc   string `json:"proc"`
	Line   uint16 `json:"line"`
}

type LoginAck struct {
	Status  uint8   `json:"status"`
	Version [4]byte `json:"version"`
	Name    string  `json:"name"`
	ProgVer [4]byte `json:"progver"`
}

type Msg struct {
	Status uint8  `json:"status"`
	ID     uint16 `json:"id"`
}

// CapMask is one value mask of a capability package: capability n is bit n%8 of
// byte len-1-n/8.
type CapMask struct {
	Type uint8  `json:"type"`
	Mask []byte `json:"mask"`
}

type Capability struct {
	Masks []CapMask `json:"masks"`
}

// Has reports whether capability n is set in the mask.
func (m CapMask) Has(n int) bool {
	i := len(m.Mask) - 1 - n/8
	return i >= 0 && m.Mask[i]&(1<<(uint(n)%8)) != 0
}

// Set sets capability n (the mask must be long enough).
func (m *CapMask) Set(n int) { m.Mask[len(m.Mask)-1-n/8] |= 1 << (uint(n) % 8) }

type EnvMember struct {
	Type uint8  `json:"type"`
	New  string `json:"new"`
	Old  string `json:"old"`
}

type EnvChange struct {
	Members []EnvMember `json:"members"`
}

type OrderBy struct {
	Wide bool  `json:"wide"`
	Cols []int `json:"cols"`
}

// Col is one column / parameter format.
type Col struct {
	Label   string `json:"label,omitempty"` // wide row formats only
	Catalog string `json:"catalog,omitempty"`
	Schema  string `json:"schema,omitempty"`
	Table   string `json:"table,omitempty"`
	Name    string `json:"name"`
	Status  uint32 `json:"status"`
	User    int32  `json:"usertype"`
	T       byte   `json:"t"`
	MaxLen  uint32 `json:"maxlen,omitempty"`  // variable-length types
	Prec    uint8  `json:"prec,omitempty"`    // decimal/numeric
	Scale   uint8  `json:"scale,omitempty"`   // decimal/numeric, bigdatetime/bigtime
	TabName string `json:"tabname,omitempty"` // text/image/unitext/xml
	Locale  string `json:"locale,omitempty"`
}

// Fmt is a ROWFMT/ROWFMT2/PARAMFMT/PARAMFMT2 package.
type Fmt struct {
	Tok  byte  `json:"tok"`
	Cols []Col `json:"cols"`
}

func (f Fmt) Wide() bool  { return f.Tok == TokRowFmt2 || f.Tok == TokParamFmt2 }
func (f Fmt) IsRow() bool { return f.Tok == TokRowFmt2 || f.Tok == TokRowFmt }

// Cell is one data field of a row / parameter list.
type Cell struct {
	V
	DStatus uint8  `json:"dstatus,omitempty"` // data status byte (only sent with ColumnStatus)
	TxtPtr  []byte `json:"txtptr,omitempty"`  // text/image family
	TS      []byte `json:"ts,omitempty"`      // 8 bytes timestamp of the text/image family
}

// Row is a ROW or PARAMS package; Fmt is the format in force (not serialised on the wire).
type Row struct {
	Tok   byte   `json:"tok"`
	Cells []Cell `json:"cells"`
}

type Language struct {
	Status uint8  `json:"status"`
	Cmd    string `json:"cmd"`
}

type Dynamic struct {
	Wide   bool   `json:"wide"`
	Type   uint8  `json:"type"`
	Status uint8  `json:"status"`
	ID     string `json:"id"`
	Stmt   string `json:"stmt"`
}

// HasStmt: PREPARE (0x01) and EXEC_IMMED (0x08) carry a statement.
func (d Dynamic) HasStmt() bool { return d.Type&0x01 != 0 || d.Type&0x08 != 0 }

type CurDeclare struct {
	Wide    bool     `json:"wide"`
	Name    string   `json:"name"`
	Options uint32   `json:"options"`
	Status  uint8    `json:"status"`
	Stmt    string   `json:"stmt"`
	Columns []string `json:"columns"`
}

type CurInfo struct {
	Wide      bool   `json:"wide"`
	ID        int32  `json:"id"`
	Name      string `json:"name"`
	Command   uint8  `json:"command"`
	Status    uint32 `json:"status"`
	RowNum    int32  `json:"rownum"`
	TotalRows int32  `json:"totalrows"`
	RowCount  int32  `json:"rowcount"`
}

const CurIStatRowCnt = 0x20

// Cur covers CUROPEN, CURCLOSE, CURFETCH, CURDELETE, CURUPDATE.
type Cur struct {
	Tok    byte   `json:"tok"`
	ID     int32  `json:"id"`
	Name   string `json:"name"`
	Status uint8  `json:"status"` // open status / close options / fetch type / delete status / update status
	RowNum int32  `json:"rownum"` // fetch ABS (5) / REL (6)
	Table  string `json:"table"`  // delete, update
	Stmt   string `json:"stmt"`   // update
}

type OptionCmd struct {
	Cmd    uint8  `json:"cmd"`
	Option uint8  `json:"option"`
	Arg    []byte `json:"arg"`
}

// P is one package: exactly one member is set.
type P struct {
	Done       *Done       `json:"done,omitempty"`
	EED        *EED        `json:"eed,omitempty"`
	Err        *ErrTok     `json:"error,omitempty"`
	LoginAck   *LoginAck   `json:"loginack,omitempty"`
	Msg        *Msg        `json:"msg,omitempty"`
	Cap        *Capability `json:"cap,omitempty"`
	Env        *EnvChange  `json:"env,omitempty"`
	RetStat    *int32      `json:"retstat,omitempty"`
	OrderBy    *OrderBy    `json:"orderby,omitempty"`
	Fmt        *Fmt        `json:"fmt,omitempty"`
	Row        *Row        `json:"row,omitempty"`
	Lang       *Language   `json:"lang,omitempty"`
	Dyn        *Dynamic    `json:"dyn,omitempty"`
	Logout     *uint8      `json:"logout,omitempty"`
	CurDeclare *CurDeclare `json:"curdeclare,omitempty"`
	CurInfo    *CurInfo    `json:"curinfo,omitempty"`
	Cur        *Cur        `json:"cur,omitempty"`
	OptionCmd  *OptionCmd  `json:"optioncmd,omitempty"`
}

// Token returns the token byte the package starts with.
func (p P) Token() byte {
	switch {
	case p.Done != nil:
		return p.Done.Tok
	case p.EED != nil:
		return TokEED
	case p.Err != nil:
		return TokError
	case p.LoginAck != nil:
		return TokLoginAck
	case p.Msg != nil:
		return TokMsg
	case p.Cap != nil:
		return TokCapability
	case p.Env != nil:
		return TokEnvChange
	case p.RetStat != nil:
		return TokReturnStatus
	case p.OrderBy != nil:
		if p.OrderBy.Wide {
			return TokOrderBy2
		}
		return TokOrderBy
	case p.Fmt != nil:
		return p.Fmt.Tok
	case p.Row != nil:
		return p.Row.Tok
	case p.Lang != nil:
		return TokLanguage
	case p.Dyn != nil:
		if p.Dyn.Wide {
			return TokDynamic2
		}
		return TokDynamic
	case p.Logout != nil:
		return TokLogout
	case p.CurDeclare != nil:
		if p.CurDeclare.Wide {
			return TokCurDeclare3
		}
		return TokCurDeclare
	case p.CurInfo != nil:
		if p.CurInfo.Wide {
			return TokCurInfo3
		}
		return TokCurInfo
	case p.Cur != nil:
		return p.Cur.Tok
	case p.OptionCmd != nil:
		return TokOptionCmd
	}
	panic("refcodec: empty package")
}

// Span describes where a field lies in an encoding (for cut classification).
type Span struct {
	Kind string // "token", "length", "count", "string", "value", "fixed"
	Off  int
	Len  int
}

// Enc carries the bytes and the field spans of one encoded package.
type Enc struct {
	B     []byte
	Spans []Span
}

type enc struct {
	W
	spans []Span
}

func (e *enc) mark(kind string, f func()) {
	off := len(e.B)
	f()
	e.spans = append(e.spans, Span{kind, off, len(e.B) - off})
}

// patch16/32 write a length field whose value is the number of bytes that follow it.
func (e *enc) len16(body func()) {
	off := len(e.B)
	e.mark("length", func() { e.U16(0) })
	body()
	le.PutUint16(e.B[off:], uint16(len(e.B)-off-2))
}
func (e *enc) len32(body func()) {
	off := len(e.B)
	e.mark("length", func() { e.U32(0) })
	body()
	le.PutUint32(e.B[off:], uint32(len(e.B)-off-4))
}
func (e *enc) s8(s string) {
	e.mark("length", func() { e.U8(uint8(len(s))) })
	e.mark("string", func() { e.Raw([]byte(s)) })
}
func (e *enc) s16(s string) {
	e.mark("length", func() { e.U16(uint16(len(s))) })
	e.mark("string", func() { e.Raw([]byte(s)) })
}
func (e *enc) s32(s string) {
	e.mark("length", func() { e.U32(uint32(len(s))) })
	e.mark("string", func() { e.Raw([]byte(s)) })
}
func (e *enc) fixed(f func()) { e.mark("fixed", f) }

// hasMaxLen: the format of the type carries a length field.
func hasMaxLen(t byte) bool { return FixedSize(t) == 0 }

func isTxtPtr(t byte) bool { return t == TText || t == TImage || t == TUnitext || t == TXML }

func (e *enc) colTail(c Col) {
	e.fixed(func() { e.U8(c.T) })
	if hasMaxLen(c.T) {
		if LengthPrefix(c.T) == 4 {
			e.mark("length", func() { e.U32(c.MaxLen) })
		} else {
			e.mark("length", func() { e.U8(uint8(c.MaxLen)) })
		}
	}
	switch c.T {
	case TDecN, TNumN:
		e.fixed(func() { e.U8(c.Prec); e.U8(c.Scale) })
	case TBigDateTimeN, TBigTimeN:
		e.fixed(func() { e.U8(c.Scale) })
	case TText, TImage, TUnitext, TXML:
		e.s16(c.TabName)
	}
	e.s8(c.Locale)
}

func (e *enc) fmtPkg(f Fmt) {
	body := func() {
		e.mark("count", func() { e.U16(uint16(len(f.Cols))) })
		for _, c := range f.Cols {
			if f.Tok == TokRowFmt2 {
				e.s8(c.Label)
				e.s8(c.Catalog)
				e.s8(c.Schema)
				e.s8(c.Table)
			}
			e.s8(c.Name)
			if f.Wide() {
				e.fixed(func() { e.U32(c.Status) })
			} else {
				e.fixed(func() { e.U8(uint8(c.Status)) })
			}
			e.fixed(func() { e.I32(c.User) })
			e.colTail(c)
		}
	}
	if f.Wide() {
		e.len32(body)
	} else {
		e.len16(body)
	}
}

// rowPkg needs the format in force.
func (e *enc) rowPkg(r Row, f *Fmt) error {
	if f == nil || len(f.Cols) != len(r.Cells) {
		return fmt.Errorf("refcodec: row with %d cells needs a format with as many columns", len(r.Cells))
	}
	for i, c := range r.Cells {
		col := f.Cols[i]
		if col.Status&ColumnStatus != 0 {
			e.fixed(func() { e.U8(c.DStatus) })
		}
		if isTxtPtr(col.T) {
			e.mark("length", func() { e.U8(uint8(len(c.TxtPtr))) })
			e.mark("value", func() { e.Raw(c.TxtPtr) })
			ts := make([]byte, 8)
			copy(ts, c.TS)
			e.fixed(func() { e.Raw(ts) })
			var data []byte
			if !c.Null {
				var err error
				data, err = Encode(c.V)
				if err != nil {
					return err
				}
			}
			e.mark("length", func() { e.U32(uint32(len(data))) })
			e.mark("value", func() { e.Raw(data) })
			continue
		}
		data, err := Encode(c.V)
		if err != nil {
			return err
		}
		switch LengthPrefix(col.T) {
		case 1:
			e.mark("length", func() { e.U8(uint8(len(data))) })
		case 4:
			e.mark("length", func() { e.U32(uint32(len(data))) })
		}
		e.mark("value", func() { e.Raw(data) })
	}
	return nil
}

// EncodePkg encodes one package (token included). last is the format in force for
// ROW/PARAMS packages.
func EncodePkg(p P, last *Fmt) (Enc, error) {
	e := &enc{}
	e.mark("token", func() { e.U8(p.Token()) })
	switch {
	case p.Done != nil:
		e.fixed(func() { e.U16(p.Done.Status); e.U16(p.Done.Tran); e.I32(p.Done.Count) })
	case p.EED != nil:
		d := p.EED
		e.len16(func() {
			e.fixed(func() { e.U32(d.MsgNumber); e.U8(d.State); e.U8(d.Class) })
			e.mark("length", func() { e.U8(uint8(len(d.SQLState))) })
			e.mark("string", func() { e.Raw(d.SQLState) })
			e.fixed(func() { e.U8(d.Status); e.U16(d.Tran) })
			e.s16(d.Msg)
			e.s8(d.Server)
			e.s8(d.Proc)
			e.fixed(func() { e.U16(d.Line) })
		})
	case p.Err != nil:
		d := p.Err
		e.len16(func() {
			e.fixed(func() { e.I32(d.Number); e.U8(d.State); e.U8(d.Class) })
			e.s16(d.Msg)
			e.s8(d.Server)
			e.s8(d.Proc)
			e.fixed(func() { e.U16(d.Line) })
		})
	case p.LoginAck != nil:
		d := p.LoginAck
		e.len16(func() {
			e.fixed(func() { e.U8(d.Status); e.Raw(d.Version[:]) })
			e.s8(d.Name)
			e.fixed(func() { e.Raw(d.ProgVer[:]) })
		})
	case p.Msg != nil:
		e.mark("length", func() { e.U8(3) })
		e.fixed(func() { e.U8(p.Msg.Status); e.U16(p.Msg.ID) })
	case p.Cap != nil:
		e.len16(func() {
			for _, m := range p.Cap.Masks {
				e.fixed(func() { e.U8(m.Type) })
				e.mark("length", func() { e.U8(uint8(len(m.Mask))) })
				e.mark("value", func() { e.Raw(m.Mask) })
			}
		})
	case p.Env != nil:
		e.len16(func() {
			for _, m := range p.Env.Members {
				e.fixed(func() { e.U8(m.Type) })
				e.s8(m.New)
				e.s8(m.Old)
			}
		})
	case p.RetStat != nil:
		e.fixed(func() { e.I32(*p.RetStat) })
	case p.OrderBy != nil:
		if p.OrderBy.Wide {
			e.len32(func() {
				e.mark("count", func() { e.U16(uint16(len(p.OrderBy.Cols))) })
				for _, c := range p.OrderBy.Cols {
					e.fixed(func() { e.U16(uint16(c)) })
				}
			})
		} else {
			// TDS_ORDERBY: the 2-byte field is the number of columns, one byte each
			e.mark("count", func() { e.U16(uint16(len(p.OrderBy.Cols))) })
			for _, c := range p.OrderBy.Cols {
				e.fixed(func() { e.U8(uint8(c)) })
			}
		}
	case p.Fmt != nil:
		e.fmtPkg(*p.Fmt)
	case p.Row != nil:
		if err := e.rowPkg(*p.Row, last); err != nil {
			return Enc{}, err
		}
	case p.Lang != nil:
		e.len32(func() {
			e.fixed(func() { e.U8(p.Lang.Status) })
			e.mark("string", func() { e.Raw([]byte(p.Lang.Cmd)) })
		})
	case p.Dyn != nil:
		d := p.Dyn
		body := func() {
			e.fixed(func() { e.U8(d.Type); e.U8(d.Status) })
			e.s8(d.ID)
			if d.HasStmt() {
				if d.Wide {
					e.s32(d.Stmt)
				} else {
					e.s16(d.Stmt)
				}
			}
		}
		if d.Wide {
			e.len32(body)
		} else {
			e.len16(body)
		}
	case p.Logout != nil:
		e.fixed(func() { e.U8(*p.Logout) })
	case p.CurDeclare != nil:
		d := p.CurDeclare
		body := func() {
			e.s8(d.Name)
			if d.Wide {
				e.fixed(func() { e.U32(d.Options) })
			} else {
				e.fixed(func() { e.U8(uint8(d.Options)) })
			}
			e.fixed(func() { e.U8(d.Status) })
			if d.Wide {
				e.s32(d.Stmt)
			} else {
				e.s16(d.Stmt)
			}
			e.mark("count", func() { e.U16(uint16(len(d.Columns))) })
			for _, c := range d.Columns {
				e.s8(c)
			}
		}
		if d.Wide {
			e.len32(body)
		} else {
			e.len16(body)
		}
	case p.CurInfo != nil:
		d := p.CurInfo
		e.len16(func() {
			e.fixed(func() { e.I32(d.ID) })
			if d.ID == 0 {
				e.s8(d.Name)
			}
			e.fixed(func() { e.U8(d.Command) })
			if d.Wide {
				e.fixed(func() { e.U32(d.Status); e.I32(d.RowNum); e.I32(d.TotalRows) })
			} else {
				e.fixed(func() { e.U16(uint16(d.Status)) })
			}
			if d.Status&CurIStatRowCnt != 0 {
				e.fixed(func() { e.I32(d.RowCount) })
			}
		})
	case p.Cur != nil:
		d := p.Cur
		e.len16(func() {
			e.fixed(func() { e.I32(d.ID) })
			if d.ID == 0 {
				e.s8(d.Name)
			}
			e.fixed(func() { e.U8(d.Status) })
			switch d.Tok {
			case TokCurFetch:
				if d.Status == 5 || d.Status == 6 {
					e.fixed(func() { e.I32(d.RowNum) })
				}
			case TokCurDelete:
				e.s8(d.Table)
			case TokCurUpdate:
				e.s8(d.Table)
				e.s16(d.Stmt)
			}
		})
	case p.OptionCmd != nil:
		d := p.OptionCmd
		e.len16(func() {
			e.fixed(func() { e.U8(d.Cmd); e.U8(d.Option) })
			e.mark("length", func() { e.U8(uint8(len(d.Arg))) })
			e.mark("value", func() { e.Raw(d.Arg) })
		})
	}
	return Enc{B: e.B, Spans: e.spans}, nil
}

// EncodeStream encodes a list of packages; formats are tracked for rows. It returns
// the bytes and the offset at which each package starts (plus the total length).
func EncodeStream(ps []P) ([]byte, []int, []Span, error) {
	var out []byte
	var offs []int
	var spans []Span
	var last *Fmt
	for _, p := range ps {
		if p.Fmt != nil {
			last = p.Fmt
		}
		e, err := EncodePkg(p, last)
		if err != nil {
			return nil, nil, nil, err
		}
		offs = append(offs, len(out))
		for _, s := range e.Spans {
			spans = append(spans, Span{s.Kind, s.Off + len(out), s.Len})
		}
		out = append(out, e.B...)
	}
	offs = append(offs, len(out))
	return out, offs, spans, nil
}

// ---- decoding (what a conforming peer would read)

func decodeCol(r *R, tok byte) Col {
	var c Col
	wide := tok == TokRowFmt2 || tok == TokParamFmt2
	if tok == TokRowFmt2 {
		c.Label, c.Catalog, c.Schema, c.Table = r.S8(), r.S8(), r.S8(), r.S8()
	}
	c.Name = r.S8()
	if wide {
		c.Status = r.U32()
	} else {
		c.Status = uint32(r.U8())
	}
	c.User = r.I32()
	c.T = r.U8()
	if hasMaxLen(c.T) {
		if LengthPrefix(c.T) == 4 {
			c.MaxLen = r.U32()
		} else {
			c.MaxLen = uint32(r.U8())
		}
	}
	switch c.T {
	case TDecN, TNumN:
		c.Prec, c.Scale = r.U8(), r.U8()
	case TBigDateTimeN, TBigTimeN:
		c.Scale = r.U8()
	case TText, TImage, TUnitext, TXML:
		c.TabName = r.S16()
	}
	c.Locale = r.S8()
	return c
}

// exact runs body on a sub-reader of exactly n bytes and demands it is consumed completely.
func exact(r *R, n int, body func(sr *R)) {
	b := r.take(n)
	if r.Err != nil {
		return
	}
	sr := &R{B: b}
	body(sr)
	if sr.Err != nil {
		r.Err = fmt.Errorf("refcodec: inside a length-prefixed block of %d bytes: %w", n, sr.Err)
	} else if sr.Left() != 0 {
		r.Err = fmt.Errorf("refcodec: length field says %d bytes but the content is %d bytes long", n, sr.Off)
	}
}

// DecodePkg decodes one package from r. last is the format in force.
func DecodePkg(r *R, last *Fmt) (P, error) {
	var p P
	tok := r.U8()
	if r.Err != nil {
		return p, r.Err
	}
	switch tok {
	case TokDone, TokDoneProc, TokDoneInProc:
		p.Done = &Done{Tok: tok, Status: r.U16(), Tran: r.U16(), Count: r.I32()}
	case TokEED:
		d := &EED{}
		exact(r, int(r.U16()), func(r *R) {
			d.MsgNumber, d.State, d.Class = r.U32(), r.U8(), r.U8()
			d.SQLState = r.Bytes(int(r.U8()))
			d.Status, d.Tran = r.U8(), r.U16()
			d.Msg, d.Server, d.Proc, d.Line = r.S16(), r.S8(), r.S8(), r.U16()
		})
		p.EED = d
	case TokError:
		d := &ErrTok{}
		exact(r, int(r.U16()), func(r *R) {
			d.Number, d.State, d.Class = r.I32(), r.U8(), r.U8()
			d.Msg, d.Server, d.Proc, d.Line = r.S16(), r.S8(), r.S8(), r.U16()
		})
		p.Err = d
	case TokLoginAck:
		d := &LoginAck{}
		exact(r, int(r.U16()), func(r *R) {
			d.Status = r.U8()
			copy(d.Version[:], r.take(4))
			d.Name = r.S8()
			copy(d.ProgVer[:], r.take(4))
		})
		p.LoginAck = d
	case TokMsg:
		d := &Msg{}
		exact(r, int(r.U8()), func(r *R) { d.Status, d.ID = r.U8(), r.U16() })
		p.Msg = d
	case TokCapability:
		d := &Capability{}
		exact(r, int(r.U16()), func(r *R) {
			for r.Left() > 0 && r.Err == nil {
				t := r.U8()
				m := r.Bytes(int(r.U8()))
				d.Masks = append(d.Masks, CapMask{Type: t, Mask: m})
			}
		})
		p.Cap = d
	case TokEnvChange:
		d := &EnvChange{}
		exact(r, int(r.U16()), func(r *R) {
			for r.Left() > 0 && r.Err == nil {
				d.Members = append(d.Members, EnvMember{Type: r.U8(), New: r.S8(), Old: r.S8()})
			}
		})
		p.Env = d
	case TokReturnStatus:
		v := r.I32()
		p.RetStat = &v
	case TokOrderBy:
		d := &OrderBy{}
		n := int(r.U16())
		for i := 0; i < n && r.Err == nil; i++ {
			d.Cols = append(d.Cols, int(r.U8()))
		}
		p.OrderBy = d
	case TokOrderBy2:
		d := &OrderBy{Wide: true}
		exact(r, int(r.U32()), func(r *R) {
			n := int(r.U16())
			for i := 0; i < n && r.Err == nil; i++ {
				d.Cols = append(d.Cols, int(r.U16()))
			}
		})
		p.OrderBy = d
	case TokRowFmt, TokRowFmt2, TokParamFmt, TokParamFmt2:
		d := &Fmt{Tok: tok}
		var n int
		if d.Wide() {
			n = int(r.U32())
		} else {
			n = int(r.U16())
		}
		exact(r, n, func(r *R) {
			cnt := int(r.U16())
			for i := 0; i < cnt && r.Err == nil; i++ {
				d.Cols = append(d.Cols, decodeCol(r, tok))
			}
		})
		p.Fmt = d
	case TokRow, TokParams:
		if last == nil {
			return p, errors.New("refcodec: row/params without a format")
		}
		d := &Row{Tok: tok}
		for _, col := range last.Cols {
			var c Cell
			if col.Status&ColumnStatus != 0 {
				c.DStatus = r.U8()
			}
			var data []byte
			if isTxtPtr(col.T) {
				c.TxtPtr = r.Bytes(int(r.U8()))
				c.TS = r.Bytes(8)
				data = r.Bytes(int(r.U32()))
			} else {
				switch LengthPrefix(col.T) {
				case 1:
					data = r.Bytes(int(r.U8()))
				case 4:
					data = r.Bytes(int(r.U32()))
				default:
					data = r.Bytes(FixedSize(col.T))
				}
			}
			if r.Err != nil {
				break
			}
			v, err := Decode(col.T, data, int(col.Prec), int(col.Scale))
			if err != nil {
				return p, err
			}
			c.V = v
			d.Cells = append(d.Cells, c)
		}
		p.Row = d
	case TokLanguage:
		d := &Language{}
		exact(r, int(r.U32()), func(r *R) {
			d.Status = r.U8()
			d.Cmd = string(r.take(r.Left()))
		})
		p.Lang = d
	case TokDynamic, TokDynamic2:
		d := &Dynamic{Wide: tok == TokDynamic2}
		var n int
		if d.Wide {
			n = int(r.U32())
		} else {
			n = int(r.U16())
		}
		exact(r, n, func(r *R) {
			d.Type, d.Status, d.ID = r.U8(), r.U8(), r.S8()
			if d.HasStmt() {
				if d.Wide {
					d.Stmt = string(r.take(int(r.U32())))
				} else {
					d.Stmt = r.S16()
				}
			}
		})
		p.Dyn = d
	case TokLogout:
		v := r.U8()
		p.Logout = &v
	case TokCurDeclare, TokCurDeclare3:
		d := &CurDeclare{Wide: tok == TokCurDeclare3}
		var n int
		if d.Wide {
			n = int(r.U32())
		} else {
			n = int(r.U16())
		}
		exact(r, n, func(r *R) {
			d.Name = r.S8()
			if d.Wide {
				d.Options = r.U32()
			} else {
				d.Options = uint32(r.U8())
			}
			d.Status = r.U8()
			if d.Wide {
				d.Stmt = string(r.take(int(r.U32())))
			} else {
				d.Stmt = r.S16()
			}
			cnt := int(r.U16())
			for i := 0; i < cnt && r.Err == nil; i++ {
				d.Columns = append(d.Columns, r.S8())
			}
		})
		p.CurDeclare = d
	case TokCurInfo, TokCurInfo3:
		d := &CurInfo{Wide: tok == TokCurInfo3}
		exact(r, int(r.U16()), func(r *R) {
			d.ID = r.I32()
			if d.ID == 0 {
				d.Name = r.S8()
			}
			d.Command = r.U8()
			if d.Wide {
				d.Status, d.RowNum, d.TotalRows = r.U32(), r.I32(), r.I32()
			} else {
				d.Status = uint32(r.U16())
			}
			if d.Status&CurIStatRowCnt != 0 {
				d.RowCount = r.I32()
			}
		})
		p.CurInfo = d
	case TokCurOpen, TokCurClose, TokCurFetch, TokCurDelete, TokCurUpdate:
		d := &Cur{Tok: tok}
		exact(r, int(r.U16()), func(r *R) {
			d.ID = r.I32()
			if d.ID == 0 {
				d.Name = r.S8()
			}
			d.Status = r.U8()
			switch tok {
			case TokCurFetch:
				if d.Status == 5 || d.Status == 6 {
					d.RowNum = r.I32()
				}
			case TokCurDelete:
				d.Table = r.S8()
			case TokCurUpdate:
				d.Table = r.S8()
				d.Stmt = r.S16()
			}
		})
		p.Cur = d
	case TokOptionCmd:
		d := &OptionCmd{}
		exact(r, int(r.U16()), func(r *R) {
			d.Cmd, d.Option = r.U8(), r.U8()
			d.Arg = r.Bytes(int(r.U8()))
		})
		p.OptionCmd = d
	default:
		return p, fmt.Errorf("refcodec: unknown token %#x", tok)
	}
	return p, r.Err
}

// DecodeStream decodes a whole token stream.
func DecodeStream(b []byte) ([]P, error) {
	r := &R{B: b}
	var out []P
	var last *Fmt
	for r.Left() > 0 {
		p, err := DecodePkg(r, last)
		if err != nil {
			return out, fmt.Errorf("package %d at offset %d: %w", len(out), r.Off, err)
		}
		if p.Fmt != nil {
			last = p.Fmt
		}
		out = append(out, p)
	}
	return out, nil
}

// ---- packets

const (
	BufLang     = 1
	BufLogin    = 2
	BufResponse = 4
	BufSetup    = 8
	BufClose    = 9
	BufProtAck  = 11
	BufNormal   = 15
	StatEOM     = 0x1
)

type Packet struct {
	Type    byte   `json:"type"`
	Status  byte   `json:"status"`
	Channel uint16 `json:"channel"`
	Nr      byte   `json:"nr"`
	Window  byte   `json:"window"`
	Body    []byte `json:"body"`
	// Len is the header length field as found on the wire (ParsePackets) – equal to
	// 8+len(Body) for every packet this codec writes.
	Len uint16 `json:"len"`
}

// Bytes serialises the packet: type, status, big-endian length, big-endian channel,
// packet number, window, body.
func (p Packet) Bytes() []byte {
	b := make([]byte, 8, 8+len(p.Body))
	b[0], b[1] = p.Type, p.Status
	n := 8 + len(p.Body)
	b[2], b[3] = byte(n>>8), byte(n)
	b[4], b[5] = byte(p.Channel>>8), byte(p.Channel)
	b[6], b[7] = p.Nr, p.Window
	return append(b, p.Body...)
}

// Packetise cuts stream at the given offsets (sorted, each in 0..len) into packets of
// the given type on channel ch; EOM is set on the last packet.
func Packetise(stream []byte, cuts []int, typ byte, ch uint16) []Packet {
	var ps []Packet
	prev := 0
	bounds := append(append([]int{}, cuts...), len(stream))
	for i, c := range bounds {
		if c-prev > 65535-8 {
			panic("refcodec: packet body does not fit the 16-bit header length")
		}
		p := Packet{Type: typ, Channel: ch, Body: append([]byte{}, stream[prev:c]...)}
		if i == len(bounds)-1 {
			p.Status = StatEOM
		}
		ps = append(ps, p)
		prev = c
	}
	return ps
}

// ParsePackets parses consecutive packets; it fails if a header length is below 8 or
// the data ends inside a packet.
func ParsePackets(b []byte) ([]Packet, error) {
	var ps []Packet
	for off := 0; off < len(b); {
		if len(b)-off < 8 {
			return ps, fmt.Errorf("trailing %d bytes do not form a packet header", len(b)-off)
		}
		n := int(b[off+2])<<8 | int(b[off+3])
		if n < 8 {
			return ps, fmt.Errorf("packet at offset %d has header length %d", off, n)
		}
		if off+n > len(b) {
			return ps, fmt.Errorf("packet at offset %d claims %d bytes, only %d left", off, n, len(b)-off)
		}
		ps = append(ps, Packet{Type: b[off], Status: b[off+1], Channel: uint16(b[off+4])<<8 | uint16(b[off+5]), Nr: b[off+6], Window: b[off+7],
			Body: append([]byte{}, b[off+8:off+n]...), Len: uint16(n)})
		off += n
	}
	return ps, nil
}

// ---- login record (TDS 5.0 fixed layout, 568 bytes + capability token follows)

type LoginRecord struct {
	Host, User, Password, HostProc string
	Int2, Int4, Char, Flt, Date    byte
	UseDB, DmpLd, Interface, Type  byte
	AppName, ServName              string
	RemPw                          []byte
	RemPwLen                       byte
	TDSVersion                     [4]byte
	ProgName                       string
	ProgVersion                    [4]byte
	NoShort, Flt4, Date4           byte
	Language                       string
	SetLang                        byte
	SecLogin, SecBulk, HALogin     byte
	Charset                        string
	SetCharset                     byte
	PacketSize                     string
	// PasswordSlot is the raw 30+1 bytes of the password field.
	PasswordSlot []byte
}

const LoginRecordSize = 568

// padded field: n bytes of text, then 1 byte length
func lrString(r *R, n int) (string, error) {
	raw := r.take(n)
	l := int(r.U8())
	if r.Err != nil {
		return "", r.Err
	}
	if l > n {
		return "", fmt.Errorf("login record: length byte %d exceeds field size %d", l, n)
	}
	for _, x := range raw[l:] {
		if x != 0 {
			return "", fmt.Errorf("login record: padding of a %d-byte field is not zero", n)
		}
	}
	return string(raw[:l]), nil
}

// DecodeLoginRecord decodes the fixed-layout login record by offsets.
func DecodeLoginRecord(b []byte) (LoginRecord, error) {
	var lr LoginRecord
	if len(b) < LoginRecordSize {
		return lr, fmt.Errorf("login record: %d bytes, need %d", len(b), LoginRecordSize)
	}
	r := &R{B: b[:LoginRecordSize]}
	var err error
	get := func(n int) string {
		if err != nil {
			return ""
		}
		var s string
		s, err = lrString(r, n)
		return s
	}
	lr.Host = get(30)
	lr.User = get(30)
	lr.PasswordSlot = append([]byte{}, b[62:93]...)
	lr.Password = get(30)
	lr.HostProc = get(30)
	lr.Int2, lr.Int4, lr.Char, lr.Flt, lr.Date = r.U8(), r.U8(), r.U8(), r.U8(), r.U8()
	lr.UseDB, lr.DmpLd, lr.Interface, lr.Type = r.U8(), r.U8(), r.U8(), r.U8()
	r.take(4) // bufsize
	r.take(3) // spare
	lr.AppName = get(30)
	lr.ServName = get(30)
	lr.RemPw = r.Bytes(255)
	lr.RemPwLen = r.U8()
	copy(lr.TDSVersion[:], r.take(4))
	lr.ProgName = get(10)
	copy(lr.ProgVersion[:], r.take(4))
	lr.NoShort, lr.Flt4, lr.Date4 = r.U8(), r.U8(), r.U8()
	lr.Language = get(30)
	lr.SetLang = r.U8()
	r.take(2) // oldsecure
	lr.SecLogin, lr.SecBulk, lr.HALogin = r.U8(), r.U8(), r.U8()
	r.take(6) // ha session id
	r.take(2) // secspare
	lr.Charset = get(30)
	lr.SetCharset = r.U8()
	lr.PacketSize = get(6)
	r.take(4) // dummy
	if err != nil {
		return lr, err
	}
	if r.Err != nil {
		return lr, r.Err
	}
	if r.Left() != 0 {
		return lr, fmt.Errorf("login record: offset table ends at %d, expected %d", r.Off, LoginRecordSize)
	}
	return lr, nil
}

func max(a, b int) int {
	if a > b {
		return a
	}
	return b
}
