package c10

import (
	"encoding/binary"
	"fmt"
	"testing"

	"github.com/SAP/go-dblib/asetypes"
	"github.com/SAP/go-dblib/tds"
	"pgregory.net/rapid"
	rc "verif/internal/refcodec"
	"verif/internal/vh"
)

// valueCase: the data type byte and the data bytes handed to GoValue. Fill names how
// Data was made (the enumeration derives Data from Fill and Len, replays carry Data).
type valueCase struct {
	T    byte   `json:"t"`
	Len  int    `json:"len"`
	Fill string `json:"fill"`
	Data []byte `json:"data"`
}

var fills = []string{"zero", "ff", "counter", "one-led"}

func fillBytes(fill string, n int) []byte {
	b := make([]byte, n)
	switch fill {
	case "ff":
		for i := range b {
			b[i] = 0xff
		}
	case "counter":
		for i := range b {
			b[i] = byte(i + 1)
		}
	case "one-led":
		// 0x01 first: the sign byte of numerics and the true of BIT
		if n > 0 {
			b[0] = 1
		}
		for i := 1; i < n; i++ {
			b[i] = byte(0x80 + i)
		}
	}
	return b
}

// knownType: the library has a field format for the data type, i.e. a server can
// make it parse data of this type.
func knownType(t byte) bool {
	_, err := tds.LookupFieldFmt(asetypes.DataType(t))
	return err == nil
}

// legalLen: n is a length a conforming server sends for the type.
func legalLen(t byte, n int) bool {
	if fs := rc.FixedSize(t); fs > 0 {
		return n == fs
	}
	switch t {
	case rc.TIntN, rc.TUintN:
		return n == 0 || n == 1 || n == 2 || n == 4 || n == 8
	case rc.TFltN, rc.TMoneyN, rc.TDateTimeN:
		return n == 0 || n == 4 || n == 8
	case rc.TDateN, rc.TTimeN:
		return n == 0 || n == 4
	case rc.TBigDateTimeN, rc.TBigTimeN:
		return n == 0 || n == 8
	case rc.TDecN, rc.TNumN:
		return n == 0 || n >= 2 && n <= 33
	case rc.TUnitext:
		return n%2 == 0
	}
	return true
}

func runValue(c valueCase) *vh.Failure {
	data := c.Data
	if data == nil && c.Len > 0 {
		data = fillBytes(c.Fill, c.Len)
	}
	dt := asetypes.DataType(c.T)
	var val interface{}
	var err error
	if p := try(func() { val, err = dt.GoValue(binary.LittleEndian, data) }); p != nil {
		// one root cause per data type: the arm of that type slices or indexes
		// before it has looked at the length
		return vh.Failf(fmt.Sprintf("C10/panic-govalue-%s-%s", dt, p.Kind), "GoValue(%s, %d bytes: %s): %v", dt, len(data), hexHead(data, 16), p)
	}
	outcome := "value"
	switch {
	case err != nil:
		outcome = "error"
		if val != nil {
			return vh.Failf("C10/govalue-value-and-error", "GoValue(%s, %d bytes) returned both a value (%T) and an error (%v)", dt, len(data), val, err)
		}
	case val == nil:
		outcome = "null"
	}
	vh.Label("value:" + outcome)
	if knownType(c.T) {
		vh.Label("value:known-type")
		if !legalLen(c.T, len(data)) {
			vh.Label("value:illegal-length-" + outcome)
			vh.NonTrivial(fmt.Sprintf("v|%d|%d|%s", c.T, len(data), outcome))
		}
	}
	return nil
}

// TestValueExhaustive: every byte value as data type x every data length 0..255 x
// four contents.
func TestValueExhaustive(t *testing.T) {
	vh.Sample("value", valueCase{T: rc.TDateN, Len: 2, Fill: "counter"})
	vh.Sample("value", valueCase{T: rc.TBigDateTimeN, Len: 8, Fill: "ff"})
	enumRounds(t, "TestValueExhaustive", "every data type byte 0..255 x every data length 0..255 x contents zero/ff/counter/one-led", runValue, func(yield func(valueCase) bool) {
		i := 0
		for n := 0; n <= 255; n++ {
			for ty := 0; ty <= 255; ty++ {
				i++
				if !vh.Mine(i) {
					continue
				}
				for _, f := range fills {
					if n == 0 && f != "zero" {
						continue
					}
					if !yield(valueCase{T: byte(ty), Len: n, Fill: f}) {
						return
					}
				}
			}
		}
	})
}

var knownTypes = func() []byte {
	var out []byte
	for t := 0; t < 256; t++ {
		if knownType(byte(t)) {
			out = append(out, byte(t))
		}
	}
	return out
}()

func genValue(rt *rapid.T) valueCase {
	var ty byte
	if rapid.IntRange(0, 9).Draw(rt, "anytype") == 0 {
		ty = rapid.Byte().Draw(rt, "type")
	} else {
		ty = rapid.SampledFrom(knownTypes).Draw(rt, "knowntype")
	}
	var n int
	switch rapid.IntRange(0, 9).Draw(rt, "lenclass") {
	case 0:
		n = rapid.IntRange(256, 1024).Draw(rt, "longlen")
	case 1, 2, 3:
		n = rapid.IntRange(0, 9).Draw(rt, "shortlen")
	default:
		n = rapid.IntRange(0, 255).Draw(rt, "len")
	}
	data := rapid.SliceOfN(rapid.Byte(), n, n).Draw(rt, "data")
	return valueCase{T: ty, Len: n, Fill: "random", Data: data}
}

// TestValueRandom: rapid-drawn contents (and lengths beyond 255).
func TestValueRandom(t *testing.T) {
	checkRounds(t, "TestValueRandom", vh.N(60000, 800000), genValue, runValue)
}
