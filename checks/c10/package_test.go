package c10

import (
	"encoding/binary"
	"fmt"
	"testing"

	"pgregory.net/rapid"
	"verif/internal/pkggen"
	rc "verif/internal/refcodec"
	"verif/internal/vh"
)

// pkgCase is a token stream plus the description of how it was derived from a valid
// encoding (for labels only: the run is a function of Stream and Big).
type pkgCase struct {
	Stream []byte `json:"stream"`
	Big    bool   `json:"big,omitempty"` // a length field was set to 2^16 or more: measure allocation
	Mut    mutDesc
}

type mutDesc struct {
	Mode string `json:"mode"`           // valid, span, truncate, delete, insert, trailing, arbitrary, rowbytes
	Kind string `json:"kind,omitempty"` // package kind of the valid encoding
	Tok  byte   `json:"tok"`            // token of the package that was corrupted
	Span string `json:"span,omitempty"` // kind of the corrupted span
	Repl string `json:"repl,omitempty"` // replacement class
}

func (m mutDesc) nontrivial() bool {
	switch m.Mode {
	case "valid", "":
		return false
	case "span":
		return m.Span != "token"
	}
	return true
}

func runPkg(c pkgCase) *vh.Failure {
	res, f := checkStream(c.Stream, c.Big)
	if f != nil {
		return f
	}
	outcome := res.Outcome
	if res.Panic != nil {
		outcome = "excluded"
	}
	vh.Label("pkg:" + c.Mut.Mode + ":" + outcome)
	if c.Mut.Span != "" {
		vh.Label("pkg:span-" + c.Mut.Span)
	}
	if c.Mut.nontrivial() && (res.Packages > 0 || res.LastTok != 0 || len(c.Stream) > 1) {
		vh.NonTrivial(fmt.Sprintf("p|%s|%d|%s|%s|%s", c.Mut.Mode, c.Mut.Tok, c.Mut.Span, c.Mut.Repl, outcome))
	}
	return nil
}

// ---- valid encodings

// genValid draws a short sequence of packages ending in one of the given kind (rows
// and parameters behind their format, ORDERBY behind a row format).
func genValid(rt *rapid.T, kind string) []rc.P {
	ctx := &pkggen.Ctx{Small: rapid.IntRange(0, 3).Draw(rt, "small") != 0}
	switch kind {
	case "row":
		f, r, _ := pkggen.GenWithFormat(rt, rapid.SampledFrom([]string{"rowfmt", "rowfmt2"}).Draw(rt, "fmtkind"), ctx)
		return []rc.P{f, r}
	case "params":
		f, r, _ := pkggen.GenWithFormat(rt, rapid.SampledFrom([]string{"paramfmt", "paramfmt2"}).Draw(rt, "fmtkind"), ctx)
		return []rc.P{f, r}
	case "orderby", "orderby2":
		f := pkggen.Gen(rt, rapid.SampledFrom([]string{"rowfmt", "rowfmt2"}).Draw(rt, "fmtkind"), ctx)
		return []rc.P{f, pkggen.Gen(rt, kind, ctx)}
	}
	return []rc.P{pkggen.Gen(rt, kind, ctx)}
}

func encode(ps []rc.P) ([]byte, []int, []rc.Span) {
	stream, offs, spans, err := rc.EncodeStream(ps)
	if err != nil {
		vh.HarnessBug("reference encoder rejects a generated package: %v", err)
	}
	return stream, offs, spans
}

// ---- mutation of one field

var le = binary.LittleEndian

func putUint(w int, v uint64) []byte {
	b := make([]byte, 8)
	le.PutUint64(b, v)
	return b[:w]
}

func getUint(b []byte) uint64 {
	var x [8]byte
	copy(x[:], b)
	return le.Uint64(x[:])
}

// replacement draws the new content of a span of the given kind. Integer-sized spans
// get boundary values of their width; 4-byte length and count fields are drawn up to
// 2^27 unless the tree is known to check availability before it allocates (then also
// 0x7fffffff, 0x80000000 and 0xffffffff).
func replacement(rt *rapid.T, kind string, orig []byte) (repl []byte, class string, big bool) {
	w := len(orig)
	lengthLike := kind == "length" || kind == "count"
	switch w {
	case 1, 2, 4, 8:
		max := uint64(1)<<(8*uint(w)) - 1
		if w == 8 {
			max = ^uint64(0)
		}
		o := getUint(orig)
		classes := []string{"zero", "one", "ff", "7f", "80", "plus1", "minus1", "random"}
		if w == 4 && lengthLike {
			classes = []string{"zero", "one", "plus1", "minus1", "255", "256", "65535", "65536", "2^27", "random27"}
			if !treeUnsafe() {
				classes = append(classes, "ff", "7f", "80")
			}
		}
		class = rapid.SampledFrom(classes).Draw(rt, "repl")
		var v uint64
		switch class {
		case "zero":
			v = 0
		case "one":
			v = 1
		case "ff":
			v = max
		case "7f":
			v = max >> 1
		case "80":
			v = max>>1 + 1
		case "plus1":
			v = (o + 1) & max
		case "minus1":
			v = (o - 1) & max
		case "255":
			v = 255
		case "256":
			v = 256
		case "65535":
			v = 65535
		case "65536":
			v = 65536
		case "2^27":
			v = 1 << 27
		case "random27":
			v = uint64(rapid.IntRange(0, 1<<27).Draw(rt, "v27"))
		case "random":
			v = rapid.Uint64().Draw(rt, "v") & max
		}
		if w == 4 && lengthLike && treeUnsafe() && v > 1<<27 {
			// plus1/minus1 of an already large original
			v = 1 << 27
		}
		return putUint(w, v), class, lengthLike && v >= 1<<16
	case 0:
		return nil, "empty", false
	}
	class = rapid.SampledFrom([]string{"zeros", "ffs", "random", "onebyte"}).Draw(rt, "repl")
	repl = append([]byte{}, orig...)
	switch class {
	case "zeros":
		for i := range repl {
			repl[i] = 0
		}
	case "ffs":
		for i := range repl {
			repl[i] = 0xff
		}
	case "random":
		if w <= 64 {
			repl = rapid.SliceOfN(rapid.Byte(), w, w).Draw(rt, "bytes")
		} else {
			// long strings: random head, rest kept
			copy(repl, rapid.SliceOfN(rapid.Byte(), 64, 64).Draw(rt, "bytes"))
		}
	case "onebyte":
		repl[rapid.IntRange(0, w-1).Draw(rt, "at")] = rapid.Byte().Draw(rt, "b")
	}
	return repl, class, false
}

func tokenAt(stream []byte, offs []int, off int) byte {
	for i := 0; i+1 < len(offs); i++ {
		if off >= offs[i] && off < offs[i+1] {
			return stream[offs[i]]
		}
	}
	if len(offs) >= 2 {
		return stream[offs[len(offs)-2]]
	}
	return 0
}

// mutate derives an invalid (or at least different) stream from a valid encoding by
// ONE change. modes restricts the kinds of change.
func mutate(rt *rapid.T, stream []byte, offs []int, spans []rc.Span, kind string, modes []string) pkgCase {
	c := pkgCase{Mut: mutDesc{Kind: kind, Tok: tokenAt(stream, offs, len(stream)-1)}}
	mode := rapid.SampledFrom(modes).Draw(rt, "mode")
	c.Mut.Mode = mode
	out := append([]byte{}, stream...)
	boundary := func(label string) int {
		// an offset at a field boundary, or one byte beside it, or anywhere
		if len(spans) > 0 && rapid.IntRange(0, 2).Draw(rt, label+"-atfield") != 0 {
			s := spans[rapid.IntRange(0, len(spans)-1).Draw(rt, label+"-span")]
			at := s.Off + rapid.SampledFrom([]int{0, s.Len, -1, 1, s.Len - 1, s.Len + 1}).Draw(rt, label+"-delta")
			if at < 0 {
				at = 0
			}
			if at > len(stream) {
				at = len(stream)
			}
			c.Mut.Span = s.Kind
			return at
		}
		return rapid.IntRange(0, len(stream)).Draw(rt, label)
	}
	switch mode {
	case "valid":
	case "span":
		// prefer the spans of the last package (the kind under test), but corrupt
		// the preceding format now and then
		cand := spans
		if len(offs) > 2 && rapid.IntRange(0, 3).Draw(rt, "inlast") != 0 {
			cand = nil
			for _, s := range spans {
				if s.Off >= offs[len(offs)-2] {
					cand = append(cand, s)
				}
			}
		}
		var nz []rc.Span
		for _, s := range cand {
			if s.Len > 0 {
				nz = append(nz, s)
			}
		}
		if len(nz) == 0 {
			c.Mut.Mode = "valid"
			break
		}
		s := nz[rapid.IntRange(0, len(nz)-1).Draw(rt, "span")]
		repl, class, big := replacement(rt, s.Kind, stream[s.Off:s.Off+s.Len])
		copy(out[s.Off:], repl)
		c.Mut.Span, c.Mut.Repl, c.Big = s.Kind, class, big
		c.Mut.Tok = tokenAt(stream, offs, s.Off)
	case "truncate":
		at := boundary("cut")
		if at >= len(stream) && len(stream) > 0 {
			at = len(stream) - 1
		}
		out = out[:at]
		c.Mut.Repl = "cut"
	case "delete":
		if len(stream) == 0 {
			break
		}
		at := boundary("del")
		if at >= len(stream) {
			at = len(stream) - 1
		}
		out = append(out[:at], out[at+1:]...)
		c.Mut.Repl = "del"
	case "insert":
		at := boundary("ins")
		b := rapid.SampledFrom([]byte{0, 1, 0xff, 0x7f, 0x80}).Draw(rt, "insbyte")
		out = append(out[:at], append([]byte{b}, out[at:]...)...)
		c.Mut.Repl = "ins"
	case "trailing":
		var tail []byte
		switch rapid.IntRange(0, 2).Draw(rt, "tailclass") {
		case 0:
			tail = rapid.SliceOfN(rapid.Byte(), 1, 12).Draw(rt, "tail")
		case 1:
			// a known token with nothing behind it
			tail = []byte{rapid.SampledFrom(knownTokens).Draw(rt, "tailtok")}
		default:
			// the stream once more, cut short
			n := rapid.IntRange(1, len(stream)).Draw(rt, "again")
			tail = stream[:n]
		}
		out = append(out, tail...)
		c.Mut.Repl = "tail"
	}
	c.Stream = out
	return c
}

var knownTokens = []byte{rc.TokCurDeclare3, rc.TokParamFmt2, rc.TokLanguage, rc.TokOrderBy2, rc.TokRowFmt2, rc.TokDynamic2, rc.TokMsg, rc.TokLogout,
	rc.TokReturnStatus, rc.TokCurClose, rc.TokCurDelete, rc.TokCurFetch, rc.TokCurInfo, rc.TokCurOpen, rc.TokCurUpdate, rc.TokCurDeclare, rc.TokCurInfo3,
	rc.TokOptionCmd, rc.TokOrderBy, rc.TokError, rc.TokLoginAck, rc.TokKey, rc.TokRow, rc.TokParams, rc.TokCapability, rc.TokEnvChange, rc.TokEED,
	rc.TokDynamic, rc.TokParamFmt, rc.TokRowFmt, rc.TokDone, rc.TokDoneProc, rc.TokDoneInProc}

var allModes = []string{"span", "span", "span", "span", "truncate", "delete", "insert", "trailing", "valid"}

func genMutated(kind string) func(rt *rapid.T) pkgCase {
	return func(rt *rapid.T) pkgCase {
		ps := genValid(rt, kind)
		stream, offs, spans := encode(ps)
		c := mutate(rt, stream, offs, spans, kind, allModes)
		if len(c.Stream) < 200 {
			vh.Sample("pkg-"+c.Mut.Mode, c)
		}
		return c
	}
}

// TestPackageMutated: per package kind, valid encodings with one field replaced,
// truncated, shifted by one byte, or followed by garbage.
func TestPackageMutated(t *testing.T) {
	for _, kind := range pkggen.AllKinds {
		kind := kind
		t.Run(kind, func(t *testing.T) {
			checkRounds(t, "TestPackageMutated/"+kind, vh.N(2500, 40000), genMutated(kind), runPkg)
		})
	}
}

// ---- arbitrary bytes behind every token

func genBytes(rt *rapid.T, label string, max int) []byte {
	switch rapid.IntRange(0, 3).Draw(rt, label+"-class") {
	case 0:
		// small values: plausible lengths and counts
		n := rapid.IntRange(0, max).Draw(rt, label+"-n")
		return rapid.SliceOfN(rapid.SampledFrom([]byte{0, 0, 0, 1, 2, 3, 4, 8, 0x10, 0x7f, 0x80, 0xff}), n, n).Draw(rt, label)
	case 1:
		n := rapid.IntRange(0, 8).Draw(rt, label+"-n")
		return rapid.SliceOfN(rapid.Byte(), n, n).Draw(rt, label)
	}
	n := rapid.IntRange(0, max).Draw(rt, label+"-n")
	return rapid.SliceOfN(rapid.Byte(), n, n).Draw(rt, label)
}

func genArbitrary(rt *rapid.T) pkgCase {
	var tok byte
	if rapid.IntRange(0, 2).Draw(rt, "anytok") == 0 {
		tok = rapid.Byte().Draw(rt, "tok")
	} else {
		tok = rapid.SampledFrom(knownTokens).Draw(rt, "knowntok")
	}
	max := 48
	if rapid.IntRange(0, 15).Draw(rt, "long") == 0 {
		max = 700 // beyond the 512 bytes a TokenlessPackage reads at once
	}
	body := genBytes(rt, "body", max)
	c := pkgCase{Stream: append([]byte{tok}, body...), Mut: mutDesc{Mode: "arbitrary", Tok: tok, Span: "body"}}
	if len(body) >= 4 {
		c.Mut.Repl = fmt.Sprintf("len%d", bitlen(le.Uint32(body)))
	}
	return c
}

func bitlen(v uint32) int {
	n := 0
	for ; v != 0; v >>= 1 {
		n++
	}
	return n
}

// TestPackageArbitrary: every token followed by arbitrary bytes.
func TestPackageArbitrary(t *testing.T) {
	// every token with nothing, zeros and 0xff behind it
	enumRounds(t, "TestPackageArbitraryEnum", "every token 0..255 followed by nothing, by 1..12 bytes of 0x00, of 0xff and of 0x01", runPkg, func(yield func(pkgCase) bool) {
		i := 0
		for tok := 0; tok <= 255; tok++ {
			for n := 0; n <= 12; n++ {
				for _, fill := range []byte{0, 0xff, 1} {
					i++
					if !vh.Mine(i) || n == 0 && fill != 0 {
						continue
					}
					s := []byte{byte(tok)}
					for k := 0; k < n; k++ {
						s = append(s, fill)
					}
					if !yield(pkgCase{Stream: s, Mut: mutDesc{Mode: "arbitrary", Tok: byte(tok), Span: "body", Repl: fmt.Sprintf("fill%d-%d", fill, n)}}) {
						return
					}
				}
			}
		}
	})
	checkRounds(t, "TestPackageArbitrary", vh.N(25000, 500000), genArbitrary, runPkg)
}

// ---- a format followed by arbitrary row bytes

func genRowBytes(rt *rapid.T) pkgCase {
	fk := rapid.SampledFrom([]string{"rowfmt", "rowfmt2", "paramfmt", "paramfmt2"}).Draw(rt, "fmtkind")
	ctx := &pkggen.Ctx{Small: true}
	f := pkggen.Gen(rt, fk, ctx)
	if len(f.Fmt.Cols) == 0 || rapid.IntRange(0, 2).Draw(rt, "withrow") == 0 {
		var r rc.P
		f, r, _ = pkggen.GenWithFormat(rt, fk, ctx)
		_ = r
	}
	stream, _, _ := encode([]rc.P{f})
	rowTok := byte(rc.TokRow)
	if !f.Fmt.IsRow() {
		rowTok = rc.TokParams
	}
	if rapid.IntRange(0, 9).Draw(rt, "othertok") == 0 {
		rowTok = rapid.SampledFrom([]byte{rc.TokRow, rc.TokParams, rc.TokOrderBy, rc.TokOrderBy2}).Draw(rt, "rowtok")
	}
	c := pkgCase{Mut: mutDesc{Mode: "rowbytes", Kind: fk, Tok: rowTok, Span: "value"}}
	rows := rapid.IntRange(1, 2).Draw(rt, "rows")
	out := append([]byte{}, stream...)
	for i := 0; i < rows; i++ {
		out = append(out, rowTok)
		out = append(out, genBytes(rt, "rowbytes", 60)...)
	}
	if len(f.Fmt.Cols) > 0 {
		c.Mut.Repl = fmt.Sprintf("t%#x", f.Fmt.Cols[0].T)
	}
	c.Stream = out
	if len(out) < 200 {
		vh.Sample("pkg-rowbytes", c)
	}
	return c
}

// TestFormatThenRowBytes: a valid format package followed by a row / parameter token
// and arbitrary bytes.
func TestFormatThenRowBytes(t *testing.T) {
	checkRounds(t, "TestFormatThenRowBytes", vh.N(15000, 300000), genRowBytes, runPkg)
}

// TestAllocProbe: a LANGUAGE package that announces 2^27 bytes and carries two.
func TestAllocProbe(t *testing.T) {
	enumRounds(t, "TestAllocProbe", "length fields announcing 2^27 bytes in front of two", runPkg, func(yield func(pkgCase) bool) {
		if !vh.Mine(0) {
			return
		}
		yield(pkgCase{Stream: probeStream(), Big: true, Mut: mutDesc{Mode: "span", Kind: "language", Tok: rc.TokLanguage, Span: "length", Repl: "2^27"}})
	})
}
