// C06 — package encodings are self-consistent and match their wire layout.
package c06

import (
	"bytes"
	"fmt"
	"reflect"
	"strings"
	"testing"

	"github.com/SAP/go-dblib/dsn"
	"github.com/SAP/go-dblib/tds"
	"pgregory.net/rapid"
	"verif/internal/flatch"
	"verif/internal/pkggen"
	rc "verif/internal/refcodec"
	"verif/internal/valgen"
	"verif/internal/vh"
)

func TestMain(m *testing.M) {
	vh.Rule("rapid, per package kind (30 kinds: all tokens of LookupPackage in narrow and wide variants): a package description is drawn (all optional parts, string lengths 0..max of each prefix with boundary bias, formats and rows over all data types incl. NULLs), encoded by the independent reference codec and decoded by the library from a flat BytesChannel (must consume exactly the bytes, fields equal); where the type has a writer the library re-encodes it and the independent decoder must recover every field (so every length/count field equals what follows it) and the library must read back its own output exactly; packages are also built through the exported client API and written; capability: every single bit exhaustively in both directions plus random subsets; login record: every field length 0..31, decoded by an offset table. Non-trivial: the package has a variable-length or optional part present; distinct by the package description")
	vh.Assume("the reference codec is my reading of the TDS 5.0 token layouts; data status byte is generated as 0 (NULL short forms driven by the status byte are not exercised); BLOB formats are not generated (recorded finding class C06/blob-format-accounting is excluded by construction)")
	vh.Rule("also: every client-built package is printed and written a second time (same bytes, same fields)")
	vh.Rule("also: client-built cursor packages addressed by id are written once more with the (unused) cursor name set as well: same bytes")
	vh.Rule("also: rows preceded by their format, an ORDERBY / ORDERBY2 package and / or an earlier row")
	vh.Main(m, "C06")
}

type pkgCase struct {
	// Pkgs is a short sequence: an optional format followed by the package under test
	// (rows need their format in force).
	Pkgs []rc.P `json:"pkgs"`
}

func class(kind, what string) string { return "C06/" + kind + "-" + what }

var hasWriter = map[string]bool{"done": true, "eed": true, "error": true, "loginack": true, "msg": true, "paramfmt": true, "paramfmt2": true, "params": true, "row": true,
	"capability": true, "envchange": true, "language": true, "logout": true, "dynamic": true, "dynamic2": true, "curdeclare": true, "curdeclare3": true,
	"curinfo": true, "curinfo3": true, "curopen": true, "curfetch": true, "curupdate": true, "curdelete": true}

func nontrivial(p rc.P) bool {
	switch {
	case p.Done != nil, p.Msg != nil, p.RetStat != nil, p.Logout != nil:
		return false
	}
	return true
}

func descEqual(a, b rc.P) bool {
	// nil vs empty slices do not matter on the wire
	return fmt.Sprintf("%+v", normP(a)) == fmt.Sprintf("%+v", normP(b))
}

func normP(p rc.P) string {
	var sb bytes.Buffer
	v := reflect.ValueOf(p)
	for i := 0; i < v.NumField(); i++ {
		f := v.Field(i)
		if !f.IsNil() {
			fmt.Fprintf(&sb, "%s:%s", v.Type().Field(i).Name, dump(f.Elem()))
		}
	}
	return sb.String()
}

func dump(v reflect.Value) string {
	if eed, ok := v.Interface().(rc.EED); ok {
		// the library's reader strips one trailing newline of the message text
		eed.Msg = strings.TrimSuffix(eed.Msg, "\n")
		type plain rc.EED
		return dump(reflect.ValueOf(plain(eed)))
	}
	if cell, ok := v.Interface().(rc.Cell); ok {
		// values are compared by their wire form (a NULL loses width and precision)
		enc, err := rc.Encode(cell.V)
		ts := make([]byte, 8)
		copy(ts, cell.TS)
		return fmt.Sprintf("cell(%x|%v|%x|%x|%d)", enc, err, cell.TxtPtr, ts, cell.DStatus)
	}
	switch v.Kind() {
	case reflect.Struct:
		s := "{"
		for i := 0; i < v.NumField(); i++ {
			s += v.Type().Field(i).Name + "=" + dump(v.Field(i)) + ";"
		}
		return s + "}"
	case reflect.Slice:
		if v.Type().Elem().Kind() == reflect.Uint8 {
			return fmt.Sprintf("%x", v.Bytes())
		}
		s := "["
		for i := 0; i < v.Len(); i++ {
			s += dump(v.Index(i)) + ","
		}
		return s + "]"
	case reflect.Array:
		s := "["
		for i := 0; i < v.Len(); i++ {
			s += dump(v.Index(i)) + ","
		}
		return s + "]"
	}
	return fmt.Sprintf("%v", v.Interface())
}

// capabilities are compared by bits (mask lengths may differ by leading zero bytes)
func capDescEqual(a, b *rc.Capability) bool {
	fin := func(c *rc.Capability) map[uint8]rc.CapMask {
		m := map[uint8]rc.CapMask{}
		for _, x := range c.Masks {
			m[x.Type] = x
		}
		return m
	}
	fa, fb := fin(a), fin(b)
	for t, ma := range fa {
		mb, ok := fb[t]
		empty := true
		for _, x := range ma.Mask {
			if x != 0 {
				empty = false
			}
		}
		if !ok {
			if empty {
				continue // the writer omits empty masks
			}
			return false
		}
		for n := 0; n < 8*len(ma.Mask)+8 || n < 8*len(mb.Mask)+8; n++ {
			if ma.Has(n) != mb.Has(n) {
				return false
			}
		}
	}
	for t := range fb {
		if _, ok := fa[t]; !ok {
			return false
		}
	}
	return true
}

func runPkg(c pkgCase) (f *vh.Failure) {
	target := c.Pkgs[len(c.Pkgs)-1]
	kind := pkggen.KindOf(target)
	defer func() {
		if r := recover(); r != nil {
			f = vh.Failf(class(kind, "panic"), "%s: panic: %v", kind, r)
		}
	}()
	stream, offs, _, err := rc.EncodeStream(c.Pkgs)
	if err != nil {
		vh.HarnessBug("reference encoder rejects generated package: %v", err)
	}
	// sanity of the reference codec itself: decode(encode(x)) == x
	back, err := rc.DecodeStream(stream)
	if err != nil || len(back) != len(c.Pkgs) {
		vh.HarnessBug("reference codec cannot decode its own encoding of %s: %v", kind, err)
	}
	for i := range back {
		if !descEqual(back[i], c.Pkgs[i]) {
			vh.HarnessBug("reference codec round trip differs for %s:\n %s\n %s", pkggen.KindOf(c.Pkgs[i]), normP(back[i]), normP(c.Pkgs[i]))
		}
	}
	// leg (b): independent encoding -> library decode
	pkgs, ch, err := pkggen.LibDecodeStream(stream)
	if err != nil {
		return vh.Failf(class(kind, "decode"), "library cannot parse a reference-encoded %s (%d bytes, % x…): %v", kind, len(stream), head(stream[offs[len(offs)-2]:]), err)
	}
	if ch.Left() != 0 || len(pkgs) != len(c.Pkgs) {
		return vh.Failf(class(kind, "decode"), "library consumed %d of %d bytes / %d of %d packages", ch.Off, len(stream), len(pkgs), len(c.Pkgs))
	}
	var last *rc.Fmt
	for i, p := range c.Pkgs {
		if p.Fmt != nil {
			last = p.Fmt
		}
		if err := pkggen.LibEqual(p, last, pkgs[i]); err != nil {
			return vh.Failf(class(pkggen.KindOf(p), "decode"), "reference-encoded %s decoded with wrong fields: %v", pkggen.KindOf(p), err)
		}
	}
	// leg (a) on the decoded object: library write -> independent decode and library read-back
	if hasWriter[kind] {
		out := flatch.New(nil)
		for i, pkg := range pkgs {
			if !hasWriter[pkggen.KindOf(c.Pkgs[i])] {
				// formats without a writer (ROWFMT): feed the reference bytes instead
				out.B = append(out.B, stream[offs[i]:offs[i+1]]...)
				continue
			}
			if err := pkg.WriteTo(out); err != nil {
				return vh.Failf(class(pkggen.KindOf(c.Pkgs[i]), "write"), "WriteTo of a decoded %s failed: %v", pkggen.KindOf(c.Pkgs[i]), err)
			}
		}
		if f := checkWritten(c.Pkgs, out.B, "decoded"); f != nil {
			return f
		}
	}
	// leg (a)/(c) on an object built through the exported client API
	if built, ok := pkggen.Build(target); ok {
		out := flatch.New(nil)
		if err := built.WriteTo(out); err != nil {
			return vh.Failf(class(kind, "write"), "WriteTo of a %s built from exported fields failed: %v", kind, err)
		}
		if f := checkWritten([]rc.P{target}, out.B, "built"); f != nil {
			return f
		}
		// the same package object written a second time (a request that is repeated) after it
		// has been printed (what Info.DebugLogPackages does): the same fields again. The
		// capability package writes its mask types in map order: compared by decoding.
		_ = fmt.Sprintf("%s", built)
		again := flatch.New(nil)
		if err := built.WriteTo(again); err != nil {
			return vh.Failf(class(kind, "write-again"), "second WriteTo of the same %s failed: %v", kind, err)
		}
		if target.Cap == nil && !bytes.Equal(again.B, out.B) {
			return vh.Failf(class(kind, "write-again"), "the same %s written twice gives different bytes: % x then % x", kind, head(out.B), head(again.B))
		}
		if f := checkWritten([]rc.P{target}, again.B, "built, written a second time"); f != nil {
			return f
		}
		// a cursor object that knows its id AND still carries the name it was declared with (two
		// exported fields, both set): the layout has the name only when the id is 0, so the
		// bytes are those of the id alone
		if named, ok := pkggen.Build(target); ok && setRedundantCursorName(named, "cursor_"+kind) {
			out2 := flatch.New(nil)
			if err := named.WriteTo(out2); err != nil {
				return vh.Failf(class(kind, "write"), "WriteTo of a %s with id and name both set failed: %v", kind, err)
			}
			if f := checkWritten([]rc.P{target}, out2.B, "built with id and name both set"); f != nil {
				return f
			}
			if !bytes.Equal(out2.B, out.B) {
				return vh.Failf(class(kind, "written-layout"), "%s with cursor id %v: setting the (unused) name changes the bytes: % x vs % x", kind, normP(target), head(out2.B), head(out.B))
			}
			vh.Label("built-id-and-name:" + kind)
		}
		vh.Label("built:" + kind)
	}
	vh.Label("kind:" + kind)
	if nontrivial(target) {
		vh.NonTrivial(normP(target))
	}
	return nil
}

// setRedundantCursorName gives a cursor package addressed by id a name as well.
func setRedundantCursorName(p tds.Package, name string) bool {
	switch g := p.(type) {
	case *tds.CurOpenPackage:
		if g.CursorID != 0 {
			g.Name = name
			return true
		}
	case *tds.CurClosePackage:
		if g.CursorID != 0 {
			g.Name = name
			return true
		}
	case *tds.CurFetchPackage:
		if g.CursorID != 0 {
			g.Name = name
			return true
		}
	case *tds.CurDeletePackage:
		if g.CursorID != 0 {
			g.Name = name
			return true
		}
	case *tds.CurUpdatePackage:
		if g.CursorID != 0 {
			g.Name = name
			return true
		}
	case *tds.CurInfoPackage:
		if g.CursorID != 0 {
			g.Name = name
			return true
		}
	}
	return false
}

// checkWritten: what the library wrote must start with the token, must be decodable by
// the independent decoder into the same fields (which checks every length and count
// field against what follows it) and must be read back by the library exactly.
func checkWritten(want []rc.P, b []byte, how string) *vh.Failure {
	target := want[len(want)-1]
	kind := pkggen.KindOf(target)
	got, err := rc.DecodeStream(b)
	if err != nil {
		return vh.Failf(class(kind, "written-layout"), "%s %s: independent decoder rejects what the library wrote (% x…): %v", how, kind, head(b), err)
	}
	if len(got) != len(want) {
		return vh.Failf(class(kind, "written-layout"), "%s %s: library wrote %d packages, expected %d", how, kind, len(got), len(want))
	}
	for i := range want {
		if want[i].Token() != got[i].Token() {
			return vh.Failf(class(kind, "written-layout"), "%s %s: token %#x written, want %#x", how, kind, got[i].Token(), want[i].Token())
		}
		if want[i].Cap != nil {
			if !capDescEqual(want[i].Cap, got[i].Cap) {
				return vh.Failf(class(kind, "written-layout"), "%s capability: bits differ: wrote %v, want %v", how, got[i].Cap.Masks, want[i].Cap.Masks)
			}
			continue
		}
		if !descEqual(want[i], got[i]) {
			return vh.Failf(class(pkggen.KindOf(want[i]), "written-layout"), "%s %s: independent decoder recovers different fields:\n wrote %s\n want  %s", how, pkggen.KindOf(want[i]), clip(normP(got[i])), clip(normP(want[i])))
		}
	}
	// the library reads back exactly what it wrote
	pkgs, ch, err := pkggen.LibDecodeStream(b)
	if err != nil {
		return vh.Failf(class(kind, "readback"), "%s %s: library cannot read what it wrote (% x…): %v", how, kind, head(b), err)
	}
	if ch.Left() != 0 {
		return vh.Failf(class(kind, "readback"), "%s %s: library consumed %d of the %d bytes it wrote", how, kind, ch.Off, len(b))
	}
	var last *rc.Fmt
	for i, p := range want {
		if p.Fmt != nil {
			last = p.Fmt
		}
		if err := pkggen.LibEqual(p, last, pkgs[i]); err != nil {
			return vh.Failf(class(kind, "readback"), "%s %s: fields differ after write and read back: %v", how, kind, err)
		}
	}
	return nil
}

func head(b []byte) []byte {
	if len(b) > 32 {
		return b[:32]
	}
	return b
}

func clip(s string) string {
	if len(s) > 400 {
		return s[:400] + "…"
	}
	return s
}

func genCase(kind string) func(rt *rapid.T) pkgCase {
	return func(rt *rapid.T) pkgCase {
		ctx := &pkggen.Ctx{}
		var c pkgCase
		switch kind {
		case "row":
			fk := rapid.SampledFrom([]string{"rowfmt", "rowfmt2"}).Draw(rt, "fmtkind")
			f, r, _ := pkggen.GenWithFormat(rt, fk, ctx)
			c.Pkgs = []rc.P{f, r}
			// what stands between a row and its format in a real result set: the ORDER BY
			// columns, earlier rows
			switch rapid.IntRange(0, 3).Draw(rt, "between") {
			case 1:
				c.Pkgs = []rc.P{f, pkggen.Gen(rt, map[string]string{"rowfmt": "orderby", "rowfmt2": "orderby2"}[fk], ctx), r}
			case 2:
				c.Pkgs = []rc.P{f, r, r}
			case 3:
				c.Pkgs = []rc.P{f, pkggen.Gen(rt, map[string]string{"rowfmt": "orderby", "rowfmt2": "orderby2"}[fk], ctx), r, r}
			}
		case "params":
			fk := rapid.SampledFrom([]string{"paramfmt", "paramfmt2"}).Draw(rt, "fmtkind")
			f, r, _ := pkggen.GenWithFormat(rt, fk, ctx)
			c.Pkgs = []rc.P{f, r}
		case "orderby", "orderby2":
			// ORDERBY refers to the row format in force
			f := pkggen.Gen(rt, rapid.SampledFrom([]string{"rowfmt", "rowfmt2"}).Draw(rt, "fmtkind"), ctx)
			c.Pkgs = []rc.P{f, pkggen.Gen(rt, kind, ctx)}
		default:
			c.Pkgs = []rc.P{pkggen.Gen(rt, kind, ctx)}
		}
		if len(fmt.Sprint(c)) < 500 {
			vh.Sample(kind, c)
		}
		return c
	}
}

func TestPackages(t *testing.T) {
	for _, kind := range pkggen.AllKinds {
		kind := kind
		t.Run(kind, func(t *testing.T) {
			vh.Check(t, "TestPackages/"+kind, vh.N(1500, 40000), genCase(kind), runPkg)
		})
	}
}

// ---- client API leg (c): PARAMFMT/PARAMS built the way Login builds them

type paramsCase struct {
	Wide     bool         `json:"wide"`
	Vals     []valgen.Val `json:"vals"`
	Names    []string     `json:"names"`
	Statuses []uint32     `json:"statuses"`
}

var clientTypes = []valgen.TW{{T: rc.TInt1}, {T: rc.TInt2}, {T: rc.TInt4}, {T: rc.TInt8}, {T: rc.TUint2}, {T: rc.TUint4}, {T: rc.TUint8}, {T: rc.TFlt4}, {T: rc.TFlt8},
	{T: rc.TBit}, {T: rc.TMoney}, {T: rc.TShortMoney}, {T: rc.TDate}, {T: rc.TTime}, {T: rc.TDateTime}, {T: rc.TShortDate}, {T: rc.TVarChar}, {T: rc.TLongBinary}}

func runParams(c paramsCase) (f *vh.Failure) {
	defer func() {
		if r := recover(); r != nil {
			f = vh.Failf("C06/params-client-panic", "panic: %v", r)
		}
	}()
	pf, pp, wantF, wantR, err := pkggen.BuildParams(c.Wide, c.Vals, c.Names, c.Statuses)
	if err != nil {
		return vh.Failf("C06/params-client-build", "cannot build: %v", err)
	}
	out := flatch.New(nil)
	if err := pf.WriteTo(out); err != nil {
		return vh.Failf("C06/paramfmt-write", "ParamFmt.WriteTo: %v", err)
	}
	if err := pp.LastPkg(pf); err != nil {
		return vh.Failf("C06/params-write", "Params.LastPkg: %v", err)
	}
	if err := pp.WriteTo(out); err != nil {
		return vh.Failf("C06/params-write", "Params.WriteTo: %v", err)
	}
	// exact ticks for comparison: the classic temporal values are rounded to their tick
	for i := range wantR.Cells {
		wantR.Cells[i].V = c.Vals[i].V
	}
	return checkWritten([]rc.P{{Fmt: &wantF}, {Row: &wantR}}, out.B, "client-built")
}

func TestClientParams(t *testing.T) {
	gen := func(rt *rapid.T) paramsCase {
		n := rapid.IntRange(1, 5).Draw(rt, "n")
		c := paramsCase{Wide: rapid.Bool().Draw(rt, "wide")}
		for i := 0; i < n; i++ {
			tw := clientTypes[rapid.IntRange(0, len(clientTypes)-1).Draw(rt, "type")]
			v := valgen.Gen(rt, tw)
			v.JitNs = 0
			if len(v.S) > 255 {
				v.S = "abc"
			}
			c.Vals = append(c.Vals, v)
			c.Names = append(c.Names, pkggen.Str(rt, "name", 255))
			c.Statuses = append(c.Statuses, uint32(rapid.SampledFrom([]int{0, 0x8, 0x20, 0x28, 0x1}).Draw(rt, "status")))
		}
		if n <= 2 {
			vh.Sample("client-params", c)
		}
		return c
	}
	vh.Check(t, "TestClientParams", vh.N(8000, 200000), gen, func(c paramsCase) *vh.Failure {
		f := runParams(c)
		if f == nil {
			vh.Label("client-params")
			vh.NonTrivial(fmt.Sprint(c))
		}
		return f
	})
}

// ---- capability bits, exhaustive

type capCase struct {
	Type int `json:"type"` // 1 request, 2 response
	Bit  int `json:"bit"`
	Dir  int `json:"dir"` // 0 library writes, 1 library reads
}

const maxReq = int(tds.TDS_REQ_COMMAND_ENCRYPTION)
const maxRes = int(tds.TDS_RES_DR_NOKILL)

func runCap(c capCase) (f *vh.Failure) {
	defer func() {
		if r := recover(); r != nil {
			f = vh.Failf("C06/capability-panic", "type %d bit %d dir %d: panic: %v", c.Type, c.Bit, c.Dir, r)
		}
	}()
	if c.Dir == 0 {
		var pkg *tds.CapabilityPackage
		var err error
		if c.Type == 1 {
			pkg, err = tds.NewCapabilityPackage([]tds.RequestCapability{tds.RequestCapability(c.Bit)}, nil, nil)
		} else {
			pkg, err = tds.NewCapabilityPackage(nil, []tds.ResponseCapability{tds.ResponseCapability(c.Bit)}, nil)
		}
		if err != nil {
			return vh.Failf("C06/capability-bit", "NewCapabilityPackage(type %d, capability %d): %v", c.Type, c.Bit, err)
		}
		out := flatch.New(nil)
		if err := pkg.WriteTo(out); err != nil {
			return vh.Failf("C06/capability-bit", "WriteTo: %v", err)
		}
		got, err := rc.DecodeStream(out.B)
		if err != nil || len(got) != 1 || got[0].Cap == nil {
			return vh.Failf("C06/capability-written-layout", "independent decoder rejects capability package % x: %v", out.B, err)
		}
		if len(got[0].Cap.Masks) != 1 || int(got[0].Cap.Masks[0].Type) != c.Type {
			return vh.Failf("C06/capability-bit", "type %d capability %d: masks written %v", c.Type, c.Bit, got[0].Cap.Masks)
		}
		m := got[0].Cap.Masks[0]
		for n := 0; n < 8*len(m.Mask); n++ {
			if m.Has(n) != (n == c.Bit) {
				return vh.Failf("C06/capability-bit", "type %d capability %d set: bit %d of the written mask % x is %v (capability n must be bit n%%8 of byte len-1-n/8)", c.Type, c.Bit, n, m.Mask, m.Has(n))
			}
		}
		if c.Bit >= 8*len(m.Mask) {
			return vh.Failf("C06/capability-bit", "type %d capability %d: mask % x too short", c.Type, c.Bit, m.Mask)
		}
	} else {
		size := (maxReq + 8) / 8
		m := rc.CapMask{Type: uint8(c.Type), Mask: make([]byte, size)}
		m.Set(c.Bit)
		stream, _, _, _ := rc.EncodeStream([]rc.P{{Cap: &rc.Capability{Masks: []rc.CapMask{m}}}})
		pkgs, ch, err := pkggen.LibDecodeStream(stream)
		if err != nil || ch.Left() != 0 {
			return vh.Failf("C06/capability-decode", "library cannot parse capability package % x: %v", stream, err)
		}
		cp := pkgs[0].(*tds.CapabilityPackage)
		for n := 0; n < 8*size; n++ {
			if cp.HasCapability(tds.CapabilityType(c.Type), n) != (n == c.Bit) {
				return vh.Failf("C06/capability-bit", "mask % x (capability %d): library reports capability %d = %v", m.Mask, c.Bit, n, cp.HasCapability(tds.CapabilityType(c.Type), n))
			}
		}
	}
	vh.NonTrivial(fmt.Sprint("cap", c))
	return nil
}

func TestCapabilityBitsExhaustive(t *testing.T) {
	e := vh.NewEnum(t, "TestCapabilityBitsExhaustive", runCap)
	if e.Skip() {
		return
	}
	for dir := 0; dir < 2; dir++ {
		for bit := 1; bit <= maxReq; bit++ {
			e.Do(capCase{Type: 1, Bit: bit, Dir: dir})
		}
		for bit := 1; bit <= maxRes; bit++ {
			e.Do(capCase{Type: 2, Bit: bit, Dir: dir})
		}
	}
	vh.Sample("capability-bit", capCase{Type: 1, Bit: 9, Dir: 0})
	e.Done("every single request and response capability, written by the library and read by the library")
}

// ---- login record

type loginCase struct {
	Host, User, Pass, App, Serv, Lang, Charset string
	Encrypt                                    bool
	// EncryptID, if non-zero, is the message id put into LoginConfig.Encrypt (any TDSMsgId is
	// accepted there); only the four password-encryption ids make the record an encrypted one
	EncryptID int
}

var encryptIDs = map[int]byte{1: 0x01, 14: 0x01 | 0x20, 30: 0x01 | 0x20 | 0x80, 35: 0x01 | 0x20 | 0x80}

func runLogin(c loginCase) (f *vh.Failure) {
	defer func() {
		if r := recover(); r != nil {
			f = vh.Failf("C06/login-record-panic", "panic: %v", r)
		}
	}()
	info := &tds.Info{Info: dsn.Info{Host: "h", Port: "1", Username: c.User, Password: c.Pass}, ClientHostname: "client"}
	conf, err := tds.NewLoginConfig(info)
	if err != nil {
		return vh.Failf("C06/login-record", "NewLoginConfig: %v", err)
	}
	conf.Hostname, conf.AppName, conf.ServName, conf.Language, conf.CharSet = c.Host, c.App, c.Serv, c.Lang, c.Charset
	if !c.Encrypt {
		conf.Encrypt = 0
	}
	if c.EncryptID != 0 {
		conf.Encrypt = tds.TDSMsgId(c.EncryptID)
		_, c.Encrypt = encryptIDs[c.EncryptID]
	}
	over := false
	for _, s := range []string{c.Host, c.User, c.App, c.Serv, c.Lang, c.Charset} {
		if len(s) > 30 {
			over = true
		}
	}
	if !c.Encrypt && len(c.Pass) > 30 {
		over = true
	}
	pkg, err := conf.VerifPack()
	if over {
		if err == nil {
			return vh.Failf("C06/login-record-oversized-field-accepted", "a field longer than 30 bytes was packed without error")
		}
		vh.Label("login:oversized-rejected")
		return nil
	}
	if err != nil {
		return vh.Failf("C06/login-record", "pack failed for legal field lengths: %v", err)
	}
	// an application (or the library's package logging) may print what it is about to send
	_ = fmt.Sprintf("%s %v", pkg, pkg)
	out := flatch.New(nil)
	if err := pkg.WriteTo(out); err != nil {
		return vh.Failf("C06/login-record", "WriteTo: %v", err)
	}
	if len(out.B) != rc.LoginRecordSize {
		return vh.Failf("C06/login-record", "login record is %d bytes, TDS 5.0 layout has %d", len(out.B), rc.LoginRecordSize)
	}
	lr, err := rc.DecodeLoginRecord(out.B)
	if err != nil {
		return vh.Failf("C06/login-record", "offset-table decoder rejects the record: %v", err)
	}
	wantPass := c.Pass
	if c.Encrypt {
		wantPass = ""
	}
	type kv struct{ name, got, want string }
	for _, x := range []kv{{"host", lr.Host, c.Host}, {"user", lr.User, c.User}, {"password slot", lr.Password, wantPass}, {"app", lr.AppName, c.App}, {"server", lr.ServName, c.Serv},
		{"language", lr.Language, c.Lang}, {"charset", lr.Charset, c.Charset}, {"packet size", lr.PacketSize, "512"}, {"program name", lr.ProgName, "go-ase/tds"}} {
		if x.got != x.want {
			return vh.Failf("C06/login-record", "field %s: record has %q, configured %q", x.name, x.got, x.want)
		}
	}
	if lr.TDSVersion != [4]byte{5, 0, 0, 0} {
		return vh.Failf("C06/login-record", "TDS version %v", lr.TDSVersion)
	}
	wantSec := byte(0)
	if c.Encrypt {
		wantSec = 0x1 | 0x20 | 0x80
	}
	if c.EncryptID != 0 {
		wantSec = encryptIDs[c.EncryptID]
	}
	if lr.SecLogin != wantSec {
		return vh.Failf("C06/login-record", "seclogin flags %#x, want %#x", lr.SecLogin, wantSec)
	}
	// byte order announcement: little endian
	if lr.Int2 != 3 || lr.Int4 != 1 || lr.Flt != 10 || lr.Date != 9 {
		return vh.Failf("C06/login-record", "byte-order announcement %d/%d/%d/%d is not little endian (3/1/10/9)", lr.Int2, lr.Int4, lr.Flt, lr.Date)
	}
	if lr.HostProc == "" {
		return vh.Failf("C06/login-record", "host process empty")
	}
	vh.Label("login:record-ok")
	vh.NonTrivial(fmt.Sprint(c))
	return nil
}

func TestLoginRecord(t *testing.T) {
	e := vh.NewEnum(t, "TestLoginRecordLengths", runLogin)
	if !e.Skip() {
		mk := func(n int) string { return string(bytes.Repeat([]byte{'a' + byte(n%26)}, n)) }
		lengths := []int{}
		for n := 0; n <= 31; n++ {
			lengths = append(lengths, n)
		}
		// oversized far beyond the slot, incl. lengths whose low byte is a legal length again
		lengths = append(lengths, 32, 60, 100, 254, 255, 256, 257, 270, 286, 287, 300, 511, 512, 513, 542, 543, 768, 1000, 65536, 65550)
		for _, n := range lengths {
			for field := 0; field < 7; field++ {
				c := loginCase{Host: "h", User: "u", Pass: "p", App: "a", Serv: "s", Lang: "l", Charset: "c", Encrypt: field%2 == 0}
				s := mk(n)
				switch field {
				case 0:
					c.Host = s
				case 1:
					c.User = s
				case 2:
					c.Pass = s
					c.Encrypt = false
				case 3:
					c.App = s
				case 4:
					c.Serv = s
				case 5:
					c.Lang = s
				case 6:
					c.Charset = s
				}
				e.Do(c)
			}
			e.Do(loginCase{Host: mk(n), User: mk(n), Pass: mk(n), App: mk(n), Serv: mk(n), Lang: mk(n), Charset: mk(n), Encrypt: n%2 == 0})
		}
		for id := 1; id <= 40; id++ {
			e.Do(loginCase{Host: "h", User: "u", Pass: "secret-pw", App: "a", Serv: "s", Lang: "l", Charset: "c", EncryptID: id})
		}
		vh.Sample("login-record", loginCase{Host: "host", User: "sa", Pass: "secret", App: "app", Serv: "srv", Lang: "us_english", Charset: "utf8", Encrypt: true})
		e.Done("every login field with every length 0..31 and oversized lengths 32..65550 (incl. those whose low byte is a legal length again), singly and all together; every message id 1..40 as LoginConfig.Encrypt")
	}
	gen := func(rt *rapid.T) loginCase {
		s := func(l string) string { return pkggen.Str(rt, l, 31) }
		return loginCase{Host: s("host"), User: s("user"), Pass: s("pass"), App: s("app"), Serv: s("serv"), Lang: s("lang"), Charset: s("charset"), Encrypt: rapid.Bool().Draw(rt, "encrypt")}
	}
	vh.Check(t, "TestLoginRecord", vh.N(3000, 100000), gen, runLogin)
}

// ---- BLOB formats (recorded finding: the library's BLOB support is unfinished)

type blobCase struct {
	Wide bool   `json:"wide"`
	Name string `json:"name"`
}

func runBlob(c blobCase) (f *vh.Failure) {
	defer func() {
		if r := recover(); r != nil {
			f = vh.Failf("C06/blob-format-accounting", "panic: %v", r)
		}
	}()
	ff, err := tds.LookupFieldFmt(0x24)
	if err != nil {
		return vh.Failf("C06/blob-format-accounting", "LookupFieldFmt(BLOB): %v", err)
	}
	ff.SetName(c.Name)
	pf := tds.NewParamFmtPackage(c.Wide, ff)
	out := flatch.New(nil)
	if err := pf.WriteTo(out); err != nil {
		return vh.Failf("C06/blob-format-accounting", "WriteTo of a parameter format with a BLOB column: %v", err)
	}
	_, ch, err := pkggen.LibDecodeStream(out.B)
	if err != nil || ch.Left() != 0 {
		return vh.Failf("C06/blob-format-accounting", "a parameter format with a BLOB column written by the library (% x) cannot be read back: %v (%d bytes left)", out.B, err, ch.Left())
	}
	return nil
}

func TestBlobFormat(t *testing.T) {
	e := vh.NewEnum(t, "TestBlobFormat", runBlob)
	if e.Skip() {
		return
	}
	for _, w := range []bool{false, true} {
		e.Do(blobCase{Wide: w, Name: "b"})
	}
}

// ---- capability packages built by a history of Set...Capability calls (the way the library
// and its users arrive at the package sent with the login: defaults, then switches, some of
// them redundant): what is written is the set the package itself reports

type capOp struct {
	Type   int  `json:"type"` // 1 request, 2 response
	Bit    int  `json:"bit"`
	Enable bool `json:"enable"`
}

type capHistCase struct {
	Req []int   `json:"initial_request"`
	Res []int   `json:"initial_response"`
	Ops []capOp `json:"ops"`
}

func runCapHist(c capHistCase) (f *vh.Failure) {
	defer func() {
		if r := recover(); r != nil {
			f = vh.Failf("C06/capability-panic", "%+v: panic: %v", c, r)
		}
	}()
	var req []tds.RequestCapability
	var res []tds.ResponseCapability
	model := map[[2]int]bool{}
	for _, b := range c.Req {
		req = append(req, tds.RequestCapability(b))
		model[[2]int{1, b}] = true
	}
	for _, b := range c.Res {
		res = append(res, tds.ResponseCapability(b))
		model[[2]int{2, b}] = true
	}
	pkg, err := tds.NewCapabilityPackage(req, res, nil)
	if err != nil {
		return vh.Failf("C06/capability-bit", "NewCapabilityPackage(%v, %v): %v", c.Req, c.Res, err)
	}
	redundant := false
	for _, op := range c.Ops {
		if op.Type == 1 {
			err = pkg.SetRequestCapability(tds.RequestCapability(op.Bit), op.Enable)
		} else {
			err = pkg.SetResponseCapability(tds.ResponseCapability(op.Bit), op.Enable)
		}
		if err != nil {
			return vh.Failf("C06/capability-bit", "Set capability %+v: %v", op, err)
		}
		if model[[2]int{op.Type, op.Bit}] == op.Enable {
			redundant = true
		}
		model[[2]int{op.Type, op.Bit}] = op.Enable
	}
	// the package's own view
	for k, want := range model {
		if pkg.HasCapability(tds.CapabilityType(k[0]), k[1]) != want {
			return vh.Failf("C06/capability-history", "%+v: HasCapability(type %d, %d) = %v after the calls", c, k[0], k[1], !want)
		}
	}
	out := flatch.New(nil)
	if err := pkg.WriteTo(out); err != nil {
		return vh.Failf("C06/capability-bit", "WriteTo: %v", err)
	}
	got, err := rc.DecodeStream(out.B)
	if err != nil || len(got) != 1 || got[0].Cap == nil {
		return vh.Failf("C06/capability-written-layout", "%+v: independent decoder rejects capability package % x: %v", c, out.B, err)
	}
	written := map[[2]int]bool{}
	for _, m := range got[0].Cap.Masks {
		for n := 0; n < 8*len(m.Mask); n++ {
			if m.Has(n) {
				written[[2]int{int(m.Type), n}] = true
			}
		}
	}
	for k, want := range model {
		if written[k] != want {
			return vh.Failf("C06/capability-history", "%+v: capability (type %d, %d) is %v according to the package and %v in what it writes (% x)", c, k[0], k[1], want, written[k], out.B)
		}
	}
	for k := range written {
		if !model[k] {
			return vh.Failf("C06/capability-history", "%+v: capability (type %d, %d) is written (% x) but was never enabled", c, k[0], k[1], out.B)
		}
	}
	// and the library reads its own package back to the same set
	pkgs, ch, err := pkggen.LibDecodeStream(out.B)
	if err != nil || ch.Left() != 0 || len(pkgs) != 1 {
		return vh.Failf("C06/capability-decode", "%+v: library cannot read back its capability package % x: %v", c, out.B, err)
	}
	back := pkgs[0].(*tds.CapabilityPackage)
	for k, want := range model {
		if back.HasCapability(tds.CapabilityType(k[0]), k[1]) != want {
			return vh.Failf("C06/capability-history", "%+v: capability (type %d, %d) reads back as %v", c, k[0], k[1], !want)
		}
	}
	vh.Label("capability-history")
	if redundant {
		vh.Label("capability-history:redundant-call")
		vh.NonTrivial(fmt.Sprint("caphist", c))
	}
	return nil
}

func TestCapabilityHistories(t *testing.T) {
	gen := func(rt *rapid.T) capHistCase {
		var c capHistCase
		bit := func(typ int) int {
			if typ == 1 {
				return rapid.IntRange(1, maxReq).Draw(rt, "reqbit")
			}
			return rapid.IntRange(1, maxRes).Draw(rt, "resbit")
		}
		for i := rapid.IntRange(0, 4).Draw(rt, "nreq"); i > 0; i-- {
			c.Req = append(c.Req, bit(1))
		}
		for i := rapid.IntRange(0, 3).Draw(rt, "nres"); i > 0; i-- {
			c.Res = append(c.Res, bit(2))
		}
		n := rapid.IntRange(1, 12).Draw(rt, "nops")
		for i := 0; i < n; i++ {
			op := capOp{Type: rapid.IntRange(1, 2).Draw(rt, "type"), Enable: rapid.Bool().Draw(rt, "enable")}
			op.Bit = bit(op.Type)
			// often aim at a capability that was touched before (redundant or reverting calls)
			if rapid.Bool().Draw(rt, "again") {
				switch {
				case len(c.Ops) > 0:
					prev := c.Ops[rapid.IntRange(0, len(c.Ops)-1).Draw(rt, "prev")]
					op.Type, op.Bit = prev.Type, prev.Bit
				case op.Type == 1 && len(c.Req) > 0:
					op.Bit = c.Req[0]
				case op.Type == 2 && len(c.Res) > 0:
					op.Bit = c.Res[0]
				}
			}
			c.Ops = append(c.Ops, op)
		}
		if n <= 4 {
			vh.Sample("capability-history", c)
		}
		return c
	}
	vh.Check(t, "TestCapabilityHistories", vh.N(3000, 60000), gen, runCapHist)
}
