package c09

import (
	"bytes"
	"fmt"
	"testing"
	"time"

	"pgregory.net/rapid"
	"verif/internal/loginpeer"
	"verif/internal/vh"
)

// Many logins in the life of ONE process (a connection pool reconnecting all day; each login
// on its own connection, all against the same server key): what has to be fresh per login
// stays fresh however many logins came before - no session key and no ciphertext is ever sent
// a second time.

type manyCase struct {
	Count int     `json:"logins_in_one_process"`
	Base  c09Case `json:"login"`
}

func runMany(m manyCase) *vh.Failure {
	c := m.Base
	seenKey := map[string]int{}
	seenCT := map[string]int{}
	for i := 0; i < m.Count; i++ {
		where := fmt.Sprintf("login %d of %d in one process (each on its own connection; user %q password %d bytes, %d remotes, key %d bits, nonce %d bytes)", i+1, m.Count, c.User, len(c.Password), len(c.Remotes), c.Key.Bits, len(c.Nonce))
		res := loginpeer.RunPatient(cfg(c, c.Password), script(c), 2*time.Second)
		if res.Panic != nil {
			return vh.Failf("C09/login-panics", "%s: %v", where, res.Panic)
		}
		if res.TimedOut {
			return vh.Failf("C09/login-hangs", "%s: Login did not return", where)
		}
		if res.Err != nil {
			return vh.Failf("C09/valid-login-failed", "%s: %v", where, res.Err)
		}
		p2, err := decodePhase2(res.Msg2)
		if err != nil {
			return vh.Failf("C09/second-message-layout", "%s: independent decoder rejects the second client message: %v", where, err)
		}
		if want := 1 + (1 + len(c.Remotes)) + 1; len(p2.ciphers) != want {
			return vh.Failf("C09/second-message-layout", "%s: %d LONGBINARY values, expected %d; shape %s", where, len(p2.ciphers), want, p2.shape)
		}
		for j, ct := range p2.ciphers {
			if prev, ok := seenCT[string(ct)]; ok {
				return vh.Failf("C09/no-fresh-randomness", "%s: ciphertext %d was already sent with login %d", where, j, prev)
			}
			seenCT[string(ct)] = i + 1
		}
		pt, err := c.Key.Decrypt(p2.ciphers[len(p2.ciphers)-1])
		if err != nil {
			return vh.Failf("C09/not-oaep-under-server-key", "%s: session key does not decrypt under the server key: %v", where, err)
		}
		if !bytes.HasPrefix(pt, c.Nonce) || len(pt)-len(c.Nonce) != 32 {
			return vh.Failf("C09/session-key", "%s: session key plaintext is %d bytes (nonce %d bytes)", where, len(pt), len(c.Nonce))
		}
		key := string(pt[len(c.Nonce):])
		if prev, ok := seenKey[key]; ok {
			return vh.Failf("C09/session-key-not-fresh", "%s: the session key %x is the one already sent with login %d", where, key, prev)
		}
		seenKey[key] = i + 1
	}
	vh.Label(fmt.Sprintf("many-logins>=%d", m.Count/100*100))
	vh.NonTrivial(fmt.Sprintf("many|%x|%d", c.Password, m.Count))
	return nil
}

func TestManyLoginsInOneProcess(t *testing.T) {
	gen := func(rt *rapid.T) manyCase {
		c := genCase(rt)
		shortNames(&c)
		c.Key = loginpeer.PoolKey(1024, 0)
		c.PackSize, c.Reject, c.Plain = 0, "", false
		if len(c.Nonce) > 16 {
			c.Nonce = c.Nonce[:16]
		}
		if len(c.Remotes) > 1 {
			c.Remotes = c.Remotes[:1]
		}
		max := c.Key.Capacity() - len(c.Nonce)
		if len(c.Password) > max {
			c.Password = c.Password[:max]
		}
		for j := range c.Remotes {
			if len(c.Remotes[j].Password) > max {
				c.Remotes[j].Password = c.Remotes[j].Password[:max]
			}
		}
		m := manyCase{Base: c}
		// pools, caches and counters come in powers of two and round decimal numbers
		m.Count = rapid.SampledFrom([]int{20, 70, 130, 260, 300, 520, 1030}).Draw(rt, "count")
		if vh.Thorough() && rapid.IntRange(0, 9).Draw(rt, "long") == 0 {
			m.Count = rapid.SampledFrom([]int{2050, 4100, 10010}).Draw(rt, "count2")
		}
		return m
	}
	vh.Check(t, "TestManyLoginsInOneProcess", vh.N(6, 60), gen, runMany)
}
