// C13 — cancelled or closed channels never block and never deliver.
package c13

import (
	"bytes"
	"context"
	"errors"
	"fmt"
	"io"
	"runtime"
	"strings"
	"sync"
	"testing"
	"time"

	"github.com/SAP/go-dblib/tds"
	"pgregory.net/rapid"
	"verif/internal/peer"
	rc "verif/internal/refcodec"
	"verif/internal/vh"
)

func TestMain(m *testing.M) {
	vh.Rule("rapid histories (race-detector build) in which the harness owns the interesting interleavings through the scripted transport: (1) receive with a cancelled own or connection context - cancelled before or during NextPackage / NextPackageUntil (also with a callback that fails in the middle of a response whose rest never arrives), with 0..capacity+k packages sent, consumer having taken j of them, packets still arriving or not; (2) SendPackage / QueuePackage with an already cancelled own or connection context (1..4 packets); (3) Close of channel 0 or of a logical channel in a generated state: receive queue empty / partly filled / full with the reader parked on it (response abandoned after j packages, capacity c, j+c < n), a consumer blocked in NextPackage, a SendPackage parked in the transport's Write, a header-only control packet queued behind the data, the connection's parent context already cancelled, peer answering the logout at once / late / never (60 s, thorough only), followed by every call on the closed channel incl. a second Close and by packets for its id; (4) Conn.Close with 1..4 channels in such states, with the connection error queue empty or full (transport failing), also after the context the connection was created with has been cancelled. Watchdog oracle: a cancelled receive returns within 1 s with a queued package or an error that errors.Is the context error; a cancelled send writes zero bytes; Close returns within 5 s (65 s for the silent peer), never panics; after Close every call satisfies errors.Is(err, ErrChannelClosed) and delivers nothing; Conn.Close leaves every channel closed, the transport closed and the reader ended within 2 s. Non-trivial: the cancel/close overlaps an operation in flight or the queue was at or beyond capacity; distinct by the history")
	vh.Assume("'promptly' and 'bounded' are wall-clock bounds with slack (1 s / 5 s; a correct tree needs microseconds); schedules are sampled; one consumer per channel apart from the deliberately blocked one")
	vh.Rule("also: the context (own or the connection's) is cancelled from inside the transport's k-th Write of a 2..8 packet request: no further write reaches the transport and the error wraps context.Canceled; Conn.Close after a logical channel with a lower id was closed on its own (gap in the ids); with overlapping Close calls, the closed condition is checked the moment any of them returns")
	vh.Rule("also: after every send with an already cancelled context the next request (live context) is sent: the transport sees that request and nothing of the cancelled one; Channel.Reset() called before cancel / Close at any fill level returns at once")
	vh.Rule("also: caller contexts made with WithCancelCause / WithTimeoutCause (the error still wraps ctx.Err()); the main channel closed by the application before Conn.Close; parked requests of 1..3 packets, on logical channels and on the main channel (the scripted peer answers a logout that arrives appended to the other goroutine's message)")
	vh.Rule("also: the reader parked on the channel's full ERROR queue (more unparsable responses than the queue of 10 holds, errors never fetched), main and logical channels, with and without packages of an abandoned response still queued, closed through the channel or the connection, peer answering the logout at once or late: Close returns within 5 s, later calls report ErrChannelClosed, the reader ends with the connection")
	vh.Main(m, "C13")
}

type c13Case struct {
	Kind     string `json:"kind"` // cancel-recv | cancel-send | close | connclose
	Cap      int    `json:"queue_capacity"`
	Logical  bool   `json:"logical_channel"`
	Sent     int    `json:"packages_sent"`
	Consumed int    `json:"packages_consumed"`
	More     bool   `json:"packets_keep_arriving"`
	Until    bool   `json:"next_package_until"`
	Conn     bool   `json:"cancel_connection_ctx"`
	Before   bool   `json:"cancel_before_call"`
	DelayUs  int    `json:"delay_us"`
	Peer     string `json:"peer"` // now | late | never
	Blocked  bool   `json:"blocked_consumer"`
	Parked   bool   `json:"send_parked_in_write"`
	ErrFull  bool   `json:"connection_error_queue_full"`
	NChan    int    `json:"channels"`
	Packets  int    `json:"request_packets"`
	Procs    int    `json:"gomaxprocs"`
	// FailCB: (cancel-recv with NextPackageUntil) the callback fails on a package in the middle
	// of the response, the rest of the response never arrives, then the context is cancelled
	FailCB bool `json:"callback_fails_midway"`
	// ParentCancelled: (connclose) the context passed when the connection was created is
	// cancelled before Conn.Close is called - the usual deferred cleanup after a timeout
	ParentCancelled bool `json:"parent_context_cancelled_first"`
	// Control: (close) after the data packets a header-only control packet (PROTACK) for the
	// channel arrives - it goes straight into the package queue
	Control bool `json:"control_packet_arrives"`
	// CloseFails: (connclose) the transport's Close reports an error (it is closed all the same)
	CloseFails bool `json:"transport_close_reports_error"`
	// Stray: (connclose) that many packets for channel ids nobody has arrive first and nobody
	// reads the connection's errors (the error queue holds 10)
	Stray int `json:"stray_packets_before_close,omitempty"`
	// WriteFails: (close) the transport refuses every write from now on (broken towards the
	// server): the teardown / logout cannot be sent, the channel is closed all the same
	WriteFails bool `json:"transport_refuses_writes,omitempty"`
	// MidSend: (cancel-send) the context is not cancelled before the call but from inside the
	// transport's k-th Write of the request (k = MidSend >= 1): nothing more is written
	MidSend int `json:"cancelled_during_write_number,omitempty"`
	// ClosedEarlier: (connclose) the logical channel with this index (not the newest one) was
	// closed on its own before Conn.Close: the ids of the open channels have a gap
	ClosedEarlier int `json:"channel_closed_earlier,omitempty"`
	// ResetFirst: (close, cancel-recv) the consumer that abandons the response calls
	// Channel.Reset() first - what a client does when it is done with an exchange; it returns
	// at once whatever the fill level, and what follows (cancel, Close) behaves as without it
	ResetFirst bool `json:"reset_called_first,omitempty"`
	// Cause: (cancel-recv) the caller's context is cancelled WITH A CAUSE (context.WithCancelCause
	// / WithTimeoutCause): the error returned still wraps the context's error (ctx.Err())
	Cause int `json:"context_with_cause,omitempty"` // 1 cancel cause, 2 deadline with cause
	// MainClosedFirst: (connclose) the application closed the main channel itself before it
	// closes the connection
	MainClosedFirst bool `json:"main_channel_closed_first,omitempty"`
}

// env is one connection with its peer.
type env struct {
	bg           context.Context
	cancel       context.CancelFunc
	pipe         *peer.Pipe
	conn         *tds.Conn
	done         <-chan struct{}
	stop         chan struct{}
	mu           sync.Mutex
	logoutDelay  time.Duration
	answerLogout bool
	closeSeen    map[int]bool
}

func newEnv(capacity int, peerMode string) *env {
	e := &env{pipe: peer.NewPipe(), stop: make(chan struct{}), closeSeen: map[int]bool{}, answerLogout: peerMode != "never"}
	if peerMode == "late" {
		e.logoutDelay = 30 * time.Millisecond
	}
	e.bg, e.cancel = context.WithCancel(context.Background())
	var err error
	e.conn, e.done, err = tds.VerifNewConn(e.bg, e.pipe, &tds.Info{ChannelPackageQueueSize: capacity, PacketReadTimeout: 1}, true)
	if err != nil {
		vh.HarnessBug("VerifNewConn: %v", err)
	}
	go e.serve()
	return e
}

// serve acknowledges channel setup and answers logout requests.
func (e *env) serve() {
	off := 0
	msg := map[int][]byte{}
	for {
		select {
		case <-e.stop:
			return
		default:
		}
		b := e.pipe.Written()
		progressed := false
		for len(b)-off >= 8 {
			n := int(b[off+2])<<8 | int(b[off+3])
			if n < 8 || off+n > len(b) {
				break
			}
			typ, status, id := b[off], b[off+1], int(b[off+4])<<8|int(b[off+5])
			body := b[off+8 : off+n]
			off += n
			progressed = true
			switch typ {
			case rc.BufSetup:
				e.pipe.Feed(rc.Packet{Type: rc.BufProtAck, Channel: uint16(id), Status: rc.StatEOM}.Bytes())
				continue
			case rc.BufClose:
				e.mu.Lock()
				e.closeSeen[id] = true
				e.mu.Unlock()
				continue
			}
			msg[id] = append(msg[id], body...)
			if status&rc.StatEOM != 0 {
				m := msg[id]
				msg[id] = nil
				// (Close's logout may have been appended to a message another goroutine was
				// sending on the channel: a server answers the logout wherever it stands)
				if n := len(m); n >= 2 && (m[0] == rc.TokLogout || (m[n-2] == rc.TokLogout && m[n-1] == 0)) && e.answerLogout {
					d := e.logoutDelay
					go func(id int) {
						time.Sleep(d)
						e.pipe.Feed(rc.Packet{Type: rc.BufResponse, Channel: uint16(id), Status: rc.StatEOM, Body: []byte{rc.TokDone, 0, 0, 0, 0, 0, 0, 0, 0}}.Bytes())
					}(id)
				}
			}
		}
		if !progressed {
			time.Sleep(50 * time.Microsecond)
		}
	}
}

func (e *env) shutdown() {
	close(e.stop)
	e.cancel()
	e.pipe.Close()
	// a reader parked on a full package queue only wakes up when its channel is closed
	go func() {
		defer func() { recover() }()
		e.conn.Close()
	}()
	deadline := time.After(3 * time.Second)
	for {
		select {
		case <-e.done:
			return
		case <-deadline:
			return
		default:
			e.conn.VerifConnErr()
			time.Sleep(200 * time.Microsecond)
		}
	}
}

// response of n RETURNSTATUS packages (value i), one packet each, no EOM until the last.
func (e *env) sendPackages(id, from, n int, eom bool) {
	for i := from; i < from+n; i++ {
		w := &rc.W{}
		w.U8(rc.TokReturnStatus)
		w.I32(int32(i))
		st := byte(0)
		if eom && i == from+n-1 {
			st = rc.StatEOM
		}
		e.pipe.Feed(rc.Packet{Type: rc.BufResponse, Channel: uint16(id), Status: st, Body: w.B}.Bytes())
	}
}

// timed runs fn under a watchdog; it reports whether fn returned in time and any panic.
func timed(d time.Duration, fn func()) (ok bool, pan interface{}, took time.Duration) {
	done := make(chan interface{}, 1)
	t0 := time.Now()
	go func() {
		var p interface{}
		defer func() {
			if r := recover(); r != nil {
				p = r
			}
			done <- p
		}()
		fn()
	}()
	select {
	case p := <-done:
		return true, p, time.Since(t0)
	case <-time.After(d):
		return false, nil, time.Since(t0)
	}
}

var errCallback = errors.New("consumer callback failed")

type plainCase c13Case

func (c c13Case) String() string { return fmt.Sprintf("%+v", plainCase(c)) }

func openChannel(e *env, logical bool) (*tds.Channel, *vh.Failure) {
	ch0, err := e.conn.NewChannel()
	if err != nil {
		return nil, vh.Failf("C13/newchannel", "NewChannel: %v", err)
	}
	if !logical {
		return ch0, nil
	}
	var ch *tds.Channel
	ok, pan, _ := timed(5*time.Second, func() { ch, err = e.conn.NewChannel() })
	if !ok || pan != nil || err != nil {
		return nil, vh.Failf("C13/newchannel", "NewChannel (logical): ok=%v panic=%v err=%v", ok, pan, err)
	}
	return ch, nil
}

func retVal(p tds.Package) (int, bool) {
	r, ok := p.(*tds.ReturnStatusPackage)
	if !ok {
		return 0, false
	}
	return int(r.ReturnValue), true
}

func runCase(c c13Case) (f *vh.Failure) {
	defer func() {
		if r := recover(); r != nil {
			vh.CheckHarnessPanic(r)
			f = vh.Failf("C13/panic", "panic in %s: %v", c.Kind, r)
		}
	}()
	old := runtime.GOMAXPROCS(c.Procs)
	defer runtime.GOMAXPROCS(old)
	switch c.Kind {
	case "cancel-recv":
		return runCancelRecv(c)
	case "cancel-send":
		return runCancelSend(c)
	case "close":
		return runClose(c)
	case "connclose":
		return runConnClose(c)
	}
	panic("bad kind")
}

// ---- (1) receive under cancellation

func runCancelRecv(c c13Case) *vh.Failure {
	e := newEnv(c.Cap, "now")
	defer e.shutdown()
	ch, f := openChannel(e, c.Logical)
	if f != nil {
		return f
	}
	id := ch.VerifID()
	e.sendPackages(id, 0, c.Sent, false)
	// let the reader take what fits
	time.Sleep(time.Duration(50+c.DelayUs%200) * time.Microsecond)
	next := 0
	for i := 0; i < c.Consumed && i < c.Sent; i++ {
		p, err := ch.NextPackage(e.bg, true)
		if err != nil {
			return vh.Failf("C13/receive", "%v: NextPackage %d: %v", c, i, err)
		}
		if v, ok := retVal(p); !ok || v != next {
			return vh.Failf("C13/wrong-delivery", "%v: package %d is %v", c, i, p)
		}
		next++
	}
	own, cancelOwn := context.WithCancel(context.Background())
	defer cancelOwn()
	cancelFn := cancelOwn
	wantErr := context.Canceled
	switch {
	case c.Conn:
		cancelFn = e.cancel
	case c.Cause == 1:
		var cc context.CancelCauseFunc
		own, cc = context.WithCancelCause(context.Background())
		cancelFn = func() { cc(errors.New("user pressed ctrl-c")) }
		defer cancelFn()
		vh.Label("recv:context-cancelled-with-a-cause")
	case c.Cause == 2:
		// the deadline does the cancelling (the case's delay is the timeout)
		var stop context.CancelFunc
		d := time.Duration(c.DelayUs) * time.Microsecond
		if c.Before {
			d = 0
		}
		own, stop = context.WithTimeoutCause(context.Background(), d, errors.New("statement timeout of the application"))
		defer stop()
		cancelFn = func() {}
		wantErr = context.DeadlineExceeded
		if c.Before {
			<-own.Done()
		}
		vh.Label("recv:context-deadline-with-a-cause")
	}
	if c.More {
		go func() {
			for i := 0; i < 20; i++ {
				select {
				case <-e.stop:
					return
				default:
				}
				e.sendPackages(id, c.Sent+i, 1, false)
				time.Sleep(20 * time.Microsecond)
			}
		}()
	}
	if c.Before {
		cancelFn()
	} else {
		go func() {
			time.Sleep(time.Duration(c.DelayUs) * time.Microsecond)
			cancelFn()
		}()
	}
	// keep receiving until an error comes back: every result must be the next package or the context error
	var lastErr error
	calls := 0
	ok, pan, took := timed(time.Second+time.Duration(c.DelayUs)*time.Microsecond, func() {
		for {
			var p tds.Package
			var err error
			if c.Until && c.FailCB {
				// the callback rejects the package; the library then drains the rest of the
				// response - which never arrives - and must give up when the context ends
				p, err = ch.NextPackageUntil(own, true, func(p tds.Package) (bool, error) { return false, errCallback })
				if err != nil && errors.Is(err, errCallback) {
					// the callback's error is what comes back; for the bookkeeping below it counts
					// as "returned because of the cancellation"
					lastErr = wantErr
					calls++
					return
				}
			} else if c.Until {
				p, err = ch.NextPackageUntil(own, true, func(p tds.Package) (bool, error) { return true, nil })
			} else {
				p, err = ch.NextPackage(own, true)
			}
			calls++
			if err != nil {
				lastErr = err
				return
			}
			if v, isRet := retVal(p); !isRet || v != next {
				lastErr = fmt.Errorf("delivered %v, expected return status %d", p, next)
				return
			}
			next++
			if next > c.Sent+40 {
				lastErr = errors.New("more packages than were ever sent")
				return
			}
		}
	})
	if pan != nil {
		return vh.Failf("C13/panic", "%v: receive panicked: %v", c, pan)
	}
	if !ok {
		return vh.Failf("C13/receive-blocks-after-cancel", "%v: receive did not return within %v after the context was cancelled (%d calls returned packages)", c, took, calls)
	}
	if !errors.Is(lastErr, wantErr) {
		return vh.Failf("C13/cancel-wrong-result", "%v: after cancellation the receive returned %v, want a queued package or an error wrapping %v", c, lastErr, wantErr)
	}
	vh.Label("recv:cancelled")
	if c.FailCB {
		vh.Label("recv:callback-failed-midway")
	}
	if !c.Before || c.Sent-c.Consumed >= c.Cap {
		vh.NonTrivial(c.String())
	}
	return nil
}

// ---- (2) send under cancellation

func runCancelSend(c c13Case) *vh.Failure {
	e := newEnv(c.Cap, "now")
	defer e.shutdown()
	ch, f := openChannel(e, c.Logical)
	if f != nil {
		return f
	}
	before := e.pipe.WrittenLen()
	own, cancelOwn := context.WithCancel(context.Background())
	defer cancelOwn()
	want := context.Canceled
	writesAfterCancel, cancelledAt := 0, 0
	if c.MidSend > 0 {
		n := 0
		e.pipe.OnWrite(func() {
			n++
			if cancelledAt > 0 {
				writesAfterCancel++
			}
			if n == c.MidSend {
				cancelledAt = n
				if c.Conn {
					e.cancel()
				} else {
					cancelOwn()
				}
			}
		})
		defer e.pipe.OnWrite(nil)
	} else if c.Conn {
		e.cancel()
	} else {
		cancelOwn()
	}
	cmd := make([]byte, 500*c.Packets-100)
	for i := range cmd {
		cmd[i] = 'q'
	}
	var err error
	ok, pan, _ := timed(2*time.Second, func() {
		if c.Until { // second API: QueuePackage + SendRemainingPackets
			err = ch.QueuePackage(own, &tds.LanguagePackage{Cmd: string(cmd)})
			if err == nil {
				err = ch.SendRemainingPackets(own)
			}
		} else {
			err = ch.SendPackage(own, &tds.LanguagePackage{Cmd: string(cmd)})
		}
	})
	if pan != nil || !ok {
		return vh.Failf("C13/cancelled-send-blocks", "%v: send with a cancelled context: returned=%v panic=%v", c, ok, pan)
	}
	if c.MidSend > 0 {
		e.pipe.OnWrite(nil)
		if cancelledAt == 0 {
			vh.HarnessBug("%v: the request was written with fewer than %d writes", c, c.MidSend)
		}
		if writesAfterCancel != 0 {
			return vh.Failf("C13/cancelled-send-writes", "%v: the context was cancelled during write %d of the request; %d more writes reached the transport afterwards", c, cancelledAt, writesAfterCancel)
		}
		if !errors.Is(err, want) {
			return vh.Failf("C13/cancelled-send-result", "%v: send whose context was cancelled during write %d returned %v", c, cancelledAt, err)
		}
		vh.Label("send:cancelled-during-a-write")
		if c.Packets-c.MidSend >= 2 {
			vh.Label("send:cancelled-with-two-or-more-packets-to-go")
			vh.NonTrivial(c.String())
		}
		return nil
	}
	if n := e.pipe.WrittenLen() - before; n != 0 {
		return vh.Failf("C13/cancelled-send-writes", "%v: send with an already cancelled context wrote %d bytes", c, n)
	}
	if !errors.Is(err, want) {
		return vh.Failf("C13/cancelled-send-result", "%v: send with a cancelled context returned %v", c, err)
	}
	vh.Label("send:cancelled")
	if !c.Conn {
		// ... and nothing of it is written later either: the application goes on with the next
		// request on the same channel (live context); the transport sees that request and
		// nothing else
		var nerr error
		ok, pan, _ := timed(2*time.Second, func() { nerr = ch.SendPackage(context.Background(), &tds.LanguagePackage{Cmd: "next"}) })
		if pan != nil || !ok || nerr != nil {
			return vh.Failf("C13/send-after-cancelled-send", "%v: the next send (live context) after the cancelled one: returned=%v panic=%v err=%v", c, ok, pan, nerr)
		}
		ps, perr := rc.ParsePackets(e.pipe.Written()[before:])
		var body []byte
		for _, p := range ps {
			body = append(body, p.Body...)
		}
		want := append([]byte{0x21, 5, 0, 0, 0, 0}, "next"...)
		if perr != nil || !bytes.Equal(body, want) {
			return vh.Failf("C13/cancelled-send-written-later", "%v: after a send with a cancelled context (error returned, nothing written), the next request put %d body bytes on the wire instead of its own %d: the cancelled request (%d bytes) is sent ahead of it; parse error: %v", c, len(body), len(want), len(cmd)+6, perr)
		}
		vh.Label("send:next-request-after-cancelled-send")
	}
	if c.Packets >= 2 {
		vh.NonTrivial(c.String())
	}
	return nil
}

// ---- (3) Close in a generated state

func afterClose(c c13Case, e *env, ch *tds.Channel, id int) *vh.Failure {
	ctx := e.bg
	if e.bg.Err() != nil {
		ctx = context.Background()
	}
	type call struct {
		name string
		fn   func() error
	}
	calls := []call{
		{"NextPackage(wait)", func() error { _, err := ch.NextPackage(ctx, true); return err }},
		{"NextPackage(nowait)", func() error { _, err := ch.NextPackage(ctx, false); return err }},
		{"NextPackageUntil", func() error {
			_, err := ch.NextPackageUntil(ctx, true, func(tds.Package) (bool, error) { return true, nil })
			return err
		}},
		{"SendPackage", func() error { return ch.SendPackage(ctx, &tds.LanguagePackage{Cmd: "x"}) }},
		{"QueuePackage", func() error { return ch.QueuePackage(ctx, &tds.LanguagePackage{Cmd: "x"}) }},
		{"SendRemainingPackets", func() error { return ch.SendRemainingPackets(ctx) }},
		{"Close", func() error { return ch.Close() }},
	}
	for _, cl := range calls {
		var err error
		ok, pan, _ := timed(3*time.Second, func() { err = cl.fn() })
		if pan != nil {
			cls := "C13/call-after-close-panics"
			if cl.name == "Close" {
				cls = "C13/second-close-panics"
			}
			return vh.Failf(cls, "%v: %s on the closed channel panicked: %v", c, cl.name, pan)
		}
		if !ok {
			return vh.Failf("C13/call-after-close-blocks", "%v: %s on the closed channel did not return within 3 s", c, cl.name)
		}
		if !errors.Is(err, tds.ErrChannelClosed) {
			return vh.Failf("C13/call-after-close-not-reported", "%v: %s on the closed channel returned %v, want an error that is ErrChannelClosed", c, cl.name, err)
		}
	}
	return nil
}

func runClose(c c13Case) *vh.Failure {
	e := newEnv(c.Cap, c.Peer)
	defer e.shutdown()
	ch, f := openChannel(e, c.Logical)
	if f != nil {
		return f
	}
	id := ch.VerifID()
	e.sendPackages(id, 0, c.Sent, false)
	time.Sleep(time.Duration(100+c.DelayUs%300) * time.Microsecond)
	for i := 0; i < c.Consumed && i < c.Sent; i++ {
		if _, err := ch.NextPackage(e.bg, true); err != nil {
			return vh.Failf("C13/receive", "%v: NextPackage %d: %v", c, i, err)
		}
	}
	if c.Control {
		e.pipe.Feed(rc.Packet{Type: rc.BufProtAck, Channel: uint16(id), Status: rc.StatEOM}.Bytes())
		time.Sleep(200 * time.Microsecond)
	}
	if c.ResetFirst {
		ok, pan, _ := timed(2*time.Second, func() { ch.Reset() })
		if pan != nil || !ok {
			return vh.Failf("C13/reset-blocks", "%v: Channel.Reset with %d of %d packages unconsumed (queue capacity %d): returned=%v panic=%v", c, c.Sent-c.Consumed, c.Sent, c.Cap, ok, pan)
		}
		vh.Label("close:reset-called-first")
	}
	// drain the queue completely if the consumer took everything, so a logout answer can be seen
	readerParked := c.Sent-c.Consumed > c.Cap
	var wg sync.WaitGroup
	var blockedErr error
	var blockedPkg tds.Package
	blockedReturned := make(chan struct{})
	if c.Blocked && c.Sent <= c.Consumed {
		wg.Add(1)
		go func() {
			defer wg.Done()
			defer close(blockedReturned)
			defer func() { recover() }()
			blockedPkg, blockedErr = ch.NextPackage(e.bg, true)
		}()
		time.Sleep(200 * time.Microsecond)
	} else {
		close(blockedReturned)
	}
	var release func()
	sendReturned := make(chan error, 1)
	if c.Parked {
		release = e.pipe.GateWrites()
		go func() {
			defer func() {
				if r := recover(); r != nil {
					sendReturned <- fmt.Errorf("panic: %v", r)
				}
			}()
			// (a request of several packets is parked inside QueuePackage, where the full packets
			// go out, a short one inside SendRemainingPackets)
			sendReturned <- ch.SendPackage(e.bg, &tds.LanguagePackage{Cmd: "parked" + strings.Repeat("x", 520*(c.Packets-1))})
		}()
		if !e.pipe.WaitParkedWrite(1, 2*time.Second) {
			release()
			return vh.Failf("C13/send", "%v: SendPackage never reached the transport", c)
		}
		// let the write (and with it the send) finish shortly after Close has started
		go func() {
			time.Sleep(time.Duration(200+c.DelayUs) * time.Microsecond)
			release()
		}()
	}
	bound := 5 * time.Second
	if c.Peer == "never" && !c.Logical {
		bound = 65 * time.Second
	}
	if c.ParentCancelled {
		// the usual deferred cleanup after the caller's context has ended
		e.cancel()
	}
	if c.WriteFails {
		e.pipe.FailWrites(func(int, []byte) (int, error) { return 0, peer.ErrReset })
	}
	var cerr error
	ok, pan, took := timed(bound, func() { cerr = ch.Close() })
	_ = cerr
	if pan != nil {
		return vh.Failf("C13/close-panics", "%v: Close panicked: %v", c, pan)
	}
	if !ok {
		cls := "C13/close-blocks"
		switch {
		case readerParked:
			cls = "C13/close-blocks-while-reader-parked-on-full-queue"
		case c.Blocked && c.Sent <= c.Consumed:
			cls = "C13/close-blocks-while-consumer-waits"
		case c.Parked:
			cls = "C13/close-blocks-while-send-in-flight"
		}
		return vh.Failf(cls, "%v: Close did not return within %v", c, took)
	}
	select {
	case <-blockedReturned:
		if c.Blocked && c.Sent <= c.Consumed {
			// the woken consumer either got a package (it may legitimately have received a late
			// one) or is told why there is none: the closed condition (or a context / connection
			// error) - never "nothing ready yet", which only a non-waiting call may answer,
			// and never nothing at all
			switch {
			case blockedErr == nil && blockedPkg == nil:
				return vh.Failf("C13/woken-consumer-gets-nothing", "%v: NextPackage(wait=true) woken by Close returned (nil, nil)", c)
			case errors.Is(blockedErr, tds.ErrNoPackageReady):
				return vh.Failf("C13/woken-consumer-not-told-closed", "%v: NextPackage(wait=true) woken by Close returned %v", c, blockedErr)
			}
		}
	case <-time.After(2 * time.Second):
		return vh.Failf("C13/consumer-still-blocked-after-close", "%v: a consumer blocked in NextPackage is still blocked 2 s after Close returned", c)
	}
	if c.Parked {
		select {
		case <-sendReturned:
		case <-time.After(3 * time.Second):
			return vh.Failf("C13/send-still-blocked-after-close", "%v: SendPackage still blocked 3 s after Close returned", c)
		}
	}
	if f := afterClose(c, e, ch, id); f != nil {
		return f
	}
	// packets for the closed id are connection errors, nothing is delivered (with the
	// connection's context cancelled the reader has ended: nothing is read at all)
	if c.WriteFails {
		vh.Label("close:transport-refuses-writes")
	}
	if c.Logical && !c.ParentCancelled && !c.WriteFails {
		for e.conn.VerifConnErr() != nil {
		}
		e.sendPackages(id, 1000, 2, true)
		got := 0
		deadline := time.Now().Add(2 * time.Second)
		for got < 2 && time.Now().Before(deadline) {
			if e.conn.VerifConnErr() != nil {
				got++
			} else {
				time.Sleep(100 * time.Microsecond)
			}
		}
		if got != 2 {
			return vh.Failf("C13/packet-for-closed-channel", "%v: 2 packets for the closed channel id %d produced %d connection errors", c, id, got)
		}
		seen := false
		for dl := time.Now().Add(2 * time.Second); !seen && time.Now().Before(dl); time.Sleep(100 * time.Microsecond) {
			e.mu.Lock()
			seen = e.closeSeen[id]
			e.mu.Unlock()
		}
		if !seen {
			return vh.Failf("C13/no-teardown-packet", "%v: the peer never saw the CLOSE packet of channel %d", c, id)
		}
	}
	vh.Label("close:" + map[bool]string{true: "logical", false: "main"}[c.Logical])
	if readerParked {
		vh.Label("close:reader-parked-on-full-queue")
	}
	if c.Blocked && c.Sent <= c.Consumed {
		vh.Label("close:consumer-blocked")
	}
	if c.Parked {
		vh.Label("close:send-parked")
	}
	if c.Control {
		vh.Label("close:control-packet-queued")
	}
	if c.ParentCancelled {
		vh.Label("close:parent-context-cancelled-first")
	}
	vh.Label("peer:" + c.Peer)
	if readerParked || c.Parked || (c.Blocked && c.Sent <= c.Consumed) || c.Sent-c.Consumed >= c.Cap {
		vh.NonTrivial(c.String())
	}
	return nil
}

// ---- (4) Conn.Close

func runConnClose(c c13Case) *vh.Failure {
	e := newEnv(c.Cap, c.Peer)
	defer e.shutdown()
	var chans []*tds.Channel
	for i := 0; i < c.NChan; i++ {
		var ch *tds.Channel
		var err error
		ok, pan, _ := timed(5*time.Second, func() { ch, err = e.conn.NewChannel() })
		if !ok || pan != nil || err != nil {
			return vh.Failf("C13/newchannel", "%v: NewChannel %d: ok=%v panic=%v err=%v", c, i, ok, pan, err)
		}
		chans = append(chans, ch)
	}
	if c.ClosedEarlier > 0 && c.ClosedEarlier < len(chans)-1 {
		var err error
		ok, pan, _ := timed(5*time.Second, func() { err = chans[c.ClosedEarlier].Close() })
		if !ok || pan != nil || err != nil {
			return vh.Failf("C13/close", "%v: Close of logical channel %d: ok=%v panic=%v err=%v", c, chans[c.ClosedEarlier].VerifID(), ok, pan, err)
		}
		vh.Label("connclose:a-lower-channel-was-closed-earlier")
	}
	if c.MainClosedFirst {
		var err error
		ok, pan, _ := timed(5*time.Second, func() { err = chans[0].Close() })
		if !ok || pan != nil {
			return vh.Failf("C13/close", "%v: Close of the main channel: ok=%v panic=%v err=%v", c, ok, pan, err)
		}
		vh.Label("connclose:main-channel-closed-first")
	}
	// state: some packages queued on the last channel (possibly beyond capacity)
	last := chans[len(chans)-1]
	e.sendPackages(last.VerifID(), 0, c.Sent, false)
	time.Sleep(time.Duration(100+c.DelayUs%300) * time.Microsecond)
	readerParked := c.Sent > c.Cap
	if c.ErrFull && !readerParked {
		// the transport starts failing: the reader reports errors until the queue is full
		_, _, given, _ := e.pipe.Stats()
		e.pipe.FailAfter(given, io.EOF)
		deadline := time.Now().Add(2 * time.Second)
		for e.conn.VerifConnErrLen() < 10 && time.Now().Before(deadline) {
			time.Sleep(100 * time.Microsecond)
		}
	}
	if c.Stray > 0 {
		for i := 0; i < c.Stray; i++ {
			e.pipe.Feed(rc.Packet{Type: rc.BufResponse, Channel: uint16(4000 + i), Status: rc.StatEOM, Body: []byte{rc.TokDone, 0, 0, 0, 0, 0, 0, 0, 0}}.Bytes())
		}
		// let the reader get to them
		deadline := time.Now().Add(time.Second)
		for e.conn.VerifConnErrLen() < 10 && e.conn.VerifConnErrLen() < c.Stray && time.Now().Before(deadline) {
			time.Sleep(100 * time.Microsecond)
		}
		time.Sleep(300 * time.Microsecond)
	}
	if c.ParentCancelled {
		e.cancel()
		time.Sleep(time.Duration(c.DelayUs%300) * time.Microsecond)
	}
	if c.CloseFails {
		e.pipe.FailClose(errors.New("transport: close notification could not be sent"))
	}
	var cerr error
	bound := 5 * time.Second
	if c.Peer == "never" {
		bound = 65 * time.Second
	}
	ok, pan, took := timed(bound, func() { cerr = e.conn.Close() })
	_ = cerr
	if pan != nil {
		return vh.Failf("C13/conn-close-panics", "%v: Conn.Close panicked: %v", c, pan)
	}
	if !ok {
		cls := "C13/conn-close-blocks"
		if readerParked {
			cls = "C13/close-blocks-while-reader-parked-on-full-queue"
		}
		return vh.Failf(cls, "%v: Conn.Close did not return within %v", c, took)
	}
	if !e.pipe.Closed() {
		return vh.Failf("C13/transport-not-closed", "%v: the transport is not closed after Conn.Close", c)
	}
	select {
	case <-e.done:
	case <-time.After(2 * time.Second):
		cls := "C13/reader-not-ended"
		if c.ErrFull {
			cls = "C13/reader-not-ended-with-full-error-queue"
		}
		return vh.Failf(cls, "%v: the reader goroutine has not ended 2 s after Conn.Close (connection error queue length %d)", c, e.conn.VerifConnErrLen())
	}
	for _, ch := range chans {
		if f := afterClose(c, e, ch, ch.VerifID()); f != nil {
			return f
		}
	}
	if n := e.conn.VerifChannelCount(); n != 0 {
		return vh.Failf("C13/channels-left-registered", "%v: %d channels still registered after Conn.Close", c, n)
	}
	vh.Label(fmt.Sprintf("connclose:channels=%d", c.NChan))
	if c.ErrFull {
		vh.Label("connclose:error-queue-full")
	}
	if c.ParentCancelled {
		vh.Label("connclose:parent-context-cancelled-first")
	}
	if c.CloseFails {
		vh.Label("connclose:transport-close-reports-error")
	}
	if c.Stray > 10 {
		vh.Label("connclose:more-stray-packets-than-the-error-queue-holds")
	}
	if readerParked {
		vh.Label("connclose:reader-parked")
	}
	if readerParked || c.ErrFull || c.NChan >= 2 {
		vh.NonTrivial(c.String())
	}
	return nil
}

// ---- generators

func genCase(rt *rapid.T, kind string) c13Case {
	c := c13Case{Kind: kind, Peer: "now", NChan: 1, Packets: 1}
	c.Cap = rapid.IntRange(1, 6).Draw(rt, "capacity")
	c.Procs = rapid.SampledFrom([]int{1, 2, 4, 16}).Draw(rt, "gomaxprocs")
	c.Logical = rapid.Bool().Draw(rt, "logical")
	c.DelayUs = rapid.SampledFrom([]int{0, 1, 10, 50, 200, 1000, 3000}).Draw(rt, "delay")
	sent := func() {
		switch rapid.IntRange(0, 3).Draw(rt, "fill") {
		case 0:
			c.Sent = 0
		case 1:
			c.Sent = rapid.IntRange(1, c.Cap).Draw(rt, "sent<=cap")
		default:
			c.Sent = c.Cap + rapid.IntRange(1, 4).Draw(rt, "sent>cap")
		}
		c.Consumed = rapid.IntRange(0, c.Sent).Draw(rt, "consumed")
		if rapid.IntRange(0, 2).Draw(rt, "abandon") == 0 && c.Sent > c.Cap+1 {
			c.Consumed = rapid.IntRange(0, c.Sent-c.Cap-1).Draw(rt, "consumed-few")
		}
	}
	switch kind {
	case "cancel-recv":
		sent()
		c.More = rapid.Bool().Draw(rt, "more")
		c.Until = rapid.Bool().Draw(rt, "until")
		c.Conn = rapid.IntRange(0, 2).Draw(rt, "connctx") == 0
		c.Before = rapid.Bool().Draw(rt, "before")
		if !c.Conn {
			c.Cause = rapid.SampledFrom([]int{0, 0, 1, 2}).Draw(rt, "cause")
		}
		if c.Until && rapid.IntRange(0, 2).Draw(rt, "failcb") == 0 {
			// needs at least one package to fail on, and no further packets
			c.FailCB, c.More = true, false
			if c.Sent == 0 {
				c.Sent = 1
			}
			if c.Consumed >= c.Sent {
				c.Consumed = c.Sent - 1
			}
		}
	case "cancel-send":
		c.Conn = rapid.Bool().Draw(rt, "connctx")
		c.Until = rapid.Bool().Draw(rt, "queue+sendremaining")
		c.Packets = rapid.IntRange(1, 4).Draw(rt, "packets")
		if rapid.Bool().Draw(rt, "midsend") {
			c.Packets = rapid.IntRange(2, 8).Draw(rt, "packets")
			c.MidSend = rapid.IntRange(1, c.Packets-1).Draw(rt, "cancelled-during-write")
			if rapid.Bool().Draw(rt, "early") {
				c.MidSend = 1
			}
		}
	case "close":
		sent()
		c.Peer = rapid.SampledFrom([]string{"now", "now", "late"}).Draw(rt, "peer")
		// on the main channel a blocked consumer and the logout race for the server's DONE:
		// if the consumer wins, Close waits for the library's one-minute logout timeout -
		// bounded, but too slow for this tier (covered by TestSilentPeer in thorough)
		c.Blocked = c.Logical && rapid.Bool().Draw(rt, "blocked")
		// (a send parked in the transport while Close comes: on a logical channel Close's teardown
		// waits for the packet being written, on the main channel its logout waits for the whole
		// message being sent)
		c.Parked = rapid.IntRange(0, 2).Draw(rt, "parked") == 0
		if c.Parked {
			c.Packets = rapid.IntRange(1, 3).Draw(rt, "parked-request-packets")
		}
		c.Control = rapid.IntRange(0, 2).Draw(rt, "control") == 0
		c.ResetFirst = rapid.IntRange(0, 3).Draw(rt, "resetfirst") == 0
		if rapid.IntRange(0, 3).Draw(rt, "parentcancelled") == 0 {
			// with the connection's context gone the logout / teardown fails fast; a send may
			// still be parked in the transport
			c.ParentCancelled = true
			c.Parked = rapid.Bool().Draw(rt, "parked-main")
			if c.Parked {
				c.Packets = rapid.IntRange(1, 3).Draw(rt, "parked-request-packets")
			}
		}
		if !c.Parked && rapid.IntRange(0, 3).Draw(rt, "writefails") == 0 {
			// (the main channel's logout then fails at once instead of waiting for an answer)
			c.WriteFails = true
		}
	case "connclose":
		c.NChan = rapid.IntRange(1, 4).Draw(rt, "channels")
		c.MainClosedFirst = rapid.IntRange(0, 3).Draw(rt, "mainclosedfirst") == 0
		if rapid.IntRange(0, 2).Draw(rt, "gap") == 0 {
			c.NChan = rapid.IntRange(3, 6).Draw(rt, "channels")
			c.ClosedEarlier = rapid.IntRange(1, c.NChan-2).Draw(rt, "closed-earlier")
		}
		c.Logical = false
		switch rapid.IntRange(0, 2).Draw(rt, "fill") {
		case 0:
			c.Sent = 0
		case 1:
			c.Sent = rapid.IntRange(1, c.Cap).Draw(rt, "sent<=cap")
		default:
			c.Sent = c.Cap + rapid.IntRange(1, 3).Draw(rt, "sent>cap")
		}
		c.ErrFull = rapid.IntRange(0, 2).Draw(rt, "errfull") == 0
		c.Peer = rapid.SampledFrom([]string{"now", "now", "late"}).Draw(rt, "peer")
		c.ParentCancelled = rapid.IntRange(0, 2).Draw(rt, "parentcancelled") == 0
		c.CloseFails = rapid.IntRange(0, 3).Draw(rt, "closefails") == 0
		if !c.ErrFull && c.Sent <= c.Cap && rapid.IntRange(0, 3).Draw(rt, "stray") == 0 {
			c.Stray = rapid.SampledFrom([]int{1, 9, 10, 11, 12, 15}).Draw(rt, "nstray")
		}
	}
	return c
}

func testKind(t *testing.T, name, kind string, quick, thorough int) {
	gen := func(rt *rapid.T) c13Case {
		c := genCase(rt, kind)
		vh.Sample(kind, c)
		return c
	}
	vh.Check(t, name, vh.N(quick, thorough), gen, runCase)
}

func TestCancelReceive(t *testing.T) { testKind(t, "TestCancelReceive", "cancel-recv", 350, 8000) }
func TestCancelSend(t *testing.T)    { testKind(t, "TestCancelSend", "cancel-send", 200, 4000) }
func TestClose(t *testing.T)         { testKind(t, "TestClose", "close", 350, 8000) }
func TestConnClose(t *testing.T)     { testKind(t, "TestConnClose", "connclose", 250, 6000) }

// the peer never answers the logout: Close is bounded by the library's one-minute
// logout timeout. Thorough tier only (each case takes a minute; they run in parallel).
func TestSilentPeer(t *testing.T) {
	if !vh.Thorough() && !vh.Replaying() {
		vh.Note("TestSilentPeer (peer never answers the logout, 60 s bound) runs in the thorough tier only")
		return
	}
	e := vh.NewEnum(t, "TestSilentPeer", runCase)
	if e.Skip() {
		return
	}
	if vh.Shard() != 0 {
		return
	}
	var wg sync.WaitGroup
	var mu sync.Mutex
	var cases []c13Case
	for capN := 1; capN <= 2; capN++ {
		for _, kind := range []string{"close", "connclose"} {
			for sent := 0; sent <= capN+1; sent += capN {
				cases = append(cases, c13Case{Kind: kind, Cap: capN, Sent: sent, Peer: "never", NChan: 2, Procs: 4, Packets: 1})
			}
		}
	}
	// main channel with a blocked consumer (see genCase): bounded by the logout timeout
	cases = append(cases, c13Case{Kind: "close", Cap: 3, Peer: "never", Blocked: true, NChan: 1, Procs: 4, Packets: 1})
	results := make([]*vh.Failure, len(cases))
	for i, c := range cases {
		wg.Add(1)
		go func(i int, c c13Case) {
			defer wg.Done()
			f := runCaseNoProcs(c)
			mu.Lock()
			results[i] = f
			mu.Unlock()
		}(i, c)
	}
	wg.Wait()
	for i, c := range cases {
		c := c
		f := results[i]
		e2 := vh.NewEnum(t, "TestSilentPeer", func(c13Case) *vh.Failure { return f })
		if !e2.Do(c) {
			return
		}
	}
	e.Done("peer never answers the logout: Close/Conn.Close in 12 queue states")
}

// runCaseNoProcs: like runCase but without touching GOMAXPROCS (cases run in parallel)
func runCaseNoProcs(c c13Case) (f *vh.Failure) {
	defer func() {
		if r := recover(); r != nil {
			f = vh.Failf("C13/panic", "panic in %s: %v", c.Kind, r)
		}
	}()
	if c.Kind == "close" {
		return runClose(c)
	}
	return runConnClose(c)
}
