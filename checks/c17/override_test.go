package c17

import (
	"encoding/json"
	"fmt"
	"net/url"
	"reflect"
	"strconv"
	"strings"
	"testing"

	"github.com/SAP/go-dblib/dsn"
	"pgregory.net/rapid"
	"verif/internal/vh"
)

// ---------------------------------------------------------------- model of Ext

// extFieldOf: every accepted name -> json key of the member it addresses.
var extFieldOf = func() map[string]string {
	m := map[string]string{}
	for f, names := range extAliases {
		for _, n := range names {
			m[n] = f
		}
	}
	return m
}()

var extKind = map[string]reflect.Kind{
	"host": reflect.String, "port": reflect.String, "username": reflect.String, "password": reflect.String,
	"database": reflect.String, "a": reflect.String, "note": reflect.String,
	"p": reflect.Int, "count": reflect.Int, "flag": reflect.Bool, "on": reflect.Bool,
}

// extFields in a fixed order (generators must not depend on map iteration order).
var extFields = []string{"host", "port", "username", "password", "database", "a", "p", "flag", "note", "count", "on"}

// setModel assigns the textual value to member `field` of x (the model's typed assignment).
func setModel(x *Ext, field, v string) bool {
	for _, f := range fields(x) {
		if f.Key != field {
			continue
		}
		switch f.V.Kind() {
		case reflect.String:
			f.V.SetString(v)
		case reflect.Int:
			n, err := strconv.ParseInt(v, 10, 64)
			if err != nil {
				return false
			}
			f.V.SetInt(n)
		case reflect.Bool:
			if v != "true" && v != "false" {
				return false
			}
			f.V.SetBool(v == "true")
		}
		return true
	}
	return false
}

// ---------------------------------------------------------------- (3a) simple form: later key / alias wins

type assign struct {
	Key   string `json:"key"`
	Val   string `json:"val"`
	Quote int    `json:"quote"` // 0 bare, 1 "…", 2 '…'
}

func (a assign) String() string {
	q := [...]string{"", `"`, `'`}[a.Quote%3]
	return a.Key + "=" + q + a.Val + q
}

type overrideCase struct {
	Assigns []assign `json:"assigns"`
}

func genAssignFor(t *rapid.T, field string, avoid string) assign {
	names := extAliases[field]
	a := assign{Key: rapid.SampledFrom(names).Draw(t, "alias")}
	switch extKind[field] {
	case reflect.String:
		switch field {
		case "host": // see hostGen: nothing is claimed about arbitrary host text
			a.Val = hostGen(t)
		case "port":
			a.Val = portGen(t)
		default:
			a.Val = simpleText(t, "val")
		}
		if a.Val == avoid {
			if field == "port" {
				a.Val += "1"
			} else {
				a.Val += "z"
			}
		}
		if strings.Contains(a.Val, " ") {
			// a value with a space must be quoted (documented)
			a.Quote = rapid.IntRange(1, 2).Draw(t, "quote")
		} else {
			a.Quote = rapid.IntRange(0, 2).Draw(t, "quote")
		}
	case reflect.Int:
		n := intGen(t, "int")
		a.Val = strconv.Itoa(n)
		if a.Val == avoid {
			a.Val = strconv.Itoa(n/2 + 1)
		}
		a.Quote = rapid.SampledFrom([]int{0, 0, 0, 1, 2}).Draw(t, "quote")
	case reflect.Bool:
		a.Val = rapid.SampledFrom([]string{"true", "false"}).Draw(t, "bool")
		if a.Val == avoid {
			a.Val = map[string]string{"true": "false", "false": "true"}[a.Val]
		}
		a.Quote = rapid.SampledFrom([]int{0, 0, 0, 1, 2}).Draw(t, "quote")
	}
	return a
}

func genOverride(t *rapid.T) overrideCase {
	n := rapid.IntRange(0, 7).Draw(t, "others")
	as := make([]assign, 0, n+2)
	for i := 0; i < n; i++ {
		as = append(as, genAssignFor(t, rapid.SampledFrom(extFields).Draw(t, "field"), "\x00"))
	}
	// one member is assigned (at least) twice, through the same key or through two aliases
	f := rapid.SampledFrom(extFields).Draw(t, "twice")
	first := genAssignFor(t, f, "\x00")
	second := genAssignFor(t, f, first.Val)
	i := rapid.IntRange(0, len(as)).Draw(t, "pos1")
	as = append(as[:i], append([]assign{first}, as[i:]...)...)
	j := rapid.IntRange(i+1, len(as)).Draw(t, "pos2")
	as = append(as[:j], append([]assign{second}, as[j:]...)...)
	return overrideCase{Assigns: as}
}

func runOverride(c overrideCase) *vh.Failure {
	if len(c.Assigns) == 0 {
		return nil
	}
	want := new(Ext)
	parts := make([]string, len(c.Assigns))
	leadingSpace, nt := false, false
	lastKey := map[string]string{} // member -> key of its previous assignment
	labels := map[string]bool{}
	for i, a := range c.Assigns {
		f, ok := extFieldOf[a.Key]
		// outside the domain (hand-edited replay): not judged
		if !ok || !inSimpleDomain(a.Val) || a.Quote < 0 || a.Quote > 2 || (a.Quote == 0 && strings.Contains(a.Val, " ")) ||
			(f == "host" && !isDNSLabel(a.Val)) || (f == "port" && !isDigits(a.Val)) {
			vh.Label("override:outside-domain")
			return nil
		}
		if !setModel(want, f, a.Val) {
			vh.Label("override:outside-domain")
			return nil
		}
		if prev, seen := lastKey[f]; seen {
			if prev == a.Key {
				labels["override:same-key-again"] = true
			} else {
				labels["override:via-alias"] = true
			}
		}
		lastKey[f] = a.Key
		if a.Quote != 0 && strings.HasPrefix(a.Val, " ") {
			leadingSpace = true
			labels["override:leading-space"] = true
		}
		if a.Quote == 2 {
			labels["override:single-quoted"] = true
		}
		if a.Quote == 0 && a.Val == "" {
			labels["override:bare-empty-value"] = true
		}
		if textNonTrivial(a.Val) {
			nt = true
		}
		parts[i] = a.String()
	}
	ls := make([]string, 0, len(labels)+1)
	for _, l := range []string{"override:same-key-again", "override:via-alias", "override:leading-space", "override:single-quoted", "override:bare-empty-value"} {
		if labels[l] {
			ls = append(ls, l)
		}
	}
	vh.Label(append(ls, "override:simple")...)
	s := strings.Join(parts, " ")
	if nt {
		vh.NonTrivial("O" + s)
		vh.Sample("override-simple", c)
	}
	class := func(dflt string) string {
		if leadingSpace {
			return "C17/simple-leading-space-value"
		}
		return dflt
	}
	type parser struct {
		name string
		fn   func(string, interface{}) error
	}
	ps := []parser{{"ParseSimple", dsn.ParseSimple}}
	if !strings.Contains(s, "://") {
		ps = append(ps, parser{"Parse", dsn.Parse})
	}
	for _, p := range ps {
		got := new(Ext)
		err, pv := try(func() error { return p.fn(s, got) })
		if pv != nil {
			return vh.Failf(class("C17/parsesimple-panic-override"), "%s(%q) panicked: %v", p.name, s, pv)
		}
		if err != nil {
			return vh.Failf(class("C17/simple-override-error"), "%s(%q) = error %v, want %+v", p.name, s, err, *want)
		}
		if d := diff(want, got); d != "" {
			return vh.Failf(class("C17/simple-override-order"), "%s(%q): the last assignment of a member must win: %s", p.name, s, d)
		}
	}
	return nil
}

func TestSimpleOverride(t *testing.T) {
	vh.Check(t, "TestSimpleOverride", vh.N(25000, 1000000), genOverride, runOverride)
}

// ---------------------------------------------------------------- (3b) URI form: last value of a repeated key wins

type pair struct {
	Key string `json:"key"`
	Val string `json:"val"`
}

type uriOverrideCase struct {
	User  string `json:"user"`
	Pass  string `json:"pass"`
	Host  string `json:"host"`
	Port  string `json:"port"`
	Pairs []pair `json:"pairs"`
}

// members FormatURI writes into the query ("database and additional properties")
var queryFields = []string{"database", "a", "p", "flag", "note", "count", "on"}

func genURIValue(t *rapid.T, field string) string {
	switch extKind[field] {
	case reflect.Int:
		return strconv.Itoa(intGen(t, "int"))
	case reflect.Bool:
		return rapid.SampledFrom([]string{"true", "false"}).Draw(t, "bool")
	}
	return uriText(t, "val")
}

func genURIOverride(t *rapid.T) uriOverrideCase {
	c := uriOverrideCase{User: uriText(t, "user"), Pass: uriText(t, "pass"), Host: hostGen(t), Port: portGen(t)}
	// One name per member: with two aliases of one member in a query the library
	// walks a map, and the property only speaks of a *repeated key*.
	perm := rapid.Permutation(queryFields).Draw(t, "fields")
	nf := rapid.IntRange(1, 4).Draw(t, "nfields")
	var ps []pair
	for i, f := range perm[:nf] {
		key := rapid.SampledFrom(extAliases[f]).Draw(t, "alias")
		reps := rapid.IntRange(1, 2).Draw(t, "reps")
		if i == 0 {
			reps = rapid.IntRange(2, 3).Draw(t, "reps0")
		}
		for r := 0; r < reps; r++ {
			ps = append(ps, pair{key, genURIValue(t, f)})
		}
	}
	c.Pairs = rapid.Permutation(ps).Draw(t, "order")
	return c
}

func runURIOverride(c uriOverrideCase) *vh.Failure {
	if !isDNSLabel(c.Host) || !isDigits(c.Port) || len(c.Pairs) == 0 {
		vh.Label("uri-override:outside-domain")
		return nil
	}
	want := &Ext{Info: dsn.Info{Host: c.Host, Port: c.Port, Username: c.User, Password: c.Pass}}
	nameOf := map[string]string{}
	q := make([]string, len(c.Pairs))
	repeated, nt := false, textNonTrivial(c.User) || textNonTrivial(c.Pass)
	for i, p := range c.Pairs {
		f, ok := extFieldOf[p.Key]
		if !ok || (nameOf[f] != "" && nameOf[f] != p.Key) {
			vh.Label("uri-override:outside-domain")
			return nil
		}
		isQuery := false
		for _, qf := range queryFields {
			isQuery = isQuery || qf == f
		}
		if !isQuery || !setModel(want, f, p.Val) {
			vh.Label("uri-override:outside-domain")
			return nil
		}
		if nameOf[f] != "" {
			repeated = true
		}
		nameOf[f] = p.Key
		nt = nt || textNonTrivial(p.Val)
		q[i] = url.QueryEscape(p.Key) + "=" + url.QueryEscape(p.Val)
	}
	hp := c.Host
	if c.Port != "" {
		hp += ":" + c.Port
	}
	s := "ase://" + url.UserPassword(c.User, c.Pass).String() + "@" + hp + "/?" + strings.Join(q, "&")
	if repeated {
		vh.Label("uri-override", "uri-override:key-repeated")
	} else {
		vh.Label("uri-override")
	}
	if nt {
		vh.NonTrivial("U" + s)
		vh.Sample("override-uri", c)
	}
	for _, p := range []struct {
		name string
		fn   func(string, interface{}) error
	}{{"Parse", dsn.Parse}, {"ParseURI", dsn.ParseURI}} {
		got := new(Ext)
		err, pv := try(func() error { return p.fn(s, got) })
		if pv != nil {
			return vh.Failf("C17/parseuri-panic", "%s(%q) panicked: %v", p.name, s, pv)
		}
		if err != nil {
			return vh.Failf("C17/uri-override-error", "%s(%q) = error %v, want %+v", p.name, s, err, *want)
		}
		if d := diff(want, got); d != "" {
			return vh.Failf("C17/uri-override-order", "%s(%q): userinfo must be unescaped and the last value of a repeated key must win: %s", p.name, s, d)
		}
	}
	return nil
}

func TestURIOverride(t *testing.T) {
	vh.Check(t, "TestURIOverride", vh.N(15000, 700000), genURIOverride, runURIOverride)
}

// ---------------------------------------------------------------- (4) keys that match no field are rejected

type unknownCase struct {
	Form   string   `json:"form"`   // "simple" | "uri"
	Target string   `json:"target"` // "dsn.Info" | "tds.Info" | "Ext"
	Key    string   `json:"key"`
	Val    string   `json:"val"`
	Before []assign `json:"before"`
	After  []assign `json:"after"`
}

func aliasesOf(kind string) map[string][]string {
	switch kind {
	case "dsn.Info":
		return dsnAliases
	case "tds.Info":
		return tdsAliases
	case "Ext":
		return extAliases
	}
	return nil
}

func sortedNames(al map[string][]string) []string {
	var out []string
	for n := range allNames(al) {
		out = append(out, n)
	}
	// deterministic order for SampledFrom
	for i := range out {
		for j := i + 1; j < len(out); j++ {
			if out[j] < out[i] {
				out[i], out[j] = out[j], out[i]
			}
		}
	}
	return out
}

func genUnknown(t *rapid.T) unknownCase {
	c := unknownCase{
		Form:   rapid.SampledFrom([]string{"simple", "uri"}).Draw(t, "form"),
		Target: rapid.SampledFrom([]string{"dsn.Info", "tds.Info", "Ext"}).Draw(t, "target"),
	}
	names := sortedNames(aliasesOf(c.Target))
	known := allNames(aliasesOf(c.Target))
	switch rapid.IntRange(0, 5).Draw(t, "keykind") {
	case 0:
		c.Key = "" // an absent multiref tag must not make the empty key a name
	case 1:
		c.Key = rapid.StringMatching(`[A-Za-z_][A-Za-z0-9_.-]{0,10}`).Draw(t, "ident")
	case 2:
		c.Key = rapid.SampledFrom(names).Draw(t, "name") + rapid.SampledFrom([]string{"x", "_", "-", "1", "s"}).Draw(t, "suffix")
	case 3:
		c.Key = rapid.SampledFrom([]string{"x", "_", "-", "db"}).Draw(t, "prefix") + rapid.SampledFrom(names).Draw(t, "name")
	case 4:
		n := rapid.SampledFrom(names).Draw(t, "name")
		c.Key = rapid.SampledFrom([]string{strings.ToUpper(n), strings.ToUpper(n[:1]) + n[1:]}).Draw(t, "case")
	default:
		n := rapid.SampledFrom(names).Draw(t, "name")
		c.Key = n[:len(n)-1]
	}
	for known[c.Key] {
		c.Key += "_x"
	}
	// "1" is acceptable text for a string, an int and a bool member alike, so a
	// key that is wrongly matched to any member is accepted and not refused by
	// accident of the member's type
	c.Val = rapid.SampledFrom([]string{"1", "1", "1", "x", "true", ""}).Draw(t, "val")
	valid := func(label string) []assign {
		n := rapid.IntRange(0, 2).Draw(t, label)
		var as []assign
		for i := 0; i < n; i++ {
			k := "database"
			if c.Form == "simple" {
				k = rapid.SampledFrom(sortedNames(dsnAliases)).Draw(t, "validkey")
			} else if rapid.Bool().Draw(t, "db") {
				k = "db"
			}
			as = append(as, assign{Key: k, Val: rapid.SampledFrom([]string{"x1", "h", "22"}).Draw(t, "validval")})
		}
		return as
	}
	c.Before, c.After = valid("before"), valid("after")
	return c
}

func nearMiss(key string, known map[string]bool) bool {
	if key == "" {
		return true
	}
	for n := range known {
		if strings.EqualFold(n, key) || (len(key) > 1 && (strings.HasPrefix(n, key) || strings.HasPrefix(key, n) || strings.HasSuffix(key, n))) {
			return true
		}
	}
	return false
}

func runUnknown(c unknownCase) *vh.Failure {
	al := aliasesOf(c.Target)
	if al == nil || (c.Form != "simple" && c.Form != "uri") {
		return nil
	}
	known := allNames(al)
	if known[c.Key] || strings.ContainsAny(c.Key, " =\"'\\") || strings.ContainsAny(c.Val, " \"'\\") {
		vh.Label("unknown-key:outside-domain")
		return nil
	}
	var s string
	var fns []struct {
		name string
		fn   func(string, interface{}) error
	}
	all := append(append(append([]assign{}, c.Before...), assign{Key: c.Key, Val: c.Val}), c.After...)
	if c.Form == "simple" {
		parts := make([]string, len(all))
		for i, a := range all {
			parts[i] = a.Key + "=" + a.Val
		}
		s = strings.Join(parts, " ")
		fns = append(fns, struct {
			name string
			fn   func(string, interface{}) error
		}{"ParseSimple", dsn.ParseSimple})
	} else {
		parts := make([]string, len(all))
		for i, a := range all {
			parts[i] = url.QueryEscape(a.Key) + "=" + url.QueryEscape(a.Val)
		}
		s = "ase://u:p@h:1/?" + strings.Join(parts, "&")
		fns = append(fns, struct {
			name string
			fn   func(string, interface{}) error
		}{"ParseURI", dsn.ParseURI})
	}
	fns = append(fns, struct {
		name string
		fn   func(string, interface{}) error
	}{"Parse", dsn.Parse})
	keyLabel := "unknown-key:other"
	if c.Key == "" {
		keyLabel = "unknown-key:empty"
	} else if nearMiss(c.Key, known) {
		keyLabel = "unknown-key:near-miss"
	}
	vh.Label("unknown-key:"+c.Form, keyLabel)
	if keyLabel != "unknown-key:other" {
		b, _ := json.Marshal(c)
		vh.NonTrivial("K" + string(b))
		vh.Sample("unknown-key-"+c.Form, c)
	}
	for _, p := range fns {
		out := freshOf(c.Target)
		err, pv := try(func() error { return p.fn(s, out) })
		if pv != nil {
			return vh.Failf("C17/unknown-key-panic", "%s(%q, *%s) panicked: %v", p.name, s, c.Target, pv)
		}
		if err == nil {
			cl := "C17/unknown-key-accepted"
			if c.Key == "" {
				// strings.Split("", ",") of an absent multiref tag registers the alias ""
				cl = "C17/empty-key-accepted"
			}
			return vh.Failf(cl, "%s(%q, *%s) = nil, want an error: key %q matches no member; result %s", p.name, s, c.Target, c.Key, fmt.Sprintf("%+v", reflect.ValueOf(out).Elem().Interface()))
		}
	}
	return nil
}

func TestUnknownKeys(t *testing.T) {
	vh.Check(t, "TestUnknownKeys", vh.N(15000, 500000), genUnknown, runUnknown)
}
