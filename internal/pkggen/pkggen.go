// Package pkggen generates TDS packages as refcodec descriptions (all package types,
// narrow and wide variants, optional parts, boundary-biased string lengths, formats
// and rows over all data types) and compares library-decoded packages with them.
package pkggen

import (
	"fmt"
	"strings"

	"pgregory.net/rapid"
	rc "verif/internal/refcodec"
	"verif/internal/valgen"
)

// Kinds of packages (by name) the generator knows.
var ServerKinds = []string{"done", "doneproc", "doneinproc", "eed", "loginack", "msg", "capability", "envchange", "returnstatus",
	"orderby", "orderby2", "rowfmt", "rowfmt2", "paramfmt", "paramfmt2", "row", "params", "dynamic-ack", "curinfo", "curinfo3"}
var ClientKinds = []string{"language", "dynamic", "dynamic2", "logout", "msg", "capability", "paramfmt", "paramfmt2", "params",
	"curdeclare", "curdeclare3", "curinfo", "curinfo3", "curopen", "curfetch", "curupdate", "curdelete"}
var AllKinds = []string{"done", "doneproc", "doneinproc", "eed", "error", "loginack", "msg", "capability", "envchange", "returnstatus",
	"orderby", "orderby2", "rowfmt", "rowfmt2", "paramfmt", "paramfmt2", "row", "params", "language", "dynamic", "dynamic2", "logout",
	"curdeclare", "curdeclare3", "curinfo", "curinfo3", "curopen", "curfetch", "curupdate", "curdelete"}

// Str draws a string of length 0..maxLen, biased to the boundaries of the length prefix.
func Str(rt *rapid.T, label string, maxLen int) string {
	var n int
	switch rapid.IntRange(0, 9).Draw(rt, label+"-lenclass") {
	case 0:
		n = 0
	case 1:
		n = maxLen
	case 2:
		n = rapid.SampledFrom([]int{1, 254, 255, 256, 65534, 65535, maxLen - 1}).Draw(rt, label+"-lenb")
		if n > maxLen {
			n = maxLen
		}
		if n < 0 {
			n = 0
		}
	default:
		n = rapid.IntRange(0, minI(maxLen, 12)).Draw(rt, label+"-len")
	}
	if n == 0 {
		return ""
	}
	seed := rapid.StringMatching(`[a-zA-Z0-9_ .#@ä€]{1,6}`).Draw(rt, label)
	var sb strings.Builder
	for sb.Len() < n {
		sb.WriteString(seed)
	}
	s := sb.String()[:n]
	// names and texts that end or begin with what looks like padding (NUL, blank, newline)
	if x := rapid.IntRange(0, 11).Draw(rt, label+"-pad"); x < 3 {
		pad := rapid.SampledFrom([]string{"\x00", "\x00\x00", " ", "\n", "\t "}).Draw(rt, label+"-padding")
		if len(pad) > n {
			pad = pad[:n]
		}
		if x == 0 {
			s = pad + s[len(pad):]
		} else {
			s = s[:n-len(pad)] + pad
		}
	}
	return s
}

func minI(a, b int) int {
	if a < b {
		return a
	}
	return b
}

// DoneStatus draws a DONE status word: final, or a combination of other bits.
func DoneStatus(rt *rapid.T) uint16 {
	switch rapid.IntRange(0, 3).Draw(rt, "doneclass") {
	case 0:
		return rc.DoneFinal
	case 1:
		return rapid.SampledFrom([]uint16{rc.DoneMore, rc.DoneCount, rc.DoneProc, rc.DoneError, rc.DoneInxact, rc.DoneMore | rc.DoneCount, rc.DoneCount | rc.DoneProc, rc.DoneError | rc.DoneInxact}).Draw(rt, "donebits")
	}
	return uint16(rapid.IntRange(0, 0xff).Draw(rt, "donestatus"))
}

func genDone(rt *rapid.T, tok byte) *rc.Done {
	return &rc.Done{Tok: tok, Status: DoneStatus(rt), Tran: uint16(rapid.IntRange(0, 4).Draw(rt, "tran")), Count: rapid.Int32().Draw(rt, "count")}
}

// GenEED draws an EED package; info decides the TDS_EED_INFO bit (nil: random).
func GenEED(rt *rapid.T, info *bool) *rc.EED {
	st := uint8(rapid.SampledFrom([]int{0, 1, 2, 3}).Draw(rt, "eedstatus"))
	if info != nil {
		if *info {
			st |= rc.EEDInfo
		} else {
			st &^= rc.EEDInfo
		}
	}
	msg := Str(rt, "eedmsg", 65535-300)
	// servers terminate some messages with a newline; the library's reader strips one
	// trailing newline from the message (comparisons account for that)
	msg = strings.TrimSuffix(msg, "\n")
	if rapid.IntRange(0, 3).Draw(rt, "eednewline") == 0 {
		msg += "\n"
	}
	return &rc.EED{
		MsgNumber: rapid.Uint32().Draw(rt, "msgnr"), State: rapid.Uint8().Draw(rt, "state"), Class: rapid.Uint8().Draw(rt, "class"),
		SQLState: []byte(Str(rt, "sqlstate", 5)), Status: st, Tran: uint16(rapid.IntRange(0, 4).Draw(rt, "tran")),
		Msg: msg, Server: Str(rt, "server", 30), Proc: Str(rt, "proc", 30), Line: rapid.Uint16().Draw(rt, "line"),
	}
}

func genCapability(rt *rapid.T) *rc.Capability {
	c := &rc.Capability{}
	types := rapid.SampledFrom([][]uint8{{1, 2}, {1}, {2}, {1, 2, 3}, {2, 1}}).Draw(rt, "captypes")
	for _, t := range types {
		n := rapid.IntRange(1, 16).Draw(rt, "masklen")
		m := rc.CapMask{Type: t, Mask: make([]byte, n)}
		switch rapid.IntRange(0, 2).Draw(rt, "maskclass") {
		case 0: // single bit
			m.Set(rapid.IntRange(0, 8*n-1).Draw(rt, "bit"))
		case 1:
			for i := range m.Mask {
				m.Mask[i] = rapid.Byte().Draw(rt, "maskbyte")
			}
		default:
			k := rapid.IntRange(1, 6).Draw(rt, "nbits")
			for i := 0; i < k; i++ {
				m.Set(rapid.IntRange(0, 8*n-1).Draw(rt, "bit"))
			}
		}
		c.Masks = append(c.Masks, m)
	}
	return c
}

// GenEnv draws an ENVCHANGE package with n members (packet sizes are legal ones).
func GenEnv(rt *rapid.T, n int) *rc.EnvChange {
	e := &rc.EnvChange{}
	for i := 0; i < n; i++ {
		t := uint8(rapid.IntRange(1, 4).Draw(rt, "envtype"))
		m := rc.EnvMember{Type: t}
		if t == rc.EnvPackSize {
			m.New = fmt.Sprint(rapid.SampledFrom([]int{512, 256, 1024, 2048, 4096, 16384, 65535, 513, 2000}).Draw(rt, "packsize"))
			m.Old = "512"
		} else {
			m.New = Str(rt, "envnew", 255)
			m.Old = Str(rt, "envold", 255)
		}
		e.Members = append(e.Members, m)
	}
	return e
}

// GenCells draws n cells over all data types (with NULLs) and derives the columns.
func GenCells(rt *rapid.T, tok byte, n int, small bool) (rc.Fmt, []rc.Cell, []valgen.Val) {
	f := rc.Fmt{Tok: tok}
	var cells []rc.Cell
	var vals []valgen.Val
	for i := 0; i < n; i++ {
		tw := valgen.GenTW(rt)
		v := valgen.Gen(rt, tw)
		if small {
			// keep responses short: cap long strings / binaries
			if len(v.S) > 40 {
				v.S = strings.ToValidUTF8(v.S[:40], "")
				if v.S == "" {
					v.S = "x"
				}
			}
			if len(v.B) > 40 {
				v.B = v.B[:40]
			}
		}
		if valgen.IsNullable(tw.T) && rapid.IntRange(0, 5).Draw(rt, "null") == 0 {
			v = valgen.Val{V: rc.V{T: tw.T, W: tw.W, Null: true, Prec: v.Prec, Scal: v.Scal}}
		}
		c := ColFor(rt, tok, v)
		cell := rc.Cell{V: v.V}
		if c.Status&rc.ColumnStatus != 0 {
			// the format announces a status byte in front of each value: any bits (0x01 is the
			// NULL bit; the value's length and data follow all the same)
			cell.DStatus = uint8(rapid.SampledFrom([]int{0, 0, 1, 1, 2, 3, 0x80, 0xff}).Draw(rt, "datastatus"))
		}
		if isTxtPtr(tw.T) {
			cell.TxtPtr = genTxtPtr(rt)
			cell.TS = rapid.SliceOfN(rapid.Byte(), 8, 8).Draw(rt, "ts")
		}
		f.Cols = append(f.Cols, c)
		cells = append(cells, cell)
		vals = append(vals, v)
	}
	return f, cells, vals
}

func isTxtPtr(t byte) bool {
	return t == rc.TText || t == rc.TImage || t == rc.TUnitext || t == rc.TXML
}

// ColFor derives a legal column format for a value.
func ColFor(rt *rapid.T, tok byte, v valgen.Val) rc.Col {
	wide := tok == rc.TokRowFmt2 || tok == rc.TokParamFmt2
	c := rc.Col{Name: Str(rt, "colname", 255), T: v.T, User: rapid.Int32().Draw(rt, "usertype"), Locale: Str(rt, "locale", 255)}
	if tok == rc.TokRowFmt2 {
		c.Label, c.Catalog, c.Schema, c.Table = Str(rt, "label", 255), Str(rt, "catalog", 255), Str(rt, "schema", 255), Str(rt, "table", 255)
	}
	st := uint32(rapid.SampledFrom([]int{0, 0x8, 0x20, 0x28, 0x10, 0x1, 0x9, 0x40, 0x88}).Draw(rt, "colstatus"))
	if wide && rapid.IntRange(0, 3).Draw(rt, "widestatus") == 0 {
		st |= uint32(rapid.IntRange(0, 0xffffff).Draw(rt, "statushigh")) << 8
	}
	c.Status = st
	if rc.FixedSize(v.T) == 0 {
		enc, _ := rc.Encode(v.V)
		switch {
		case v.W != 0:
			c.MaxLen = uint32(v.W)
		case v.T == rc.TDecN || v.T == rc.TNumN:
			c.MaxLen = uint32(rc.NumericBytes(v.Prec))
		case rc.LengthPrefix(v.T) == 4:
			c.MaxLen = uint32(rapid.SampledFrom([]int{len(enc), 2147483647, 32768, 16384}).Draw(rt, "maxlen4"))
			if int(c.MaxLen) < len(enc) {
				c.MaxLen = uint32(len(enc))
			}
		default:
			c.MaxLen = uint32(rapid.IntRange(maxI(len(enc), 1), 255).Draw(rt, "maxlen1"))
		}
	}
	switch v.T {
	case rc.TDecN, rc.TNumN:
		c.Prec, c.Scale = uint8(v.Prec), uint8(v.Scal)
	case rc.TBigDateTimeN, rc.TBigTimeN:
		c.Scale = 6
	case rc.TText, rc.TImage, rc.TUnitext, rc.TXML:
		c.TabName = Str(rt, "tabname", 600)
	}
	return c
}

func maxI(a, b int) int {
	if a > b {
		return a
	}
	return b
}

// Ctx carries the format in force while generating a sequence of packages.
type Ctx struct {
	Last *rc.Fmt
	// Small keeps generated packages short (for response streams that get cut in
	// every possible way).
	Small bool
}

func (c *Ctx) maxStr(n int) int {
	if c.Small && n > 20 {
		return 20
	}
	return n
}

// Gen draws one package of the given kind. For "row"/"params" a preceding format is
// required in ctx (generated with the matching kind); use GenWithFormat to get both.
func Gen(rt *rapid.T, kind string, ctx *Ctx) rc.P {
	switch kind {
	case "done":
		return rc.P{Done: genDone(rt, rc.TokDone)}
	case "doneproc":
		return rc.P{Done: genDone(rt, rc.TokDoneProc)}
	case "doneinproc":
		return rc.P{Done: genDone(rt, rc.TokDoneInProc)}
	case "eed":
		e := GenEED(rt, nil)
		if ctx.Small && len(e.Msg) > 30 {
			e.Msg = e.Msg[:30]
		}
		return rc.P{EED: e}
	case "error":
		return rc.P{Err: &rc.ErrTok{Number: rapid.Int32().Draw(rt, "errnr"), State: rapid.Uint8().Draw(rt, "state"), Class: rapid.Uint8().Draw(rt, "class"),
			Msg: Str(rt, "errmsg", ctx.maxStr(65000)), Server: Str(rt, "server", ctx.maxStr(255)), Proc: Str(rt, "proc", ctx.maxStr(255)), Line: rapid.Uint16().Draw(rt, "line")}}
	case "loginack":
		la := &rc.LoginAck{Status: uint8(rapid.IntRange(5, 7).Draw(rt, "ackstatus")), Name: Str(rt, "progname", ctx.maxStr(255))}
		copy(la.Version[:], rapid.SliceOfN(rapid.Byte(), 4, 4).Draw(rt, "version"))
		copy(la.ProgVer[:], rapid.SliceOfN(rapid.Byte(), 4, 4).Draw(rt, "progver"))
		return rc.P{LoginAck: la}
	case "msg":
		return rc.P{Msg: &rc.Msg{Status: uint8(rapid.IntRange(0, 1).Draw(rt, "msgstatus")), ID: uint16(rapid.IntRange(1, 35).Draw(rt, "msgid"))}}
	case "capability":
		return rc.P{Cap: genCapability(rt)}
	case "envchange":
		return rc.P{Env: GenEnv(rt, rapid.IntRange(0, 4).Draw(rt, "envmembers"))}
	case "returnstatus":
		v := rapid.Int32().Draw(rt, "retstat")
		return rc.P{RetStat: &v}
	case "orderby", "orderby2":
		n := rapid.IntRange(0, 12).Draw(rt, "ordercols")
		o := &rc.OrderBy{Wide: kind == "orderby2"}
		for i := 0; i < n; i++ {
			if o.Wide {
				o.Cols = append(o.Cols, rapid.IntRange(0, 65535).Draw(rt, "ocol"))
			} else {
				o.Cols = append(o.Cols, rapid.IntRange(0, 255).Draw(rt, "ocol"))
			}
		}
		return rc.P{OrderBy: o}
	case "rowfmt", "rowfmt2", "paramfmt", "paramfmt2":
		tok := map[string]byte{"rowfmt": rc.TokRowFmt, "rowfmt2": rc.TokRowFmt2, "paramfmt": rc.TokParamFmt, "paramfmt2": rc.TokParamFmt2}[kind]
		f, _, _ := GenCells(rt, tok, rapid.IntRange(0, 5).Draw(rt, "ncols"), ctx.Small)
		if ctx.Small {
			shrinkCols(&f)
		}
		ctx.Last = &f
		return rc.P{Fmt: &f}
	case "language":
		return rc.P{Lang: &rc.Language{Status: uint8(rapid.SampledFrom([]int{0, 1, 4, 5}).Draw(rt, "langstatus")), Cmd: Str(rt, "cmd", ctx.maxStr(70000))}}
	case "dynamic", "dynamic2", "dynamic-ack":
		d := &rc.Dynamic{Wide: kind == "dynamic2"}
		if kind == "dynamic-ack" {
			d.Type = 0x20
		} else {
			d.Type = uint8(rapid.SampledFrom([]int{0x01, 0x02, 0x04, 0x08, 0x20, 0x40, 0x80, 0x10, 0x03, 0x09}).Draw(rt, "dyntype"))
		}
		d.Status = uint8(rapid.SampledFrom([]int{0, 1, 2, 4, 8, 3}).Draw(rt, "dynstatus"))
		d.ID = Str(rt, "dynid", ctx.maxStr(255))
		if d.HasStmt() {
			lim := 32000
			if d.Wide {
				lim = 70000
			}
			d.Stmt = Str(rt, "stmt", ctx.maxStr(lim))
		}
		return rc.P{Dyn: d}
	case "logout":
		v := uint8(0)
		return rc.P{Logout: &v}
	case "curdeclare", "curdeclare3":
		d := &rc.CurDeclare{Wide: kind == "curdeclare3", Name: Str(rt, "curname", ctx.maxStr(255)), Status: uint8(rapid.IntRange(0, 1).Draw(rt, "dstat")), Stmt: Str(rt, "stmt", ctx.maxStr(30000))}
		if d.Wide {
			d.Options = uint32(rapid.IntRange(0, 0x3ff).Draw(rt, "opts"))
		} else {
			d.Options = uint32(rapid.IntRange(0, 0xff).Draw(rt, "opts"))
		}
		n := rapid.IntRange(0, 3).Draw(rt, "ncolumns")
		for i := 0; i < n; i++ {
			d.Columns = append(d.Columns, Str(rt, "column", ctx.maxStr(255)))
		}
		return rc.P{CurDeclare: d}
	case "curinfo", "curinfo3":
		d := &rc.CurInfo{Wide: kind == "curinfo3", Command: uint8(rapid.IntRange(1, 4).Draw(rt, "cmd"))}
		curID(rt, &d.ID, &d.Name, ctx)
		if d.Wide {
			d.Status = uint32(rapid.IntRange(0, 0x3fff).Draw(rt, "istat"))
			d.RowNum, d.TotalRows = rapid.Int32().Draw(rt, "rownum"), rapid.Int32().Draw(rt, "totalrows")
		} else {
			d.Status = uint32(rapid.IntRange(0, 0xff).Draw(rt, "istat"))
		}
		if rapid.Bool().Draw(rt, "rowcnt") {
			d.Status |= rc.CurIStatRowCnt
		} else {
			d.Status &^= rc.CurIStatRowCnt
		}
		if d.Status&rc.CurIStatRowCnt != 0 {
			d.RowCount = rapid.Int32().Draw(rt, "rowcount")
		}
		return rc.P{CurInfo: d}
	case "curopen", "curfetch", "curupdate", "curdelete", "curclose":
		tok := map[string]byte{"curopen": rc.TokCurOpen, "curfetch": rc.TokCurFetch, "curupdate": rc.TokCurUpdate, "curdelete": rc.TokCurDelete, "curclose": rc.TokCurClose}[kind]
		d := &rc.Cur{Tok: tok}
		curID(rt, &d.ID, &d.Name, ctx)
		switch kind {
		case "curopen":
			d.Status = uint8(rapid.IntRange(0, 2).Draw(rt, "ostat"))
		case "curclose":
			d.Status = uint8(rapid.IntRange(0, 1).Draw(rt, "copt"))
		case "curfetch":
			d.Status = uint8(rapid.IntRange(1, 6).Draw(rt, "fetchtype"))
			if d.Status == 5 || d.Status == 6 {
				d.RowNum = rapid.Int32().Draw(rt, "rownum")
			}
		case "curdelete":
			d.Table = Str(rt, "table", ctx.maxStr(255))
		case "curupdate":
			d.Status = uint8(rapid.IntRange(0, 2).Draw(rt, "ustat"))
			d.Table = Str(rt, "table", ctx.maxStr(255))
			d.Stmt = Str(rt, "stmt", ctx.maxStr(30000))
		}
		return rc.P{Cur: d}
	case "optioncmd":
		return rc.P{OptionCmd: &rc.OptionCmd{Cmd: uint8(rapid.IntRange(1, 4).Draw(rt, "optcmd")), Option: uint8(rapid.IntRange(0, 40).Draw(rt, "opt")), Arg: rapid.SliceOfN(rapid.Byte(), 0, 8).Draw(rt, "optarg")}}
	}
	panic("pkggen: unknown kind " + kind)
}

func curID(rt *rapid.T, id *int32, name *string, ctx *Ctx) {
	if rapid.Bool().Draw(rt, "byname") {
		*id = 0
		*name = Str(rt, "curname", ctx.maxStr(255))
	} else {
		*id = rapid.Int32().Draw(rt, "curid")
		if *id == 0 {
			*id = 1
		}
	}
}

func shrinkCols(f *rc.Fmt) {
	cut := func(s string) string {
		if len(s) > 8 {
			return s[:8]
		}
		return s
	}
	for i := range f.Cols {
		c := &f.Cols[i]
		c.Name, c.Label, c.Catalog, c.Schema, c.Table, c.Locale, c.TabName = cut(c.Name), cut(c.Label), cut(c.Catalog), cut(c.Schema), cut(c.Table), cut(c.Locale), cut(c.TabName)
	}
}

// GenWithFormat draws a format package of the given kind and a data package for it.
func GenWithFormat(rt *rapid.T, fmtKind string, ctx *Ctx) (rc.P, rc.P, []valgen.Val) {
	tok := map[string]byte{"rowfmt": rc.TokRowFmt, "rowfmt2": rc.TokRowFmt2, "paramfmt": rc.TokParamFmt, "paramfmt2": rc.TokParamFmt2}[fmtKind]
	f, cells, vals := GenCells(rt, tok, rapid.IntRange(1, 5).Draw(rt, "ncols"), ctx.Small)
	if ctx.Small {
		shrinkCols(&f)
	}
	ctx.Last = &f
	rowTok := byte(rc.TokRow)
	if tok == rc.TokParamFmt || tok == rc.TokParamFmt2 {
		rowTok = rc.TokParams
	}
	return rc.P{Fmt: &f}, rc.P{Row: &rc.Row{Tok: rowTok, Cells: cells}}, vals
}

// KindOf names the kind of a package description.
func KindOf(p rc.P) string {
	switch {
	case p.Done != nil:
		return map[byte]string{rc.TokDone: "done", rc.TokDoneProc: "doneproc", rc.TokDoneInProc: "doneinproc"}[p.Done.Tok]
	case p.EED != nil:
		return "eed"
	case p.Err != nil:
		return "error"
	case p.LoginAck != nil:
		return "loginack"
	case p.Msg != nil:
		return "msg"
	case p.Cap != nil:
		return "capability"
	case p.Env != nil:
		return "envchange"
	case p.RetStat != nil:
		return "returnstatus"
	case p.OrderBy != nil:
		if p.OrderBy.Wide {
			return "orderby2"
		}
		return "orderby"
	case p.Fmt != nil:
		return map[byte]string{rc.TokRowFmt: "rowfmt", rc.TokRowFmt2: "rowfmt2", rc.TokParamFmt: "paramfmt", rc.TokParamFmt2: "paramfmt2"}[p.Fmt.Tok]
	case p.Row != nil:
		if p.Row.Tok == rc.TokRow {
			return "row"
		}
		return "params"
	case p.Lang != nil:
		return "language"
	case p.Dyn != nil:
		if p.Dyn.Wide {
			return "dynamic2"
		}
		return "dynamic"
	case p.Logout != nil:
		return "logout"
	case p.CurDeclare != nil:
		if p.CurDeclare.Wide {
			return "curdeclare3"
		}
		return "curdeclare"
	case p.CurInfo != nil:
		if p.CurInfo.Wide {
			return "curinfo3"
		}
		return "curinfo"
	case p.Cur != nil:
		return map[byte]string{rc.TokCurOpen: "curopen", rc.TokCurFetch: "curfetch", rc.TokCurUpdate: "curupdate", rc.TokCurDelete: "curdelete", rc.TokCurClose: "curclose"}[p.Cur.Tok]
	case p.OptionCmd != nil:
		return "optioncmd"
	}
	return "?"
}

// CellFor draws a cell for an existing column format.
func CellFor(rt *rapid.T, c rc.Col) rc.Cell {
	tw := valgen.TW{T: c.T}
	if rc.FixedSize(c.T) == 0 {
		switch c.T {
		case rc.TIntN, rc.TUintN, rc.TFltN, rc.TMoneyN, rc.TDateN, rc.TTimeN, rc.TDateTimeN, rc.TBigDateTimeN, rc.TBigTimeN:
			tw.W = int(c.MaxLen)
		}
	}
	if valgen.IsNullable(c.T) && rapid.IntRange(0, 5).Draw(rt, "null") == 0 {
		return rc.Cell{V: rc.V{T: c.T, W: tw.W, Null: true, Prec: int(c.Prec), Scal: int(c.Scale)}, TS: make([]byte, 8)}
	}
	maxLen := int(c.MaxLen)
	if maxLen > 40 || maxLen == 0 {
		maxLen = 40
	}
	v := valgen.GenFor(rt, tw, int(c.Prec), int(c.Scale), maxLen)
	cell := rc.Cell{V: v.V}
	if c.Status&rc.ColumnStatus != 0 {
		cell.DStatus = uint8(rapid.SampledFrom([]int{0, 0, 1, 1, 2, 3, 0x80, 0xff}).Draw(rt, "datastatus"))
	}
	if isTxtPtr(c.T) {
		cell.TxtPtr = genTxtPtr(rt)
		cell.TS = rapid.SliceOfN(rapid.Byte(), 8, 8).Draw(rt, "ts")
	}
	return cell
}

// genTxtPtr draws a text pointer: ASE uses 16 bytes, the length prefix allows 0..255.
func genTxtPtr(rt *rapid.T) []byte {
	n := rapid.IntRange(0, 16).Draw(rt, "txtptrlen")
	if rapid.IntRange(0, 4).Draw(rt, "txtptrlong") == 0 {
		n = rapid.SampledFrom([]int{17, 100, 127, 128, 200, 246, 247, 248, 249, 254, 255}).Draw(rt, "txtptrlen2")
	}
	return rapid.SliceOfN(rapid.Byte(), n, n).Draw(rt, "txtptr")
}
