// C05 — data type wire encodings match the TDS 5.0 layouts.
package c05

import (
	"bytes"
	"encoding/binary"
	"fmt"
	"github.com/SAP/go-dblib/tds"
	"testing"
	"time"
	_ "time/tzdata"
	"verif/internal/flatch"
	"verif/internal/pkggen"

	"github.com/SAP/go-dblib/asetime"
	"github.com/SAP/go-dblib/asetypes"
	"pgregory.net/rapid"
	rc "verif/internal/refcodec"
	"verif/internal/valgen"
	"verif/internal/vh"
)

func TestMain(m *testing.M) {
	vh.Rule("rapid: same (type,width,value) domain as C04; for each value the library's DataType.Bytes must equal the independent reference encoding byte for byte (numeric: same sign byte and same magnitude after stripping leading zero bytes) and DataType.GoValue of the reference encoding must give back the value (classic temporal types: to within the millisecond resolution of the decoded time); fixed vectors from the ASE documentation (type minima/maxima, epochs); exhaustive: every day of years 1..9999 for the calendar helpers DurationFromDateTime / TimeToMicroseconds / MicrosecondsToTime against own civil-date arithmetic (Hinnant), inverse and additivity. Non-trivial: the reference encoding is not all-zero bytes; distinct by (type,width,value)")
	vh.Assume("the reference codec is my reading of TDS 5.0 (little endian as announced in the login record), anchored by documented vectors; smalldatetime values are exact minutes here (the rounding rule for seconds is not part of the layout)")
	vh.Rule("also: batches of 2..8 values converted in goroutines at the same time (separate race-detector run)")
	vh.Rule("also: the Go value printed before it is encoded and encoded a second time (a third of the cases); UNITEXT with NUL inside the text")
	vh.Rule("also: sequences of conversions with refused attempts in between (int64 for INT4, float64 for FLT4, a string for INT2 / MONEY, 3 bytes for INT4, ...)")
	vh.Main(m, "C05")
}

var le = binary.LittleEndian

type valCase struct {
	V valgen.Val `json:"v"`
	// Look: the value is printed (what a debug log or an error message does) before it is
	// encoded, and once more before it is encoded a second time
	Look bool `json:"printed_before_encoding,omitempty"`
}

func class(v valgen.Val) string {
	switch {
	case v.T == rc.TUnitext && v.Null:
		return "C05/unitext-null-decodes-as-empty-string"
	case v.T == rc.TUnitext:
		return "C05/unitext-not-utf16le"
	case v.T == rc.TXML:
		return "C05/xml-value-not-decodable"
	case (v.T == rc.TDateTime || v.T == rc.TDateTimeN) && v.Day < 0 && !v.Null:
		return "C05/datetime-before-1900-with-time-part"
	}
	return "C05/" + valgen.TW{T: v.T, W: v.W}.String()
}

func stripNumeric(b []byte) []byte {
	if len(b) == 0 {
		return b
	}
	m := b[1:]
	for len(m) > 0 && m[0] == 0 {
		m = m[1:]
	}
	return append([]byte{b[0]}, m...)
}

func head(b []byte) []byte {
	if len(b) > 24 {
		return b[:24]
	}
	return b
}

func runVal(c valCase) (f *vh.Failure) {
	v := c.V
	defer func() {
		if r := recover(); r != nil {
			f = vh.Failf(class(v)+"-panic", "panic for %s %s: %v", valgen.TW{T: v.T, W: v.W}, valgen.Key(v), r)
		}
	}()
	dt := asetypes.DataType(v.T)
	ref, err := rc.Encode(v.V)
	if err != nil {
		panic(fmt.Sprintf("reference encoder rejects generated value: %v", err))
	}
	// encode direction
	goVal := valgen.ToGo(v)
	if c.Look {
		_ = fmt.Sprintf("%v %s", goVal, fmt.Sprint(goVal))
		vh.Label("printed-before-encoding")
	}
	lib, err := dt.Bytes(le, goVal, valgen.BytesLength(v))
	if err != nil {
		return vh.Failf(class(v), "%s: Bytes failed: %v", dt, err)
	}
	if c.Look {
		// the same Go value once more: printing and encoding leave it as it was
		_ = fmt.Sprint(goVal)
		again, err := dt.Bytes(le, goVal, valgen.BytesLength(v))
		if err != nil || !bytes.Equal(again, lib) {
			return vh.Failf(class(v), "%s %s: the same Go value encodes as % x the first and as % x (err %v) the second time, printed in between", dt, valgen.Key(v), head(lib), head(again), err)
		}
	}
	a, b := lib, ref
	if v.T == rc.TDecN || v.T == rc.TNumN {
		a, b = stripNumeric(lib), stripNumeric(ref)
	}
	if !bytes.Equal(a, b) {
		return vh.Failf(class(v), "%s %s: library wrote % x, TDS layout is % x", dt, valgen.Key(v), head(lib), head(ref))
	}
	// decode direction: what a conforming server sends
	got, err := dt.GoValue(le, ref)
	if err != nil {
		return vh.Failf(class(v), "%s: GoValue(% x) failed: %v", dt, head(ref), err)
	}
	exact := v
	exact.JitNs = 0
	if v.T == rc.TDateTimeN && v.W == 4 || v.T == rc.TShortDate {
		exact.JitNs = 0
	}
	if err := valgen.MatchMillis(exact, got); err != nil {
		return vh.Failf(class(v), "%s: server bytes % x: %v", dt, head(ref), err)
	}
	vh.Label(valgen.Labels(v)...)
	for _, x := range ref {
		if x != 0 {
			vh.NonTrivial(valgen.Key(v))
			break
		}
	}
	return nil
}

func TestWireMatchesReference(t *testing.T) {
	gen := func(rt *rapid.T) valCase {
		tw := valgen.GenTW(rt)
		v := valgen.Gen(rt, tw)
		if v.T == rc.TShortDate || (v.T == rc.TDateTimeN && v.W == 4) {
			v.JitNs = 0
		}
		c := valCase{V: v, Look: rapid.IntRange(0, 2).Draw(rt, "look") == 0}
		if len(v.B) < 40 && len(v.S) < 40 {
			vh.Sample("value:"+tw.String(), c)
		}
		return c
	}
	vh.Check(t, "TestWireMatchesReference", vh.N(60000, 1500000), gen, runVal)
}

func TestPerTypeWire(t *testing.T) {
	for _, tw := range valgen.All {
		tw := tw
		name := "TestPerTypeWire/" + tw.String()
		t.Run(tw.String(), func(t *testing.T) {
			gen := func(rt *rapid.T) valCase {
				v := valgen.Gen(rt, tw)
				if v.T == rc.TShortDate || (v.T == rc.TDateTimeN && v.W == 4) {
					v.JitNs = 0
				}
				return valCase{V: v, Look: rapid.IntRange(0, 2).Draw(rt, "look") == 0}
			}
			vh.Check(t, name, vh.N(1500, 60000), gen, runVal)
		})
	}
}

// ---- fixed vectors (ASE reference manual: datatype ranges; TDS 5.0 spec: layouts)

type vecCase struct {
	Name string     `json:"name"`
	V    valgen.Val `json:"v"`
	Wire []byte     `json:"wire"`
}

func runVec(c vecCase) (f *vh.Failure) {
	defer func() {
		if r := recover(); r != nil {
			f = vh.Failf(class(c.V)+"-panic", "vector %s: panic %v", c.Name, r)
		}
	}()
	dt := asetypes.DataType(c.V.T)
	// the reference codec itself must agree with the documented vector
	ref, err := rc.Encode(c.V.V)
	if err != nil || !bytes.Equal(ref, c.Wire) {
		panic(fmt.Sprintf("reference codec disagrees with vector %s: % x vs % x (%v)", c.Name, ref, c.Wire, err))
	}
	lib, err := dt.Bytes(le, valgen.ToGo(c.V), valgen.BytesLength(c.V))
	if err != nil {
		return vh.Failf(class(c.V), "vector %s: Bytes failed: %v", c.Name, err)
	}
	a, b := lib, c.Wire
	if c.V.T == rc.TDecN || c.V.T == rc.TNumN {
		a, b = stripNumeric(lib), stripNumeric(c.Wire)
	}
	if !bytes.Equal(a, b) {
		return vh.Failf(class(c.V), "vector %s: library wrote % x, documented layout % x", c.Name, lib, c.Wire)
	}
	got, err := dt.GoValue(le, c.Wire)
	if err != nil {
		return vh.Failf(class(c.V), "vector %s: GoValue failed: %v", c.Name, err)
	}
	if err := valgen.Match(c.V, got); err != nil {
		return vh.Failf(class(c.V), "vector %s: %v", c.Name, err)
	}
	vh.NonTrivial("vec:" + c.Name)
	return nil
}

func hexb(xs ...byte) []byte { return xs }

func TestDocumentedVectors(t *testing.T) {
	e := vh.NewEnum(t, "TestDocumentedVectors", runVec)
	if e.Skip() {
		return
	}
	V := func(v rc.V) valgen.Val { return valgen.Val{V: v} }
	vecs := []vecCase{
		{"tinyint 255", V(rc.V{T: rc.TInt1, U: 255}), hexb(0xff)},
		{"smallint -32768", V(rc.V{T: rc.TInt2, I: -32768}), hexb(0x00, 0x80)},
		{"smallint 32767", V(rc.V{T: rc.TInt2, I: 32767}), hexb(0xff, 0x7f)},
		{"int -2147483648", V(rc.V{T: rc.TInt4, I: -2147483648}), hexb(0, 0, 0, 0x80)},
		{"int 2147483647", V(rc.V{T: rc.TInt4, I: 2147483647}), hexb(0xff, 0xff, 0xff, 0x7f)},
		{"bigint min", V(rc.V{T: rc.TInt8, I: -9223372036854775808}), hexb(0, 0, 0, 0, 0, 0, 0, 0x80)},
		{"bigint max", V(rc.V{T: rc.TInt8, I: 9223372036854775807}), hexb(0xff, 0xff, 0xff, 0xff, 0xff, 0xff, 0xff, 0x7f)},
		{"unsigned bigint max", V(rc.V{T: rc.TUint8, U: 18446744073709551615}), hexb(0xff, 0xff, 0xff, 0xff, 0xff, 0xff, 0xff, 0xff)},
		{"unsigned int 0x01020304", V(rc.V{T: rc.TUint4, U: 0x01020304}), hexb(4, 3, 2, 1)},
		{"real 1.0", V(rc.V{T: rc.TFlt4, U: 0x3f800000}), hexb(0, 0, 0x80, 0x3f)},
		{"float 1.0", V(rc.V{T: rc.TFlt8, U: 0x3ff0000000000000}), hexb(0, 0, 0, 0, 0, 0, 0xf0, 0x3f)},
		// money: +922337203685477.5807 = 2^63-1 ten-thousandths: high word 0x7fffffff then low word 0xffffffff
		{"money max", V(rc.V{T: rc.TMoney, I: 9223372036854775807}), hexb(0xff, 0xff, 0xff, 0x7f, 0xff, 0xff, 0xff, 0xff)},
		{"money min", V(rc.V{T: rc.TMoney, I: -9223372036854775808}), hexb(0, 0, 0, 0x80, 0, 0, 0, 0)},
		{"money 1.0000", V(rc.V{T: rc.TMoney, I: 10000}), hexb(0, 0, 0, 0, 0x10, 0x27, 0, 0)},
		{"money 429496.7296 (2^32)", V(rc.V{T: rc.TMoney, I: 1 << 32}), hexb(1, 0, 0, 0, 0, 0, 0, 0)},
		{"smallmoney max 214748.3647", V(rc.V{T: rc.TShortMoney, I: 2147483647}), hexb(0xff, 0xff, 0xff, 0x7f)},
		{"smallmoney min -214748.3648", V(rc.V{T: rc.TShortMoney, I: -2147483648}), hexb(0, 0, 0, 0x80)},
		{"numeric(5,2) -123.45", V(rc.V{T: rc.TNumN, Neg: true, Mag: "12345", Prec: 5, Scal: 2}), hexb(1, 0, 0x30, 0x39)},
		{"decimal(3,0) 255", V(rc.V{T: rc.TDecN, Mag: "255", Prec: 3}), hexb(0, 0, 0xff)},
		{"date 1900-01-01", V(rc.V{T: rc.TDate, Day: 0}), hexb(0, 0, 0, 0)},
		{"date 0001-01-01 (-693595)", V(rc.V{T: rc.TDate, Day: -693595}), hexb(0xa5, 0x6a, 0xf5, 0xff)},
		{"date 9999-12-31 (2958463)", V(rc.V{T: rc.TDate, Day: 2958463}), hexb(0x7f, 0x24, 0x2d, 0x00)},
		{"time 23:59:59.996 (tick 25919999)", V(rc.V{T: rc.TTime, Tick: 25919999}), hexb(0xff, 0x81, 0x8b, 0x01)},
		{"time 00:00:01 (tick 300)", V(rc.V{T: rc.TTime, Tick: 300}), hexb(0x2c, 0x01, 0, 0)},
		{"datetime 1753-01-01 (-53690 days)", V(rc.V{T: rc.TDateTime, Day: -53690}), hexb(0x46, 0x2e, 0xff, 0xff, 0, 0, 0, 0)},
		{"datetime 9999-12-31 23:59:59.996", V(rc.V{T: rc.TDateTime, Day: 2958463, Tick: 25919999}), hexb(0x7f, 0x24, 0x2d, 0x00, 0xff, 0x81, 0x8b, 0x01)},
		{"datetime 1900-01-01 12:00", V(rc.V{T: rc.TDateTime, Day: 0, Tick: 12960000}), hexb(0, 0, 0, 0, 0x00, 0xc1, 0xc5, 0x00)},
		{"smalldatetime 1900-01-01 00:00", V(rc.V{T: rc.TShortDate, Day: 0, Tick: 0}), hexb(0, 0, 0, 0)},
		{"smalldatetime 2079-06-06 23:59", V(rc.V{T: rc.TShortDate, Day: 65535, Tick: 1439}), hexb(0xff, 0xff, 0x9f, 0x05)},
		// bigdatetime counts microseconds since 0000-01-01; 0001-01-01 is 366 days later (year 0 is a leap year)
		{"bigdatetime 0001-01-01", V(rc.V{T: rc.TBigDateTimeN, W: 8, U: 366 * 86400000000}), le.AppendUint64(nil, 366*86400000000)},
		{"bigtime 23:59:59.999999", V(rc.V{T: rc.TBigTimeN, W: 8, U: 86399999999}), le.AppendUint64(nil, 86399999999)},
		{"unitext A-euro-emoji", V(rc.V{T: rc.TUnitext, S: "A€😀"}), hexb(0x41, 0x00, 0xac, 0x20, 0x3d, 0xd8, 0x00, 0xde)},
		{"varchar utf-8 bytes", V(rc.V{T: rc.TVarChar, S: "A€"}), hexb(0x41, 0xe2, 0x82, 0xac)},
		{"bit 1", V(rc.V{T: rc.TBit, Bool: true}), hexb(1)},
	}
	// independent sanity of the day numbers used above
	if rc.DaysSince1900(1753, 1, 1) != -53690 || rc.DaysSince1900(9999, 12, 31) != 2958463 || rc.DaysSince1900(1, 1, 1) != -693595 || rc.DaysSince1900(2079, 6, 6) != 65535 {
		t.Fatalf("reference calendar disagrees with documented epoch values")
	}
	for _, v := range vecs {
		e.Do(v)
		if v.Name == "money max" || v.Name == "unitext A-euro-emoji" {
			vh.Sample("vector", v)
		}
	}
	e.Done("documented vectors")
}

// ---- calendar helpers, every day of years 1..9999

type dayCase struct {
	Day  int   `json:"day_since_1900"`
	UsOD int64 `json:"us_of_day"`
}

func runDay(c dayCase) (f *vh.Failure) {
	defer func() {
		if r := recover(); r != nil {
			f = vh.Failf("C05/calendar-panic", "day %d: panic %v", c.Day, r)
		}
	}()
	y, m, d := rc.CivilFrom1900(int64(c.Day))
	want := rc.UsSinceYear0(y, m, d, c.UsOD)
	t0 := time.Date(y, time.Month(m), d, 0, 0, 0, 0, time.UTC)
	tt := t0.Add(time.Duration(c.UsOD) * time.Microsecond)
	if got := asetime.DurationFromDateTime(tt); uint64(got) != want {
		return vh.Failf("C05/calendar-DurationFromDateTime", "%04d-%02d-%02d +%dus: DurationFromDateTime = %d us, proleptic Gregorian count since 0000-01-01 = %d", y, m, d, c.UsOD, got, want)
	}
	if got := asetime.TimeToMicroseconds(tt); got != want {
		return vh.Failf("C05/calendar-TimeToMicroseconds", "%04d-%02d-%02d +%dus: TimeToMicroseconds = %d, want %d", y, m, d, c.UsOD, got, want)
	}
	back := asetime.MicrosecondsToTime(want)
	if !back.Equal(tt) {
		return vh.Failf("C05/calendar-MicrosecondsToTime", "MicrosecondsToTime(%d) = %v, want %v", want, back, tt)
	}
	// additivity of the offset within a day
	if asetime.DurationFromDateTime(tt)-asetime.DurationFromDateTime(t0) != asetime.ASEDuration(c.UsOD) {
		return vh.Failf("C05/calendar-additivity", "%v: day offset not additive", tt)
	}
	if asetime.DurationFromTime(tt) != asetime.ASEDuration(c.UsOD) {
		return vh.Failf("C05/calendar-DurationFromTime", "%v: DurationFromTime = %d, want %d", tt, asetime.DurationFromTime(tt), c.UsOD)
	}
	if c.UsOD != 0 {
		vh.NonTrivialHash(uint64(c.Day+1000000)<<37 ^ uint64(c.UsOD))
	}
	return nil
}

func TestCalendarEveryDay(t *testing.T) {
	e := vh.NewEnum(t, "TestCalendarEveryDay", runDay)
	if e.Skip() {
		return
	}
	stride := 1
	if !vh.Thorough() {
		stride = 5
	}
	i := 0
	for day := valgen.MinDay1900; day <= valgen.MaxDay1900; day += stride {
		i++
		if !vh.Mine(i) {
			continue
		}
		us := int64((uint64(day+700000) * 2654435761) % 86400000000)
		if !e.Do(dayCase{Day: day, UsOD: 0}) || !e.Do(dayCase{Day: day, UsOD: us}) {
			return
		}
	}
	vh.Sample("calendar", dayCase{Day: -53690, UsOD: 43200000001})
	if stride == 1 {
		e.Done("every day 0001-01-01..9999-12-31 (3652059 days) at midnight and at one microsecond offset")
	} else {
		vh.Note("TestCalendarEveryDay: quick tier takes every %dth day (%d cases); thorough enumerates all 3652059 days", stride, e.Count())
	}
}

func TestCalendarRandom(t *testing.T) {
	gen := func(rt *rapid.T) dayCase {
		return dayCase{Day: rapid.IntRange(valgen.MinDay1900, valgen.MaxDay1900).Draw(rt, "day"), UsOD: rapid.Int64Range(0, rc.UsPerDay-1).Draw(rt, "us")}
	}
	vh.Check(t, "TestCalendarRandom", vh.N(100000, 1000000), gen, runDay)
}

// every 1/300 s tick of a day in both directions against the reference codec
func TestEveryTickWire(t *testing.T) {
	e := vh.NewEnum(t, "TestEveryTickWire", runVal)
	if e.Skip() {
		return
	}
	stride := 1
	if !vh.Thorough() {
		stride = 97
	}
	i := 0
	for tick := 0; tick <= valgen.MaxTick; tick += stride {
		i++
		if !vh.Mine(i) {
			continue
		}
		if !e.Do(valCase{V: valgen.Val{V: rc.V{T: rc.TTime, Tick: uint32(tick)}}}) || !e.Do(valCase{V: valgen.Val{V: rc.V{T: rc.TDateTime, Day: -25000, Tick: uint32(tick)}}}) {
			return
		}
	}
	if stride == 1 {
		e.Done("every 1/300 s tick 0..25919999 for TIME and DATETIME against the reference codec")
	} else {
		vh.Note("TestEveryTickWire: quick tier samples every %dth tick (%d cases); the thorough tier enumerates all 25920000 ticks", stride, e.Count())
	}
}

// ---- sequences: a row is a sequence of conversions whose results are looked at afterwards.
// Every value written / decoded earlier must still be right after the later ones
// (results must not share storage).

type seqCase struct {
	Vals []valgen.Val `json:"values_converted_one_after_the_other"`
	// Refused[i] > 0: before value i is converted, a conversion is attempted that the library
	// has to refuse (a Go value of the wrong type or width, bytes of the wrong length); whether
	// and how it fails is not judged here, what comes after it is
	Refused []int `json:"refused_attempt_before_value,omitempty"`
}

func refusedAttempt(k int) {
	defer func() { recover() }()
	switch k {
	case 1:
		_, _ = asetypes.INT4.Bytes(le, int64(7), 4)
	case 2:
		_, _ = asetypes.INT8.Bytes(le, int32(7), 8)
	case 3:
		_, _ = asetypes.FLT4.Bytes(le, float64(1.5), 4)
	case 4:
		_, _ = asetypes.INT2.Bytes(le, "seven", 2)
	case 5:
		_, _ = asetypes.MONEY.Bytes(le, "x", 8)
	case 6:
		_, _ = asetypes.INT4.GoValue(le, []byte{1, 2, 3})
	case 7:
		_, _ = asetypes.DATETIME.GoValue(le, []byte{1, 2, 3, 4, 5})
	case 8:
		_, _ = asetypes.VARCHAR.Bytes(le, 12345, 255)
	case 9:
		_, _ = asetypes.INTN.Bytes(le, int64(1)<<40, 2)
	}
}

func runSeq(c seqCase) (f *vh.Failure) {
	defer func() {
		if r := recover(); r != nil {
			f = vh.Failf("C05/sequence-panic", "panic: %v", r)
		}
	}()
	var refs, libs [][]byte
	var gots []interface{}
	for i, v := range c.Vals {
		if i < len(c.Refused) && c.Refused[i] > 0 {
			refusedAttempt(c.Refused[i])
			vh.Label("sequence:refused-attempt-before-a-conversion")
		}
		dt := asetypes.DataType(v.T)
		ref, err := rc.Encode(v.V)
		if err != nil {
			panic(fmt.Sprintf("reference encoder rejects generated value: %v", err))
		}
		lib, err := dt.Bytes(le, valgen.ToGo(v), valgen.BytesLength(v))
		if err != nil {
			return vh.Failf(class(v), "%s: Bytes failed: %v", dt, err)
		}
		got, err := dt.GoValue(le, ref)
		if err != nil {
			return vh.Failf(class(v), "%s: GoValue(% x) failed: %v", dt, head(ref), err)
		}
		refs, libs, gots = append(refs, ref), append(libs, lib), append(gots, got)
	}
	for i, v := range c.Vals {
		dt := asetypes.DataType(v.T)
		a, b := libs[i], refs[i]
		if v.T == rc.TDecN || v.T == rc.TNumN {
			a, b = stripNumeric(a), stripNumeric(b)
		}
		if !bytes.Equal(a, b) {
			return vh.Failf("C05/earlier-result-changed-by-later-conversion", "value %d of %d (%s %s): the bytes written for it read % x after the later values were written, TDS layout is % x", i+1, len(c.Vals), dt, valgen.Key(v), head(libs[i]), head(refs[i]))
		}
		exact := v
		exact.JitNs = 0
		if err := valgen.MatchMillis(exact, gots[i]); err != nil {
			return vh.Failf("C05/earlier-result-changed-by-later-conversion", "value %d of %d (%s): decoded from server bytes % x, looked at after the later values were decoded: %v", i+1, len(c.Vals), dt, head(refs[i]), err)
		}
		// and it still encodes to what the server sent
		if !v.Null {
			again, err := dt.Bytes(le, gots[i], valgen.BytesLength(v))
			a, b := again, refs[i]
			if v.T == rc.TDecN || v.T == rc.TNumN {
				a, b = stripNumeric(a), stripNumeric(b)
			}
			if err != nil || !bytes.Equal(a, b) {
				return vh.Failf("C05/earlier-result-changed-by-later-conversion", "value %d of %d (%s): decoded from % x, encodes to % x (err %v) after the later values were decoded", i+1, len(c.Vals), dt, head(refs[i]), head(again), err)
			}
		}
	}
	vh.Label(fmt.Sprintf("sequence-of-%d", len(c.Vals)))
	key := ""
	same := true
	for _, v := range c.Vals {
		key += valgen.Key(v) + ";"
		same = same && v.T == c.Vals[0].T
	}
	if same {
		vh.Label("sequence-of-one-type")
	}
	vh.NonTrivial("seq:" + key)
	return nil
}

func TestSequencesOfConversions(t *testing.T) {
	gen := func(rt *rapid.T) seqCase {
		n := rapid.IntRange(2, 6).Draw(rt, "n")
		var c seqCase
		tw := valgen.GenTW(rt)
		oneType := rapid.Bool().Draw(rt, "onetype")
		for i := 0; i < n; i++ {
			if !oneType {
				tw = valgen.GenTW(rt)
			}
			v := valgen.Gen(rt, tw)
			if len(v.S) > 64 {
				v = valgen.GenFor(rt, tw, v.Prec, v.Scal, 64)
			}
			if len(v.B) > 64 {
				v.B = v.B[:64]
			}
			// the decoded value is compared at tick granularity with the value the bytes stand for
			v.JitNs = 0
			c.Vals = append(c.Vals, v)
			k := 0
			if rapid.IntRange(0, 3).Draw(rt, "refused?") == 0 {
				k = rapid.IntRange(1, 9).Draw(rt, "refused")
			}
			c.Refused = append(c.Refused, k)
		}
		vh.Sample("sequence", c)
		return c
	}
	vh.Check(t, "TestSequencesOfConversions", vh.N(20000, 400000), gen, runSeq)
}

// ---- several goroutines converting at the same time (rows of several connections are
// decoded in parallel): nothing the conversions share may show in a result

func TestConcurrentConversions(t *testing.T) {
	gen := func(rt *rapid.T) []valCase {
		n := rapid.IntRange(2, 8).Draw(rt, "goroutines")
		var cs []valCase
		tw := valgen.GenTW(rt)
		oneType := rapid.Bool().Draw(rt, "onetype")
		for i := 0; i < n; i++ {
			if !oneType {
				tw = valgen.GenTW(rt)
			}
			v := valgen.Gen(rt, tw)
			if len(v.S) > 200 {
				v = valgen.GenFor(rt, tw, v.Prec, v.Scal, 200)
			}
			if len(v.B) > 200 {
				v.B = v.B[:200]
			}
			if v.T == rc.TShortDate || (v.T == rc.TDateTimeN && v.W == 4) {
				v.JitNs = 0
			}
			cs = append(cs, valCase{V: v})
		}
		return cs
	}
	run := func(cs []valCase) *vh.Failure {
		f := vh.Together(cs, func(c valCase) *vh.Failure {
			for k := 0; k < 20; k++ {
				if f := runVal(c); f != nil {
					return f
				}
			}
			return nil
		})
		if f == nil {
			vh.Label("concurrent-conversions")
		}
		return f
	}
	vh.Check(t, "TestConcurrentConversions", vh.N(1500, 30000), gen, run)
}

// ---- values in other locations than UTC: a time.Time carries a location; what goes on the
// wire is its wall clock reading (dates as days, times as ticks since THAT day's midnight on
// the clock), so a value in a zone with daylight saving rules encodes exactly like the same
// wall clock reading in UTC - also on the days the clocks change (a day of 23 or 25 hours)

type localCase struct {
	T    byte   `json:"t"`
	Len  int64  `json:"len"`
	Loc  string `json:"location"`
	Y    int    `json:"y"`
	M    int    `json:"m"`
	D    int    `json:"d"`
	H    int    `json:"h"`
	Mi   int    `json:"mi"`
	S    int    `json:"s"`
	Ns   int    `json:"ns"`
	Secs int    `json:"fixed_zone_offset_s,omitempty"`
}

func (c localCase) location() *time.Location {
	if c.Loc == "fixed" {
		return time.FixedZone("fixed", c.Secs)
	}
	loc, err := time.LoadLocation(c.Loc)
	if err != nil {
		vh.HarnessBug("LoadLocation(%q): %v", c.Loc, err)
	}
	return loc
}

func runLocal(c localCase) (f *vh.Failure) {
	defer func() {
		if r := recover(); r != nil {
			f = vh.Failf("C05/local-time-panic", "%+v: panic: %v", c, r)
		}
	}()
	dt := asetypes.DataType(c.T)
	t := time.Date(c.Y, time.Month(c.M), c.D, c.H, c.Mi, c.S, c.Ns, c.location())
	// what the clock on the wall shows for t (time.Date normalises readings that do not exist)
	y, m, d := t.Date()
	hh, mm, ss := t.Clock()
	u := time.Date(y, m, d, hh, mm, ss, t.Nanosecond(), time.UTC)
	a, errA := dt.Bytes(le, t, c.Len)
	b, errB := dt.Bytes(le, u, c.Len)
	if (errA == nil) != (errB == nil) {
		return vh.Failf("C05/local-time", "%s: %v encodes with error %v, the same wall clock reading in UTC with error %v", dt, t, errA, errB)
	}
	if errA != nil {
		vh.Label("local:out-of-range")
		return nil
	}
	if !bytes.Equal(a, b) {
		return vh.Failf("C05/local-time", "%s: %v is written as % x, the same wall clock reading in UTC (%v) as % x", dt, t, a, u, b)
	}
	_, off := t.Zone()
	_, offNoon := time.Date(y, m, d, 12, 0, 0, 0, t.Location()).Zone()
	_, offMidnight := time.Date(y, m, d, 0, 0, 0, 0, t.Location()).Zone()
	vh.Label("local:" + c.Loc)
	if off != offMidnight || offNoon != offMidnight {
		vh.Label("local:clock-change-day")
		vh.NonTrivial(fmt.Sprintf("%+v", c))
	}
	return nil
}

var localTypes = []struct {
	T   byte
	Len int64
}{{rc.TDateTime, 8}, {rc.TDateTimeN, 8}, {rc.TDateTimeN, 4}, {rc.TShortDate, 4}, {rc.TDate, 4}, {rc.TDateN, 4}, {rc.TTime, 4}, {rc.TTimeN, 4}, {rc.TBigDateTimeN, 8}, {rc.TBigTimeN, 8}}

// clock-change days of the zones used (spring forward / fall back), so that they are frequent
var changeDays = map[string][][3]int{
	"Europe/Berlin":       {{2024, 3, 31}, {2024, 10, 27}, {1996, 10, 27}, {2031, 3, 30}},
	"America/New_York":    {{2024, 3, 10}, {2024, 11, 3}, {1987, 4, 5}},
	"Australia/Lord_Howe": {{2024, 4, 7}, {2024, 10, 6}},
	"America/Sao_Paulo":   {{2018, 11, 4}, {2019, 2, 17}}, // the change is at midnight: 00:00 does not exist
}

func TestLocalTimes(t *testing.T) {
	gen := func(rt *rapid.T) localCase {
		tl := localTypes[rapid.IntRange(0, len(localTypes)-1).Draw(rt, "type")]
		c := localCase{T: tl.T, Len: tl.Len, Loc: rapid.SampledFrom([]string{"fixed", "Europe/Berlin", "Europe/Berlin", "America/New_York", "Australia/Lord_Howe", "America/Sao_Paulo", "UTC"}).Draw(rt, "loc")}
		c.Secs = rapid.IntRange(-14*3600, 14*3600).Draw(rt, "offset")
		c.Y, c.M, c.D = rapid.IntRange(1901, 2078).Draw(rt, "y"), rapid.IntRange(1, 12).Draw(rt, "m"), rapid.IntRange(1, 28).Draw(rt, "d")
		if days, ok := changeDays[c.Loc]; ok && rapid.IntRange(0, 2).Draw(rt, "changeday") != 0 {
			x := days[rapid.IntRange(0, len(days)-1).Draw(rt, "which")]
			c.Y, c.M, c.D = x[0], x[1], x[2]
		}
		c.H, c.Mi, c.S = rapid.IntRange(0, 23).Draw(rt, "h"), rapid.IntRange(0, 59).Draw(rt, "mi"), rapid.IntRange(0, 59).Draw(rt, "s")
		c.Ns = rapid.SampledFrom([]int{0, 0, 3333333, 500000000, 996666667, 123456000}).Draw(rt, "ns")
		vh.Sample("local-time:"+c.Loc, c)
		return c
	}
	vh.Check(t, "TestLocalTimes", vh.N(20000, 400000), gen, runLocal)
}

// ---- the way a value really reaches the wire: as a parameter of a statement, through the
// field layer of a PARAMS package (format by LookupFieldFmtData). The bytes of the value
// inside the package are the ones the reference codec writes for it.

type fieldCase struct {
	V   valgen.Val `json:"value"`
	Col rc.Col     `json:"column_format"`
}

func runField(c fieldCase) (f *vh.Failure) {
	v := c.V
	defer func() {
		if r := recover(); r != nil {
			f = vh.Failf(class(v)+"-panic", "field layer: panic for %s %s: %v", valgen.TW{T: v.T, W: v.W}, valgen.Key(v), r)
		}
	}()
	// the format as the server (or the statement's description) gave it
	fm := rc.Fmt{Tok: rc.TokParamFmt, Cols: []rc.Col{c.Col}}
	enc, err := rc.EncodePkg(rc.P{Fmt: &fm}, nil)
	if err != nil {
		vh.HarnessBug("encode format: %v", err)
	}
	fch := flatch.New(enc.B[1:])
	fmtPkg, err := pkggen.LibDecode(rc.TokParamFmt, nil, fch)
	if err != nil || fch.Left() != 0 {
		return vh.Failf(class(v), "field layer: library cannot decode the format package: %v", err)
	}
	pp := tds.NewParamsPackage()
	if err := pp.LastPkg(fmtPkg); err != nil || len(pp.DataFields) != 1 {
		return vh.Failf(class(v), "field layer: LastPkg: %v (%d fields)", err, len(pp.DataFields))
	}
	pp.DataFields[0].SetValue(valgen.ToGo(v))
	out := flatch.New(nil)
	if err := pp.WriteTo(out); err != nil {
		return vh.Failf(class(v), "field layer: writing %s %s as a parameter failed: %v", valgen.TW{T: v.T, W: v.W}, valgen.Key(v), err)
	}
	row := rc.Row{Tok: rc.TokParams, Cells: []rc.Cell{{V: v.V}}}
	ref, err := rc.EncodePkg(rc.P{Row: &row}, &fm)
	if err != nil {
		vh.HarnessBug("reference encoder rejects the parameter row: %v", err)
	}
	a, b := out.B, ref.B
	if v.T == rc.TDecN || v.T == rc.TNumN {
		// compared through the decoder: the magnitude may be written with leading zero bytes
		got, err := rc.DecodePkg(&rc.R{B: out.B}, &fm)
		if err != nil || got.Row == nil || len(got.Row.Cells) != 1 {
			return vh.Failf(class(v), "field layer: independent decoder rejects the PARAMS package % x: %v", head(out.B), err)
		}
		ea, _ := rc.Encode(got.Row.Cells[0].V)
		eb, _ := rc.Encode(v.V)
		a, b = stripNumeric(ea), stripNumeric(eb)
	}
	if !bytes.Equal(a, b) {
		return vh.Failf("C05/field-layer-wire", "%s %s as a parameter: the PARAMS package is % x, TDS layout is % x", valgen.TW{T: v.T, W: v.W}, valgen.Key(v), head(out.B), head(ref.B))
	}
	vh.Label("field-layer:" + valgen.TW{T: v.T, W: v.W}.String())
	return nil
}

func TestFieldLayerWire(t *testing.T) {
	gen := func(rt *rapid.T) fieldCase {
		for {
			tw := valgen.GenTW(rt)
			switch tw.T {
			case rc.TText, rc.TImage, rc.TUnitext, rc.TXML:
				continue // a client never sends the text-pointer family
			}
			v := valgen.Gen(rt, tw)
			if len(v.S) > 200 {
				v = valgen.GenFor(rt, tw, v.Prec, v.Scal, 200)
			}
			if len(v.B) > 200 {
				v.B = v.B[:200]
			}
			v.JitNs = 0
			if valgen.IsNullable(tw.T) && rapid.IntRange(0, 9).Draw(rt, "null") == 0 {
				v = valgen.Val{V: rc.V{T: tw.T, W: tw.W, Null: true, Prec: v.Prec, Scal: v.Scal}}
			}
			col := pkggen.ColFor(rt, rc.TokParamFmt, v)
			col.Status &^= rc.ColumnStatus
			return fieldCase{V: v, Col: col}
		}
	}
	vh.Check(t, "TestFieldLayerWire", vh.N(20000, 400000), gen, runField)
}
