// Package vh is the harness support library shared by all checks: tiers,
// seeds, sharding, counters, labels, distinct non-trivial case hashing,
// sample capture, replay files, known-finding classes and the stats file
// that vcheck.py merges into evidence/<id>.json.
package vh

import (
	"crypto/sha256"
	"encoding/binary"
	"encoding/hex"
	"encoding/json"
	"flag"
	"fmt"
	"hash/fnv"
	"log"
	"os"
	"path/filepath"
	"sort"
	"strconv"
	"strings"
	"sync"
	"testing"
	"time"

	"pgregory.net/rapid"
)

// Failure describes a violation found by a runCase function.
type Failure struct {
	// Class is the finding class key ("C13/close-while-reader-parked"), used to
	// match against known_findings.json. Empty means "unclassified".
	Class string
	Msg   string
}

func Failf(class, format string, a ...any) *Failure {
	return &Failure{Class: class, Msg: fmt.Sprintf(format, a...)}
}

type violation struct {
	Check  string `json:"check"`
	Class  string `json:"class"`
	Msg    string `json:"msg"`
	Replay string `json:"replay"`
}

type envelope struct {
	Property string          `json:"property"`
	Check    string          `json:"check"`
	Class    string          `json:"class"`
	Msg      string          `json:"message"`
	Case     json.RawMessage `json:"case"`
}

type state struct {
	mu          sync.Mutex
	id          string
	tier        string
	seed        uint64
	shard       int
	shards      int
	out         string
	root        string
	start       time.Time
	evals       int64
	labels      map[string]int64
	hashes      map[uint64]struct{}
	hashCap     int
	hashDropped int64
	samples     []json.RawMessage
	sampleKeys  map[string]int
	exhaustive  map[string]int64
	violations  []violation
	knownOpen   map[string]string
	knownHits   map[string]int64
	excluded    map[string]int64
	notes       []string
	agree       map[string]string
	replay      *envelope
	replayRan   bool
}

var st = &state{
	labels:     map[string]int64{},
	hashes:     map[uint64]struct{}{},
	sampleKeys: map[string]int{},
	exhaustive: map[string]int64{},
	knownHits:  map[string]int64{},
	excluded:   map[string]int64{},
	knownOpen:  map[string]string{},
	agree:      map[string]string{},
	hashCap:    400000,
}

var replayFlag = flag.String("replay", "", "replay a saved failing case (JSON file) without the property library")

func envInt(name string, def int) int {
	if v := os.Getenv(name); v != "" {
		if n, err := strconv.Atoi(v); err == nil {
			return n
		}
	}
	return def
}

// Main is called from TestMain of every check package.
func Main(m *testing.M, id string) {
	flag.Parse()
	st.id = id
	st.start = time.Now()
	st.tier = os.Getenv("VERIF_TIER")
	if st.tier != "thorough" {
		st.tier = "quick"
	}
	seed := uint64(1)
	if v := os.Getenv("VERIF_SEED"); v != "" {
		if n, err := strconv.ParseUint(v, 10, 64); err == nil {
			seed = n
		} else if n, err := strconv.ParseInt(v, 10, 64); err == nil {
			seed = uint64(n)
		}
	}
	st.shard = envInt("VERIF_SHARD", 0)
	st.shards = envInt("VERIF_SHARDS", 1)
	if st.shards < 1 {
		st.shards = 1
	}
	// every shard gets its own PRNG stream; 0 would mean "random" to rapid
	seed = seed*1000 + uint64(st.shard)
	if seed == 0 {
		seed = 1
	}
	st.seed = seed
	st.out = os.Getenv("VERIF_OUT")
	st.root = os.Getenv("VERIF_ROOT")
	if st.root == "" {
		st.root = "/verif"
	}
	_ = flag.Set("rapid.seed", strconv.FormatUint(seed, 10))
	_ = flag.Set("rapid.nofailfile", "true")
	if os.Getenv("VERIF_SHRINKTIME") != "" {
		_ = flag.Set("rapid.shrinktime", os.Getenv("VERIF_SHRINKTIME"))
	} else {
		_ = flag.Set("rapid.shrinktime", "15s")
	}
	loadKnown()
	if *replayFlag != "" {
		b, err := os.ReadFile(*replayFlag)
		if err != nil {
			fmt.Fprintf(os.Stderr, "replay: %v\n", err)
			os.Exit(2)
		}
		var e envelope
		if err := json.Unmarshal(b, &e); err != nil {
			fmt.Fprintf(os.Stderr, "replay: %v\n", err)
			os.Exit(2)
		}
		st.replay = &e
	}
	code := m.Run()
	if st.replay != nil && !st.replayRan {
		fmt.Fprintf(os.Stderr, "replay: no check named %q in this binary\n", st.replay.Check)
		code = 2
	}
	flush()
	os.Exit(code)
}

func loadKnown() {
	b, err := os.ReadFile(filepath.Join(st.root, "known_findings.json"))
	if err != nil {
		return
	}
	var kf struct {
		Open []struct {
			Property string `json:"property"`
			Class    string `json:"class"`
			What     string `json:"what"`
		} `json:"open"`
	}
	if json.Unmarshal(b, &kf) != nil {
		return
	}
	for _, o := range kf.Open {
		if o.Property == st.id {
			st.knownOpen[o.Class] = o.What
		}
	}
}

// Known reports whether class is listed as an open known finding of this property.
func Known(class string) bool {
	_, ok := st.knownOpen[class]
	return ok && class != ""
}

func Thorough() bool  { return st.tier == "thorough" }
func Seed() uint64    { return st.seed }
func Shard() int      { return st.shard }
func Shards() int     { return st.shards }
func Replaying() bool { return st.replay != nil }

// Mine tells an exhaustive enumeration whether case number i belongs to this shard.
func Mine(i int) bool { return st.shards <= 1 || i%st.shards == st.shard }

// N picks a case count for the tier. Thorough counts are per shard.
func N(quick, thorough int) int {
	n := quick
	if Thorough() {
		n = thorough
	}
	if s := os.Getenv("VERIF_SCALE"); s != "" {
		if f, err := strconv.ParseFloat(s, 64); err == nil && f > 0 {
			n = int(float64(n) * f)
			if n < 1 {
				n = 1
			}
		}
	}
	return n
}

func Eval() {
	st.mu.Lock()
	st.evals++
	st.mu.Unlock()
}

func Evals(n int) {
	st.mu.Lock()
	st.evals += int64(n)
	st.mu.Unlock()
}

func Label(names ...string) {
	st.mu.Lock()
	for _, n := range names {
		st.labels[n]++
	}
	st.mu.Unlock()
}

func LabelN(name string, n int) {
	st.mu.Lock()
	st.labels[name] += int64(n)
	st.mu.Unlock()
}

// NonTrivial records a case that is non-trivial by the property's rule; key is a
// canonical description of the case, distinct keys are counted once.
func NonTrivial(key string) {
	h := fnv.New64a()
	h.Write([]byte(key))
	NonTrivialHash(h.Sum64())
}

func NonTrivialHash(v uint64) {
	st.mu.Lock()
	if _, ok := st.hashes[v]; !ok {
		if len(st.hashes) < st.hashCap {
			st.hashes[v] = struct{}{}
		} else {
			st.hashDropped++
		}
	}
	st.mu.Unlock()
}

// Sample keeps up to perKind actual cases per kind for the evidence file.
func Sample(kind string, v any) {
	st.mu.Lock()
	defer st.mu.Unlock()
	if st.sampleKeys[kind] >= 2 || len(st.samples) >= 16 {
		return
	}
	b, err := json.Marshal(map[string]any{"kind": kind, "case": v})
	if err != nil {
		return
	}
	if len(b) > 3000 {
		b, _ = json.Marshal(map[string]any{"kind": kind, "case_truncated": string(b[:2900])})
	}
	st.sampleKeys[kind]++
	st.samples = append(st.samples, b)
}

// Exhaustive records that the finite space `name` was enumerated completely (n cases
// in this shard).
func Exhaustive(name string, n int) {
	st.mu.Lock()
	st.exhaustive[name] += int64(n)
	st.mu.Unlock()
}

// Excluded counts a generated case that was left out by construction because it
// belongs to a recorded finding class.
func Excluded(class string) {
	st.mu.Lock()
	st.excluded[class]++
	st.mu.Unlock()
}

func Note(format string, a ...any) {
	st.mu.Lock()
	st.notes = append(st.notes, fmt.Sprintf(format, a...))
	st.mu.Unlock()
}

// Agree records an observation that must be identical in every process of a run
// (the driver compares the values of all shards); a conflict inside one process is
// reported at once.
func Agree(key, value string) {
	st.mu.Lock()
	old, ok := st.agree[key]
	if !ok {
		st.agree[key] = value
	}
	st.mu.Unlock()
	if ok && old != value {
		Violation("Agree", Failf(st.id+"/disagreement", "%s observed as %q and as %q in one process", key, old, value), map[string]string{"key": key, "a": old, "b": value})
	}
}

func knownHit(class string) {
	st.mu.Lock()
	st.knownHits[class]++
	st.mu.Unlock()
}

// Violation writes the replay file for a failing case and records it. It returns
// the replay path.
func Violation(check string, f *Failure, c any) string {
	cb, err := json.Marshal(c)
	if err != nil {
		cb, _ = json.Marshal(fmt.Sprintf("%+v", c))
	}
	env := envelope{Property: st.id, Check: check, Class: f.Class, Msg: f.Msg, Case: cb}
	eb, _ := json.MarshalIndent(env, "", " ")
	sum := sha256.Sum256(cb)
	name := fmt.Sprintf("%s-%s-%s.json", st.id, sanitize(check), hex.EncodeToString(sum[:5]))
	dir := filepath.Join(st.root, "replays")
	_ = os.MkdirAll(dir, 0o755)
	path := filepath.Join(dir, name)
	_ = os.WriteFile(path, eb, 0o644)
	st.mu.Lock()
	st.violations = append(st.violations, violation{Check: check, Class: f.Class, Msg: trunc(f.Msg, 1500), Replay: path})
	st.mu.Unlock()
	fmt.Printf("VIOLATION-RECORD property=%s check=%s class=%s replay=%s\n  %s\n", st.id, check, f.Class, path, trunc(f.Msg, 1500))
	return path
}

func sanitize(s string) string {
	return strings.Map(func(r rune) rune {
		if r >= 'a' && r <= 'z' || r >= 'A' && r <= 'Z' || r >= '0' && r <= '9' || r == '_' {
			return r
		}
		return '_'
	}, s)
}

func trunc(s string, n int) string {
	if len(s) > n {
		return s[:n] + "…"
	}
	return s
}

// filter maps a failure to nil if it is a listed open finding (counted).
func filter(f *Failure) *Failure {
	if f == nil {
		return nil
	}
	if Known(f.Class) {
		knownHit(f.Class)
		return nil
	}
	return f
}

// replayFor returns the raw case if the process is in replay mode for this check.
func replayFor(check string) (json.RawMessage, bool) {
	if st.replay == nil {
		return nil, false
	}
	if st.replay.Check != check {
		return nil, false
	}
	st.replayRan = true
	return st.replay.Case, true
}

// Check drives run over cases from gen with rapid (n cases), shrinks a failure and
// saves the minimal case as a replay file. In replay mode it runs only the saved case.
func Check[C any](t *testing.T, check string, n int, gen func(*rapid.T) C, run func(C) *Failure) {
	t.Helper()
	if st.replay != nil {
		raw, ok := replayFor(check)
		if !ok {
			return
		}
		var c C
		if err := json.Unmarshal(raw, &c); err != nil {
			t.Fatalf("replay: cannot decode case: %v", err)
		}
		if f := run(c); f != nil {
			fmt.Printf("REPLAY-FAIL property=%s check=%s class=%s\n  %s\n", st.id, check, f.Class, f.Msg)
			t.Fatalf("replayed case fails: [%s] %s", f.Class, f.Msg)
		}
		fmt.Printf("REPLAY-PASS property=%s check=%s\n", st.id, check)
		return
	}
	if t.Failed() {
		return // an earlier part of this test already reported a violation
	}
	_ = flag.Set("rapid.checks", strconv.Itoa(n))
	var lastC C
	var lastF *Failure
	defer func() {
		if lastF != nil {
			Violation(check, lastF, lastC)
		}
	}()
	// rapid's own shrink time limit is only looked at between shrink passes; with cases that take
	// seconds when they fail (a watchdog has to expire) a pass can run for minutes. Once the
	// budget is used up every further candidate is answered "passes" without being run, which ends
	// the shrinking with the last case that really failed.
	var firstFail time.Time
	budget := 20 * time.Second
	if d, err := time.ParseDuration(os.Getenv("VERIF_SHRINKTIME")); err == nil && d > 0 {
		budget = d
	}
	rapid.Check(t, func(rt *rapid.T) {
		c := gen(rt)
		if !firstFail.IsZero() && time.Since(firstFail) > budget {
			return
		}
		Eval()
		f := filter(run(c))
		if f != nil && firstFail.IsZero() {
			f = confirm(f, func() *Failure { return filter(run(c)) })
		}
		if f != nil {
			if firstFail.IsZero() {
				firstFail = time.Now()
			}
			lastC, lastF = c, f
			rt.Fatalf("[%s] %s", f.Class, f.Msg)
		}
	})
}

// timingClass: verdicts that say "did not happen within a bound". They rest on the wall clock; a
// machine busy with other work can hold a goroutine back for seconds, a library that blocks does
// so every time.
func timingClass(class string) bool {
	for _, w := range []string{"block", "hang", "stuck", "within-bound", "outlives", "starved", "not-ended", "does-not-end", "beyond-bound", "never-told", "did-not", "not-returned", "login-hangs", "reader-not", "timeout"} {
		if strings.Contains(class, w) {
			return true
		}
	}
	return false
}

// confirm re-runs a case whose failure is a timing verdict up to twelve times (20 s at most): it is reported if
// one of the repetitions fails as well (with whatever that one reports). A deadlock that needs
// an unlucky interleaving does not show in every run of the same case, a stall caused by other
// work on the machine practically never shows twice.
func confirm(f *Failure, again func() *Failure) *Failure {
	if f == nil || !timingClass(f.Class) {
		return f
	}
	Label("timing-verdict-repeated")
	t0 := time.Now()
	for i := 0; i < 12 && time.Since(t0) < 20*time.Second; i++ {
		if f2 := again(); f2 != nil {
			return f2
		}
	}
	Label("timing-verdict-not-confirmed")
	return nil
}

// Each runs one enumerated case (exhaustive loops); returns false after a failure
// so the loop can stop. The first failure is saved as the replay file.
type Enum[C any] struct {
	t      *testing.T
	check  string
	run    func(C) *Failure
	failed bool
	count  int
	replay bool
}

func NewEnum[C any](t *testing.T, check string, run func(C) *Failure) *Enum[C] {
	e := &Enum[C]{t: t, check: check, run: run}
	if st.replay != nil {
		e.replay = true
		if raw, ok := replayFor(check); ok {
			var c C
			if err := json.Unmarshal(raw, &c); err != nil {
				t.Fatalf("replay: cannot decode case: %v", err)
			}
			if f := run(c); f != nil {
				fmt.Printf("REPLAY-FAIL property=%s check=%s class=%s\n  %s\n", st.id, check, f.Class, f.Msg)
				t.Errorf("replayed case fails: [%s] %s", f.Class, f.Msg)
			} else {
				fmt.Printf("REPLAY-PASS property=%s check=%s\n", st.id, check)
			}
		}
	}
	return e
}

// Skip reports whether the enumeration should not run (replay mode or already failed).
func (e *Enum[C]) Skip() bool { return e.replay || e.failed }

func (e *Enum[C]) Do(c C) bool {
	if e.replay || e.failed {
		return false
	}
	e.count++
	Eval()
	f := filter(e.run(c))
	if f != nil {
		f = confirm(f, func() *Failure { return filter(e.run(c)) })
	}
	if f != nil {
		e.failed = true
		Violation(e.check, f, c)
		e.t.Errorf("[%s] %s", f.Class, f.Msg)
		return false
	}
	return true
}

func (e *Enum[C]) Count() int { return e.count }

// Done records the enumeration as complete (only if it ran to the end).
func (e *Enum[C]) Done(space string) {
	if !e.replay && !e.failed {
		Exhaustive(space, e.count)
	}
}

func flush() {
	if st.out == "" {
		return
	}
	st.mu.Lock()
	defer st.mu.Unlock()
	type out struct {
		ID          string            `json:"id"`
		Tier        string            `json:"tier"`
		Seed        uint64            `json:"seed"`
		Shard       int               `json:"shard"`
		Shards      int               `json:"shards"`
		Evals       int64             `json:"evaluations"`
		Labels      map[string]int64  `json:"labels"`
		Distinct    int               `json:"distinct_nontrivial"`
		HashDropped int64             `json:"hash_dropped"`
		Samples     []json.RawMessage `json:"samples"`
		Exhaustive  map[string]int64  `json:"exhaustive"`
		Violations  []violation       `json:"violations"`
		KnownHits   map[string]int64  `json:"known_hits"`
		Excluded    map[string]int64  `json:"excluded"`
		Notes       []string          `json:"notes"`
		Agree       map[string]string `json:"agree"`
		WallS       float64           `json:"wall_s"`
		Replay      bool              `json:"replay"`
	}
	o := out{ID: st.id, Tier: st.tier, Seed: st.seed, Shard: st.shard, Shards: st.shards, Evals: st.evals,
		Labels: st.labels, Distinct: len(st.hashes), HashDropped: st.hashDropped, Samples: st.samples,
		Exhaustive: st.exhaustive, Violations: st.violations, KnownHits: st.knownHits, Excluded: st.excluded,
		Notes: st.notes, Agree: st.agree, WallS: time.Since(st.start).Seconds(), Replay: st.replay != nil}
	b, _ := json.MarshalIndent(o, "", " ")
	_ = os.WriteFile(st.out, b, 0o644)
	hs := make([]uint64, 0, len(st.hashes))
	for h := range st.hashes {
		hs = append(hs, h)
	}
	sort.Slice(hs, func(i, j int) bool { return hs[i] < hs[j] })
	hb := make([]byte, 8*len(hs))
	for i, h := range hs {
		binary.LittleEndian.PutUint64(hb[8*i:], h)
	}
	_ = os.WriteFile(st.out+".hashes", hb, 0o644)
}

// Rule states how cases are generated and what makes one non-trivial / distinct;
// it is copied into the evidence file.
func Rule(s string) { Note("RULE: %s", s) }

// Assume records an assumption / trusted base item for the evidence file.
func Assume(s string) { Note("ASSUME: %s", s) }

// HarnessBug aborts the process with exit code 3: the harness itself (reference
// codec, generator) is inconsistent. The driver reports this as inconclusive, never
// as a violation.
func HarnessBug(format string, a ...any) {
	fmt.Printf("HARNESS-BUG: "+format+"\n", a...)
	flush()
	os.Exit(3)
}

// CheckHarnessPanic turns a recovered panic that was raised by the harness' own
// packages (not by the code under test) into HarnessBug.
func CheckHarnessPanic(r any) {
	s := fmt.Sprint(r)
	for _, p := range []string{"refcodec:", "pkggen:", "valgen:", "respgen:", "peer:", "flatch:"} {
		if strings.HasPrefix(s, p) {
			HarnessBug("%s", s)
		}
	}
}

// sink swallows log output. It is deliberately not io.Discard: the log package skips
// formatting altogether for io.Discard, and the formatting (Package.String() of every package
// sent / received with Info.DebugLogPackages) is what the checks want to have executed.
type sink struct{}

func (sink) Write(p []byte) (int, error) { return len(p), nil }

// QuietLog sends the standard logger's output to a sink that still makes it format.
func QuietLog() { log.SetOutput(sink{}) }

// Together runs the cases of a batch in goroutines of their own, all released at the same
// moment, and returns the first failure (by position). Panics inside run are the callee's
// business (the run functions recover and classify them).
func Together[C any](cs []C, run func(C) *Failure) *Failure {
	res := make([]*Failure, len(cs))
	start := make(chan struct{})
	var wg sync.WaitGroup
	for i := range cs {
		wg.Add(1)
		go func(i int) {
			defer wg.Done()
			<-start
			res[i] = run(cs[i])
		}(i)
	}
	close(start)
	wg.Wait()
	for i, f := range res {
		if f != nil {
			f.Msg = fmt.Sprintf("(case %d of %d running at the same time) %s", i+1, len(cs), f.Msg)
			return f
		}
	}
	return nil
}
