package c11

import (
	"context"
	"errors"
	"fmt"
	"testing"

	"github.com/SAP/go-dblib/tds"
	"pgregory.net/rapid"
	"verif/internal/peer"
	"verif/internal/pkggen"
	rc "verif/internal/refcodec"
	"verif/internal/respgen"
	"verif/internal/vh"
)

// ---- (same scenario as in C03, judged here for what the hooks are told) a response that carries an environment change the library refuses (a packet size that
// is not a number or not a size a packet can have): the refusal is reported as a channel error,
// once - and the response is delimited like any other: everything else of it is delivered, in
// order, with exactly one final DONE, nothing is left over, and the next response on the
// channel is complete as well.

type badEnvCase struct {
	Before int    `json:"members_before"`
	Bad    string `json:"refused_packet_size"`
	Lead   []rc.P `json:"packages_before_the_envchange"`
	Tail   []rc.P `json:"packages_after_the_envchange"`
	Cuts   []int  `json:"cuts"`
	Next   []rc.P `json:"next_response"`
}

func runBadEnv(c badEnvCase) (f *vh.Failure) {
	defer func() {
		if r := recover(); r != nil {
			vh.CheckHarnessPanic(r)
			f = vh.Failf("C11/panic", "%+v: panic: %v", c.Bad, r)
		}
	}()
	members := []rc.EnvMember{}
	others := []rc.EnvMember{{Type: rc.EnvDB, New: "db1", Old: "master"}, {Type: rc.EnvLang, New: "us_english", Old: ""}}
	for i := 0; i < c.Before; i++ {
		members = append(members, others[i%2])
	}
	members = append(members, rc.EnvMember{Type: rc.EnvPackSize, New: c.Bad, Old: "512"})
	resp := append(append(append([]rc.P{}, c.Lead...), rc.P{Env: &rc.EnvChange{Members: members}}), c.Tail...)
	ctx, cancel := context.WithCancel(context.Background())
	defer cancel()
	conn, _, err := tds.VerifNewConn(ctx, peer.NewPipe(), &tds.Info{ChannelPackageQueueSize: 4096}, false)
	if err != nil {
		vh.HarnessBug("VerifNewConn: %v", err)
	}
	ch, err := conn.NewChannel()
	if err != nil {
		vh.HarnessBug("NewChannel: %v", err)
	}
	hooked := 0
	if err := ch.RegisterEnvChangeHooks(func(tds.EnvChangeType, string, string) { hooked++ }); err != nil {
		vh.HarnessBug("RegisterEnvChangeHooks: %v", err)
	}
	messages := 0
	if err := ch.RegisterEEDHooks(func(tds.EEDPackage) { messages++ }); err != nil {
		vh.HarnessBug("RegisterEEDHooks: %v", err)
	}
	play := func(ps []rc.P, cuts []int, what string, refusals int) *vh.Failure {
		how := fmt.Sprintf("%s [%s] cuts %v (packet size %q refused)", what, respgen.Describe(ps), cuts, c.Bad)
		stream, _, _, err := rc.EncodeStream(ps)
		if err != nil {
			vh.HarnessBug("encode: %v", err)
		}
		var got []tds.Package
		nerr := 0
		var lastErr error
		for _, p := range rc.Packetise(stream, cuts, rc.BufResponse, 0) {
			ch.WritePacket(&tds.Packet{Header: tds.PacketHeader{MsgType: tds.TDS_BUF_RESPONSE, Status: tds.PacketHeaderStatus(p.Status), Length: uint16(8 + len(p.Body))}, Data: p.Body})
			for {
				if e := ch.VerifChanErr(); e != nil {
					nerr++
					lastErr = e
					if nerr > 50 {
						return vh.Failf("C11/refused-envchange-reported-again-and-again", "%s: more than 50 channel errors, the last: %v", how, e)
					}
					continue
				}
				pkg, err := ch.NextPackage(ctx, false)
				if errors.Is(err, tds.ErrNoPackageReady) {
					break
				}
				if err != nil {
					nerr++
					lastErr = err
					continue
				}
				got = append(got, pkg)
			}
		}
		model, _ := respgen.Deliver(ps)
		if nerr != refusals {
			return vh.Failf("C11/refused-envchange-error-count", "%s: %d channel errors, expected %d (the refusal, once); last: %v", how, nerr, refusals, lastErr)
		}
		if len(got) != len(model) {
			cls := "C11/missing-final-done"
			if len(got) > len(model) {
				cls = "C11/leftover-after-response"
			}
			return vh.Failf(cls, "%s: delivered [%s], expected [%s]", how, fmt.Sprint(len(got), " packages"), respgen.Describe(model))
		}
		fmts := respgen.FormatBefore(model)
		for i := range model {
			if err := pkggen.LibEqual(model[i], fmts[i], got[i]); err != nil {
				return vh.Failf("C11/delivery", "%s: package %d: %v", how, i, err)
			}
		}
		return nil
	}
	if f := play(resp, c.Cuts, "response with a refused environment change", 1); f != nil {
		return f
	}
	if hooked != c.Before {
		return vh.Failf("C11/refused-envchange-hooks", "packet size %q refused: the %d members in front of it were reported %d times to the hook", c.Bad, c.Before, hooked)
	}
	wantMsgs := 0
	for _, p := range resp {
		if p.EED != nil && p.EED.Status&rc.EEDInfo == 0 {
			wantMsgs++
		}
	}
	if messages != wantMsgs {
		return vh.Failf("C11/eed-hook-count", "packet size %q refused inside [%s] cuts %v: the message hook was called %d times, the response has %d non-informational messages", c.Bad, respgen.Describe(resp), c.Cuts, messages, wantMsgs)
	}
	if conn.PacketSize() != 512 {
		return vh.Failf("C11/refused-envchange-applied", "packet size %q refused, yet PacketSize() = %d", c.Bad, conn.PacketSize())
	}
	if f := play(c.Next, nil, "the response after it", 0); f != nil {
		return f
	}
	vh.Label("refused-envchange")
	if len(c.Cuts) > 0 && len(c.Tail) > 0 {
		vh.NonTrivial(fmt.Sprintf("badenv|%s|%d|%s|%v", c.Bad, c.Before, respgen.Describe(resp), c.Cuts))
	}
	return nil
}

func TestRefusedEnvChange(t *testing.T) {
	gen := func(rt *rapid.T) badEnvCase {
		c := badEnvCase{Before: rapid.IntRange(0, 2).Draw(rt, "before"),
			Bad: rapid.SampledFrom([]string{"8", "0", "7", "-1", "65536", "70000", "abc", "", "512x", "99999999999999999999"}).Draw(rt, "bad")}
		all := respgen.Gen(rt, respgen.Opts{MaxStatements: 2, MaxEED: 3})
		k := rapid.IntRange(0, len(all)).Draw(rt, "at")
		c.Lead, c.Tail = all[:k], all[k:]
		c.Next = respgen.Gen(rt, respgen.Opts{MaxStatements: 1})
		return c
	}
	// cuts are drawn over the real stream length in a second step
	gen2 := func(rt *rapid.T) badEnvCase {
		c := gen(rt)
		n := streamLen(c)
		if rapid.IntRange(0, 3).Draw(rt, "fragment") != 0 {
			c.Cuts = respgen.Cuts(rt, n, false)
		}
		return c
	}
	vh.Check(t, "TestRefusedEnvChange", vh.N(1500, 30000), gen2, runBadEnv)
}

func streamLen(c badEnvCase) int {
	members := []rc.EnvMember{}
	others := []rc.EnvMember{{Type: rc.EnvDB, New: "db1", Old: "master"}, {Type: rc.EnvLang, New: "us_english", Old: ""}}
	for i := 0; i < c.Before; i++ {
		members = append(members, others[i%2])
	}
	members = append(members, rc.EnvMember{Type: rc.EnvPackSize, New: c.Bad, Old: "512"})
	resp := append(append(append([]rc.P{}, c.Lead...), rc.P{Env: &rc.EnvChange{Members: members}}), c.Tail...)
	stream, _, _, err := rc.EncodeStream(resp)
	if err != nil {
		vh.HarnessBug("encode: %v", err)
	}
	return len(stream)
}
