// C20 — isolation level mapping is a deterministic, consistent function.
package c20

import (
	"database/sql"
	"fmt"
	"os"
	"os/exec"
	"strconv"
	"strings"
	"sync"
	"testing"

	dblib "github.com/SAP/go-dblib"
	"pgregory.net/rapid"
	"verif/internal/vh"
)

// answers is everything the package can be asked, as one line of text.
func answers() string {
	var sb strings.Builder
	for l := -8; l <= 64; l++ {
		a, err := dblib.ASEIsolationLevelFromGo(sql.IsolationLevel(l))
		fmt.Fprintf(&sb, "F%d=%d/%v;", l, a, err != nil)
	}
	for a := -4; a <= 8; a++ {
		fmt.Fprintf(&sb, "T%d=%d;S%d=%s;", a, int(dblib.ASEIsolationLevel(a).ToGo()), a, dblib.ASEIsolationLevel(a).String())
	}
	return sb.String()
}

func TestMain(m *testing.M) {
	if os.Getenv("VERIF_C20_CHILD") == "1" {
		// a short-lived process of TestManyShortProcesses: answer and go
		fmt.Println("ANSWERS " + answers())
		os.Exit(0)
	}
	vh.Rule("exhaustive: every sql.IsolationLevel -8..64 (x50 calls), every ASEIsolationLevel -4..8 (x2000 calls of ToGo and String), every supported non-default level there-and-back x2000; every ASE level value -70000..70000 plus values around 2^16..2^62 and the extremes (the directions must be consistent: a value that translates back to a supported non-default level is the ASE level that level translates to); rapid: random call histories of FromGo/ToGo/String (2..40 calls) checked for answer stability; 5+ separate processes whose recorded answers must agree, each of which asks its first questions about a different level and in a different direction. Non-trivial: a level whose ASE target is shared by several sql levels (the only place iteration order can matter), a supported non-default round trip, or a history that asks the same question twice; distinct by level / by call sequence")
	vh.Assume("the exported ASELevel* constants are the four ASE levels; the oracle table is written from the property text")
	// answers given before anything else in this process has used the package: the result must
	// not depend on which function happened to be called first
	// ... nor on which level was asked about first: every process of a run starts somewhere else
	// and walks in its own direction, and the answers of all processes must agree
	shard, _ := strconv.Atoi(os.Getenv("VERIF_SHARD"))
	for i := 0; i < 13; i++ {
		a := -4 + (shard+i)%13
		if shard%2 == 1 {
			a = -4 + ((shard-i)%13+13)%13
		}
		if (shard/13)%2 == 0 {
			earlyString[a] = dblib.ASEIsolationLevel(a).String()
			earlyToGo[a] = int(dblib.ASEIsolationLevel(a).ToGo())
		} else {
			earlyToGo[a] = int(dblib.ASEIsolationLevel(a).ToGo())
			earlyString[a] = dblib.ASEIsolationLevel(a).String()
		}
	}
	vh.Rule("also: 2..8 goroutines translating at the same time, every answer compared with the answer of the same call alone (separate race-detector run)")
	vh.Rule("also: the error returned for an unsupported / unknown level is read (Error(), wrapped with %w) before the next questions are asked")
	vh.Rule("also: the test binary starts itself 48 times from each of two processes; every short-lived child prints all its answers (FromGo -8..64, ToGo / String -4..8), which must equal the answers of the process that started it (what a process works out once at start-up, e.g. from map iteration, must not differ between processes)")
	vh.Main(m, "C20")
}

var earlyToGo, earlyString = map[int]int{}, map[int]string{}

type earlyCase struct {
	ASE int `json:"ase"`
}

func runEarly(c earlyCase) *vh.Failure {
	// make sure the forward direction has been used at least once by now
	_, _ = dblib.ASEIsolationLevelFromGo(sql.LevelSerializable)
	a := dblib.ASEIsolationLevel(c.ASE)
	if g := int(a.ToGo()); g != earlyToGo[c.ASE] {
		return vh.Failf("C20/answer-depends-on-call-history", "ASE level %d: ToGo answered %d as the very first call of the process and answers %d now", c.ASE, earlyToGo[c.ASE], g)
	}
	if s := a.String(); s != earlyString[c.ASE] {
		return vh.Failf("C20/answer-depends-on-call-history", "ASE level %d: String answered %q as the very first call of the process and answers %q now", c.ASE, earlyString[c.ASE], s)
	}
	vh.NonTrivial(fmt.Sprint("early", c.ASE))
	return nil
}

func TestFirstCallOfTheProcess(t *testing.T) {
	e := vh.NewEnum(t, "TestFirstCallOfTheProcess", runEarly)
	if e.Skip() {
		return
	}
	for a := -4; a <= 8; a++ {
		e.Do(earlyCase{ASE: a})
	}
	e.Done("ToGo/String of every ASE level as the first calls of the process vs. later")
}

// reference: what the property states.
var supported = map[sql.IsolationLevel]dblib.ASEIsolationLevel{
	sql.LevelDefault:         dblib.ASELevelReadCommitted,
	sql.LevelReadUncommitted: dblib.ASELevelReadUncommitted,
	sql.LevelReadCommitted:   dblib.ASELevelReadCommitted,
	sql.LevelRepeatableRead:  dblib.ASELevelRepeatableRead,
	sql.LevelSerializable:    dblib.ASELevelSerializableRead,
}

type fwdCase struct {
	Level int `json:"level"`
	Reps  int `json:"reps"`
}

func runForward(c fwdCase) *vh.Failure {
	l := sql.IsolationLevel(c.Level)
	want, ok := supported[l]
	for i := 0; i < c.Reps; i++ {
		got, err := dblib.ASEIsolationLevelFromGo(l)
		if ok {
			if err != nil {
				return vh.Failf("C20/forward", "FromGo(%d) = error %v, want %d", c.Level, err, want)
			}
			if got != want {
				return vh.Failf("C20/forward", "FromGo(%d) = %d, want %d", c.Level, got, want)
			}
		} else if err == nil {
			return vh.Failf("C20/forward", "FromGo(%d) = %d without error, want an error (unsupported or unknown level)", c.Level, got)
		} else if i < 3 {
			// the caller reads (logs, wraps) the error it got: that has no effect on later answers
			if err.Error() == "" {
				return vh.Failf("C20/forward", "FromGo(%d) returns an error with an empty text", c.Level)
			}
			_ = fmt.Errorf("begin transaction: %w", err).Error()
		}
	}
	if ok && l != sql.LevelDefault {
		vh.NonTrivial(fmt.Sprintf("fwd:%d", c.Level))
	}
	return nil
}

func TestForwardExhaustive(t *testing.T) {
	e := vh.NewEnum(t, "TestForwardExhaustive", runForward)
	if e.Skip() {
		return
	}
	for l := -8; l <= 64; l++ {
		if !e.Do(fwdCase{Level: l, Reps: 50}) {
			return
		}
		if l == 1 {
			vh.Sample("forward", fwdCase{Level: l, Reps: 50})
		}
	}
	e.Done("sql.IsolationLevel -8..64")
	// the four ASE levels are pairwise distinct
	seen := map[dblib.ASEIsolationLevel]sql.IsolationLevel{}
	for l, a := range supported {
		if l == sql.LevelDefault {
			continue
		}
		if o, dup := seen[a]; dup {
			t.Errorf("levels %v and %v share ASE level %d", o, l, a)
		}
		seen[a] = l
	}
}

type backCase struct {
	ASE  int `json:"ase"`
	Reps int `json:"reps"`
}

func runBack(c backCase) *vh.Failure {
	a := dblib.ASEIsolationLevel(c.ASE)
	first := a.ToGo()
	firstS := a.String()
	for i := 0; i < c.Reps; i++ {
		if g := a.ToGo(); g != first {
			return vh.Failf("C20/nondeterministic-reverse", "ASE level %d: ToGo gave %d (%v) and then %d (%v) on call %d", c.ASE, first, first, g, g, i+2)
		}
		if s := a.String(); s != firstS {
			return vh.Failf("C20/nondeterministic-reverse", "ASE level %d: String gave %q and then %q on call %d", c.ASE, firstS, s, i+2)
		}
	}
	vh.Agree(fmt.Sprintf("ToGo(%d)", c.ASE), fmt.Sprint(int(first)))
	vh.Agree(fmt.Sprintf("String(%d)", c.ASE), firstS)
	// the only place iteration order can matter: several sql levels with this ASE level
	n := 0
	for l := -8; l <= 64; l++ {
		if x, err := dblib.ASEIsolationLevelFromGo(sql.IsolationLevel(l)); (err == nil && x == a) || (err != nil && a == dblib.ASELevelInvalid && l >= 0 && l <= 7) {
			n++
		}
	}
	if n >= 2 {
		vh.NonTrivial(fmt.Sprintf("back-shared:%d", c.ASE))
		vh.Label("shared-target")
	}
	return nil
}

func TestReverseDeterministicExhaustive(t *testing.T) {
	e := vh.NewEnum(t, "TestReverseDeterministicExhaustive", runBack)
	if e.Skip() {
		return
	}
	for a := -4; a <= 8; a++ {
		c := backCase{ASE: a, Reps: 2000}
		if !e.Do(c) {
			return
		}
		if a == 2 {
			vh.Sample("reverse", c)
		}
	}
	e.Done("ASEIsolationLevel -4..8 x 2000 evaluations")
}

type rtCase struct {
	Level int `json:"level"`
	Reps  int `json:"reps"`
}

func runRoundTrip(c rtCase) *vh.Failure {
	l := sql.IsolationLevel(c.Level)
	for i := 0; i < c.Reps; i++ {
		a, err := dblib.ASEIsolationLevelFromGo(l)
		if err != nil {
			return vh.Failf("C20/forward", "FromGo(%v) error %v", l, err)
		}
		if back := a.ToGo(); back != l {
			return vh.Failf("C20/nondeterministic-reverse", "FromGo(%d).ToGo() = %d (%v), want %d (%v) (iteration %d)", c.Level, back, back, c.Level, l, i)
		}
	}
	vh.NonTrivial(fmt.Sprintf("rt:%d", c.Level))
	return nil
}

func TestRoundTripExhaustive(t *testing.T) {
	e := vh.NewEnum(t, "TestRoundTripExhaustive", runRoundTrip)
	if e.Skip() {
		return
	}
	for l := range supported {
		if l == sql.LevelDefault {
			continue
		}
		if !e.Do(rtCase{Level: int(l), Reps: 2000}) {
			return
		}
	}
	vh.Sample("roundtrip", rtCase{Level: int(sql.LevelReadCommitted), Reps: 2000})
	e.Done("supported non-default levels x 2000")
}

// histories of calls: the answer for a level must not depend on what was asked before.
type histCase struct {
	Ops []histOp `json:"ops"`
}
type histOp struct {
	Kind  int `json:"kind"` // 0 FromGo, 1 ToGo, 2 String
	Level int `json:"level"`
}

func runHistory(c histCase) *vh.Failure {
	seen := map[string]string{}
	nt := false
	for i, op := range c.Ops {
		var k, v string
		switch op.Kind {
		case 0:
			a, err := dblib.ASEIsolationLevelFromGo(sql.IsolationLevel(op.Level))
			// (the answer includes the text of the error: callers read it)
			k, v = fmt.Sprintf("FromGo(%d)", op.Level), fmt.Sprintf("%d/%v", a, err)
			want, ok := supported[sql.IsolationLevel(op.Level)]
			if ok != (err == nil) || (ok && a != want) {
				return vh.Failf("C20/forward", "op %d: FromGo(%d) = %d, err=%v; want ok=%v level=%d", i, op.Level, a, err, ok, want)
			}
		case 1:
			k, v = fmt.Sprintf("ToGo(%d)", op.Level), fmt.Sprint(int(dblib.ASEIsolationLevel(op.Level).ToGo()))
		default:
			k, v = fmt.Sprintf("String(%d)", op.Level), dblib.ASEIsolationLevel(op.Level).String()
		}
		if old, ok := seen[k]; ok {
			nt = true
			if old != v {
				return vh.Failf("C20/nondeterministic-reverse", "op %d: %s answered %q earlier in this history and %q now", i, k, old, v)
			}
		}
		seen[k] = v
	}
	if nt {
		vh.NonTrivial(fmt.Sprint(c.Ops))
	}
	return nil
}

func TestCallHistories(t *testing.T) {
	gen := func(rt *rapid.T) histCase {
		n := rapid.IntRange(2, 40).Draw(rt, "n")
		ops := make([]histOp, n)
		for i := range ops {
			k := rapid.IntRange(0, 2).Draw(rt, "kind")
			var l int
			if k == 0 {
				l = rapid.IntRange(-8, 64).Draw(rt, "level")
			} else {
				l = rapid.IntRange(-4, 8).Draw(rt, "ase")
			}
			ops[i] = histOp{Kind: k, Level: l}
		}
		if n <= 6 {
			vh.Sample("history", histCase{Ops: ops})
		}
		return histCase{Ops: ops}
	}
	vh.Check(t, "TestCallHistories", vh.N(3000, 100000), gen, runHistory)
}

// ---- every ASE level VALUE (the type is an int; the property quantifies over "every ASE
// level value"): the two directions are consistent. Whatever a value translates back to, if
// that is a supported non-default sql level, translating that level forward gives the value
// again (so only the four ASE levels can translate back to the four supported levels), and
// printing names a level only for a value that translates.

type valueCase struct {
	ASE int `json:"ase_level_value"`
}

func runValue(c valueCase) *vh.Failure {
	a := dblib.ASEIsolationLevel(c.ASE)
	l := a.ToGo()
	if l2 := a.ToGo(); l2 != l {
		return vh.Failf("C20/nondeterministic-reverse", "ASE level value %d: ToGo gave %d and then %d", c.ASE, l, l2)
	}
	s := a.String()
	if s2 := a.String(); s2 != s {
		return vh.Failf("C20/nondeterministic-reverse", "ASE level value %d: String gave %q and then %q", c.ASE, s, s2)
	}
	if want, ok := supported[l]; ok && l != sql.LevelDefault {
		if a != want {
			return vh.Failf("C20/directions-inconsistent", "ASE level value %d translates back to %v, but %v translates to ASE level %d", c.ASE, l, l, int(want))
		}
		vh.NonTrivial(fmt.Sprint("value", c.ASE))
	}
	// two values that print the same translate back the same
	for _, x := range []dblib.ASEIsolationLevel{dblib.ASELevelReadUncommitted, dblib.ASELevelReadCommitted, dblib.ASELevelRepeatableRead, dblib.ASELevelSerializableRead} {
		if x != a && x.String() == s && x.ToGo() != l {
			return vh.Failf("C20/directions-inconsistent", "ASE level values %d and %d both print as %q but translate back to %v and %v", c.ASE, int(x), s, l, x.ToGo())
		}
		if x != a && x.String() == s && x.ToGo() == l && l != sql.LevelDefault {
			return vh.Failf("C20/directions-inconsistent", "ASE level value %d prints and translates like the ASE level %d (%q)", c.ASE, int(x), s)
		}
	}
	return nil
}

func TestEveryLevelValue(t *testing.T) {
	e := vh.NewEnum(t, "TestEveryLevelValue", runValue)
	if e.Skip() {
		return
	}
	n := 0
	do := func(a int) bool {
		n++
		if !vh.Mine(n) {
			return true
		}
		return e.Do(valueCase{ASE: a})
	}
	for a := -70000; a <= 70000; a++ {
		if !do(a) {
			return
		}
	}
	// values whose low 8/16/32 bits are an ASE level, and the extremes
	for _, base := range []int64{1 << 16, 1 << 24, 1 << 31, 1 << 32, 1 << 40, 1 << 62, -(1 << 16), -(1 << 31), -(1 << 32), -(1 << 62)} {
		for d := -5; d <= 5; d++ {
			if int64(int(base+int64(d))) != base+int64(d) {
				continue // the level type is the platform's int
			}
			if !do(int(base + int64(d))) {
				return
			}
		}
	}
	for _, a := range []int{int(^uint(0) >> 1), -int(^uint(0)>>1) - 1} {
		if !do(a) {
			return
		}
	}
	vh.Sample("level-value", valueCase{ASE: 257})
	e.Done("ASE level values -70000..70000, 2^k+d for k in 16,24,31,32,40,62 and d in -5..5, MinInt, MaxInt")
}

// ---- several goroutines translating at the same time (every connection of a pool does):
// each answer must be the one the same call gives alone

func TestConcurrentCallers(t *testing.T) {
	gen := func(rt *rapid.T) []histCase {
		n := rapid.IntRange(2, 8).Draw(rt, "goroutines")
		var cs []histCase
		for g := 0; g < n; g++ {
			m := rapid.IntRange(5, 60).Draw(rt, "n")
			ops := make([]histOp, m)
			for i := range ops {
				k := rapid.IntRange(0, 2).Draw(rt, "kind")
				l := rapid.IntRange(-8, 64).Draw(rt, "level")
				if k != 0 {
					l = rapid.SampledFrom([]int{-4, -1, 0, 1, 2, 3, 4, 5, 8, 257, 65537}).Draw(rt, "ase")
				}
				ops[i] = histOp{Kind: k, Level: l}
			}
			cs = append(cs, histCase{Ops: ops})
		}
		return cs
	}
	// what each call answers when nothing else runs
	alone := func(op histOp) string {
		switch op.Kind {
		case 0:
			a, err := dblib.ASEIsolationLevelFromGo(sql.IsolationLevel(op.Level))
			return fmt.Sprint(int(a), err)
		case 1:
			return fmt.Sprint(int(dblib.ASEIsolationLevel(op.Level).ToGo()))
		}
		return dblib.ASEIsolationLevel(op.Level).String()
	}
	run := func(cs []histCase) *vh.Failure {
		want := make([][]string, len(cs))
		for i, c := range cs {
			for _, op := range c.Ops {
				want[i] = append(want[i], alone(op))
			}
		}
		type indexed struct {
			i int
			c histCase
		}
		var batch []indexed
		for i, c := range cs {
			batch = append(batch, indexed{i, c})
		}
		f := vh.Together(batch, func(x indexed) *vh.Failure {
			for rep := 0; rep < 50; rep++ {
				for j, op := range x.c.Ops {
					if got := alone(op); got != want[x.i][j] {
						return vh.Failf("C20/answer-differs-under-concurrency", "op %+v answers %q alone and %q while other goroutines translate", op, want[x.i][j], got)
					}
				}
			}
			return nil
		})
		if f == nil {
			vh.Label("concurrent-callers")
			vh.NonTrivial(fmt.Sprint(cs))
		}
		return f
	}
	vh.Check(t, "TestConcurrentCallers", vh.N(300, 6000), gen, run)
}

// ---- many short-lived processes: whatever a process works out once when it starts (tables,
// bounds - from maps whose iteration order differs from process to process) gives the same
// answers in every process. The test binary starts itself 48 times; every child prints all its
// answers, which must be the ones this process gives (checked against the reference elsewhere).

type procCase struct {
	Children int `json:"child_processes"`
}

func runProcs(c procCase) *vh.Failure {
	mine := answers()
	type res struct {
		out string
		err error
	}
	results := make([]res, c.Children)
	sem := make(chan struct{}, 8)
	var wg sync.WaitGroup
	for i := range results {
		wg.Add(1)
		go func(i int) {
			defer wg.Done()
			sem <- struct{}{}
			defer func() { <-sem }()
			cmd := exec.Command(os.Args[0], "-test.run", "^$")
			cmd.Env = append(os.Environ(), "VERIF_C20_CHILD=1", "VERIF_OUT=")
			b, err := cmd.CombinedOutput()
			results[i] = res{string(b), err}
		}(i)
	}
	wg.Wait()
	seen := 0
	for i, r := range results {
		line := ""
		for _, l := range strings.Split(r.out, "\n") {
			if strings.HasPrefix(l, "ANSWERS ") {
				line = strings.TrimPrefix(l, "ANSWERS ")
			}
		}
		if line == "" {
			if strings.Contains(r.out, "panic:") {
				return vh.Failf("C20/child-process-crashed", "short-lived process %d of %d: %s", i+1, c.Children, trunc(r.out))
			}
			continue // could not be started here: not judged
		}
		seen++
		if line != mine {
			a, b := strings.Split(line, ";"), strings.Split(mine, ";")
			for k := range a {
				if k < len(b) && a[k] != b[k] {
					return vh.Failf("C20/answer-differs-between-processes", "short-lived process %d of %d answers %s, this process %s", i+1, c.Children, a[k], b[k])
				}
			}
			return vh.Failf("C20/answer-differs-between-processes", "short-lived process %d of %d gives a different list of answers", i+1, c.Children)
		}
	}
	if seen == 0 {
		vh.Note("TestManyShortProcesses: the test binary could not start itself here; not judged")
		return nil
	}
	vh.LabelN("short-lived-processes-compared", seen)
	vh.NonTrivial(fmt.Sprintf("procs|%d", seen))
	return nil
}

func trunc(s string) string {
	if len(s) > 600 {
		return s[:600]
	}
	return s
}

func TestManyShortProcesses(t *testing.T) {
	e := vh.NewEnum(t, "TestManyShortProcesses", runProcs)
	if e.Skip() {
		return
	}
	if vh.Shard() < 2 {
		e.Do(procCase{Children: 48})
	}
}
