package c07

import (
	"bytes"
	"context"
	"errors"
	"fmt"
	"testing"

	"github.com/SAP/go-dblib/tds"
	"pgregory.net/rapid"
	"verif/internal/peer"
	"verif/internal/pkggen"
	rc "verif/internal/refcodec"
	"verif/internal/vh"
)

// ---- LARGE packages (a row with a long binary/character value, a wide row format with
// hundreds of columns): tens to hundreds of kilobytes, arriving in hundreds of packets. After
// every packet: nothing of a package is delivered and no error is queued before its last byte
// has arrived; with its last byte the package is delivered with exactly the sent fields.

type largeCase struct {
	Kind string `json:"kind"`
	Size int    `json:"size"`
	Body int    `json:"packet_body_size"`
	Fill byte   `json:"fill"`
}

func (c largeCase) packages() []rc.P {
	done := rc.P{Done: &rc.Done{Tok: rc.TokDone}}
	val := bytes.Repeat([]byte{c.Fill}, c.Size)
	for i := 0; i < len(val); i += 7 {
		val[i] = byte('a' + i/7%26)
	}
	switch c.Kind {
	case "row-longbinary", "params-longbinary":
		ft, rt := byte(rc.TokRowFmt), byte(rc.TokRow)
		if c.Kind == "params-longbinary" {
			ft, rt = rc.TokParamFmt, rc.TokParams
		}
		f := rc.Fmt{Tok: ft, Cols: []rc.Col{{Name: "id", T: rc.TInt4}, {Name: "v", T: rc.TLongBinary, MaxLen: 2147483647}}}
		row := rc.Row{Tok: rt, Cells: []rc.Cell{{V: rc.V{T: rc.TInt4, I: 7}}, {V: rc.V{T: rc.TLongBinary, B: val}}}}
		return []rc.P{{Fmt: &f}, {Row: &row}, done}
	case "row-longchar":
		f := rc.Fmt{Tok: rc.TokRowFmt2, Cols: []rc.Col{{Name: "id", T: rc.TInt4}, {Name: "v", T: rc.TLongChar, MaxLen: 2147483647}}}
		row := rc.Row{Tok: rc.TokRow, Cells: []rc.Cell{{V: rc.V{T: rc.TInt4, I: 7}}, {V: rc.V{T: rc.TLongChar, S: string(val)}}}}
		return []rc.P{{Fmt: &f}, {Row: &row}, done}
	default: // wide format with many columns
		f := rc.Fmt{Tok: rc.TokRowFmt2}
		name := string(bytes.Repeat([]byte{'n'}, 200))
		for n := 0; n*(5*201+12) < c.Size; n++ {
			f.Cols = append(f.Cols, rc.Col{Label: name, Catalog: name, Schema: name, Table: name, Name: fmt.Sprintf("%s%d", name[:190], n), T: rc.TInt4})
		}
		return []rc.P{{Fmt: &f}, done}
	}
}

func runLarge(c largeCase) (f *vh.Failure) {
	how := fmt.Sprintf("%s of about %d bytes in packets of %d body bytes", c.Kind, c.Size, c.Body)
	defer func() {
		if r := recover(); r != nil {
			vh.CheckHarnessPanic(r)
			f = vh.Failf(class(c.Kind, "panic"), "%s: panic: %v", how, r)
		}
	}()
	ps := c.packages()
	stream, offs, _, err := rc.EncodeStream(ps)
	if err != nil {
		vh.HarnessBug("encode: %v", err)
	}
	ends := offs[1:] // the encoder returns every start and the total length
	ctx, cancel := context.WithCancel(context.Background())
	defer cancel()
	conn, _, err := tds.VerifNewConn(ctx, peer.NewPipe(), &tds.Info{ChannelPackageQueueSize: 1000}, false)
	if err != nil {
		vh.HarnessBug("VerifNewConn: %v", err)
	}
	ch, err := conn.NewChannel()
	if err != nil {
		vh.HarnessBug("NewChannel: %v", err)
	}
	var got []tds.Package
	npackets := 0
	for at := 0; at < len(stream); at += c.Body {
		end, st := at+c.Body, tds.PacketHeaderStatus(0)
		if end >= len(stream) {
			end, st = len(stream), tds.TDS_BUFSTAT_EOM
		}
		npackets++
		ch.WritePacket(&tds.Packet{Header: tds.PacketHeader{MsgType: tds.TDS_BUF_RESPONSE, Status: st, Length: uint16(8 + end - at)}, Data: append([]byte{}, stream[at:end]...)})
		complete := 0
		for _, e := range ends {
			if e <= end {
				complete++
			}
		}
		for {
			pkg, err := ch.NextPackage(ctx, false)
			if errors.Is(err, tds.ErrNoPackageReady) {
				break
			}
			if err != nil {
				return vh.Failf(class(c.Kind, "channel-error"), "%s: after packet %d (%d of %d bytes, %d packages complete): %v", how, npackets, end, len(stream), complete, err)
			}
			got = append(got, pkg)
			if len(got) > complete {
				return vh.Failf(class(c.Kind, "short-read-success"), "%s: after packet %d (%d of %d bytes) %d packages were delivered, only %d are complete; the extra one: %s", how, npackets, end, len(stream), len(got), complete, clip(pkg))
			}
		}
		if err := ch.VerifChanErr(); err != nil {
			return vh.Failf(class(c.Kind, "channel-error"), "%s: after packet %d (%d of %d bytes) the channel queued the error: %v", how, npackets, end, len(stream), err)
		}
		if len(got) != complete {
			return vh.Failf(class(c.Kind, "channel-delivery"), "%s: after packet %d (%d of %d bytes) %d packages were delivered, %d are complete", how, npackets, end, len(stream), len(got), complete)
		}
	}
	var lf *rc.Fmt
	for i, w := range ps {
		if w.Fmt != nil {
			lf = w.Fmt
		}
		if err := pkggen.LibEqual(w, lf, got[i]); err != nil {
			return vh.Failf(class(c.Kind, "channel-delivery"), "%s: package %d (%s) was delivered with wrong fields: %v", how, i, pkggen.KindOf(w), err)
		}
	}
	vh.Label(fmt.Sprintf("large-package:packets>=%d", npackets/100*100))
	vh.NonTrivial(fmt.Sprintf("large|%s|%d|%d", c.Kind, c.Size, c.Body))
	return nil
}

func TestLargePackages(t *testing.T) {
	gen := func(rt *rapid.T) largeCase {
		c := largeCase{
			Kind: rapid.SampledFrom([]string{"row-longbinary", "params-longbinary", "row-longchar", "rowfmt2-many-columns"}).Draw(rt, "kind"),
			Body: rapid.SampledFrom([]int{504, 504, 248, 1016, 100}).Draw(rt, "body"),
			Fill: byte(rapid.IntRange(1, 255).Draw(rt, "fill")),
		}
		c.Size = rapid.OneOf(rapid.IntRange(60000, 70000), rapid.IntRange(1000, 300000), rapid.SampledFrom([]int{65535, 65536, 66528, 66529, 131072, 200000})).Draw(rt, "size")
		if vh.Thorough() && rapid.IntRange(0, 9).Draw(rt, "huge") == 0 {
			// (every packet makes the channel parse the package from its start again: the cost
			// is quadratic in the number of packets)
			c.Size = rapid.IntRange(300000, 1000000).Draw(rt, "hugesize")
			if c.Body < 504 {
				c.Body = 504
			}
		}
		return c
	}
	vh.Check(t, "TestLargePackages", vh.N(40, 600), gen, runLarge)
}
