// Package valgen generates values of every ASE data type as refcodec.V descriptions,
// converts them to the Go values the library works with and compares decoded Go values
// with the description. Shared by C04, C05, C06, C07.
package valgen

import (
	"bytes"
	"fmt"
	"math"
	"math/big"
	"strings"
	"time"

	"github.com/SAP/go-dblib/asetypes"
	"pgregory.net/rapid"
	rc "verif/internal/refcodec"
)

// TW is a data type with one of its legal wire widths (0 = not applicable).
type TW struct {
	T byte
	W int
}

func (tw TW) String() string {
	s := asetypes.DataType(tw.T).String()
	if tw.W != 0 {
		s += fmt.Sprintf("(%d)", tw.W)
	}
	return s
}

// All lists every data type with a Go mapping except BLOB, nullable families with each
// legal width.
var All = []TW{
	{rc.TInt1, 0}, {rc.TInt2, 0}, {rc.TInt4, 0}, {rc.TInt8, 0},
	{rc.TIntN, 1}, {rc.TIntN, 2}, {rc.TIntN, 4}, {rc.TIntN, 8},
	{rc.TUint2, 0}, {rc.TUint4, 0}, {rc.TUint8, 0},
	{rc.TUintN, 1}, {rc.TUintN, 2}, {rc.TUintN, 4}, {rc.TUintN, 8},
	{rc.TFlt4, 0}, {rc.TFlt8, 0}, {rc.TFltN, 4}, {rc.TFltN, 8},
	{rc.TBit, 0},
	{rc.TMoney, 0}, {rc.TShortMoney, 0}, {rc.TMoneyN, 4}, {rc.TMoneyN, 8},
	{rc.TDecN, 0}, {rc.TNumN, 0},
	{rc.TDate, 0}, {rc.TDateN, 4},
	{rc.TTime, 0}, {rc.TTimeN, 4},
	{rc.TDateTime, 0}, {rc.TShortDate, 0}, {rc.TDateTimeN, 4}, {rc.TDateTimeN, 8},
	{rc.TBigDateTimeN, 8}, {rc.TBigTimeN, 8},
	{rc.TBinary, 0}, {rc.TVarBinary, 0}, {rc.TLongBinary, 0}, {rc.TImage, 0}, {rc.TXML, 0},
	{rc.TChar, 0}, {rc.TVarChar, 0}, {rc.TLongChar, 0}, {rc.TText, 0}, {rc.TUnitext, 0},
}

// Val is a generated value: the description plus a sub-tick offset for the classic
// temporal types (the Go value is the tick's exact time plus JitNs nanoseconds).
type Val struct {
	rc.V
	JitNs int64 `json:"jit_ns,omitempty"`
}

// IsNullable reports whether the type has a NULL representation (zero length).
func IsNullable(t byte) bool { return rc.FixedSize(t) == 0 }

// MaxLen is the largest data length the 1-byte / 4-byte prefixed types are generated with.
func MaxLen(t byte) int {
	if rc.LengthPrefix(t) == 4 {
		return 70000
	}
	return 255
}

const (
	MinDay1900  = -693595 // 0001-01-01
	MaxDay1900  = 2958463 // 9999-12-31
	MaxTick     = 25919999
	halfTickNs  = 1600000 // generated jitter bound (a tick is 3 333 333 ns)
	MinDatetime = -53690  // 1753-01-01, the documented lower bound of datetime
)

func width(tw TW) int {
	if fs := rc.FixedSize(tw.T); fs > 0 {
		return fs
	}
	return tw.W
}

var boundary64 = []int64{0, 1, -1, 2, 127, 128, 255, 256, -128, -129, 32767, 32768, -32768, -32769, 65535, 65536,
	math.MaxInt32, math.MaxInt32 + 1, math.MinInt32, math.MinInt32 - 1, math.MaxUint32, math.MaxUint32 + 1,
	math.MaxInt64, math.MinInt64, math.MaxInt64 - 1, math.MinInt64 + 1, 1 << 32, -(1 << 32), 0x0102030405060708, -0x0102030405060708}

func genInt(rt *rapid.T, w int, signed bool) (int64, uint64) {
	var u uint64
	if rapid.IntRange(0, 3).Draw(rt, "boundary") == 0 {
		u = uint64(rapid.SampledFrom(boundary64).Draw(rt, "bval"))
	} else {
		u = rapid.Uint64().Draw(rt, "u64")
	}
	switch w {
	case 1:
		u &= 0xff
		return int64(u), u // tinyint is unsigned
	case 2:
		u &= 0xffff
		if signed {
			return int64(int16(u)), u
		}
	case 4:
		u &= 0xffffffff
		if signed {
			return int64(int32(u)), u
		}
	}
	return int64(u), u
}

var specialF64 = []uint64{0, 1 << 63, 0x7ff0000000000000, 0xfff0000000000000, 0x7ff8000000000001, 0x7ff0000000000001, 0xfff8000000000000, 1, 0x000fffffffffffff, 0x7fefffffffffffff, 0x3ff0000000000000}
var specialF32 = []uint64{0, 1 << 31, 0x7f800000, 0xff800000, 0x7fc00001, 0x7f800001, 0xffc00000, 1, 0x007fffff, 0x7f7fffff, 0x3f800000}

func pow10(k int) *big.Int { return new(big.Int).Exp(big.NewInt(10), big.NewInt(int64(k)), nil) }

func genDay(rt *rapid.T, lo, hi int) int32 {
	switch rapid.IntRange(0, 5).Draw(rt, "dayclass") {
	case 0:
		c := []int{lo, lo + 1, hi, hi - 1, 0, -1, 1, MinDatetime, MinDatetime - 1, 59, 60, 365, 366, -365, 36524, 36525, 65535, 65536, 65534}
		d := rapid.SampledFrom(c).Draw(rt, "dayb")
		if d < lo {
			d = lo
		}
		if d > hi {
			d = hi
		}
		return int32(d)
	case 1:
		// around a year boundary or a leap day
		y := rapid.IntRange(1, 9999).Draw(rt, "year")
		m, d := 12, 31
		switch rapid.IntRange(0, 3).Draw(rt, "which") {
		case 0:
			m, d = 1, 1
		case 1:
			m, d = 2, 28
		case 2:
			m, d = 3, 1
		}
		v := int(rc.DaysSince1900(y, m, d)) + rapid.IntRange(0, 1).Draw(rt, "plus")
		if v < lo {
			v = lo
		}
		if v > hi {
			v = hi
		}
		return int32(v)
	case 2:
		// before 1900 (negative day counts)
		if lo < 0 {
			h := -1
			if hi < h {
				h = hi
			}
			return int32(rapid.IntRange(lo, h).Draw(rt, "dayneg"))
		}
	}
	return int32(rapid.IntRange(lo, hi).Draw(rt, "day"))
}

func genTick(rt *rapid.T) uint32 {
	if rapid.IntRange(0, 4).Draw(rt, "tickclass") == 0 {
		return uint32(rapid.SampledFrom([]int{0, 1, 2, 3, 299, 300, 301, 17999, 18000, 1079999, 1080000, MaxTick, MaxTick - 1, 12960000}).Draw(rt, "tickb"))
	}
	return uint32(rapid.IntRange(0, MaxTick).Draw(rt, "tick"))
}

func genJit(rt *rapid.T, tick uint32) int64 {
	j := int64(0)
	switch rapid.IntRange(0, 3).Draw(rt, "jitclass") {
	case 0:
		j = 0
	case 1:
		j = int64(rapid.SampledFrom([]int{-halfTickNs, halfTickNs, -1, 1, 999, 1000, -1000}).Draw(rt, "jitb"))
	default:
		j = int64(rapid.IntRange(-halfTickNs, halfTickNs).Draw(rt, "jit"))
	}
	// stay inside the day
	ns := TickNs(tick) + j
	if ns < 0 {
		j = 0
	}
	if ns >= 86400*1e9 {
		j = 0
	}
	return j
}

// TickNs is the nanosecond of day of a 1/300 s tick, rounded to the nearest nanosecond.
func TickNs(tick uint32) int64 { return (int64(tick)*10000000 + 1) / 3 }

var stringAlphabets = [][]rune{
	[]rune("abcXYZ 019_-"),
	[]rune("äöüßñé¿¡ÿ\u0080"),
	[]rune("€λЖ中日本語Ā߿ࠀ￿�퟿"),
	[]rune("😀𝄞\U00010000\U0010ffff\U0001f600"),
	// characters text handling likes to treat specially: byte order mark and its mirror image,
	// separators, zero-width and control characters, quoting characters
	[]rune("\ufeff\ufffe\u00a0\u2028\u200b\t\n\r\"\\%'\u007f\u0001"),
}

func genString(rt *rapid.T, maxBytes int, minRunes int) string {
	class := rapid.IntRange(0, 5).Draw(rt, "strclass")
	var alpha []rune
	if class == 5 {
		for _, a := range stringAlphabets {
			alpha = append(alpha, a...)
		}
	} else {
		alpha = stringAlphabets[class]
	}
	var n int
	switch rapid.IntRange(0, 9).Draw(rt, "lenclass") {
	case 0:
		n = maxBytes // aim at the maximum
	case 1:
		n = rapid.IntRange(minRunes, min(maxBytes, 300)).Draw(rt, "len300")
	default:
		n = rapid.IntRange(minRunes, min(maxBytes, 24)).Draw(rt, "len")
	}
	var sb strings.Builder
	cnt := 0
	for sb.Len() < n || cnt < minRunes {
		r := alpha[rapid.IntRange(0, len(alpha)-1).Draw(rt, "r")]
		if sb.Len()+len(string(r)) > maxBytes {
			if cnt >= minRunes {
				break
			}
			r = 'a'
		}
		sb.WriteRune(r)
		cnt++
		if n > 400 && cnt > 40 {
			// long strings: repeat what we have instead of drawing every rune
			s := sb.String()
			for sb.Len()+len(s) <= n {
				sb.WriteString(s)
			}
			break
		}
	}
	return sb.String()
}

func genBytes(rt *rapid.T, maxLen int) []byte {
	var n int
	switch rapid.IntRange(0, 9).Draw(rt, "lenclass") {
	case 0:
		n = maxLen
	case 1:
		n = rapid.IntRange(1, min(maxLen, 300)).Draw(rt, "len300")
	default:
		n = rapid.IntRange(1, min(maxLen, 24)).Draw(rt, "len")
	}
	if n > 64 {
		seed := rapid.SliceOfN(rapid.Byte(), 16, 16).Draw(rt, "seedbytes")
		b := make([]byte, n)
		for i := range b {
			b[i] = seed[i%16] + byte(i/16)
		}
		return b
	}
	return rapid.SliceOfN(rapid.Byte(), n, n).Draw(rt, "bytes")
}

// GenTW draws a data type (uniform over All).
func GenTW(rt *rapid.T) TW { return All[rapid.IntRange(0, len(All)-1).Draw(rt, "type")] }

// Gen draws a non-NULL value of the given type.
func Gen(rt *rapid.T, tw TW) Val {
	v := Val{V: rc.V{T: tw.T, W: tw.W}}
	w := width(tw)
	switch tw.T {
	case rc.TInt1:
		_, v.U = genInt(rt, 1, false)
	case rc.TInt2, rc.TInt4, rc.TInt8, rc.TIntN:
		v.I, _ = genInt(rt, w, true)
	case rc.TUint2, rc.TUint4, rc.TUint8, rc.TUintN:
		_, v.U = genInt(rt, w, false)
	case rc.TFlt4, rc.TFlt8, rc.TFltN:
		if w == 4 {
			if rapid.IntRange(0, 3).Draw(rt, "special") == 0 {
				v.U = rapid.SampledFrom(specialF32).Draw(rt, "f32s")
			} else {
				v.U = uint64(rapid.Uint32().Draw(rt, "f32"))
			}
		} else {
			if rapid.IntRange(0, 3).Draw(rt, "special") == 0 {
				v.U = rapid.SampledFrom(specialF64).Draw(rt, "f64s")
			} else {
				v.U = rapid.Uint64().Draw(rt, "f64")
			}
		}
	case rc.TBit:
		v.Bool = rapid.Bool().Draw(rt, "bit")
	case rc.TMoney, rc.TShortMoney, rc.TMoneyN:
		v.I, _ = genInt(rt, w, true)
	case rc.TDecN, rc.TNumN:
		v.Prec = rapid.IntRange(1, 38).Draw(rt, "prec")
		v.Scal = rapid.IntRange(0, v.Prec).Draw(rt, "scale")
		v.Neg = rapid.Bool().Draw(rt, "neg")
		var m *big.Int
		switch rapid.IntRange(0, 4).Draw(rt, "magclass") {
		case 0:
			m = big.NewInt(int64(rapid.IntRange(0, 1).Draw(rt, "01")))
		case 1:
			m = pow10(rapid.IntRange(0, v.Prec-1).Draw(rt, "k"))
		case 2:
			m = new(big.Int).Sub(pow10(rapid.IntRange(1, v.Prec).Draw(rt, "k")), big.NewInt(1))
		default:
			nd := rapid.IntRange(1, v.Prec).Draw(rt, "ndigits")
			ds := make([]byte, nd)
			for i := range ds {
				ds[i] = byte('0' + rapid.IntRange(0, 9).Draw(rt, "d"))
			}
			m, _ = new(big.Int).SetString(string(ds), 10)
		}
		v.Mag = m.String()
		if m.Sign() == 0 {
			v.Neg = false
		}
	case rc.TDate, rc.TDateN:
		v.Day = genDay(rt, MinDay1900, MaxDay1900)
	case rc.TTime, rc.TTimeN:
		v.Tick = genTick(rt)
		v.JitNs = genJit(rt, v.Tick)
	case rc.TDateTime, rc.TShortDate, rc.TDateTimeN:
		if w == 4 {
			v.Day = genDay(rt, 0, 65535)
			v.Tick = uint32(rapid.IntRange(0, 1439).Draw(rt, "minute"))
			// seconds inside the minute: the type's tick is one minute
			if rapid.Bool().Draw(rt, "withseconds") {
				v.JitNs = int64(rapid.IntRange(0, 59999).Draw(rt, "ms")) * 1000000
			}
		} else {
			// the whole calendar range the Go type and the wire format can carry; the
			// documented ASE range starts 1753-01-01 (labelled)
			v.Day = genDay(rt, MinDay1900, MaxDay1900)
			v.Tick = genTick(rt)
			v.JitNs = genJit(rt, v.Tick)
		}
	case rc.TBigDateTimeN:
		day := genDay(rt, MinDay1900, MaxDay1900)
		y, m, d := rc.CivilFrom1900(int64(day))
		us := genUsOfDay(rt)
		v.U = rc.UsSinceYear0(y, m, d, us)
	case rc.TBigTimeN:
		v.U = uint64(genUsOfDay(rt))
	case rc.TBinary, rc.TVarBinary, rc.TLongBinary, rc.TImage, rc.TXML:
		v.B = genBytes(rt, MaxLen(tw.T))
	case rc.TChar, rc.TVarChar, rc.TLongChar, rc.TText:
		v.S = genString(rt, MaxLen(tw.T), 1)
	case rc.TUnitext:
		// maximum counted in UTF-16 bytes; 4 UTF-8 bytes never need more than 4 UTF-16 bytes
		v.S = genString(rt, MaxLen(tw.T)/2, 1)
		// the decoder documents that it trims trailing NULs
		v.S = strings.TrimRight(v.S, "\x00")
		if v.S == "" {
			v.S = "a"
		}
		// ... trailing ones only: a NUL inside (or in front of) the text is a character
		if len(v.S)+1 <= MaxLen(tw.T)/2 && rapid.IntRange(0, 5).Draw(rt, "nul") == 0 {
			rs := []rune(v.S)
			at := rapid.IntRange(0, len(rs)-1).Draw(rt, "nulat")
			v.S = string(rs[:at]) + "\x00" + string(rs[at:])
		}
	default:
		panic("valgen: no generator for " + tw.String())
	}
	return v
}

func genUsOfDay(rt *rapid.T) int64 {
	if rapid.IntRange(0, 4).Draw(rt, "usclass") == 0 {
		return rapid.SampledFrom([]int64{0, 1, 999, 1000, 999999, 1000000, rc.UsPerDay - 1, rc.UsPerDay / 2, 3333, 3334}).Draw(rt, "usb")
	}
	return rapid.Int64Range(0, rc.UsPerDay-1).Draw(rt, "us")
}

// Labels classifies a value for the evidence histogram.
func Labels(v Val) []string {
	name := TW{v.T, v.W}.String()
	ls := []string{"type:" + name}
	if v.Null {
		return append(ls, "null")
	}
	switch v.T {
	case rc.TInt2, rc.TInt4, rc.TInt8, rc.TIntN, rc.TMoney, rc.TShortMoney, rc.TMoneyN:
		if v.I < 0 {
			ls = append(ls, "negative")
		}
	case rc.TDecN, rc.TNumN:
		if v.Neg {
			ls = append(ls, "negative")
		}
		if len(v.Mag) == v.Prec {
			ls = append(ls, "numeric:full-precision")
		}
	case rc.TDate, rc.TDateN:
		if v.Day < 0 {
			ls = append(ls, "date:pre-1900")
		}
	case rc.TDateTime, rc.TDateTimeN, rc.TShortDate:
		if v.Day < 0 && (v.Tick != 0 || v.JitNs != 0) {
			ls = append(ls, "datetime:pre-1900-with-time")
		}
		if v.Day < MinDatetime {
			ls = append(ls, "datetime:before-1753")
		}
	case rc.TChar, rc.TVarChar, rc.TLongChar, rc.TText, rc.TUnitext:
		for _, r := range v.S {
			if r > 0xffff {
				ls = append(ls, "string:non-BMP")
				break
			}
		}
		for _, r := range v.S {
			if r > 0xff && r <= 0xffff {
				ls = append(ls, "string:BMP>U+00FF")
				break
			}
		}
		n := len(v.S)
		if v.T == rc.TUnitext {
			n = len(v.S) // utf-8 length; only used for the max label below
		}
		if n >= MaxLen(v.T)-3 || (v.T == rc.TUnitext && n >= MaxLen(v.T)/2-3) {
			ls = append(ls, "string:max-length")
		}
	case rc.TBinary, rc.TVarBinary, rc.TLongBinary, rc.TImage, rc.TXML:
		if len(v.B) == MaxLen(v.T) {
			ls = append(ls, "binary:max-length")
		}
	}
	return ls
}

// NonZero reports whether the value is not the type's zero value (and not NULL).
func NonZero(v Val) bool {
	if v.Null {
		return false
	}
	return v.I != 0 || v.U != 0 || v.Bool || (v.Mag != "" && v.Mag != "0") || v.Day != 0 || v.Tick != 0 || len(v.B) > 0 || v.S != "" || v.JitNs != 0
}

// Key is a canonical string of the value (distinctness).
func Key(v Val) string {
	return fmt.Sprintf("%x/%d/%v/%d/%d/%v/%v/%s/%d/%d/%d/%d/%x/%s/%d", v.T, v.W, v.Null, v.I, v.U, v.Bool, v.Neg, v.Mag, v.Prec, v.Scal, v.Day, v.Tick, v.B, v.S, v.JitNs)
}

func moneyDecimal(w int, count int64) *asetypes.Decimal {
	p, s := asetypes.ASEMoneyPrecision, asetypes.ASEMoneyScale
	if w == 4 {
		p, s = asetypes.ASEShortMoneyPrecision, asetypes.ASEShortMoneyScale
	}
	d, err := asetypes.NewDecimal(p, s)
	if err != nil {
		panic(err)
	}
	d.SetInt64(count)
	return d
}

// ToGo builds the Go value the library's encoder takes for this description.
func ToGo(v Val) interface{} {
	if v.Null {
		return nil
	}
	w := width(TW{v.T, v.W})
	switch v.T {
	case rc.TInt1:
		return uint8(v.U)
	case rc.TInt2:
		return int16(v.I)
	case rc.TInt4:
		return int32(v.I)
	case rc.TInt8:
		return int64(v.I)
	case rc.TIntN:
		switch w {
		case 1:
			return uint8(v.I)
		case 2:
			return int16(v.I)
		case 4:
			return int32(v.I)
		}
		return int64(v.I)
	case rc.TUint2:
		return uint16(v.U)
	case rc.TUint4:
		return uint32(v.U)
	case rc.TUint8:
		return uint64(v.U)
	case rc.TUintN:
		switch w {
		case 1:
			return uint8(v.U)
		case 2:
			return uint16(v.U)
		case 4:
			return uint32(v.U)
		}
		return uint64(v.U)
	case rc.TFlt4, rc.TFlt8, rc.TFltN:
		if w == 4 {
			return math.Float32frombits(uint32(v.U))
		}
		return math.Float64frombits(v.U)
	case rc.TBit:
		return v.Bool
	case rc.TMoney, rc.TShortMoney, rc.TMoneyN:
		return moneyDecimal(w, v.I)
	case rc.TDecN, rc.TNumN:
		d, err := asetypes.NewDecimal(v.Prec, v.Scal)
		if err != nil {
			panic(err)
		}
		m, _ := new(big.Int).SetString(v.Mag, 10)
		d.SetBytes(m.Bytes())
		if v.Neg {
			d.Negate()
		}
		return d
	case rc.TDate, rc.TDateN:
		y, m, d := rc.CivilFrom1900(int64(v.Day))
		return time.Date(y, time.Month(m), d, 0, 0, 0, 0, time.UTC)
	case rc.TTime, rc.TTimeN:
		return time.Date(1, 1, 1, 0, 0, 0, 0, time.UTC).Add(time.Duration(TickNs(v.Tick) + v.JitNs))
	case rc.TDateTime, rc.TShortDate, rc.TDateTimeN:
		y, m, d := rc.CivilFrom1900(int64(v.Day))
		t := time.Date(y, time.Month(m), d, 0, 0, 0, 0, time.UTC)
		if w == 4 {
			return t.Add(time.Duration(v.Tick)*time.Minute + time.Duration(v.JitNs))
		}
		return t.Add(time.Duration(TickNs(v.Tick) + v.JitNs))
	case rc.TBigDateTimeN:
		y, m, d, us := rc.CivilFromUs(v.U)
		return time.Date(y, time.Month(m), d, 0, 0, 0, 0, time.UTC).Add(time.Duration(us) * time.Microsecond)
	case rc.TBigTimeN:
		return time.Date(1, 1, 1, 0, 0, 0, 0, time.UTC).Add(time.Duration(v.U) * time.Microsecond)
	case rc.TBinary, rc.TVarBinary, rc.TLongBinary, rc.TImage, rc.TXML:
		return append([]byte{}, v.B...)
	case rc.TChar, rc.TVarChar, rc.TLongChar, rc.TText, rc.TUnitext:
		return v.S
	}
	panic("valgen: ToGo " + TW{v.T, v.W}.String())
}

// BytesLength is the `length` argument the library's field writer passes to
// DataType.Bytes: the format's maximum length.
func BytesLength(v Val) int64 {
	w := width(TW{v.T, v.W})
	if w != 0 {
		return int64(w)
	}
	if rc.LengthPrefix(v.T) == 4 {
		return 2147483647
	}
	return 255
}

func isNullDecimal(d *asetypes.Decimal) bool {
	var nd asetypes.NullDecimal
	if err := nd.Scan(d); err != nil {
		return false
	}
	return !nd.Valid
}

func civil(t time.Time) (int, int, int) {
	y, m, d := t.Date()
	return y, int(m), d
}

func nsOfDay(t time.Time) int64 {
	h, m, s := t.Clock()
	return int64(h)*3600e9 + int64(m)*60e9 + int64(s)*1e9 + int64(t.Nanosecond())
}

// MatchMillis is Match with the tolerance of the classic temporal types tightened from one
// tick to one millisecond: for wire values (exact ticks, JitNs == 0) the decoded time may
// deviate from the tick's exact time only by the resolution of the Go value.
func MatchMillis(v Val, got interface{}) error {
	if err := Match(v, got); err != nil || v.Null || v.JitNs != 0 {
		return err
	}
	g, ok := got.(time.Time)
	if !ok {
		return nil
	}
	switch v.T {
	case rc.TTime, rc.TTimeN:
		if diff := nsOfDay(g) - TickNs(v.Tick); diff <= -1000000 || diff >= 1000000 {
			return fmt.Errorf("time tick %d is %d ns of the day, decoded as %v: %d ns away (more than the millisecond resolution)", v.Tick, TickNs(v.Tick), g, diff)
		}
	case rc.TDateTime, rc.TDateTimeN:
		if width(TW{v.T, v.W}) == 8 {
			want := ToGo(v).(time.Time)
			if diff := g.Sub(want); diff <= -time.Millisecond || diff >= time.Millisecond {
				return fmt.Errorf("datetime day %d tick %d is %v, decoded as %v: off by %v (more than the millisecond resolution)", v.Day, v.Tick, want, g, diff)
			}
		}
	}
	return nil
}

// Match compares a decoded Go value with the description. The classic temporal types
// are compared to the type's tick: the decoded time must be less than one tick away
// from the generated time (tick time + jitter).
func Match(v Val, got interface{}) error {
	if v.Null {
		if got == nil {
			return nil
		}
		if d, ok := got.(*asetypes.Decimal); ok && isNullDecimal(d) {
			return nil
		}
		return fmt.Errorf("NULL decoded as %T %v", got, got)
	}
	w := width(TW{v.T, v.W})
	want := ToGo(v)
	switch v.T {
	case rc.TFlt4, rc.TFlt8, rc.TFltN:
		if w == 4 {
			g, ok := got.(float32)
			if !ok || math.Float32bits(g) != uint32(v.U) {
				return fmt.Errorf("float32 bits %#x decoded as %T %v", v.U, got, got)
			}
			return nil
		}
		g, ok := got.(float64)
		if !ok || math.Float64bits(g) != v.U {
			return fmt.Errorf("float64 bits %#x decoded as %T %v", v.U, got, got)
		}
		return nil
	case rc.TMoney, rc.TShortMoney, rc.TMoneyN:
		g, ok := got.(*asetypes.Decimal)
		if !ok || isNullDecimal(g) {
			return fmt.Errorf("money decoded as %T %v", got, got)
		}
		if !g.Cmp(*want.(*asetypes.Decimal)) {
			return fmt.Errorf("money count %d decoded as %v (p=%d,s=%d, unscaled %v)", v.I, g, g.Precision, g.Scale, g.Int())
		}
		return nil
	case rc.TDecN, rc.TNumN:
		g, ok := got.(*asetypes.Decimal)
		if !ok || isNullDecimal(g) {
			return fmt.Errorf("numeric decoded as %T %v", got, got)
		}
		// the decoder cannot know precision and scale (the field reader sets them from
		// the format): compare the unscaled integers
		if g.Int().Cmp(want.(*asetypes.Decimal).Int()) != 0 {
			return fmt.Errorf("numeric unscaled %s (neg=%v) decoded as unscaled %v", v.Mag, v.Neg, g.Int())
		}
		return nil
	case rc.TDate, rc.TDateN:
		g, ok := got.(time.Time)
		if !ok {
			return fmt.Errorf("date decoded as %T", got)
		}
		wy, wm, wd := rc.CivilFrom1900(int64(v.Day))
		if y, m, d := civil(g); y != wy || m != wm || d != wd || nsOfDay(g) != 0 {
			return fmt.Errorf("date %04d-%02d-%02d (day %d) decoded as %v", wy, wm, wd, v.Day, g)
		}
		return nil
	case rc.TTime, rc.TTimeN:
		g, ok := got.(time.Time)
		if !ok {
			return fmt.Errorf("time decoded as %T", got)
		}
		wantNs := TickNs(v.Tick) + v.JitNs
		if diff := nsOfDay(g) - wantNs; diff <= -3333334 || diff >= 3333334 {
			return fmt.Errorf("time tick %d (+%dns) decoded as %v: %d ns away (tick = 3333333 ns)", v.Tick, v.JitNs, g, diff)
		}
		return nil
	case rc.TDateTime, rc.TShortDate, rc.TDateTimeN:
		g, ok := got.(time.Time)
		if !ok {
			return fmt.Errorf("datetime decoded as %T", got)
		}
		wt := want.(time.Time)
		diff := g.Sub(wt)
		tick := time.Duration(3333334)
		if w == 4 {
			tick = time.Minute
		}
		if diff <= -tick || diff >= tick {
			return fmt.Errorf("datetime %v (day %d, tick %d) decoded as %v: off by %v", wt, v.Day, v.Tick, g, diff)
		}
		return nil
	case rc.TBigDateTimeN:
		g, ok := got.(time.Time)
		if !ok || !g.Equal(want.(time.Time)) {
			return fmt.Errorf("bigdatetime %d us (%v) decoded as %v", v.U, want, got)
		}
		return nil
	case rc.TBigTimeN:
		g, ok := got.(time.Time)
		if !ok || nsOfDay(g) != int64(v.U)*1000 {
			return fmt.Errorf("bigtime %d us decoded as %v", v.U, got)
		}
		return nil
	case rc.TBinary, rc.TVarBinary, rc.TLongBinary, rc.TImage, rc.TXML:
		g, ok := got.([]byte)
		if !ok || !bytes.Equal(g, v.B) {
			return fmt.Errorf("%d bytes decoded as %T (%d bytes)", len(v.B), got, lenOf(got))
		}
		return nil
	}
	// integers, bit, strings: exact Go equality with the encoder's input type
	if got != want {
		return fmt.Errorf("%T %v decoded as %T %v", want, trunc(want), got, trunc(got))
	}
	return nil
}

func lenOf(x interface{}) int {
	switch t := x.(type) {
	case []byte:
		return len(t)
	case string:
		return len(t)
	}
	return -1
}

func trunc(x interface{}) interface{} {
	if s, ok := x.(string); ok && len(s) > 60 {
		return fmt.Sprintf("%q…(%d bytes)", s[:60], len(s))
	}
	if s, ok := x.(string); ok {
		return fmt.Sprintf("%q", s)
	}
	return x
}

func min(a, b int) int {
	if a < b {
		return a
	}
	return b
}

// GenFor draws a non-NULL value that fits an existing column format: the given
// precision/scale for numerics and at most maxLen bytes for character/binary data
// (maxLen 0 = no limit).
func GenFor(rt *rapid.T, tw TW, prec, scale, maxLen int) Val {
	v := Gen(rt, tw)
	switch tw.T {
	case rc.TDecN, rc.TNumN:
		v.Prec, v.Scal = prec, scale
		m, _ := new(big.Int).SetString(v.Mag, 10)
		m.Mod(m, pow10(prec))
		v.Mag = m.String()
		if m.Sign() == 0 {
			v.Neg = false
		}
	case rc.TBinary, rc.TVarBinary, rc.TLongBinary, rc.TImage, rc.TXML:
		if maxLen > 0 && len(v.B) > maxLen {
			v.B = v.B[:maxLen]
		}
	case rc.TChar, rc.TVarChar, rc.TLongChar, rc.TText:
		if maxLen > 0 && len(v.S) > maxLen {
			v.S = strings.ToValidUTF8(v.S[:maxLen], "")
			if v.S == "" {
				v.S = "x"
			}
		}
	case rc.TUnitext:
		for maxLen > 0 && len(v.S) > 1 {
			enc, _ := rc.Encode(v.V)
			if len(enc) <= maxLen {
				break
			}
			r := []rune(v.S)
			v.S = string(r[:len(r)/2])
		}
		// (trailing NULs are padding to the decoder)
		if t := strings.TrimRight(v.S, "\x00"); t != v.S {
			v.S = t
			if v.S == "" {
				v.S = "a"
			}
		}
	}
	return v
}
