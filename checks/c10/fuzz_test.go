package c10

import (
	"fmt"
	"testing"

	"pgregory.net/rapid"
	"verif/internal/pkggen"
	rc "verif/internal/refcodec"
	"verif/internal/valgen"
	"verif/internal/vh"
)

// Native fuzz targets (thorough tier):
//
//	go test -tags verif -run '^$' -fuzz '^FuzzValue$'   ./checks/c10
//	go test -tags verif -run '^$' -fuzz '^FuzzPackage$' ./checks/c10
//	go test -tags verif -run '^$' -fuzz '^FuzzChannel$' ./checks/c10
//
// They run the same runCase functions as the rapid checks on coverage-guided
// mutations of the seed corpus: valid encodings from fixed samples of the generators
// plus hostile constants (0, 0xff.., lengths +-1, header lengths 0..7, packet sizes).
// The seed corpora are also run as enumerations in every tier (TestFuzz*Seeds).

func report(t *testing.T, fl *vh.Failure) {
	if fl == nil || vh.Known(fl.Class) {
		return
	}
	t.Fatalf("[%s] %s", fl.Class, fl.Msg)
}

// ---- values

func valueSeeds() []valueCase {
	var out []valueCase
	for i, tw := range valgen.All {
		tw := tw
		for s := 0; s < 2; s++ {
			v := rapid.Custom(func(rt *rapid.T) valgen.Val { return valgen.Gen(rt, tw) }).Example(i*7 + s)
			if b, err := rc.Encode(v.V); err == nil && len(b) <= 300 {
				out = append(out, valueCase{T: tw.T, Len: len(b), Fill: "valid", Data: b})
			}
		}
	}
	for _, ty := range knownTypes {
		for _, n := range []int{0, 1, 3, 4, 5, 7, 8, 9} {
			for _, fill := range []string{"zero", "ff"} {
				if n == 0 && fill != "zero" {
					continue
				}
				out = append(out, valueCase{T: ty, Len: n, Fill: fill, Data: fillBytes(fill, n)})
			}
		}
	}
	return out
}

func TestFuzzValueSeeds(t *testing.T) {
	enumRounds(t, "FuzzValue", "seed corpus of FuzzValue", runValue, func(yield func(valueCase) bool) {
		for i, c := range valueSeeds() {
			if vh.Mine(i) && !yield(c) {
				return
			}
		}
	})
}

func FuzzValue(f *testing.F) {
	if !fuzzing() {
		f.Skip("not fuzzing: the seed corpus is run by TestFuzzValueSeeds")
	}
	for _, c := range valueSeeds() {
		f.Add(c.T, c.Data)
	}
	f.Fuzz(func(t *testing.T, ty byte, data []byte) {
		report(t, runValue(valueCase{T: ty, Len: len(data), Fill: "fuzz", Data: append([]byte{}, data...)}))
	})
}

// ---- packages

func sampleStream(kind string, seed int) ([]byte, []int, []rc.Span) {
	ps := rapid.Custom(func(rt *rapid.T) []rc.P {
		ps := genValid(rt, kind)
		// keep the corpus small
		if b, _, _, err := rc.EncodeStream(ps); err != nil || len(b) > 400 {
			rt.Skip()
		}
		return ps
	}).Example(seed)
	return encode(ps)
}

func packageSeeds() []pkgCase {
	var out []pkgCase
	add := func(kind string, b []byte, mode, span, repl string) {
		tok := byte(0)
		if len(b) > 0 {
			tok = b[0]
		}
		out = append(out, pkgCase{Stream: b, Mut: mutDesc{Mode: mode, Kind: kind, Tok: tok, Span: span, Repl: repl}})
	}
	for k, kind := range pkggen.AllKinds {
		for s := 0; s < 2; s++ {
			stream, _, spans := sampleStream(kind, k*11+s)
			add(kind, stream, "valid", "", "")
			if s > 0 {
				continue
			}
			// hostile constants in every length and count field
			for _, sp := range spans {
				if sp.Kind != "length" && sp.Kind != "count" || sp.Len == 0 || sp.Len > 4 {
					continue
				}
				o := getUint(stream[sp.Off : sp.Off+sp.Len])
				max := uint64(1)<<(8*uint(sp.Len)) - 1
				for _, v := range []struct {
					n string
					v uint64
				}{{"zero", 0}, {"ff", max}, {"plus1", (o + 1) & max}, {"minus1", (o - 1) & max}} {
					b := append([]byte{}, stream...)
					copy(b[sp.Off:], putUint(sp.Len, v.v))
					add(kind, b, "span", sp.Kind, v.n)
				}
			}
			if len(stream) > 1 {
				add(kind, stream[:len(stream)-1], "truncate", "", "cut")
				add(kind, append(append([]byte{}, stream...), 0xff), "trailing", "", "tail")
			}
		}
	}
	for _, tok := range knownTokens {
		add("", []byte{tok}, "arbitrary", "body", "fill0-0")
	}
	out = append(out, pkgCase{Stream: probeStream(), Big: true, Mut: mutDesc{Mode: "span", Kind: "language", Tok: rc.TokLanguage, Span: "length", Repl: "2^27"}})
	return out
}

func TestFuzzPackageSeeds(t *testing.T) {
	enumRounds(t, "FuzzPackage", "seed corpus of FuzzPackage", runPkg, func(yield func(pkgCase) bool) {
		for i, c := range packageSeeds() {
			if vh.Mine(i) && !yield(c) {
				return
			}
		}
	})
}

func FuzzPackage(f *testing.F) {
	if !fuzzing() {
		f.Skip("not fuzzing: the seed corpus is run by TestFuzzPackageSeeds")
	}
	for _, c := range packageSeeds() {
		f.Add(c.Stream)
	}
	f.Fuzz(func(t *testing.T, stream []byte) {
		tok := byte(0)
		if len(stream) > 0 {
			tok = stream[0]
		}
		report(t, runPkg(pkgCase{Stream: append([]byte{}, stream...), Mut: mutDesc{Mode: "fuzz", Tok: tok}}))
	})
}

// ---- channel

// wireCase is the input of FuzzChannel: the bytes a server writes, the offset at
// which the transport splits them into two reads, and whether it ends with io.EOF.
type wireCase struct {
	Wire []byte `json:"wire"`
	Cut  uint16 `json:"cut"`
}

// packetsFromWire cuts wire bytes into packets leniently (for the WritePacket leg):
// the body is as long as the header says, or - for odd packet numbers - as long as
// the window byte says, so that header length and body length disagree.
func packetsFromWire(b []byte) []pktDesc {
	var out []pktDesc
	for len(b) >= 8 && len(out) < 16 {
		p := pktDesc{Type: b[0], Status: b[1], Length: uint16(b[2])<<8 | uint16(b[3]), Channel: uint16(b[4])<<8 | uint16(b[5]), Nr: b[6], Window: b[7]}
		n := int(p.Length) - 8
		if p.Nr&1 == 1 {
			n = int(p.Window)
		}
		if n < 0 {
			n = 0
		}
		if n > len(b)-8 {
			n = len(b) - 8
		}
		p.Data = append([]byte{}, b[8:8+n]...)
		out = append(out, p)
		b = b[8+n:]
	}
	return out
}

func runWire(c wireCase) *vh.Failure {
	rd := chanCase{Level: "read", Raw: c.Wire, Shape: "fuzz", EOF: c.Cut&0x8000 != 0}
	if n := len(c.Wire); n > 1 {
		if cut := int(c.Cut&0x7fff) % n; cut > 0 {
			rd.Cuts = []int{cut}
		}
	}
	if f := runChan(rd); f != nil {
		return f
	}
	ps := packetsFromWire(c.Wire)
	if len(ps) == 0 {
		return nil
	}
	return runChan(chanCase{Level: "write", Packets: ps, Shape: "fuzz"})
}

func wireSeeds() []wireCase {
	var out []wireCase
	one := func(stream []byte) []byte {
		return rc.Packet{Type: rc.BufResponse, Status: rc.StatEOM, Body: stream}.Bytes()
	}
	for k, kind := range pkggen.ServerKinds {
		kind := kind
		if kind == "dynamic-ack" {
			continue
		}
		stream, _, _ := sampleStream(kind, k*13)
		w := one(stream)
		out = append(out, wireCase{Wire: w}, wireCase{Wire: w, Cut: 8}, wireCase{Wire: w, Cut: 0x8000 | 9})
		// the same response in two packets
		if len(stream) > 2 {
			ps := rc.Packetise(stream, []int{len(stream) / 2}, rc.BufResponse, 0)
			out = append(out, wireCase{Wire: append(ps[0].Bytes(), ps[1].Bytes()...), Cut: uint16(len(ps[0].Bytes()))})
		}
	}
	done, _, _, _ := rc.EncodeStream([]rc.P{{Done: &rc.Done{Tok: rc.TokDone}}})
	for l := 0; l <= 9; l++ {
		w := one(done)
		w[2], w[3] = 0, byte(l)
		out = append(out, wireCase{Wire: w}, wireCase{Wire: append(w, one(done)...), Cut: 0x8000})
	}
	for _, l := range []int{0xffff, 0x8000, len(done) + 7, len(done) + 9} {
		w := one(done)
		w[2], w[3] = byte(l>>8), byte(l)
		out = append(out, wireCase{Wire: w})
	}
	for _, size := range hostileSizes {
		env, _, _, _ := rc.EncodeStream([]rc.P{{Env: &rc.EnvChange{Members: []rc.EnvMember{{Type: rc.EnvPackSize, New: size, Old: "512"}}}}, {Done: &rc.Done{Tok: rc.TokDone}}})
		out = append(out, wireCase{Wire: one(env)})
	}
	// a header-only packet, a packet for a channel that does not exist, nothing
	out = append(out, wireCase{Wire: []byte{byte(rc.BufProtAck), 1, 0, 8, 0, 0, 0, 0}}, wireCase{Wire: []byte{4, 1, 0, 9, 0, 7, 0, 0, 0xfd}}, wireCase{})
	return out
}

func TestFuzzChannelSeeds(t *testing.T) {
	enumRounds(t, "FuzzChannel", "seed corpus of FuzzChannel", runWire, func(yield func(wireCase) bool) {
		for i, c := range wireSeeds() {
			if vh.Mine(i) && !yield(c) {
				return
			}
		}
	})
}

func FuzzChannel(f *testing.F) {
	if !fuzzing() {
		f.Skip("not fuzzing: the seed corpus is run by TestFuzzChannelSeeds")
	}
	for _, c := range wireSeeds() {
		f.Add(c.Wire, c.Cut)
	}
	f.Fuzz(func(t *testing.T, wire []byte, cut uint16) {
		report(t, runWire(wireCase{Wire: append([]byte{}, wire...), Cut: cut}))
	})
}

var _ = fmt.Sprint
