package c15

import (
	"bytes"
	"encoding/binary"
	"fmt"
	"os"
	"testing"
	"time"

	"github.com/SAP/go-dblib/tds"
	"pgregory.net/rapid"
	"verif/internal/vh"
)

// ---- one queue that is read to its end and then written to (reading and writing share the
// position): what is written after everything enqueued has been read comes after it, the bytes
// read before are not touched, and both can be read again after a restore.

type mixedCase struct {
	Size    int      `json:"packet_size"`
	Packets [][]byte `json:"packets_enqueued"`
	Writes  []op     `json:"writes_after_reading_everything"`
}

func runMixed(c mixedCase) (res *vh.Failure) {
	// known finding (see known_findings.json): with an EMPTY enqueued packet in the queue the
	// shared position is not in the last packet when the first write comes, WriteBytes opens
	// its new packet behind the last one but moves the position by one - the next access is out
	// of bounds or lands in the wrong packet. Reported under its own class.
	notLast := false // set once everything enqueued has been read
	defer func() {
		if res != nil && notLast {
			res.Class = "C15/write-behind-empty-enqueued-packet"
		}
	}()
	return safely(func() *vh.Failure {
		q := tds.NewPacketQueue(func() int { return c.Size })
		var enq []byte
		for _, b := range c.Packets {
			q.AddPacket(&tds.Packet{Header: tds.PacketHeader{MsgType: tds.TDS_BUF_RESPONSE, Length: uint16(8 + len(b))}, Data: append([]byte{}, b...)})
			enq = append(enq, b...)
		}
		got, err := q.Bytes(len(enq))
		if err != nil || !bytes.Equal(got, enq) {
			return vh.Failf("C15/wrong-bytes", "reading the %d enqueued bytes: got %x err %v", len(enq), got, err)
		}
		sp, sd := q.Position()
		notLast = sp < len(c.Packets)-1
		if notLast {
			vh.Label("mixed:position-not-in-the-last-packet-when-writing-starts")
		}
		var written []byte
		for i, o := range c.Writes {
			var err error
			switch o.K {
			case "wu8":
				err = q.WriteUint8(uint8(o.N))
				written = append(written, byte(o.N))
			case "wi8":
				err = q.WriteInt8(int8(o.N))
				written = append(written, byte(int8(o.N)))
			case "wbyte":
				err = q.WriteByte(byte(o.N))
				written = append(written, byte(o.N))
			case "wu16":
				err = q.WriteUint16(uint16(o.N) * 0x101)
				written = binary.LittleEndian.AppendUint16(written, uint16(o.N)*0x101)
			case "wu32":
				err = q.WriteUint32(uint32(o.N) * 0x1010101)
				written = binary.LittleEndian.AppendUint32(written, uint32(o.N)*0x1010101)
			default:
				err = q.WriteBytes(append([]byte{}, o.B...))
				written = append(written, o.B...)
			}
			if err != nil {
				return vh.Failf("C15/write-error", "write %d (%s) after everything enqueued was read: %v", i, o.K, err)
			}
		}
		q.SetPosition(sp, sd)
		back, err := q.Bytes(len(written))
		if err != nil || !bytes.Equal(back, written) {
			return vh.Failf("C15/wrong-bytes", "packets %x read completely, then written %x (ops %v): reading on from where the reads had ended gives %x err %v", c.Packets, written, c.Writes, back, err)
		}
		q.SetPosition(0, 0)
		all, err := q.Bytes(len(enq) + len(written))
		if err != nil || !bytes.Equal(all, append(append([]byte{}, enq...), written...)) {
			return vh.Failf("C15/wrong-bytes", "packets %x read completely, then written %x (ops %v): reading everything from the start gives %x err %v", c.Packets, written, c.Writes, all, err)
		}
		vh.Label("mixed:write-after-reading-everything")
		if len(c.Writes) > 0 && len(enq) > 0 {
			vh.NonTrivial(fmt.Sprintf("mixed|%d|%x|%v", c.Size, c.Packets, c.Writes))
		}
		return nil
	})
}

func TestWriteAfterReadingEverything(t *testing.T) {
	gen := func(rt *rapid.T) mixedCase {
		c := mixedCase{Size: rapid.SampledFrom([]int{9, 10, 12, 16, 64}).Draw(rt, "size")}
		ctr := byte(1)
		for n := rapid.IntRange(0, 3).Draw(rt, "packets"); n > 0; n-- {
			// (no empty packets here: see TestWriteBehindEmptyEnqueuedPackets)
			k := rapid.IntRange(1, c.Size-8).Draw(rt, "len")
			if rapid.Bool().Draw(rt, "full") {
				k = c.Size - 8
			}
			c.Packets = append(c.Packets, genBytes(rt, k, &ctr))
		}
		for n := rapid.IntRange(1, 5).Draw(rt, "writes"); n > 0; n-- {
			o := op{K: rapid.SampledFrom([]string{"wu8", "wi8", "wbyte", "wu16", "wu32", "write", "wu8"}).Draw(rt, "k"), N: rapid.IntRange(1, 200).Draw(rt, "n")}
			if o.K == "write" {
				o.B = genBytes(rt, rapid.IntRange(0, 2*c.Size).Draw(rt, "wlen"), &ctr)
			}
			c.Writes = append(c.Writes, o)
		}
		return c
	}
	vh.Check(t, "TestWriteAfterReadingEverything", vh.N(4000, 100000), gen, runMixed)
}

// The one shape the known finding C15/write-behind-empty-enqueued-packet is about, run once per
// check run (by the first process): two empty enqueued packets, then a write.
func TestWriteBehindEmptyEnqueuedPackets(t *testing.T) {
	e := vh.NewEnum(t, "TestWriteBehindEmptyEnqueuedPackets", runMixedGuarded)
	if e.Skip() {
		return
	}
	if vh.Mine(0) {
		e.Do(mixedCase{Size: 9, Packets: [][]byte{{}, {}}, Writes: []op{{K: "wu16", N: 1}}})
	}
}

// runMixedGuarded: writing behind empty packets is where a queue can end up opening packet
// after packet without ever finding room. A call that is not back after three seconds is
// reported and the process ends at once (the loop cannot be stopped from outside and allocates
// all the while); this is the last test of the package.
func runMixedGuarded(c mixedCase) *vh.Failure {
	done := make(chan *vh.Failure, 1)
	go func() { done <- runMixed(c) }()
	select {
	case f := <-done:
		return f
	case <-time.After(3 * time.Second):
		f := vh.Failf("C15/write-does-not-return", "packets %x enqueued, then writes %v: the write is not back after 3 s", c.Packets, c.Writes)
		vh.Violation("TestWriteBehindEmptyEnqueuedPackets", f, c)
		os.Exit(3)
		return f
	}
}
