package c17

import (
	"flag"
	"reflect"
	"strings"
	"testing"

	"github.com/SAP/go-dblib/dsn"
	"verif/internal/vh"
)

// Native fuzz target:  go test -tags verif -run '^$' -fuzz '^FuzzParse$' ./checks/c17
//
// For any input string: Parse, ParseURI and ParseSimple return (value or error)
// and never panic; and if a parse succeeded and the parsed value lies in the
// domain of the round-trip claim, Format + Parse of that value gives it back.

var fuzzSeeds = append([]string{
	"", " ", "a", "a=", "=", "=1", "a= ", `a="`, `a='`, `a="b`, `a=''`, `a=""`, `a=" x"`, `a=" "`, `a='"'`, `a="x" `,
	`a=x"`, `p="5`, `password="a b`, "://", "%zz://", "ase://u:p@[::1/", "ase://u:p@[::1]:5/d", "ase://?KEY=k", "ase://h/?=1",
	"ase://u:p@h:1/?database=MONKEY", "ase://u:p@h:1/?a=1&a=2", "ase://u%3A%40:p%2F@h:1/d%20b?note=%zz", "a=b://c", `a='b' p="5"`,
}, validDSNs...)

// stable: value -> Format -> Parse gives the value back (parsed values in the claim's domain only).
func runStable(s string) *vh.Failure {
	// simple form
	v := new(Ext)
	if err, pv := try(func() error { return dsn.ParseSimple(s, v) }); pv == nil && err == nil {
		inDomain, leading := true, false
		for _, f := range fields(v) {
			if f.V.Kind() == reflect.String {
				inDomain = inDomain && inSimpleDomain(f.V.String())
				leading = leading || strings.HasPrefix(f.V.String(), " ")
			}
		}
		if inDomain {
			vh.Label("fuzz:simple-stability-checked")
			class := func(d string) string {
				if leading {
					return "C17/simple-leading-space-value"
				}
				return d
			}
			var s2 string
			if _, pv := try(func() error { s2 = dsn.FormatSimple(v); return nil }); pv != nil {
				return vh.Failf("C17/formatsimple-panic", "FormatSimple(%+v) panicked: %v (value parsed from %q)", *v, pv, s)
			}
			v2 := new(Ext)
			err, pv := try(func() error { return dsn.ParseSimple(s2, v2) })
			if pv != nil {
				return vh.Failf(class("C17/parsesimple-panic-roundtrip"), "ParseSimple(%q) panicked: %v (FormatSimple of the value parsed from %q)", s2, pv, s)
			}
			if err != nil {
				return vh.Failf(class("C17/simple-roundtrip-error"), "ParseSimple(%q) = error %v (FormatSimple of the value parsed from %q)", s2, err, s)
			}
			if d := diff(v, v2); d != "" {
				return vh.Failf(class("C17/simple-roundtrip-mismatch"), "ParseSimple(%q) -> FormatSimple %q -> ParseSimple differs: %s", s, s2, d)
			}
		}
	}
	// URI form
	u := new(Ext)
	if err, pv := try(func() error { return dsn.ParseURI(s, u) }); pv == nil && err == nil &&
		(u.Host == "" || isDNSLabel(u.Host)) && isDigits(u.Port) {
		vh.Label("fuzz:uri-stability-checked")
		keyInQuery := false
		for _, f := range fields(u) {
			if f.V.Kind() == reflect.String && f.Key != "username" && f.Key != "password" && strings.Contains(f.V.String(), "KEY") {
				keyInQuery = true
			}
		}
		class := func(d string) string {
			if keyInQuery {
				return "C17/formaturi-KEY-substring"
			}
			return d
		}
		var s2 string
		err, pv := try(func() (e error) { s2, e = dsn.FormatURI(u); return })
		if pv != nil {
			return vh.Failf("C17/formaturi-panic", "FormatURI(%+v) panicked: %v (value parsed from %q)", *u, pv, s)
		}
		if err != nil {
			return vh.Failf("C17/formaturi-error", "FormatURI(%+v) = error %v (value parsed from %q)", *u, err, s)
		}
		u2 := new(Ext)
		err, pv = try(func() error { return dsn.ParseURI(s2, u2) })
		if pv != nil {
			return vh.Failf(class("C17/uri-roundtrip-panic"), "ParseURI(%q) panicked: %v (FormatURI of the value parsed from %q)", s2, pv, s)
		}
		if err != nil {
			return vh.Failf(class("C17/uri-roundtrip-error"), "ParseURI(%q) = error %v (FormatURI of the value parsed from %q)", s2, err, s)
		}
		if d := diff(u, u2); d != "" {
			return vh.Failf(class("C17/uri-roundtrip-mismatch"), "ParseURI(%q) -> FormatURI %q -> ParseURI differs: %s", s, s2, d)
		}
	}
	return nil
}

func runFuzz(c strCase) *vh.Failure {
	if f := runTotal(c); f != nil {
		return f
	}
	return runStable(c.str())
}

// TestFuzzParseSeeds runs the seed corpus of FuzzParse as an enumeration (so the
// seeds are part of every tier) and is the replay entry for cases saved by FuzzParse.
func TestFuzzParseSeeds(t *testing.T) {
	enumStrings(t, "FuzzParse", "seed corpus of FuzzParse", runFuzz, func(y func(string) bool) bool {
		for _, s := range fuzzSeeds {
			if !y(s) {
				return false
			}
		}
		return true
	})
}

func fuzzing() bool {
	for _, n := range []string{"test.fuzz", "test.fuzzworker"} {
		if f := flag.Lookup(n); f != nil && f.Value.String() != "" && f.Value.String() != "false" {
			return true
		}
	}
	return false
}

func FuzzParse(f *testing.F) {
	if !fuzzing() {
		f.Skip("not fuzzing: the seed corpus is run by TestFuzzParseSeeds")
	}
	for _, s := range fuzzSeeds {
		f.Add(s)
	}
	f.Fuzz(func(t *testing.T, s string) {
		fl := runFuzz(mkStr(s))
		if fl == nil || vh.Known(fl.Class) {
			return
		}
		// no replay file per failing candidate (the fuzzer minimises through many);
		// the engine saves the minimal input under testdata/fuzz, the driver moves it
		t.Fatalf("[%s] %s", fl.Class, fl.Msg)
	})
}
