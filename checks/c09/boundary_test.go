package c09

import (
	"fmt"
	"strings"
	"testing"
	"time"

	"pgregory.net/rapid"
	"verif/internal/loginpeer"
	"verif/internal/vh"
)

// The second client message (the encrypted credentials) has a length that depends on the key
// size, the number of remote servers and the lengths of their names. The names are chosen so
// that it ends exactly on a packet boundary, or one byte before / behind it: the message must
// still be complete (end-of-message flag on its last packet) and satisfy all oracles.

type boundaryCase struct {
	C c09Case `json:"login"`
	D int     `json:"bytes_beyond_the_packet_boundary"` // -1, 0, +1
}

func msg2Len(c c09Case) (int, *vh.Failure) {
	res := loginpeer.RunPatient(cfg(c, c.Password), script(c), 2*time.Second)
	if res.Panic != nil || res.TimedOut || !res.GotMsg2 {
		return 0, vh.Failf("C09/no-second-message", "measuring login: panic=%v timedout=%v msg2=%v err=%v", res.Panic, res.TimedOut, res.GotMsg2, res.Err)
	}
	return len(loginpeer.Body(res.Msg2)), nil
}

func runBoundary(b boundaryCase) *vh.Failure {
	c := b.C
	base, f := msg2Len(c)
	if f != nil {
		return f
	}
	const body = 512 - 8
	// lengthen the remote server names until the message is k*body + d
	want := ((base+body-1)/body)*body + b.D
	if want < base {
		want += body
	}
	extra := want - base
	for i := range c.Remotes {
		room := 255 - len(c.Remotes[i].Name)
		if room > extra {
			room = extra
		}
		c.Remotes[i].Name += strings.Repeat("N", room)
		extra -= room
	}
	if extra > 0 {
		vh.Label("boundary:not-reachable")
		return nil
	}
	got, f := msg2Len(c)
	if f != nil {
		f.Msg = fmt.Sprintf("second message of %d bytes = %d packet bodies %+d: %s", want, want/body, b.D, f.Msg)
		f.Class = "C09/second-message-at-packet-boundary"
		return f
	}
	if got != want {
		// the message did not grow by exactly what the names grew by: this tree lays the message
		// out differently from what the padding assumes - the case is run all the same
		vh.Label("boundary:length-not-as-aimed")
	}
	if f := runCase(c); f != nil {
		f.Msg = fmt.Sprintf("(second message of %d bytes = %d packet bodies %+d) %s", want, want/body, b.D, f.Msg)
		return f
	}
	vh.Label(fmt.Sprintf("boundary:d=%+d", b.D))
	return nil
}

func TestSecondMessageAtPacketBoundary(t *testing.T) {
	gen := func(rt *rapid.T) boundaryCase {
		c := genCase(rt)
		shortNames(&c)
		c.PackSize, c.Reject, c.Plain = 0, "", false
		max := c.Key.Capacity() - len(c.Nonce)
		if len(c.Password) > max {
			c.Password = c.Password[:max]
			c.Password2 = c.Password2[:max]
		}
		if len(c.Remotes) == 0 {
			c.Remotes = []remote{{Name: "SRV", Password: []byte("remote-pw")}}
		}
		for i := range c.Remotes {
			if len(c.Remotes[i].Password) > max {
				c.Remotes[i].Password = c.Remotes[i].Password[:max]
			}
		}
		return boundaryCase{C: c, D: rapid.SampledFrom([]int{0, 0, -1, 1}).Draw(rt, "d")}
	}
	vh.Check(t, "TestSecondMessageAtPacketBoundary", vh.N(60, 1200), gen, runBoundary)
}
