#!/usr/bin/env python3
"""Generates MANIFEST.json from the table below (single source of truth)."""
import json, os, subprocess
ROOT = os.path.dirname(os.path.abspath(__file__))

ALL = ["C%02d" % i for i in range(1, 21)]

# id -> (level, technique, level text, level note, design ref)
CLAIMS = {
 "C01": ("exploration",
         "rapid histories of successive messages (packet size, header type, package mix sized to k*(packetSize-8)+d, call split) on a Conn over a capturing transport + exhaustive boundary core; oracle = independent packet parser over the captured bytes vs. expected encodings from an own flat BytesChannel",
         "Histories of 1..4 messages are sent through QueuePackage/SendRemainingPackets/SendPackage on a real Channel whose transport records every Write; the captured bytes must parse as packets with exact header lengths, full inner packets, right type/channel, EOM on exactly the last packet of each message and bodies concatenating to the packages' encodings, with nothing carried into the next message; all combinations of 6 packet sizes x k 1..3 x d -1..1 x layouts x flush styles are enumerated.",
         "Channel 0, single goroutine; expected encodings come from the packages' own WriteTo on an independent flat channel (package layouts themselves are C06's subject); packet sizes 256..65535.",
         "DESIGN.md section 3, C01"),
 "C02": ("exploration",
         "differential / metamorphic testing: rapid response grammar x cut sets x read partitions, fragmented delivery vs. single-packet delivery (reflect.DeepEqual) and vs. a delivery model; exhaustive 1-/2-cut and 2^(n-1) cut-set enumeration of short responses",
         "Responses from a grammar over all server-side package and data types are delivered once in a single packet/read and once fragmented (packet level through Channel.WritePacket, byte level through the real reader goroutine over a scripted transport whose read() results are generated); both must deliver identical package sequences equal to the delivery model and queue no error; every single cut (thorough: every pair incl. header-only packets) of short responses and all 2^(n-1) cut sets of 5 tiny streams are enumerated.",
         "Server packets are type RESPONSE on channel 0; non-informational EED only between statements; responses are kept short so that cut sets can be enumerated; the byte level uses the verif hook that mirrors NewConn's tail.",
         "DESIGN.md section 3, C02"),
 "C03": ("exploration",
         "rapid model-based histories of request/response rounds (response grammar x packetisation x consumer strategy with a per-package callback plan) + exhaustive triples of response shapes x strategies; oracle = delivery model of each round",
         "Histories of 1..6 rounds on one channel are generated with every consumer strategy (NextPackage, NextPackageUntil with continue/true/io.EOF/error plans, nil callback); after each round the consumer's view must equal the model (one final DONE, last), a callback error must come back with the rest of the response consumed, and nothing may leak into the next round; all ordered triples of 7 response shapes under 25 strategy pairs are enumerated.",
         "Packet level (deterministic): the whole response is delivered before the consumer reads; a 2 s watchdog only fires if the final DONE is missing, which is itself the violation.",
         "DESIGN.md section 3, C03"),
 "C04": ("exploration",
         "rapid value generators per data type (boundary-biased) + exhaustive small domains / every day / every tick; oracle = round trip (Bytes -> GoValue -> Bytes) compared through an independent value description",
         "Every data type with a Go mapping (each legal width of the nullable families) is round-tripped for generated values over the whole Go domain; 8- and 16-bit domains, NULLs, every day of years 1..9999 and every 1/300 s tick are enumerated completely in the thorough tier (stride-sampled in quick).",
         "Values are UTC, dates at midnight, classic temporal values within half a tick of a tick (sound domain of the types); Go's time package is trusted for constructing time.Time from civil fields.",
         "DESIGN.md section 3, C04"),
 "C05": ("exploration",
         "differential testing against an independently written reference codec (encoding/binary, math/big, own civil-date arithmetic) in both directions + documented fixed vectors + exhaustive calendar sweep",
         "For generated values of every data type the library's wire bytes must equal the reference encoding and the reference encoding must decode to the value; documented minima/maxima/epoch vectors anchor the reference; the calendar helpers are compared with own civil-date arithmetic for every day of years 1..9999 (thorough) and are checked to be inverse and additive.",
         "The reference codec is my reading of TDS 5.0, not a live ASE; vectors from the ASE documentation guard against a shared misunderstanding.",
         "DESIGN.md section 3, C05"),
 "C06": ("exploration",
         "rapid package generators per token (all optional parts, boundary string lengths, formats/rows over all data types) with three oracles: independent reference encoder -> library decoder, library writer -> independent reference decoder (checks every length/count field), library writer -> library reader; exhaustive single capability bits; login record by offset table over all field lengths",
         "Every package type reachable from LookupPackage (narrow and wide) is generated; server-sent forms come from an independently written encoder and must decode to the generated fields consuming exactly the bytes; whatever the library writes must be decodable by the independent decoder into the same fields and be read back by the library itself; client-built packages (exported API) and the 568-byte login record are decoded independently; every capability bit and every login field length 0..31 are enumerated.",
         "The reference codec is my reading of TDS 5.0. BLOB formats are a recorded open finding (unfinished in the library) and excluded from generation. Data status bytes are generated as 0.",
         "DESIGN.md section 3, C06"),
 "C07": ("exploration",
         "exhaustive prefix enumeration of rapid-generated valid encodings of every package type in a real PacketQueue (one packet, 1-byte packets, channel level); oracle = errors.Is(ErrNotEnoughBytes) + re-parse equality with the untruncated parse",
         "For generated valid encodings of all 33 parser kinds every proper prefix (all for encodings <= 300 bytes; first 300 + span boundaries + 50 sampled beyond) must make ReadFrom report ErrNotEnoughBytes - never success, another error or a panic - and parsing the complete bytes afterwards from the restored position must equal a direct parse; at channel level a prefix packet followed by the remainder must deliver the package exactly once and queue no error.",
         "Only valid encodings are truncated (hostile bytes are C10's subject); KEY over types with 0/1-byte length prefix.",
         "DESIGN.md section 3, C07"),
 "C08": ("exploration",
         "exhaustive single-edit mutation of the valid server reply scripts + rapid multi-edit scripts x packetisations x key sizes x nonces x remote servers, run through the real Login against a scripted peer; oracle = reference acceptor written from the property text",
         "Both login flows run against an in-memory peer that answers with generated scripts; every single-edit mutation (delete/duplicate/swap/insert packages, alter ack status, message id, parameter count/types, cipher suite, key, nonce, capability masks, DONE status, peer going silent) of four valid scripts is enumerated, random multi-edit scripts add depth; Login must succeed iff the acceptor accepts, otherwise return an error no later than context deadline + slack and never panic; after success capabilities and packet size must be the server's.",
         "The reference acceptor is my reading of the statement; unjudged shapes (packages after the final DONE, key with trailing bytes, empty nonce, capability package lacking a mask type) are listed in the evidence; two by-the-letter violations are recorded open findings.",
         "DESIGN.md section 3, C08"),
 "C09": ("exploration",
         "rapid login configurations (arbitrary-byte passwords up to key capacity, colliding fields, remote servers, nonces, key sizes, packet sizes) against a scripted peer that owns the RSA private key; oracles: password-slot inspection, metamorphic non-interference between two logins differing only in the password, clear-text search with a plain-flow control, decryption of every ciphertext, freshness",
         "Every generated login is captured byte for byte: the login record's password slot must be empty; a second login with another password of the same length must produce identical traffic outside the ciphertexts located by the independent decoder; distinctive secrets must occur in no written byte and no error text (failing scripts included); the peer decrypts each LONGBINARY with the private key to nonce||secret (account password twice, each remote password, a 32-byte session key) and checks fresh randomness; the plain flow shows the search oracle can see a password.",
         "Crypto randomness is not seed-reproducible (the case stores key and nonce); secrets shorter than 6 bytes or colliding with other fields are only covered by the non-interference and decryption oracles, not by the text search.",
         "DESIGN.md section 3, C09"),
 "C10": ("exploration",
         "rapid mutation of valid encodings at field level (every field span replaced by boundary/random values, truncation, insertion, garbage) + exhaustive (data type, length) value table + arbitrary packets and byte streams through the real channel/reader, with native go fuzz targets (value, package, channel) in the thorough tier; oracle = no panic (recovered and classified), no hang (watchdog), allocation proportional to input (TotalAlloc delta)",
         "Three levels: every data type byte x every length 0..255 into GoValue (exhaustive); package parsers fed with valid encodings in which one field span is replaced, truncated or padded, arbitrary bytes after every token and arbitrary row bytes after formats, parsed the way the channel does on a real PacketQueue; arbitrary packet sequences into Channel.WritePacket and arbitrary byte streams through Conn.ReadFrom (run by the harness under recover) incl. header lengths 0..7 and hostile ENVCHANGE packet sizes, followed by one small send. Any panic, hang or allocation beyond 64 x input + 4 MiB is a violation; FuzzValue/FuzzPackage/FuzzChannel continue coverage-guided in the thorough tier.",
         "The contract is 'value or error': lenient acceptance of odd lengths is not judged; 32-bit length fields are drawn up to 2^27 so that a disproportionate allocation shows without endangering the sandbox; CPU spin on EOF inside a packet body is bounded by the read timeout and belongs to C14.",
         "DESIGN.md section 3, C10"),
 "C11": ("exploration",
         "rapid histories of responses with interleaved EED/ENVCHANGE packages x packetisations x hook registrations x consumer modes against one global event log; exhaustive single cuts of a special-package-heavy response",
         "Responses with 0..6 messages and 0..3 environment changes are delivered under every kind of packetisation (special packages get parsed, rolled back and re-parsed) with hooks registered before or between responses; the event log must show every hook called exactly once per non-informational message / member, with equal contents, in arrival and registration order and before later packages reach the consumer; informational messages and environment changes are never delivered; PacketSize() follows the last PACKSIZE member; a failing callback's error matches the callback error and carries the messages that preceded the failure.",
         "'Messages received so far' = delivered before the failing package; hooks are not registered while a response is in flight; packet level (single goroutine).",
         "DESIGN.md section 3, C11"),
 "C12": ("exploration",
         "rapid-generated concurrent histories (concurrent NewChannel, per-channel request/response rounds, peer interleaving order, junk packets, concurrent Close, GOMAXPROCS) against a scripted peer under the race detector, plus a slice over real NewConn on loopback TCP; oracle = per-channel scripts and the peer's view of every client packet",
         "Each history creates up to 16 channels concurrently against a peer that acknowledges channel setup, waits for all requests of a round and interleaves the per-channel responses packet by packet in a generated order; ids must be distinct, every channel must receive exactly its own script in order, the peer must see the right channel id, consecutive packet numbers and the channel's own request text in every packet, packets for unknown ids must produce one connection error each and disturb nothing; data races are reported by the race detector (only reports with a library frame on top of an access count).",
         "Schedules are sampled (GOMAXPROCS 1/2/4/16, goroutine per channel), not enumerated; one sender/consumer per channel; junk packets are injected while no consumer waits.",
         "DESIGN.md section 3, C12"),
 "C13": ("exploration",
         "rapid histories with harness-owned interleavings (scripted transport gates, queue fill levels, blocked consumers, peers answering the logout at once / late / never) under the race detector; oracle = watchdog bounds + closed-condition checks on every call + transport/reader state",
         "Four families of histories are generated: receive with a cancelled own/connection context (before or during the call, any queue fill level, packets still arriving), send with a cancelled context (must write zero bytes), Close of the main or a logical channel in a generated state (queue empty / partly filled / full with the reader parked on it, consumer blocked in NextPackage, SendPackage parked in Write, logout answered at once / late / never) followed by every call on the closed channel and by packets for its id, and Conn.Close with 1..4 channels (error queue full, reader parked). Bounds: 1 s for cancelled receives, 5 s for Close (65 s where the library's one-minute logout timeout applies, thorough tier), 2 s for the reader to end.",
         "'Promptly'/'bounded' are wall-clock bounds with generous slack; schedules are sampled; on the main channel a consumer blocked in NextPackage races with the logout for the server's DONE, so that state is only run with the 65 s bound in the thorough tier.",
         "DESIGN.md section 3, C13"),
 "C14": ("fault_enumeration",
         "exhaustive fault-offset enumeration over rapid-generated responses: transport failure injected after every byte offset x failure kind, through the real reader goroutine; oracle = exact complete-packet prefix of the delivery model, then an error within the bound",
         "For generated responses (<= 400 bytes, 1..5 packets) the scripted transport starts failing after every byte offset 0..len with EOF, a reset-style and a timeout-style error (read timeout 0 s exhaustively, 1 s sampled); the consumer must get exactly the packages contained in completely received packets, a synthetic final DONE only if the EOM packet arrived completely, and then an error within PacketReadTimeout + 2 s; write-side faults (error / short count at write j) must surface as errors from SendPackage.",
         "Packages are collected after the failure has been reported on the connection error queue (deterministic); a silent stall is out of scope; the hooked Conn mirrors NewConn's tail.",
         "DESIGN.md section 3, C14"),
 "C15": ("exploration",
         "rapid model-based operation sequences (rx and tx usage) against a flat byte-slice / packet-layout model + exhaustive enumeration of all short sequences over a tiny packet size",
         "Operation sequences over the exported PacketQueue API are compared step by step with a flat byte model (bytes out = bytes in, in order; short read = ErrNotEnoughBytes; restore re-reads; discard is invisible) and a layout model for writes (Position after every write); all sequences up to length 5/6 (quick) and 7/8 (thorough) over small alphabets are enumerated completely.",
         "Only the two usages the library has (receive side, transmit side) and write-then-read-back are generated; positions are restored only before the next discard (documented volatile).",
         "DESIGN.md section 3, C15"),
 "C16": ("exploration",
         "exhaustive (precision, scale) x boundary magnitudes + rapid random digit strings and text variants, oracle = math/big.Rat and an independent numeral scanner",
         "All 779 (precision, scale) pairs x signs x boundary magnitudes are enumerated; random digit strings, text variants, unrepresentable inputs (per root-cause class) and invalid constructions are generated; String() is compared with the exact expansion of u/10^scale, SetString with exact rational arithmetic, rejected input must leave the decimal unchanged.",
         "A numeral is what math/big.Rat (the reference the property names) reads as one over digits, sign and point ('+5', '.5', '5.' included); surrounding spaces and zero digits beyond the scale are tolerated: exact if accepted, otherwise error and unchanged. Precision 0 is not judged (the library itself constructs NewDecimal(0,0)).",
         "DESIGN.md section 3, C16"),
 "C17": ("exploration",
         "rapid struct generators + round trip Parse(Format(v)) oracle, override/unknown-key metamorphic checks, exhaustive small-alphabet string enumeration and native go fuzzing for parser totality",
         "Generated dsn.Info / tds.Info / embedded harness structs are formatted and parsed back in both forms and compared field by field; override order and unknown keys are checked on generated key sequences; every string up to length 5/6 over a 14-symbol alphabet of quotes, spaces, '=', letters and URI metacharacters (plus key=-prefixed and quote-heavy strings up to length 8/10) is fed to all three parsers, which must return a value or an error, never panic; FuzzParse continues the search coverage-guided in the thorough tier.",
         "Host is a DNS label and port numeric or empty (the property claims nothing about arbitrary text there); the simple-form alphabet is strconv.IsPrint minus quotes, backslash and backtick; documented routing of Parse by '://' is respected.",
         "DESIGN.md section 3, C17"),
 "C18": ("exploration",
         "rapid sequential state machine against a live-id-set model + generated concurrent programs (1..64 goroutines, GOMAXPROCS 1/4/16, forced GCs) under the race detector with an online uniqueness monitor that is sound under every schedule",
         "Sequential histories are checked against a set-of-live-ids model (id != 0, not live, text = format(id) by own formatting, cleared after release, double/nil release harmless); concurrent programs run against one pool with a monitor that inserts after Acquire returns and removes before Release is called, so any duplicate it sees is a real simultaneous holding; data races are reported by the race detector.",
         "Schedules are sampled, not enumerated: absence of a report is evidence for the interleavings exercised only. Releasing a value copy of a Name is outside 'releasing it twice'. Id reuse after release is recorded, not required (sync.Pool may drop entries).",
         "DESIGN.md section 3, C18"),
 "C19": ("exploration",
         "exhaustive enumeration of (range, version) spaces + rapid generation of capability targets with all permutations, oracle = interval membership on an independently parsed semantic version",
         "Every (lower, upper, version) triple over the release grid and a pre-release/build sub-grid, every ordered pair/triple of ranges over small bound sets and all capability orders are enumerated; random targets (1..4 capabilities x 0..4 ranges, malformed ranges/versions injected, default and custom comparer) are evaluated under every permutation against an order-independent oracle.",
         "Version shapes on which hashicorp/go-version deviates from semver precedence are not generated (listed in the evidence assumptions); a range with neither bound counts as no range (code comment + pinned unit test).",
         "DESIGN.md section 3, C19"),
 "C20": ("exploration",
         "exhaustive enumeration of both level domains + rapid call-history generation + cross-process agreement, oracle = table written from the property text",
         "Every sql.IsolationLevel in -8..64 and every ASE level in -4..8 is enumerated (finite space, complete), each evaluated thousands of times in 5+ separate processes whose answers must agree; random call histories check answer stability. For a function over a tiny finite domain whose only hidden input is map iteration order this is as strong as testing gets.",
         "Go's map iteration randomisation is sampled (2000 calls x processes), not enumerated; the oracle table is my reading of the statement.",
         "DESIGN.md section 3, C20"),
}

# dimensions added after independently seeded changes were missed (see seeded/README.md); appended to the level text
ADDENDA = {
 "C01": "Also: raw blob packages whose buffer the caller overwrites right after queueing; messages whose flush is attempted with a cancelled context. A package whose encoding fails half-way followed by Reset (nothing of it reaches the transport); two channels of one connection sending at once. Packages that cannot be serialised (at all, or only for their first n bytes) in the middle of a message; other members around PACKSIZE in its ENVCHANGE; a message given up without a flush. The last message of a history flushed by closing the channel (Close's logout completes it).",
 "C02": "Also: extra header status bits, io.EOF arriving with the last read, a request completing while the response is already arriving, and 2..3 connections of one process receiving at the same time with their header fragments interleaved by a generated schedule. An earlier response on the channel, header-only control packets between the fragments, and 2..3 channels of ONE connection whose packets arrive interleaved. Rows with BLOB columns of several data sets (oracle: same delivery as unfragmented); responses of a few KB in thousands of packets of 1..7 body bytes. Responses with tokens the library has no parser for.",
 "C03": "Also: requests completing late, extra status bits, and the rest of a response arriving while a polling (wait=false) or waiting consumer is already underway in its own goroutine. DONE status bits beyond the named ones (ATTN, arbitrary combinations), a callback that cancels its own context before it fails. NORMAL-typed packets; responses carrying an environment change the library refuses (reported once, the rest delivered, one final DONE, next response complete). The error of a failing callback carries the server messages that preceded it. Package queues (Info.ChannelPackageQueueSize) of 0..3 slots and of exactly as many slots as the response delivers packages, packets arriving from a goroutine of their own, consumer starting late: the supplied final DONE still arrives.",
 "C04": "Also: the package leg (values inside PARAMS/ROW behind a decoded format, further rows through the same package object), arbitrary instants of the day, values printed between the steps (what package logging does) and sent twice. Text pointers up to 255 bytes, concurrent round trips under the race detector. Column status bytes in the package leg; strings with byte order marks, separators and control characters; temporal values of zones with daylight saving on clock-change days. Result sets through a real channel with an informational message / environment change between the rows.",
 "C05": "Also: decoded instants compared at 1 ms with the exact tick value, a sweep of tick values on the wire, and sequences of 2..6 conversions whose earlier results must stay right after the later ones (no shared storage). Values written through the field layer of a PARAMS package compared with the reference bytes; local time zones with DST; concurrent conversions under the race detector. Go values printed before they are encoded and encoded twice; UNITEXT with NUL inside the text. Refused conversion attempts (wrong Go type / width / byte count) inside sequences of conversions.",
 "C06": "Also: EED messages with a trailing newline, every Encrypt id 1..40 in the login record. The login record printed before it is written and written twice. Names and texts that begin or end with padding-like characters (NUL, blank, newline). ORDER BY packages and earlier rows between a row and its format. Client-built cursor packages that carry id and name at once (bytes of the id alone).",
 "C07": "Also: a used channel (completed response before), the environment hook count over re-parses, and a request completing between the truncated attempt and the complete bytes. Packages of 1 KB..300 KB (1 MB in the thorough tier) arriving in hundreds of packets, checked after every packet. A control packet between the halves of a package; halves delivered through the reader with empty packets between.",
 "C08": "Also: one all-zero capability mask type, whitespace keys, packet sizes >= 32768, nonces at the OAEP capacity, package queues of size 0/1/2/5 (the reader has to wait for Login). A further capability type with an empty or non-empty mask; per-server capabilities of an earlier connection stay untouched. Cipher suites sharing bits with the supported one; filtered packages inserted at every position of the replies; the valid replies of the other flow. An additional LOGINACK of every status and an additional DONE inserted at every position of both replies.",
 "C09": "Also: pairwise distinct ciphertexts for equal secrets, 2..8 logins running concurrently, and 2..3 logins over ONE connection (retry after a rejected login): session key and ciphertexts fresh per login. 20..1030 logins in one process (10010 in the thorough tier): no session key and no ciphertext is ever sent twice; remote names longer than 255 bytes. A connection described as TLS; nonces that leave room for short secrets but not for the session key (the login has to fail). One login configuration object reused over several logins, plain logins first. The refusals of the first reply one by one (unknown cipher suite, parameter count and types, LOGINACK(FAIL) at once): every error text searched for the secrets.",
 "C10": "Also: packet size lowered mid-response, hostile key parameters in the login negotiation, formats with BLOB columns followed by blob rows whose data sets announce up to 2^26 bytes (allocation measured for every case). A packet size announced while a message is being assembled; responses of up to 500000 packages (3 million in the thorough tier) drained three ways with the growth of goroutine stacks bounded; arbitrary capability types and masks in the login responses. Well-formed public keys of other algorithms / encodings / PEM types in the negotiation. A channel closed while the reader is inside a packet that holds more packages than the queue takes; thousands of broken packets nobody collects the errors of (goroutine count).",
 "C11": "Also: callback errors wrapping io.EOF or a foreign *EEDError, the error's message list compared exactly (nothing foreign, nothing twice), a consumer polling with wait=false while the packets arrive. After every packet size announcement a request longer than one packet is sent on the (older) channel and must go out in full packets of the new size; hook slices shared between registrations. Callbacks that return (true, err). Environment values of 254 / 255 bytes. A send completing while the response arrives (a message / environment change standing half-received is still reported once).",
 "C12": "Also: packets for closed channels, more than 256 packets on a channel, a channel whose consumer is behind while another channel is closed, channels created after closes (late packets for closed ids reach nobody, ids distinct over the connection's history). A teardown acknowledged by the server while the channel is still registered; 40..520 channels created and closed over the life of one connection (33000 in the thorough tier), every id new and every response routed. A channel whose error queue is full is closed, the others go on. Stray packets without EOM or with other status bits before the response of an existing channel.",
 "C13": "Also: header-only control packets in a full queue, Close with a cancelled parent context while a send is parked, 2..3 overlapping Close calls (Channel.Close during Conn.Close), and what a consumer woken by Close is told. A context cancelled from inside the transport's k-th write of a request (nothing more is written); Conn.Close with a gap in the channel ids; the closed condition checked the moment any of several overlapping Close calls returns. A next request (live context) after every send with a cancelled context: nothing of the cancelled one may be written later either; Reset() called before cancel / Close. Contexts cancelled with a cause / deadline with a cause; the main channel closed before Conn.Close; a parked request of several packets, also on the main channel (Close's logout waits for the message being sent). Close (channel or connection) with the reader parked on the channel's full error queue.",
 "C14": "Also: three further receive calls after the failure, a consumer polling with wait=false after the prefix, and a request whose 1st..3rd write fails before the response arrives. The end of the stream reported by an error wrapping io.EOF (tunnelled transport), with or without the last bytes; packets of type NORMAL. Up to 40 further receive calls after the failure (more than the connection's error queue holds). A waiting consumer collects the buffered packages before it is told about the failure. Read timeouts of 5 s (3..13 s in the thorough tier) with the transport ending inside a packet body: the error is due by the timeout however long it is.",
 "C15": "Also: a failed read hands back only bytes of the stream (never more than available, never bytes nobody wrote). The caller changes and appends to slices returned by Bytes; three queues used in turns. A failed Bytes/Read hands out every byte it consumed. A queue written to after everything enqueued was read (open finding for empty enqueued packets behind the position).",
 "C16": "Also: String() after Precision/Scale were changed, integer parts too wide for the precision. Concurrent conversions under the race detector; magnitudes around 2^63. Precision / scale values whose low 8 / 16 / 32 bits look valid.",
 "C17": "Also: boundary strings for booleans and integers ('0', 'true', ...). Concurrent parsing under the race detector, json tag options, embedded unexported structs. Alias lists with empty elements.",
 "C18": "Also: released names forgotten by their holders and collected (finalizers get to run), formats with prefixes of 120..1000 bytes. Ids above 256, statistical check that released ids are handed out again. Goroutines using other pools at the same time; histories that start just below 2^16 / 2^31 / 2^32 ids (the id counter is moved from the check, found by reflection).",
 "C19": "Also: capability descriptions (equal / empty), the same range under two comparers in one process, numeric pre-release identifiers of different digit counts (rc.2 < rc.10). Upper-case pre-release identifiers; versions with segments of several digits compared in every process in both directions.",
 "C20": "Also: answers of the very first calls of the process, 16/32 processes, every ASE level value -70000..70000 and around 2^16..2^62 (the two directions must be consistent). Every process of a run asks its first questions about a different level and in a different direction (answers must agree across processes); the exhaustive parts also run as a 32-bit (GOARCH=386) build. The texts of the returned errors are read (and wrapped) by the caller. 96 short-lived child processes per run (the test binary starts itself) must give the same answers as the process that started them.",
}

NOT_YET = "check not built yet in this round (planned, see DESIGN.md section 3)"

def hook_commits():
    try:
        out = subprocess.run(["git", "-C", "/repo", "log", "--format=%H %s"], stdout=subprocess.PIPE, text=True).stdout
        return [l.split()[0] for l in out.splitlines() if " verif-hook:" in " " + l]
    except Exception:
        return []

def main():
    checks = []
    for pid in ALL:
        if pid not in CLAIMS:
            continue
        level, tech, text, note, ref = CLAIMS[pid]
        if pid in ADDENDA:
            text = text + " " + ADDENDA[pid]
        checks.append({
            "property_id": pid,
            "quick_cmd": "python3 vcheck.py %s --tier quick" % pid,
            "thorough_cmd": "python3 vcheck.py %s --tier thorough" % pid,
            "evidence_file": "/verif/evidence/%s.json" % pid,
            "replay_cmd_template": "python3 vcheck.py %s --replay {path}" % pid,
            "engine": "vcheck",
            "level_claimed": {"category": level, "text": text, "design_ref": ref},
            "level_note": note,
            "technique": tech,
        })
    na_reasons = {}
    try:
        na_reasons = json.load(open(os.path.join(ROOT, "not_applicable.json")))
    except Exception:
        pass
    m = {
        "version": 1,
        "setup_cmd": "python3 vcheck.py --setup",
        "hooks": {
            "guard": "verif",
            "enable": "go build tag: every check binary is built with `go test -c -tags verif` from /repo's working tree through the replace directive in /verif/go.mod",
            "baseline_off_cmd": "cd /repo && go test -vet=off -count=1 -timeout 25m ./...",
            "source_commits": hook_commits(),
            "add_only": True,
        },
        "engines": [{
            "name": "vcheck", "path": "/verif/vcheck.py",
            "serves_properties": sorted(CLAIMS),
            "kind_free_text": "driver: builds checks/<id> (Go test binary, pgregory.net/rapid v1.3.0 generators + exhaustive enumerators + native go fuzz targets in the thorough tier) against /repo's working tree, shards it over processes, merges per-process stats into evidence/<id>.json, prints VIOLATION / KNOWN-FINDING lines",
        }],
        "checks": checks,
        "notes": "Technique family: property-based testing and fuzzing. See DESIGN.md. known_findings.json lists open findings (suppressed by class key, KNOWN-FINDING line) and fixed ones (suppress nothing).",
        "not_applicable": [{"property_id": p, "reason": na_reasons.get(p, NOT_YET)} for p in ALL if p not in CLAIMS],
    }
    with open(os.path.join(ROOT, "MANIFEST.json"), "w") as f:
        json.dump(m, f, indent=1)
        f.write("\n")

if __name__ == "__main__":
    main()
