package c10

import (
	"bytes"
	"context"
	"encoding/binary"
	"fmt"
	"strconv"
	"testing"

	"github.com/SAP/go-dblib/tds"
	"pgregory.net/rapid"
	"verif/internal/peer"
	rc "verif/internal/refcodec"
	"verif/internal/vh"
)

// ---- the server announces a (valid) new packet size while the client is assembling a
// message: packages queued before the announcement sit in a half-filled packet of the old size.
// Whatever the client queues and sends afterwards must not bring the process down, and the
// announcement must not make bytes of the message disappear.

type sizeChangeCase struct {
	NewSize int   `json:"new_packet_size"`
	Before  []int `json:"command_lengths_queued_before"`
	After   []int `json:"command_lengths_queued_after"`
	Twice   bool  `json:"second_change_back_to_512"`
}

func langBytes(i, n int) (string, []byte) {
	cmd := bytes.Repeat([]byte{byte('a' + i%26)}, n)
	enc := []byte{0x21, 0, 0, 0, 0, 0}
	binary.LittleEndian.PutUint32(enc[1:], uint32(n+1))
	return string(cmd), append(enc, cmd...)
}

func runSizeChange(c sizeChangeCase) (f *vh.Failure) {
	how := fmt.Sprintf("commands of %v bytes queued, server announces packet size %d, commands of %v bytes queued and sent", c.Before, c.NewSize, c.After)
	defer func() {
		if r := recover(); r != nil {
			vh.CheckHarnessPanic(r)
			f = vh.Failf("C10/panic-packet-size-changed-while-assembling", "%s: panic: %v", how, r)
		}
	}()
	ctx, cancel := context.WithCancel(context.Background())
	defer cancel()
	pipe := peer.NewPipe()
	conn, _, err := tds.VerifNewConn(ctx, pipe, &tds.Info{ChannelPackageQueueSize: 1000}, false)
	if err != nil {
		vh.HarnessBug("VerifNewConn: %v", err)
	}
	ch, err := conn.NewChannel()
	if err != nil {
		vh.HarnessBug("NewChannel: %v", err)
	}
	var want []byte
	k := 0
	queue := func(lens []int) *vh.Failure {
		for _, n := range lens {
			cmd, enc := langBytes(k, n)
			k++
			want = append(want, enc...)
			if err := ch.QueuePackage(ctx, &tds.LanguagePackage{Cmd: cmd}); err != nil {
				return vh.Failf("C10/error-packet-size-changed-while-assembling", "%s: QueuePackage: %v", how, err)
			}
		}
		return nil
	}
	announce := func(size int) {
		stream, _, _, err := rc.EncodeStream([]rc.P{{Env: &rc.EnvChange{Members: []rc.EnvMember{{Type: rc.EnvPackSize, New: strconv.Itoa(size), Old: "512"}}}}})
		if err != nil {
			vh.HarnessBug("encode: %v", err)
		}
		ch.WritePacket(&tds.Packet{Header: tds.PacketHeader{MsgType: tds.TDS_BUF_RESPONSE, Status: tds.TDS_BUFSTAT_EOM, Length: uint16(8 + len(stream))}, Data: stream})
		if conn.PacketSize() != size {
			vh.HarnessBug("packet size %d not in force after the announcement (%d)", size, conn.PacketSize())
		}
	}
	if f := queue(c.Before); f != nil {
		return f
	}
	announce(c.NewSize)
	if c.Twice {
		if f := queue(c.After[:1]); f != nil {
			return f
		}
		announce(512)
		if f := queue(c.After[1:]); f != nil {
			return f
		}
	} else if f := queue(c.After); f != nil {
		return f
	}
	if err := ch.SendRemainingPackets(ctx); err != nil {
		return vh.Failf("C10/error-packet-size-changed-while-assembling", "%s: SendRemainingPackets: %v", how, err)
	}
	ps, err := rc.ParsePackets(pipe.Written())
	if err != nil {
		return vh.Failf("C10/bytes-lost-packet-size-changed-while-assembling", "%s: written bytes are not a sequence of packets: %v", how, err)
	}
	var got []byte
	for _, p := range ps {
		got = append(got, p.Body...)
	}
	if !bytes.Equal(got, want) {
		at := 0
		for at < len(got) && at < len(want) && got[at] == want[at] {
			at++
		}
		return vh.Failf("C10/bytes-lost-packet-size-changed-while-assembling", "%s: the packet bodies written (%d bytes) are not the packages queued (%d bytes); first difference at offset %d", how, len(got), len(want), at)
	}
	vh.Label("packet-size-changed-while-assembling")
	if c.NewSize > 512 {
		vh.Label("packet-size-raised-while-assembling")
	} else {
		vh.Label("packet-size-lowered-while-assembling")
	}
	vh.NonTrivial(fmt.Sprintf("sc|%d|%v|%v|%v", c.NewSize, c.Before, c.After, c.Twice))
	return nil
}

func TestPacketSizeChangedWhileAssembling(t *testing.T) {
	gen := func(rt *rapid.T) sizeChangeCase {
		c := sizeChangeCase{NewSize: rapid.OneOf(rapid.SampledFrom([]int{256, 504, 511, 513, 520, 1024, 2048, 4096, 16384, 65535}), rapid.IntRange(256, 65535)).Draw(rt, "newsize")}
		lens := rapid.OneOf(rapid.IntRange(0, 40), rapid.IntRange(400, 600), rapid.IntRange(0, 3000))
		c.Before = rapid.SliceOfN(lens, 1, 3).Draw(rt, "before")
		c.After = rapid.SliceOfN(lens, 1, 4).Draw(rt, "after")
		c.Twice = len(c.After) >= 2 && rapid.IntRange(0, 3).Draw(rt, "twice") == 0
		return c
	}
	vh.Check(t, "TestPacketSizeChangedWhileAssembling", vh.N(3000, 60000), gen, runSizeChange)
}
