// C10 — no server input can crash the client.
//
// Three levels, each with rapid generators / enumerations and a native fuzz target:
//
//	(a) value level    value_test.go    DataType.GoValue on every (type, length) pair
//	(b) package level  package_test.go  token streams parsed the way Channel.tryParsePackage does,
//	                                    on a real tds.PacketQueue
//	(c) channel level  channel_test.go  packets into Channel.WritePacket, raw bytes into Conn.ReadFrom,
//	                                    followed by one small SendPackage
//
// The oracle is the same everywhere: the call returns (value or error), it does not
// panic, and it does not allocate out of proportion to the bytes received.
package c10

import (
	"flag"
	"fmt"
	"os"
	"runtime"
	"runtime/metrics"
	"strings"
	"sync"
	"testing"
	"time"

	"pgregory.net/rapid"
	"verif/internal/vh"
)

func TestMain(m *testing.M) {
	vh.Rule("value level: every byte as data type x every data length 0..255 x contents zero/0xff/counter/0x01-led (exhaustive, split over shards) plus rapid-drawn contents and lengths up to 1024; " +
		"package level: per token 0..255 arbitrary bytes; per package kind (30 kinds incl. rows/params behind their formats) a valid reference encoding with ONE field span (token, length, count, data type, status, string, value) " +
		"replaced by a boundary or random value of the same width (0, 1, 0xff.., 0x7f.., 0x80.., +-1; 4-byte lengths up to 2^27), or truncated (at field boundaries +-1 or anywhere), or with a byte deleted/inserted, or with trailing garbage; " +
		"format packages followed by arbitrary row bytes; everything parsed like the channel does (token, LookupPackage, LastPkg, ReadFrom on a real PacketQueue) until an error or the end; " +
		"channel level: such streams (and arbitrary bytes) cut into packets with arbitrary header fields (length 0..7, length != 8+len(data), all types/status bits/channels) into Channel.WritePacket, " +
		"and as raw byte streams in arbitrary read partitions into Conn.ReadFrom; packages announcing huge counts or lengths delivered one byte per packet; ENVCHANGE packet sizes 0,1,7,8,9,65535,65536,65544,70000,-5,abc,...; afterwards one SendPackage. " +
		"Non-trivial: the input is not a valid encoding and the parser got past the first field (the corrupted span is not the token); distinct by (token, corrupted span kind and replacement class, outcome class), " +
		"value level by (type, length, outcome)")
	vh.Assume("panics are recovered by the harness and classified by the top-most library frame and the kind of runtime error; allocation is runtime.MemStats.TotalAlloc around the call (bound: 64 x input bytes + 4 MiB), measured at channel level for every case and at package level when a length of 2^16 or more was requested from the queue or written into a length field; " +
		"at channel level a consumer goroutine drains the error and package queues all the time (a full 10-slot error queue blocks the reader by design; that is not counted as a hang); " +
		"if PacketQueue.Bytes is found (by a 2^27 probe) to allocate before it checks availability, requests above 2^27 are not executed but counted as excluded under that class (a 4 GiB make per case would endanger the sandbox); " +
		"CPU spin of Packet.ReadFrom on io.EOF inside a body is bounded by the read timeout and belongs to C14; Package.String() of parsed packages and KeyPackage (not reachable through LookupPackage) are not exercised")
	if fuzzing() {
		go memoryGuard(12 << 30)
	} else {
		go memoryGuard(24 << 30)
	}
	vh.Rule("also: a valid packet size announced while the client assembles a message (no panic, no byte of the message lost); responses of 2000..500000 packages (3 million in the thorough tier) drained with NextPackageUntil(nil), with a callback, or package by package: goroutine stacks grow by at most 16 MiB + 2 x bytes received (a frame per package ends at the runtime's stack limit, which kills the process); arbitrary capability types / mask lengths in the responses of an otherwise valid encrypted login")
	vh.Rule("also: hostile key parameters include well-formed PKIX keys (Ed25519, ECDSA P-256/P-384, RSA), PKCS#1 under other PEM types, a private key, degenerate RSA keys")
	vh.Rule("also: Channel.Close while the reader is inside a packet holding more packages than the queue takes (the process survives); 11..3000 packets for unknown channels / with impossible header lengths that nobody collects the errors of (no goroutine per error)")
	vh.Main(m, "C10")
}

// memoryGuard is the last line of defence of the sandbox: a runaway allocation loop
// inside the library cannot be stopped from outside the goroutine, so the process
// gives up (inconclusive, exit 3) before the machine runs out of memory.
func memoryGuard(limit uint64) {
	s := []metrics.Sample{{Name: "/memory/classes/heap/objects:bytes"}}
	for {
		time.Sleep(50 * time.Millisecond)
		metrics.Read(s)
		if s[0].Value.Kind() == metrics.KindUint64 && s[0].Value.Uint64() > limit {
			vh.HarnessBug("C10: live heap above %d MiB - giving up before the sandbox runs out of memory", limit>>20)
		}
	}
}

func fuzzing() bool {
	for _, n := range []string{"test.fuzz", "test.fuzzworker"} {
		if f := flag.Lookup(n); f != nil && f.Value.String() != "" && f.Value.String() != "false" {
			return true
		}
	}
	return false
}

// ---- panics

const libPrefix = "github.com/SAP/go-dblib/"

// caught describes a recovered panic: Fn is the top-most frame inside the library
// (where the runtime error was raised or the last library function above it), Kind
// the kind of runtime error.
type caught struct {
	Val   string
	Fn    string
	Kind  string
	Line  string
	Guard *guardTrip
}

func (c *caught) class() string { return "C10/panic-" + c.Fn + "-" + c.Kind }

func (c *caught) String() string {
	return fmt.Sprintf("panic: %s (in %s, %s)", c.Val, c.Fn, c.Line)
}

// try runs fn and turns a panic into a description.
func try(fn func()) (c *caught) {
	defer func() {
		if r := recover(); r != nil {
			c = classify(r)
		}
	}()
	fn()
	return nil
}

func classify(r any) *caught {
	c := &caught{Val: fmt.Sprint(r), Fn: "outside-library", Kind: "other"}
	if g, ok := r.(guardTrip); ok {
		c.Guard = &g
		return c
	}
	if len(c.Val) > 300 {
		c.Val = c.Val[:300] + "…"
	}
	msg := c.Val
	switch {
	case strings.Contains(msg, "index out of range"):
		c.Kind = "index-out-of-range"
	case strings.Contains(msg, "slice bounds out of range"):
		c.Kind = "slice-bounds"
	case strings.Contains(msg, "makeslice: len out of range"):
		c.Kind = "makeslice-len"
	case strings.Contains(msg, "makeslice: cap out of range"):
		c.Kind = "makeslice-cap"
	case strings.Contains(msg, "nil pointer dereference"):
		c.Kind = "nil-dereference"
	case strings.Contains(msg, "divide by zero"):
		c.Kind = "divide-by-zero"
	case strings.Contains(msg, "nil map"):
		c.Kind = "nil-map"
	case strings.Contains(msg, "makechan"):
		c.Kind = "makechan"
	case strings.Contains(msg, "bytes.Buffer"):
		c.Kind = "bytes-buffer"
	case strings.Contains(msg, "interface conversion"):
		c.Kind = "interface-conversion"
	}
	pcs := make([]uintptr, 64)
	n := runtime.Callers(2, pcs)
	frames := runtime.CallersFrames(pcs[:n])
	for {
		f, more := frames.Next()
		if strings.HasPrefix(f.Function, libPrefix) {
			c.Fn = shortFn(f.Function)
			file := f.File
			if i := strings.LastIndex(file, "/"); i >= 0 {
				file = file[i+1:]
			}
			c.Line = fmt.Sprintf("%s:%d", file, f.Line)
			break
		}
		if !more {
			break
		}
	}
	return c
}

// shortFn: github.com/SAP/go-dblib/tds.(*PacketQueue).Bytes -> tds.PacketQueue.Bytes
func shortFn(s string) string {
	s = strings.TrimPrefix(s, libPrefix)
	s = strings.NewReplacer("(*", "", ")", "", "(", "").Replace(s)
	return s
}

// ---- allocation

const allocSlack = 4 << 20

func allocBound(input int) uint64 { return 64*uint64(input) + allocSlack }

// measure runs fn and returns the number of bytes allocated meanwhile (whole process:
// the checks run their cases in one goroutine, helper goroutines of a case allocate on
// behalf of that case).
func measure(fn func()) uint64 {
	var a, b runtime.MemStats
	runtime.ReadMemStats(&a)
	fn()
	runtime.ReadMemStats(&b)
	return b.TotalAlloc - a.TotalAlloc
}

// allocCounter reads the cumulative bytes allocated on the heap from runtime/metrics: cheap
// (no stop-the-world), good enough to notice a disproportionate allocation, which is then
// measured again with measure.
var allocSample = []metrics.Sample{{Name: "/gc/heap/allocs:bytes"}}
var allocMu sync.Mutex

func allocCounter() uint64 {
	allocMu.Lock()
	defer allocMu.Unlock()
	metrics.Read(allocSample)
	if allocSample[0].Value.Kind() != metrics.KindUint64 {
		return 0
	}
	return allocSample[0].Value.Uint64()
}

// allocSite re-runs fn and names the library function that allocated most: the heap
// profile samples every allocation larger than the sampling interval, so the site of
// a disproportionate make() is in it.
func allocSite(fn func()) string {
	snapshot := func() map[string]int64 {
		runtime.GC()
		runtime.GC()
		n, _ := runtime.MemProfile(nil, true)
		recs := make([]runtime.MemProfileRecord, n+64)
		n, ok := runtime.MemProfile(recs, true)
		if !ok {
			return nil
		}
		out := map[string]int64{}
		for _, r := range recs[:n] {
			frames := runtime.CallersFrames(r.Stack())
			site := ""
			for {
				f, more := frames.Next()
				if strings.HasPrefix(f.Function, libPrefix) {
					site = shortFn(f.Function)
					break
				}
				if !more {
					break
				}
			}
			if site != "" {
				out[site] += r.AllocBytes
			}
		}
		return out
	}
	before := snapshot()
	fn()
	after := snapshot()
	best, bestN := "unknown-site", int64(0)
	for k, v := range after {
		if d := v - before[k]; d > bestN || d == bestN && d > 0 && k < best {
			best, bestN = k, d
		}
	}
	return best
}

// ---- continuing behind a finding

// reported holds the finding classes this process has already recorded; later cases
// that fail in one of them are counted as excluded, so that the search goes on behind
// a confirmed finding instead of stopping at it over and over.
var (
	repMu    sync.Mutex
	reported = map[string]bool{}
)

func isReported(class string) bool {
	repMu.Lock()
	defer repMu.Unlock()
	return reported[class]
}

func setReported(class string) {
	repMu.Lock()
	reported[class] = true
	repMu.Unlock()
}

const maxRounds = 8

// checkRounds is vh.Check repeated: when a round ends with a violation its class is
// remembered and the search is run again (as a sub test) with that class excluded.
func checkRounds[C any](t *testing.T, name string, n int, gen func(*rapid.T) C, run func(C) *vh.Failure) {
	for round := 0; round < maxRounds; round++ {
		last := ""
		wrapped := func(c C) *vh.Failure {
			f := run(c)
			if f == nil {
				return nil
			}
			if isReported(f.Class) {
				vh.Excluded(f.Class)
				return nil
			}
			if !vh.Known(f.Class) {
				last = f.Class
			}
			return f
		}
		if env("VERIF_SHRINKTIME") == "" {
			// several findings per test are shrunk one after the other: keep each short
			_ = flag.Set("rapid.shrinktime", "5s")
		}
		ok := t.Run(fmt.Sprintf("round%d", round), func(t *testing.T) { vh.Check(t, name, n, gen, wrapped) })
		if ok || last == "" || vh.Replaying() {
			return
		}
		setReported(last)
	}
}

// enumRounds does the same for an exhaustive enumeration; each round walks the whole
// space again.
func enumRounds[C any](t *testing.T, name, space string, run func(C) *vh.Failure, walk func(yield func(C) bool)) {
	for round := 0; round < maxRounds; round++ {
		last := ""
		wrapped := func(c C) *vh.Failure {
			f := run(c)
			if f == nil {
				return nil
			}
			if isReported(f.Class) {
				vh.Excluded(f.Class)
				return nil
			}
			if !vh.Known(f.Class) {
				last = f.Class
			}
			return f
		}
		e := vh.NewEnum(t, name, wrapped)
		if e.Skip() {
			return
		}
		walk(e.Do)
		e.Done(space)
		if last == "" {
			return
		}
		setReported(last)
	}
}

// ---- small helpers

func env(name string) string { return os.Getenv(name) }

func hexHead(b []byte, n int) string {
	if len(b) > n {
		return fmt.Sprintf("% x … (%d bytes)", b[:n], len(b))
	}
	return fmt.Sprintf("% x", b)
}
