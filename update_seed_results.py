#!/usr/bin/env python3
"""update_seed_results.py FILE...: takes the result lines of sensitivity.sh (CAUGHT/MISSED <ID> seeded/<name> :: class ...)
and refreshes check_result / reported_class in seeded/<name>/meta.json; writes seeded/SENSITIVITY.txt (all lines, latest per item)."""
import json, os, re, sys
latest = {}
for f in sys.argv[1:]:
    for l in open(f, errors="replace"):
        m = re.match(r"(CAUGHT|MISSED|INCONCLUSIVE\(\d+\)|PATCH-FAILED|NO-COMPILE) (C\d\d) (\S+)(?: :: ?(.*))?", l.strip())
        if m:
            latest[(m.group(2), m.group(3))] = (m.group(1), (m.group(4) or "").strip())
n = 0
for (pid, item), (res, cls) in sorted(latest.items()):
    if item.startswith("seeded/") and res in ("CAUGHT", "MISSED"):
        mf = "/verif/" + item + "/meta.json"
        if os.path.exists(mf):
            meta = json.load(open(mf))
            meta["check_result"] = res
            if cls:
                meta["reported_class"] = cls[:300]
            json.dump(meta, open(mf, "w"), indent=1)
            n += 1
with open("/verif/seeded/SENSITIVITY.txt", "w") as out:
    out.write("# last result of sensitivity.sh per mutant / seeded change (quick tier of the property's check against the changed tree; exit 1 expected)\n")
    for (pid, item), (res, cls) in sorted(latest.items()):
        out.write("%s %s %s :: %s\n" % (res, pid, item, cls[:200]))
print("updated", n, "metas;", sum(1 for v in latest.values() if v[0] != "CAUGHT"), "not caught of", len(latest))
