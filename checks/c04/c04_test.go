// C04 — field values survive encoding and decoding unchanged.
package c04

import (
	"bytes"
	"context"
	"encoding/binary"
	"fmt"
	"testing"
	"time"

	"github.com/SAP/go-dblib/asetypes"
	"github.com/SAP/go-dblib/tds"
	"pgregory.net/rapid"
	"verif/internal/flatch"
	"verif/internal/peer"
	"verif/internal/pkggen"
	rc "verif/internal/refcodec"
	"verif/internal/valgen"
	"verif/internal/vh"
)

func TestMain(m *testing.M) {
	vh.Rule("rapid: (data type incl. each legal width of the nullable families, value) drawn uniformly over 46 type/width pairs with boundary-biased values (integer boundaries, NaN/Inf/-0 bit patterns, money over int64/int32, numerics of every precision/scale with 0,1,10^k,10^k-1 and random digits, days 0001-01-01..9999-12-31 with bias to year boundaries, leap days and pre-1900, ticks from (tick, sub-half-tick jitter), microsecond times, byte/Unicode strings of length 1..max from all planes); round trip DataType.Bytes -> DataType.GoValue and the package leg PARAMFMT/PARAMS and ROWFMT2/ROW (formats decoded from reference encodings); exhaustive: every uint8, int16, uint16, bit, every day 0001..9999 and every tick of a day (thorough; stride-sampled in quick), NULL for every nullable type. Non-trivial: value is neither NULL nor the type's zero value; distinct by (type,width,value)")
	vh.Assume("time.Time values are UTC; DATE values are at midnight; TIME/DATETIME values are the exact time of a 1/300 s tick plus at most 1.6 ms so rounding cannot leave the day; smalldatetime days 0..65535; unitext without trailing NUL (decoder documents trimming); empty strings/byte strings excluded (they encode like NULL)")
	vh.Rule("also: batches of 2..8 values converted in goroutines at the same time (separate race-detector run)")
	vh.Rule("also: package leg with column status bytes (a third of the cases); temporal values carrying a location (fixed offsets, zones with daylight saving, clock-change days): encode + decode gives back the clock reading to the tick")
	vh.Rule("also: format + rows fed through a real channel with an informational message / environment change between the rows: every row keeps its format and its values")
	vh.Main(m, "C04")
}

var le = binary.LittleEndian

type valCase struct {
	V valgen.Val `json:"v"`
}

func class(v valgen.Val) string {
	switch {
	case v.T == rc.TUnitext && v.Null:
		return "C04/unitext-null-decodes-as-empty-string"
	case v.T == rc.TUnitext:
		return "C04/unitext-beyond-latin1"
	case v.T == rc.TXML:
		return "C04/xml-value-not-decodable"
	case (v.T == rc.TDateTime || v.T == rc.TDateTimeN) && v.Day < 0 && !v.Null:
		return "C04/datetime-before-1900-with-time-part"
	}
	return "C04/" + valgen.TW{T: v.T, W: v.W}.String()
}

func roundTrip(v valgen.Val) (f *vh.Failure) {
	defer func() {
		if r := recover(); r != nil {
			if v.Null {
				f = vh.Failf("C04/null-representation-not-encodable", "panic for NULL %s: %v", valgen.TW{T: v.T, W: v.W}, r)
				return
			}
			f = vh.Failf(class(v)+"-panic", "panic for %s %s: %v", valgen.TW{T: v.T, W: v.W}, valgen.Key(v), r)
		}
	}()
	dt := asetypes.DataType(v.T)
	goVal := valgen.ToGo(v)
	// the caller (or the library's package logging, Info.DebugLogPackages) may print a value
	// at any time; looking at a value must not change what is sent or what was received
	look(goVal)
	bs, err := dt.Bytes(le, goVal, valgen.BytesLength(v))
	if err != nil {
		return vh.Failf(class(v), "%s: Bytes(%v) failed: %v", dt, short(valgen.ToGo(v)), err)
	}
	if v.Null && len(bs) != 0 {
		return vh.Failf(class(v), "%s: NULL encoded to %d bytes", dt, len(bs))
	}
	// the same Go value sent a second time (a statement executed twice with one argument)
	if again, err := dt.Bytes(le, goVal, valgen.BytesLength(v)); err != nil || !bytes.Equal(again, bs) {
		return vh.Failf("C04/value-changed-by-use", "%s %s: encoding the same Go value a second time gives % x (err %v), the first time % x", dt, valgen.Key(v), head(again), err, head(bs))
	}
	got, err := dt.GoValue(le, bs)
	if err != nil {
		return vh.Failf(class(v), "%s: GoValue(% x) of encoded %v failed: %v", dt, head(bs), short(valgen.ToGo(v)), err)
	}
	look(got)
	if err := valgen.Match(v, got); err != nil {
		return vh.Failf(class(v), "%s: %v (wire % x)", dt, err, head(bs))
	}
	if v.Null {
		// the library's own representation of NULL must encode to zero length again
		bs2, err := dt.Bytes(le, got, valgen.BytesLength(v))
		if err != nil || len(bs2) != 0 {
			return vh.Failf("C04/null-representation-not-encodable", "%s: decoded NULL (%T) re-encodes to % x, err %v; want zero length", dt, got, head(bs2), err)
		}
	}
	if !v.Null {
		// tick-level fixed point: what was decoded encodes to the same bytes
		bs2, err := dt.Bytes(le, got, valgen.BytesLength(v))
		if err != nil {
			return vh.Failf(class(v), "%s: re-encoding the decoded value %v failed: %v", dt, short(got), err)
		}
		if !numericAware(v, bs, bs2) {
			return vh.Failf(class(v), "%s: decoded value re-encodes differently: % x then % x", dt, head(bs), head(bs2))
		}
	}
	return nil
}

// look prints a value the way a log line would (plain strings and byte slices have no
// formatting code of the library behind them and are skipped for speed)
func look(x interface{}) {
	switch x.(type) {
	case string, []byte:
	default:
		_ = fmt.Sprintf("%v", x)
	}
}

func numericAware(v valgen.Val, a, b []byte) bool { return bytes.Equal(a, b) }

func head(b []byte) []byte {
	if len(b) > 24 {
		return b[:24]
	}
	return b
}

func short(x interface{}) string {
	s := fmt.Sprintf("%v", x)
	if len(s) > 80 {
		s = s[:80] + "…"
	}
	return s
}

func runVal(c valCase) *vh.Failure {
	f := roundTrip(c.V)
	if f == nil {
		vh.Label(valgen.Labels(c.V)...)
		if valgen.NonZero(c.V) {
			vh.NonTrivial(valgen.Key(c.V))
		}
	}
	return f
}

func TestValueRoundTrip(t *testing.T) {
	gen := func(rt *rapid.T) valCase {
		tw := valgen.GenTW(rt)
		v := valgen.Gen(rt, tw)
		c := valCase{V: v}
		if len(v.B) < 40 && len(v.S) < 40 {
			vh.Sample("value:"+tw.String(), c)
		}
		return c
	}
	vh.Check(t, "TestValueRoundTrip", vh.N(60000, 1500000), gen, runVal)
}

// every type on its own, so that a defect in one type cannot hide the others
func TestPerTypeRoundTrip(t *testing.T) {
	for _, tw := range valgen.All {
		tw := tw
		name := "TestPerTypeRoundTrip/" + tw.String()
		t.Run(tw.String(), func(t *testing.T) {
			gen := func(rt *rapid.T) valCase { return valCase{V: valgen.Gen(rt, tw)} }
			vh.Check(t, name, vh.N(1500, 60000), gen, runVal)
		})
	}
}

func TestNullRoundTrip(t *testing.T) {
	e := vh.NewEnum(t, "TestNullRoundTrip", runVal)
	if e.Skip() {
		return
	}
	for _, tw := range valgen.All {
		if !valgen.IsNullable(tw.T) {
			continue
		}
		c := valCase{V: valgen.Val{V: rc.V{T: tw.T, W: tw.W, Null: true}}}
		e.Do(c)
		vh.Sample("null", c)
	}
	e.Done("NULL of every nullable type/width")
}

func TestSmallDomainsExhaustive(t *testing.T) {
	e := vh.NewEnum(t, "TestSmallDomainsExhaustive", runVal)
	if e.Skip() {
		return
	}
	mk := func(tt byte, w int, i int64, u uint64) valCase {
		return valCase{V: valgen.Val{V: rc.V{T: tt, W: w, I: i, U: u}}}
	}
	for x := 0; x < 256; x++ {
		if !e.Do(mk(rc.TInt1, 0, 0, uint64(x))) || !e.Do(mk(rc.TIntN, 1, int64(x), 0)) || !e.Do(mk(rc.TUintN, 1, 0, uint64(x))) {
			return
		}
	}
	for x := 0; x < 65536; x++ {
		if !vh.Mine(x) {
			continue
		}
		s := int64(int16(uint16(x)))
		if !e.Do(mk(rc.TInt2, 0, s, 0)) || !e.Do(mk(rc.TIntN, 2, s, 0)) || !e.Do(mk(rc.TUint2, 0, 0, uint64(x))) || !e.Do(mk(rc.TUintN, 2, 0, uint64(x))) {
			return
		}
	}
	for _, b := range []bool{false, true} {
		if !e.Do(valCase{V: valgen.Val{V: rc.V{T: rc.TBit, Bool: b}}}) {
			return
		}
	}
	e.Done("every uint8 (INT1, INTN(1), UINTN(1)), every int16/uint16 (INT2, INTN(2), UINT2, UINTN(2)), both bits")
}

func TestEveryDay(t *testing.T) {
	e := vh.NewEnum(t, "TestEveryDay", runVal)
	if e.Skip() {
		return
	}
	stride := 1
	if !vh.Thorough() {
		stride = 37
	}
	i := 0
	for day := valgen.MinDay1900; day <= valgen.MaxDay1900; day += stride {
		i++
		if !vh.Mine(i) {
			continue
		}
		d := int32(day)
		// date, daten, datetime at a fixed non-zero tick, bigdatetime at a fixed microsecond
		y, m, dd := rc.CivilFrom1900(int64(day))
		cs := []valCase{
			{V: valgen.Val{V: rc.V{T: rc.TDate, Day: d}}},
			{V: valgen.Val{V: rc.V{T: rc.TDateN, W: 4, Day: d}}},
			{V: valgen.Val{V: rc.V{T: rc.TDateTime, Day: d, Tick: 12960001}}},
			{V: valgen.Val{V: rc.V{T: rc.TDateTimeN, W: 8, Day: d, Tick: 0}}},
			{V: valgen.Val{V: rc.V{T: rc.TBigDateTimeN, W: 8, U: rc.UsSinceYear0(y, m, dd, 43200000001)}}},
		}
		if day >= 0 && day <= 65535 {
			cs = append(cs, valCase{V: valgen.Val{V: rc.V{T: rc.TShortDate, Day: d, Tick: 1439}}}, valCase{V: valgen.Val{V: rc.V{T: rc.TDateTimeN, W: 4, Day: d, Tick: 721}}})
		}
		for _, c := range cs {
			if !e.Do(c) {
				return
			}
		}
	}
	if stride == 1 {
		e.Done("every day 0001-01-01..9999-12-31 for DATE, DATEN, DATETIME, DATETIMEN, BIGDATETIMEN (+ smalldatetime days 0..65535)")
	} else {
		vh.Note("TestEveryDay: quick tier samples every %dth day (%d cases); the thorough tier enumerates all 3652059 days", stride, e.Count())
	}
}

func TestEveryTick(t *testing.T) {
	e := vh.NewEnum(t, "TestEveryTick", runVal)
	if e.Skip() {
		return
	}
	stride := 1
	if !vh.Thorough() {
		stride = 211
	}
	i := 0
	for tick := 0; tick <= valgen.MaxTick; tick += stride {
		i++
		if !vh.Mine(i) {
			continue
		}
		k := uint32(tick)
		if !e.Do(valCase{V: valgen.Val{V: rc.V{T: rc.TTime, Tick: k}}}) || !e.Do(valCase{V: valgen.Val{V: rc.V{T: rc.TDateTime, Day: 45000, Tick: k}}}) {
			return
		}
		if tick%7 == 0 {
			if !e.Do(valCase{V: valgen.Val{V: rc.V{T: rc.TTimeN, W: 4, Tick: k}, JitNs: 1500000}}) {
				return
			}
		}
	}
	if stride == 1 {
		e.Done("every 1/300 s tick 0..25919999 for TIME and DATETIME")
	} else {
		vh.Note("TestEveryTick: quick tier samples every %dth tick (%d cases); the thorough tier enumerates all 25920000 ticks", stride, e.Count())
	}
	// every minute of a day for smalldatetime
	for mnt := 0; mnt < 1440; mnt++ {
		if !e.Do(valCase{V: valgen.Val{V: rc.V{T: rc.TShortDate, Day: 40000, Tick: uint32(mnt)}, JitNs: 59000000000}}) {
			return
		}
	}
}

// ---- package leg: the value travels inside a parameter / row package with its format

type pkgLegCase struct {
	Tok  byte         `json:"fmt_token"` // PARAMFMT, PARAMFMT2 or ROWFMT2 / ROWFMT
	Cols []rc.Col     `json:"cols"`
	Vals []valgen.Val `json:"vals"`
	Cell []rc.Cell    `json:"cells"`
	// More: further rows of values for the same columns: the same data package object gets
	// them assigned and is written again (what a prepared statement executed repeatedly does)
	More [][]valgen.Val `json:"more_rows_through_the_same_package,omitempty"`
}

func runPkgLeg(c pkgLegCase) (f *vh.Failure) {
	cls := "C04/package-leg"
	defer func() {
		if r := recover(); r != nil {
			f = vh.Failf(cls+"-panic", "panic: %v", r)
		}
	}()
	fm := rc.Fmt{Tok: c.Tok, Cols: c.Cols}
	enc, err := rc.EncodePkg(rc.P{Fmt: &fm}, nil)
	if err != nil {
		vh.HarnessBug("encode format: %v", err)
	}
	fch := flatch.New(enc.B[1:])
	fmtPkg, err := pkggen.LibDecode(c.Tok, nil, fch)
	if err != nil || fch.Left() != 0 {
		return vh.Failf(cls, "library cannot decode the format package: %v", err)
	}
	textFamily := false
	for _, col := range c.Cols {
		if col.T == rc.TText || col.T == rc.TImage || col.T == rc.TUnitext || col.T == rc.TXML {
			textFamily = true
		}
	}
	isRow := fm.IsRow()
	var data tds.Package
	var fields *[]tds.FieldData
	var wire []byte
	if textFamily {
		// a client never sends the text-pointer family: decode direction from reference-encoded rows
		r := rc.Row{Tok: rc.TokRow, Cells: c.Cell}
		if !isRow {
			r.Tok = rc.TokParams
		}
		e, err := rc.EncodePkg(rc.P{Row: &r}, &fm)
		if err != nil {
			vh.HarnessBug("encode row: %v", err)
		}
		wire = e.B
		vh.Label("package-leg:decode-only")
	} else {
		if isRow {
			rp := &tds.RowPackage{}
			data, fields = rp, &rp.DataFields
		} else {
			pp := tds.NewParamsPackage()
			data, fields = pp, &pp.DataFields
		}
		if err := data.(tds.LastPkgAcceptor).LastPkg(fmtPkg); err != nil {
			return vh.Failf(cls, "LastPkg: %v", err)
		}
		if len(*fields) != len(c.Vals) {
			return vh.Failf(cls, "%d data fields for %d columns", len(*fields), len(c.Vals))
		}
		for i, v := range c.Vals {
			(*fields)[i].SetValue(valgen.ToGo(v))
		}
		_ = fmt.Sprintf("TX: %s", data) // what Info.DebugLogPackages does with every package sent
		out := flatch.New(nil)
		if err := data.WriteTo(out); err != nil {
			return vh.Failf(classOf(c)+"-package-write", "writing %s inside a %#x package failed: %v", describe(c), c.Tok, err)
		}
		wire = out.B
		vh.Label("package-leg:write-read")
	}
	if f := readBack(c, c.Vals, wire, fmtPkg, textFamily, cls); f != nil {
		return f
	}
	wires := [][]byte{wire}
	rows := [][]valgen.Val{c.Vals}
	defer func() {
		if f != nil || textFamily || len(wires) < 2 {
			return
		}
		// the whole result set as a server sends it - format, then the rows one after the other,
		// each row parsed with the package before it as its predecessor - and looked at only
		// after the last row has been parsed (what a consumer of a full package queue does)
		stream := append([]byte{}, enc.B...)
		for _, w := range wires {
			stream = append(stream, w...)
		}
		pkgs, _, err := pkggen.LibDecodeStream(stream)
		if err != nil || len(pkgs) != 1+len(wires) {
			f = vh.Failf("C04/rows-in-sequence", "format and %d rows parsed in sequence: %d packages, err %v", len(wires), len(pkgs), err)
			return
		}
		for ri, vals := range rows {
			var got []tds.FieldData
			switch b := pkgs[1+ri].(type) {
			case *tds.RowPackage:
				got = b.DataFields
			case *tds.ParamsPackage:
				got = b.DataFields
			}
			if len(got) != len(vals) {
				f = vh.Failf("C04/rows-in-sequence", "row %d of %d parsed in sequence has %d fields, sent %d", ri+1, len(rows), len(got), len(vals))
				return
			}
			for i, v := range vals {
				if err := valgen.Match(v, got[i].Value()); err != nil {
					f = vh.Failf("C04/rows-in-sequence", "row %d of %d, field %d (%s), looked at after all rows were parsed: %v", ri+1, len(rows), i, valgen.TW{T: v.T, W: v.W}, err)
					return
				}
			}
		}
		vh.Label("package-leg:rows-parsed-in-sequence")
		// ... and the same result set as it really arrives: through a channel, with what servers
		// put between rows (an informational message, an environment change) - the channel
		// takes those out, the rows keep their format and their values
		f = rowsThroughChannel(enc.B, wires, rows)
	}()
	for ri, vals := range c.More {
		for i, v := range vals {
			(*fields)[i].SetValue(valgen.ToGo(v))
		}
		_ = fmt.Sprintf("TX: %s", data)
		out := flatch.New(nil)
		if err := data.WriteTo(out); err != nil {
			return vh.Failf("C04/package-reused-write", "row %d through the same package object: writing %s failed: %v", ri+2, describe(pkgLegCase{Vals: vals}), err)
		}
		wires = append(wires, out.B)
		rows = append(rows, vals)
		if f := readBack(c, vals, out.B, fmtPkg, false, cls); f != nil {
			f.Class = "C04/package-reused"
			f.Msg = fmt.Sprintf("row %d through the same package object (%s): %s", ri+2, describe(pkgLegCase{Vals: vals}), f.Msg)
			return f
		}
		vh.Label("package-leg:package-object-reused")
	}
	return nil
}

func readBack(c pkgLegCase, vals []valgen.Val, wire []byte, fmtPkg tds.Package, textFamily bool, cls string) *vh.Failure {
	c.Vals = vals
	rch := flatch.New(wire[1:])
	back, err := pkggen.LibDecode(wire[0], fmtPkg, rch)
	if err != nil || rch.Left() != 0 {
		return vh.Failf(classOf(c)+"-package-read", "reading back %s: %v (%d bytes left)", describe(c), err, rch.Left())
	}
	_ = fmt.Sprintf("RX: %s", back) // ... and with every package received
	var got []tds.FieldData
	switch b := back.(type) {
	case *tds.RowPackage:
		got = b.DataFields
	case *tds.ParamsPackage:
		got = b.DataFields
	default:
		return vh.Failf(cls, "read back a %T", back)
	}
	if len(got) != len(c.Vals) {
		return vh.Failf(cls, "read back %d fields, sent %d", len(got), len(c.Vals))
	}
	for i, v := range c.Vals {
		if textFamily {
			if err := pkggen.CellEqual(c.Cell[i], c.Cols[i], got[i]); err != nil {
				return vh.Failf(class(v)+"-package", "field %d: %v", i, err)
			}
			continue
		}
		if err := valgen.Match(v, got[i].Value()); err != nil {
			return vh.Failf(class(v)+"-package", "field %d (%s) inside a package: %v", i, valgen.TW{T: v.T, W: v.W}, err)
		}
		vh.Label(valgen.Labels(v)...)
		if valgen.NonZero(v) {
			vh.NonTrivial("pkg:" + valgen.Key(v))
		}
	}
	return nil
}

func classOf(c pkgLegCase) string {
	if len(c.Vals) == 1 {
		return class(c.Vals[0])
	}
	return "C04/package-leg"
}

func describe(c pkgLegCase) string {
	s := ""
	for _, v := range c.Vals {
		s += fmt.Sprintf("%s(%d bytes) ", valgen.TW{T: v.T, W: v.W}, len(v.B)+len(v.S))
	}
	return s
}

func TestPackageLeg(t *testing.T) {
	gen := func(rt *rapid.T) pkgLegCase {
		tok := rapid.SampledFrom([]byte{rc.TokParamFmt, rc.TokParamFmt2, rc.TokRowFmt2, rc.TokRowFmt}).Draw(rt, "fmt")
		n := rapid.IntRange(1, 4).Draw(rt, "n")
		if rapid.Bool().Draw(rt, "single") {
			n = 1
		}
		f, cells, vals := pkggen.GenCells(rt, tok, n, false)
		// mostly plain formats (the layout of the column status byte is C06's subject); in a
		// third of the cases the columns keep the status bit the generator gave them: the values
		// (NULLs among them) travel behind a status byte each
		if rapid.IntRange(0, 2).Draw(rt, "columnstatus") != 0 {
			for i := range f.Cols {
				f.Cols[i].Status &^= rc.ColumnStatus
			}
		} else if rapid.Bool().Draw(rt, "allstatus") {
			for i := range f.Cols {
				f.Cols[i].Status |= rc.ColumnStatus
			}
		}
		c := pkgLegCase{Tok: tok, Cols: f.Cols, Vals: vals, Cell: cells}
		txt := false
		for _, col := range f.Cols {
			txt = txt || col.T == rc.TText || col.T == rc.TImage || col.T == rc.TUnitext || col.T == rc.TXML
		}
		if !txt {
			for k := rapid.IntRange(0, 2).Draw(rt, "morerows"); k > 0; k-- {
				var row []valgen.Val
				for _, col := range f.Cols {
					row = append(row, valgen.Val{V: pkggen.CellFor(rt, col).V})
				}
				c.More = append(c.More, row)
			}
		}
		if n == 1 && len(vals[0].B) < 40 && len(vals[0].S) < 40 {
			vh.Sample("package-leg", c)
		}
		return c
	}
	vh.Check(t, "TestPackageLeg", vh.N(12000, 300000), gen, runPkgLeg)
}

// ---- arbitrary instants: any time.Time of the type's range, not only ones derived from
// a tick: the value comes back to within one tick (which may be the first tick of the
// next day for the last half tick of a day)

type instantCase struct {
	T     byte  `json:"t"`
	W     int   `json:"w"`
	Day   int32 `json:"day"`
	NsDay int64 `json:"ns_of_day"`
}

func runInstant(c instantCase) (f *vh.Failure) {
	defer func() {
		if r := recover(); r != nil {
			f = vh.Failf("C04/datetime-instant-panic", "panic: %v", r)
		}
	}()
	dt := asetypes.DataType(c.T)
	y, m, d := rc.CivilFrom1900(int64(c.Day))
	orig := time.Date(y, time.Month(m), d, 0, 0, 0, 0, time.UTC).Add(time.Duration(c.NsDay))
	length := int64(8)
	tick := time.Duration(3333334)
	if c.W == 4 || c.T == rc.TShortDate {
		length, tick = 4, time.Minute
	}
	bs, err := dt.Bytes(le, orig, length)
	if err != nil {
		return vh.Failf("C04/datetime-instant", "%s: Bytes(%v): %v", dt, orig, err)
	}
	got, err := dt.GoValue(le, bs)
	if err != nil {
		return vh.Failf("C04/datetime-instant", "%s: GoValue(% x): %v", dt, bs, err)
	}
	g, ok := got.(time.Time)
	if !ok {
		return vh.Failf("C04/datetime-instant", "%s decoded as %T", dt, got)
	}
	if diff := g.Sub(orig); diff <= -tick || diff >= tick {
		cls := "C04/datetime-instant-off-by-more-than-a-tick"
		if c.Day < 0 {
			cls = "C04/datetime-before-1900-with-time-part"
		}
		return vh.Failf(cls, "%s: %v (day %d + %d ns) came back as %v: off by %v (wire % x)", dt, orig, c.Day, c.NsDay, g, diff, bs)
	}
	if c.NsDay >= 86399998334000 {
		vh.Label("instant:last-half-tick-of-the-day")
	}
	vh.NonTrivialHash(uint64(c.Day+800000)<<40 ^ uint64(c.NsDay) ^ uint64(c.T)<<60)
	return nil
}

func TestArbitraryInstants(t *testing.T) {
	gen := func(rt *rapid.T) instantCase {
		c := instantCase{T: rc.TDateTime}
		switch rapid.IntRange(0, 3).Draw(rt, "type") {
		case 1:
			c.T, c.W = rc.TDateTimeN, 8
		case 2:
			c.T = rc.TShortDate
		case 3:
			c.T, c.W = rc.TDateTimeN, 4
		}
		if c.T == rc.TShortDate || c.W == 4 {
			c.Day = int32(rapid.IntRange(0, 65534).Draw(rt, "day16"))
		} else {
			c.Day = int32(rapid.IntRange(valgen.MinDay1900, valgen.MaxDay1900-1).Draw(rt, "day"))
		}
		switch rapid.IntRange(0, 3).Draw(rt, "nsclass") {
		case 0:
			c.NsDay = rapid.SampledFrom([]int64{86399999000000, 86399998334000, 86399998333000, 86399999999999, 86399996667000, 0, 1, 999999, 1666666, 1666667, 43200000000000}).Draw(rt, "nsb")
		case 1:
			c.NsDay = int64(rapid.IntRange(0, 86399999).Draw(rt, "ms")) * 1000000
		default:
			c.NsDay = rapid.Int64Range(0, 86399999999999).Draw(rt, "ns")
		}
		if c.T == rc.TShortDate || c.W == 4 {
			// minutes: the library truncates the seconds; stay clear of the last minute of day 65535
			c.NsDay = c.NsDay / 1000000000 * 1000000000
		}
		return c
	}
	vh.Check(t, "TestArbitraryInstants", vh.N(40000, 800000), gen, runInstant)
}

// ---- several goroutines converting at the same time

func TestConcurrentRoundTrips(t *testing.T) {
	gen := func(rt *rapid.T) []valCase {
		n := rapid.IntRange(2, 8).Draw(rt, "goroutines")
		var cs []valCase
		tw := valgen.GenTW(rt)
		oneType := rapid.Bool().Draw(rt, "onetype")
		for i := 0; i < n; i++ {
			if !oneType {
				tw = valgen.GenTW(rt)
			}
			v := valgen.Gen(rt, tw)
			if len(v.S) > 200 {
				v = valgen.GenFor(rt, tw, v.Prec, v.Scal, 200)
			}
			if len(v.B) > 200 {
				v.B = v.B[:200]
			}
			cs = append(cs, valCase{V: v})
		}
		return cs
	}
	run := func(cs []valCase) *vh.Failure {
		f := vh.Together(cs, func(c valCase) *vh.Failure {
			for k := 0; k < 20; k++ {
				if f := roundTrip(c.V); f != nil {
					return f
				}
			}
			return nil
		})
		if f == nil {
			vh.Label("concurrent-round-trips")
		}
		return f
	}
	vh.Check(t, "TestConcurrentRoundTrips", vh.N(1500, 30000), gen, run)
}

func rowsThroughChannel(format []byte, wires [][]byte, rows [][]valgen.Val) (f *vh.Failure) {
	defer func() {
		if r := recover(); r != nil {
			vh.CheckHarnessPanic(r)
			f = vh.Failf("C04/rows-through-channel", "panic: %v", r)
		}
	}()
	info, _, _, err := rc.EncodeStream([]rc.P{{EED: &rc.EED{MsgNumber: 5701, Class: 10, Status: rc.EEDInfo, Msg: "Changed database context.", Server: "ASE"}}})
	if err != nil {
		vh.HarnessBug("encode: %v", err)
	}
	env, _, _, err := rc.EncodeStream([]rc.P{{Env: &rc.EnvChange{Members: []rc.EnvMember{{Type: rc.EnvDB, New: "db1", Old: "master"}}}}})
	if err != nil {
		vh.HarnessBug("encode: %v", err)
	}
	stream := append([]byte{}, format...)
	for i, w := range wires {
		if i > 0 {
			if i%2 == 1 {
				stream = append(stream, info...)
			} else {
				stream = append(stream, env...)
			}
		}
		stream = append(stream, w...)
	}
	stream = append(stream, rc.TokDone, 0, 0, 0, 0, 0, 0, 0, 0)
	ctx, cancel := context.WithCancel(context.Background())
	defer cancel()
	conn, _, err := tds.VerifNewConn(ctx, peer.NewPipe(), &tds.Info{ChannelPackageQueueSize: 100}, false)
	if err != nil {
		vh.HarnessBug("VerifNewConn: %v", err)
	}
	ch, err := conn.NewChannel()
	if err != nil {
		vh.HarnessBug("NewChannel: %v", err)
	}
	for at := 0; at < len(stream); at += 60000 {
		end, st := at+60000, tds.PacketHeaderStatus(0)
		if end >= len(stream) {
			end, st = len(stream), tds.TDS_BUFSTAT_EOM
		}
		ch.WritePacket(&tds.Packet{Header: tds.PacketHeader{MsgType: tds.TDS_BUF_RESPONSE, Status: st, Length: uint16(8 + end - at)}, Data: append([]byte{}, stream[at:end]...)})
	}
	var got []tds.Package
	for {
		p, err := ch.NextPackage(ctx, false)
		if err != nil {
			break
		}
		got = append(got, p)
	}
	if e := ch.VerifChanErr(); e != nil {
		return vh.Failf("C04/rows-through-channel", "format, %d rows with an informational message / environment change between them, DONE: the channel reports %v", len(rows), e)
	}
	if len(got) != 2+len(rows) {
		return vh.Failf("C04/rows-through-channel", "format, %d rows with an informational message / environment change between them, DONE: %d packages delivered", len(rows), len(got))
	}
	for ri, vals := range rows {
		var fields []tds.FieldData
		switch b := got[1+ri].(type) {
		case *tds.RowPackage:
			fields = b.DataFields
		case *tds.ParamsPackage:
			fields = b.DataFields
		default:
			return vh.Failf("C04/rows-through-channel", "package %d delivered by the channel is a %T", 1+ri, got[1+ri])
		}
		if len(fields) != len(vals) {
			return vh.Failf("C04/rows-through-channel", "row %d delivered by the channel has %d fields, sent %d", ri+1, len(fields), len(vals))
		}
		for i, v := range vals {
			if err := valgen.Match(v, fields[i].Value()); err != nil {
				return vh.Failf("C04/rows-through-channel", "row %d of %d (behind an informational message / environment change), field %d (%s): %v", ri+1, len(rows), i, valgen.TW{T: v.T, W: v.W}, err)
			}
		}
	}
	vh.Label("package-leg:rows-through-a-channel-with-messages-between")
	return nil
}
