package c10

import (
	"bytes"
	"context"
	"crypto/ecdsa"
	"crypto/ed25519"
	"crypto/elliptic"
	"crypto/rsa"
	"crypto/x509"
	"encoding/pem"
	"fmt"
	"math/big"
	"strconv"
	"testing"
	"time"

	"github.com/SAP/go-dblib/tds"
	"pgregory.net/rapid"
	"verif/internal/loginpeer"
	"verif/internal/peer"
	"verif/internal/pkggen"
	rc "verif/internal/refcodec"
	"verif/internal/respgen"
	"verif/internal/vh"
)

// ---- a legal packet size change in the middle of a response: packets already on their way
// are larger than the new size, packages continue in the following smaller packets

type shrinkCase struct {
	NewSize int    `json:"new_packet_size"`
	Pkgs    []rc.P `json:"pkgs"`
	Cuts    []int  `json:"cuts"`
}

func runShrink(c shrinkCase) (f *vh.Failure) {
	defer func() {
		if r := recover(); r != nil {
			vh.CheckHarnessPanic(r)
			f = vh.Failf("C10/panic-after-packet-size-lowered", "server lowers the packet size to %d inside a %d-packet response, cuts %v: panic: %v", c.NewSize, len(c.Cuts)+1, c.Cuts, r)
		}
	}()
	ctx, cancel := context.WithCancel(context.Background())
	defer cancel()
	conn, _, err := tds.VerifNewConn(ctx, peer.NewPipe(), &tds.Info{ChannelPackageQueueSize: 100000}, false)
	if err != nil {
		vh.HarnessBug("VerifNewConn: %v", err)
	}
	ch, err := conn.NewChannel()
	if err != nil {
		vh.HarnessBug("NewChannel: %v", err)
	}
	stream, _, _, err := rc.EncodeStream(c.Pkgs)
	if err != nil {
		vh.HarnessBug("encode: %v", err)
	}
	n := 0
	for _, p := range rc.Packetise(stream, c.Cuts, rc.BufResponse, 0) {
		ch.WritePacket(&tds.Packet{Header: tds.PacketHeader{MsgType: tds.TDS_BUF_RESPONSE, Status: tds.PacketHeaderStatus(p.Status), Length: uint16(8 + len(p.Body))}, Data: p.Body})
		for {
			if _, err := ch.NextPackage(ctx, false); err != nil {
				break
			}
			n++
		}
		for ch.VerifChanErr() != nil {
		}
	}
	model, _ := respgen.Deliver(c.Pkgs)
	if n != len(model) {
		return vh.Failf("C10/delivery-after-packet-size-lowered", "packet size lowered to %d, cuts %v: %d packages delivered, the response has %d", c.NewSize, c.Cuts, n, len(model))
	}
	if err := ch.SendPackage(ctx, &tds.LanguagePackage{Cmd: "x"}); err != nil {
		return vh.Failf("C10/send-after-packet-size-lowered", "SendPackage after the response: %v", err)
	}
	vh.Label("packet-size-lowered-mid-response")
	vh.NonTrivial(fmt.Sprintf("%d|%v|%x", c.NewSize, c.Cuts, stream))
	return nil
}

func TestPacketSizeLoweredMidResponse(t *testing.T) {
	gen := func(rt *rapid.T) shrinkCase {
		c := shrinkCase{NewSize: rapid.SampledFrom([]int{9, 10, 16, 24, 32, 64, 100, 128, 256, 300}).Draw(rt, "newsize")}
		env := rc.P{Env: &rc.EnvChange{Members: []rc.EnvMember{{Type: rc.EnvPackSize, New: strconv.Itoa(c.NewSize), Old: "512"}}}}
		ctx := &pkggen.Ctx{Small: true}
		f, row, _ := pkggen.GenWithFormat(rt, rapid.SampledFrom([]string{"rowfmt", "rowfmt2"}).Draw(rt, "fmt"), ctx)
		c.Pkgs = []rc.P{env, f, row, pkggen.Gen(rt, "eed", ctx), {Done: &rc.Done{Tok: rc.TokDone, Status: rc.DoneCount, Count: 1}}}
		stream, offs, _, _ := rc.EncodeStream(c.Pkgs)
		// first packet: the ENVCHANGE, complete, plus the beginning of what follows (still sent
		// with the old size); afterwards bodies of at most NewSize-8 bytes
		first := offs[1] + rapid.IntRange(1, len(stream)-offs[1]-1).Draw(rt, "firstcut")
		if first > 504 {
			first = 504
		}
		c.Cuts = []int{first}
		body := c.NewSize - 8
		for at := first; at < len(stream); {
			at += rapid.IntRange(1, body).Draw(rt, "bodylen")
			if at < len(stream) {
				c.Cuts = append(c.Cuts, at)
			}
		}
		return c
	}
	vh.Check(t, "TestPacketSizeLoweredMidResponse", vh.N(3000, 80000), gen, runShrink)
}

// ---- the login negotiation: key and nonce parameters are server input too

type hostileLoginCase struct {
	Key   []byte `json:"key_param"`
	Nonce []byte `json:"nonce_param"`
}

func runHostileLogin(c hostileLoginCase) *vh.Failure {
	ack := func(st uint8) rc.P {
		return rc.P{LoginAck: &rc.LoginAck{Status: st, Version: [4]byte{5, 0, 0, 0}, Name: "ASE", ProgVer: [4]byte{16, 0, 0, 0}}}
	}
	done := rc.P{Done: &rc.Done{Tok: rc.TokDone}}
	f := rc.Fmt{Tok: rc.TokParamFmt, Cols: []rc.Col{{Name: "c", T: rc.TInt4}, {Name: "k", T: rc.TLongBinary, MaxLen: 2147483647}, {Name: "n", T: rc.TLongBinary, MaxLen: 2147483647}}}
	row := rc.Row{Tok: rc.TokParams, Cells: []rc.Cell{{V: rc.V{T: rc.TInt4, I: 1}}, {V: rc.V{T: rc.TLongBinary, B: c.Key, Null: len(c.Key) == 0}}, {V: rc.V{T: rc.TLongBinary, B: c.Nonce, Null: len(c.Nonce) == 0}}}}
	s := loginpeer.Script{R1: []rc.P{ack(rc.LogNegotiate), {Msg: &rc.Msg{Status: 1, ID: rc.MsgSecEncrypt4}}, {Fmt: &f}, {Row: &row}, done},
		R2: []rc.P{ack(rc.LogSucceed), done}}
	res := loginpeer.Run(loginpeer.Config{User: "sa", Password: "secret", Host: "h", App: "a", Server: "s"}, s, time.Second)
	if res.Panic != nil {
		return vh.Failf("C10/panic-login-key-parameter", "Login panicked for the server's key parameter %q (nonce %d bytes): %v", clipb(c.Key), len(c.Nonce), res.Panic)
	}
	if res.TimedOut {
		return vh.Failf("C10/hang-login-key-parameter", "Login did not return for the key parameter %q", clipb(c.Key))
	}
	vh.Label("login:hostile-key")
	vh.NonTrivial(fmt.Sprintf("%x|%x", c.Key, c.Nonce))
	return nil
}

func clipb(b []byte) string {
	if len(b) > 60 {
		return string(b[:60]) + "…"
	}
	return string(b)
}

func TestLoginHostileKey(t *testing.T) {
	valid := []byte(loginpeer.PoolKey(1024, 0).PubPEM)
	consts := [][]byte{{}, []byte("\n"), []byte(" "), []byte("\r\n\r\n"), []byte("\x00"), []byte("-----BEGIN RSA PUBLIC KEY-----\n"), []byte("-----BEGIN RSA PUBLIC KEY-----\n-----END RSA PUBLIC KEY-----\n"),
		[]byte("-----BEGIN RSA PUBLIC KEY-----\nAAAA\n-----END RSA PUBLIC KEY-----\n"), append(append([]byte{}, valid...), '\n'), append([]byte("\n"), valid...), valid[:len(valid)/2]}
	consts = append(consts, wellFormedForeignKeys()...)
	e := vh.NewEnum(t, "TestLoginHostileKeyConstants", runHostileLogin)
	if !e.Skip() {
		for _, k := range consts {
			e.Do(hostileLoginCase{Key: k, Nonce: []byte("nonce")})
		}
		e.Done("hostile key constants")
	}
	gen := func(rt *rapid.T) hostileLoginCase {
		var k []byte
		switch rapid.IntRange(0, 4).Draw(rt, "keyclass") {
		case 4:
			fk := wellFormedForeignKeys()
			k = append([]byte{}, fk[rapid.IntRange(0, len(fk)-1).Draw(rt, "foreign")]...)
		case 0:
			k = rapid.SliceOfN(rapid.SampledFrom([]byte(" \n\r\t-ABEGINDRSPUCKY=/+0")), 0, 80).Draw(rt, "keychars")
		case 1:
			k = append([]byte{}, valid...)
			for i := 0; i < rapid.IntRange(1, 4).Draw(rt, "flips"); i++ {
				k[rapid.IntRange(0, len(k)-1).Draw(rt, "pos")] = rapid.Byte().Draw(rt, "b")
			}
		case 2:
			k = valid[:rapid.IntRange(0, len(valid)).Draw(rt, "trunc")]
		default:
			k = rapid.SliceOfN(rapid.Byte(), 0, 300).Draw(rt, "keybytes")
		}
		return hostileLoginCase{Key: k, Nonce: rapid.SliceOfN(rapid.Byte(), 0, 200).Draw(rt, "nonce")}
	}
	vh.Check(t, "TestLoginHostileKey", vh.N(300, 8000), gen, runHostileLogin)
}

// ---- the capabilities the server sends back with the login acknowledgement are server input
// as well: any type bytes, any mask lengths, types repeated, in the first or the last response
// of an otherwise valid encrypted login

type hostileCapsCase struct {
	Masks []rc.CapMask `json:"capability_masks"`
	First bool         `json:"also_in_first_response"`
	Twice bool         `json:"token_sent_twice"`
}

func runHostileCaps(c hostileCapsCase) *vh.Failure {
	ack := func(st uint8) rc.P {
		return rc.P{LoginAck: &rc.LoginAck{Status: st, Version: [4]byte{5, 0, 0, 0}, Name: "ASE", ProgVer: [4]byte{16, 0, 0, 0}}}
	}
	done := rc.P{Done: &rc.Done{Tok: rc.TokDone}}
	key := loginpeer.PoolKey(1024, 0)
	f := rc.Fmt{Tok: rc.TokParamFmt, Cols: []rc.Col{{Name: "c", T: rc.TInt4}, {Name: "k", T: rc.TLongBinary, MaxLen: 2147483647}, {Name: "n", T: rc.TLongBinary, MaxLen: 2147483647}}}
	row := rc.Row{Tok: rc.TokParams, Cells: []rc.Cell{{V: rc.V{T: rc.TInt4, I: 1}}, {V: rc.V{T: rc.TLongBinary, B: []byte(key.PubPEM)}}, {V: rc.V{T: rc.TLongBinary, B: []byte("nonce-nonce")}}}}
	caps := rc.P{Cap: &rc.Capability{Masks: c.Masks}}
	s := loginpeer.Script{R1: []rc.P{ack(rc.LogNegotiate), {Msg: &rc.Msg{Status: 1, ID: rc.MsgSecEncrypt4}}, {Fmt: &f}, {Row: &row}, done}}
	if c.First {
		s.R1 = []rc.P{ack(rc.LogNegotiate), caps, {Msg: &rc.Msg{Status: 1, ID: rc.MsgSecEncrypt4}}, {Fmt: &f}, {Row: &row}, done}
	}
	s.R2 = []rc.P{ack(rc.LogSucceed), caps, done}
	if c.Twice {
		s.R2 = []rc.P{ack(rc.LogSucceed), caps, caps, done}
	}
	res := loginpeer.RunPatient(loginpeer.Config{User: "sa", Password: "secret", Host: "h", App: "a", Server: "s"}, s, 2*time.Second)
	how := fmt.Sprintf("valid encrypted login answered with the capabilities %s (also in the first response: %v, token twice: %v)", capsText(c.Masks), c.First, c.Twice)
	if res.Panic != nil {
		return vh.Failf("C10/panic-login-capabilities", "%s: Login panicked: %v", how, res.Panic)
	}
	if res.TimedOut {
		return vh.Failf("C10/hang-login-capabilities", "%s: Login did not return", how)
	}
	if !res.GotMsg2 && !c.First {
		vh.HarnessBug("%s: the login did not get as far as the second message: %v", how, res.Err)
	}
	if res.Err == nil {
		vh.Label("login:hostile-capabilities-accepted")
	} else {
		vh.Label("login:hostile-capabilities-rejected")
	}
	vh.NonTrivial(fmt.Sprintf("caps|%s|%v|%v", capsText(c.Masks), c.First, c.Twice))
	return nil
}

func capsText(ms []rc.CapMask) string {
	s := ""
	for _, m := range ms {
		s += fmt.Sprintf("[type %d mask %x]", m.Type, m.Mask)
	}
	if s == "" {
		return "(none)"
	}
	return s
}

func TestLoginHostileCapabilities(t *testing.T) {
	gen := func(rt *rapid.T) hostileCapsCase {
		var c hostileCapsCase
		n := rapid.IntRange(0, 5).Draw(rt, "masks")
		for i := 0; i < n; i++ {
			m := rc.CapMask{Type: uint8(rapid.OneOf(rapid.IntRange(0, 4), rapid.IntRange(0, 255)).Draw(rt, "type"))}
			m.Mask = rapid.SliceOfN(rapid.Byte(), 0, rapid.SampledFrom([]int{0, 1, 2, 14, 16, 40}).Draw(rt, "masklen")).Draw(rt, "mask")
			c.Masks = append(c.Masks, m)
		}
		c.First = rapid.IntRange(0, 3).Draw(rt, "first") == 0
		c.Twice = rapid.IntRange(0, 3).Draw(rt, "twice") == 0
		return c
	}
	vh.Check(t, "TestLoginHostileCapabilities", vh.N(400, 10000), gen, runHostileCaps)
}

// wellFormedForeignKeys: PEM blocks that are perfectly valid public keys - of other algorithms,
// in other encodings, under other block types - but not what the negotiation prescribes (a
// PKCS#1 RSA public key). Deterministic key material, so that cases replay.
func wellFormedForeignKeys() [][]byte {
	var out [][]byte
	pemOf := func(typ string, der []byte) []byte { return pem.EncodeToMemory(&pem.Block{Type: typ, Bytes: der}) }
	seed := bytes.Repeat([]byte{7}, 64)
	edPriv := ed25519.NewKeyFromSeed(seed[:32])
	if der, err := x509.MarshalPKIXPublicKey(edPriv.Public()); err == nil {
		out = append(out, pemOf("PUBLIC KEY", der), pemOf("RSA PUBLIC KEY", der))
	}
	for _, curve := range []elliptic.Curve{elliptic.P256(), elliptic.P384()} {
		if k, err := ecdsa.GenerateKey(curve, bytes.NewReader(bytes.Repeat(seed, 8))); err == nil {
			if der, err := x509.MarshalPKIXPublicKey(&k.PublicKey); err == nil {
				out = append(out, pemOf("PUBLIC KEY", der), pemOf("RSA PUBLIC KEY", der))
			}
		}
	}
	if priv, err := loginpeer.PoolKey(1024, 0).Private(); err == nil {
		if der, err := x509.MarshalPKIXPublicKey(&priv.PublicKey); err == nil {
			out = append(out, pemOf("PUBLIC KEY", der), pemOf("RSA PUBLIC KEY", der))
		}
		out = append(out, pemOf("PUBLIC KEY", x509.MarshalPKCS1PublicKey(&priv.PublicKey)), pemOf("CERTIFICATE", x509.MarshalPKCS1PublicKey(&priv.PublicKey)),
			pemOf("RSA PRIVATE KEY", x509.MarshalPKCS1PrivateKey(priv)))
		// an RSA key whose public exponent or modulus is degenerate
		out = append(out, pemOf("RSA PUBLIC KEY", x509.MarshalPKCS1PublicKey(&rsa.PublicKey{N: big.NewInt(1), E: 3})),
			pemOf("RSA PUBLIC KEY", x509.MarshalPKCS1PublicKey(&rsa.PublicKey{N: priv.N, E: 1})))
	}
	return out
}
