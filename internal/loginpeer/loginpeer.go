// Package loginpeer is the scripted server side of Channel.Login: it answers the
// client's login messages with generated reply scripts, captures everything the
// client writes and (for the encrypted flow) owns the RSA private key.
package loginpeer

import (
	"errors"
	"context"
	"crypto/rand"
	"crypto/rsa"
	"crypto/sha1"
	"crypto/x509"
	"encoding/pem"
	"fmt"
	"sync"
	"time"

	"github.com/SAP/go-dblib/dsn"
	"github.com/SAP/go-dblib/tds"
	"verif/internal/peer"
	rc "verif/internal/refcodec"
)

// Key is a server key pair; both halves are stored as PEM so a case is replayable.
type Key struct {
	Bits    int    `json:"bits"`
	PrivPEM string `json:"priv_pem"`
	PubPEM  string `json:"pub_pem"` // PKCS#1 "RSA PUBLIC KEY", what the server sends
}

var (
	poolMu sync.Mutex
	pool   = map[int][]Key{}
)

// PoolKey returns the i-th pooled key of the given size (generated on first use;
// key generation is not reproducible by seed, the case stores the PEM).
func PoolKey(bits, i int) Key {
	poolMu.Lock()
	defer poolMu.Unlock()
	for len(pool[bits]) <= i%2 {
		k, err := rsa.GenerateKey(rand.Reader, bits)
		if err != nil {
			panic("loginpeer: " + err.Error())
		}
		priv := pem.EncodeToMemory(&pem.Block{Type: "RSA PRIVATE KEY", Bytes: x509.MarshalPKCS1PrivateKey(k)})
		pub := pem.EncodeToMemory(&pem.Block{Type: "RSA PUBLIC KEY", Bytes: x509.MarshalPKCS1PublicKey(&k.PublicKey)})
		pool[bits] = append(pool[bits], Key{Bits: bits, PrivPEM: string(priv), PubPEM: string(pub)})
	}
	return pool[bits][i%2]
}

// Private parses the private half.
func (k Key) Private() (*rsa.PrivateKey, error) {
	b, _ := pem.Decode([]byte(k.PrivPEM))
	if b == nil {
		return nil, fmt.Errorf("loginpeer: no PEM block in private key")
	}
	return x509.ParsePKCS1PrivateKey(b.Bytes)
}

// Decrypt undoes RSA-OAEP/SHA-1 with an empty label.
func (k Key) Decrypt(ct []byte) ([]byte, error) {
	priv, err := k.Private()
	if err != nil {
		return nil, err
	}
	return rsa.DecryptOAEP(sha1.New(), nil, priv, ct, []byte{})
}

// Capacity is the largest plaintext (nonce + secret) the key can carry with OAEP/SHA-1.
func (k Key) Capacity() int { return k.Bits/8 - 2*sha1.Size - 2 }

// Config describes the client side.
type Config struct {
	User     string      `json:"user"`
	Password string      `json:"password"`
	Host     string      `json:"host"`
	App      string      `json:"app"`
	Server   string      `json:"server"`
	Plain    bool        `json:"plain"`
	Remotes  [][2]string `json:"remotes,omitempty"` // name, password
	// RemoteList, if not nil, is handed to LoginConfig.RemoteServers as it is (instead of a
	// list built from Remotes): a caller configuring several logins from one shared slice
	RemoteList []tds.LoginConfigRemoteServer `json:"-"`
	// QueueSize is Info.ChannelPackageQueueSize: 0 = 1000 (roomy), -1 = 0 (unbuffered), n = n
	QueueSize int `json:"package_queue_size,omitempty"`
	// TLS: the connection description says the transport is TLS (Info.TLSEnable, validation
	// skipped; the scripted transport itself is what it is); DebugLog: Info.DebugLogPackages
	TLS      bool `json:"tls_enable,omitempty"`
	DebugLog bool `json:"debug_log_packages,omitempty"`
	// ReuseConf: the login uses the *LoginConfig object of the session's previous login (its
	// members set to this login's values) instead of a fresh one - an application that keeps
	// its configuration and logs in again
	ReuseConf bool `json:"login_config_object_reused,omitempty"`
}

// Script is what the server answers.
type Script struct {
	R1    []rc.P `json:"r1"`
	R2    []rc.P `json:"r2,omitempty"`
	Cuts1 []int  `json:"cuts1,omitempty"`
	Cuts2 []int  `json:"cuts2,omitempty"`
	// Stall1/Stall2: the response is sent without its last packet (no EOM): the peer
	// goes silent in the middle of the response.
	Stall1 bool `json:"stall1,omitempty"`
	Stall2 bool `json:"stall2,omitempty"`
}

// Result is what happened.
type Result struct {
	Err      error
	Panic    interface{}
	Elapsed  time.Duration
	TimedOut bool // Login did not return within the watchdog
	Msg1     []rc.Packet
	Msg2     []rc.Packet
	Written  []byte
	Conn     *tds.Conn
	GotMsg2  bool
	ChanErrs []string
}

func encodeResponse(ps []rc.P, cuts []int, stall bool) ([]byte, error) {
	stream, _, _, err := rc.EncodeStream(ps)
	if err != nil {
		return nil, err
	}
	var valid []int
	for _, c := range cuts {
		if c > 0 && c < len(stream) && (len(valid) == 0 || c > valid[len(valid)-1]) {
			valid = append(valid, c)
		}
	}
	packets := rc.Packetise(stream, valid, rc.BufResponse, 0)
	if stall {
		if len(packets) > 1 {
			packets = packets[:len(packets)-1]
		} else {
			packets[0].Status = 0 // complete bytes but no EOM: the message never ends
		}
	}
	var out []byte
	for _, p := range packets {
		out = append(out, p.Bytes()...)
	}
	return out, nil
}

// Session is one connection over a scripted transport on which logins are performed.
type Session struct {
	pipe     *peer.Pipe
	conn     *tds.Conn
	ch       *tds.Channel
	done     <-chan struct{}
	cancelBg context.CancelFunc
	bg       context.Context
	info     *tds.Info
	conf     *tds.LoginConfig // of the previous login
}

// NewSession sets the connection up (host names are taken from cfg).
func NewSession(cfg Config) *Session {
	s := &Session{pipe: peer.NewPipe()}
	s.bg, s.cancelBg = context.WithCancel(context.Background())
	s.info = &tds.Info{Info: dsn.Info{Host: cfg.Server, Port: "5000", Username: cfg.User, Password: cfg.Password}, ClientHostname: cfg.Host,
		ChannelPackageQueueSize: 1000, PacketReadTimeout: 5}
	switch {
	case cfg.QueueSize < 0:
		s.info.ChannelPackageQueueSize = 0
	case cfg.QueueSize > 0:
		s.info.ChannelPackageQueueSize = cfg.QueueSize
	}
	s.info.TLSEnable, s.info.TLSSkipValidation, s.info.DebugLogPackages = cfg.TLS, cfg.TLS, cfg.DebugLog
	if s.info.Host == "" {
		s.info.Host = "srv"
	}
	if s.info.ClientHostname == "" {
		s.info.ClientHostname = "client"
	}
	conn, done, err := tds.VerifNewConn(s.bg, s.pipe, s.info, true)
	if err != nil {
		panic("loginpeer: VerifNewConn: " + err.Error())
	}
	s.conn, s.done = conn, done
	ch, err := conn.NewChannel()
	if err != nil {
		panic("loginpeer: NewChannel: " + err.Error())
	}
	s.ch = ch
	return s
}

// Close ends the connection and waits (bounded) for the reader.
func (s *Session) Close() {
	s.cancelBg()
	s.pipe.Close()
	// a reader parked on a full package queue only wakes up when its channel is closed
	go func() {
		defer func() { recover() }()
		s.conn.Close()
	}()
	deadline := time.After(3 * time.Second)
	for {
		select {
		case <-s.done:
			return
		case <-deadline:
			return
		default:
			s.conn.VerifConnErr()
			time.Sleep(200 * time.Microsecond)
		}
	}
}

// Run performs one login against the script. ctxTimeout bounds the caller's context;
// the watchdog is ctxTimeout + 3 s.
func Run(cfg Config, s Script, ctxTimeout time.Duration) (res Result) {
	sess := NewSession(cfg)
	defer sess.Close()
	return sess.Login(cfg, s, ctxTimeout)
}

// Patient reports whether a failed login should be repeated with a long deadline before it is
// judged: the login was expected to succeed and failed with nothing but the caller's deadline
// (a machine busy with other work, not the library).
func Patient(res Result) bool {
	return res.Panic == nil && !res.TimedOut && res.Err != nil && errors.Is(res.Err, context.DeadlineExceeded)
}

// RunPatient is Run for logins that are expected to succeed: a failure by deadline alone is
// repeated once with ten times the deadline.
func RunPatient(cfg Config, s Script, ctxTimeout time.Duration) Result {
	res := Run(cfg, s, ctxTimeout)
	if Patient(res) {
		res = Run(cfg, s, 10*ctxTimeout)
	}
	return res
}

// Login performs one login over the session's connection (a fresh LoginConfig each time).
func (sess *Session) Login(cfg Config, s Script, ctxTimeout time.Duration) (res Result) {
	pipe, conn, ch, bg := sess.pipe, sess.conn, sess.ch, sess.bg
	res.Conn = conn
	off0 := pipe.WrittenLen()
	info := *sess.info
	info.Info.Username, info.Info.Password = cfg.User, cfg.Password
	info.TLSEnable, info.TLSSkipValidation = cfg.TLS, cfg.TLS
	conf, err := tds.NewLoginConfig(&info)
	if err != nil {
		res.Err = err
		return res
	}
	if cfg.ReuseConf && sess.conf != nil {
		fresh := conf
		conf = sess.conf
		conf.DSN, conf.Hostname, conf.AppName, conf.Encrypt, conf.RemoteServers = fresh.DSN, fresh.Hostname, fresh.AppName, fresh.Encrypt, nil
	}
	sess.conf = conf
	if cfg.App != "" {
		conf.AppName = cfg.App
	}
	if cfg.Plain {
		conf.Encrypt = 0
	}
	for _, r := range cfg.Remotes {
		conf.RemoteServers = append(conf.RemoteServers, tds.LoginConfigRemoteServer{Name: r[0], Password: r[1]})
	}
	if cfg.RemoteList != nil {
		conf.RemoteServers = cfg.RemoteList
	}
	ctx, cancel := context.WithTimeout(bg, ctxTimeout)
	defer cancel()
	type out struct {
		err error
		pan interface{}
	}
	loginDone := make(chan out, 1)
	start := time.Now()
	go func() {
		var o out
		defer func() {
			if r := recover(); r != nil {
				o.pan = r
			}
			loginDone <- o
		}()
		o.err = ch.Login(ctx, conf)
	}()
	finish := func(o out) Result {
		res.Err, res.Panic, res.Elapsed = o.err, o.pan, time.Since(start)
		res.Written = pipe.Written()[off0:]
		for {
			e := ch.VerifChanErr()
			if e == nil {
				break
			}
			res.ChanErrs = append(res.ChanErrs, e.Error())
		}
		return res
	}
	watchdog := time.After(ctxTimeout + 3*time.Second)
	// phase 1
	var off int
	for res.Msg1 == nil {
		select {
		case o := <-loginDone:
			return finish(o)
		case <-watchdog:
			res.TimedOut = true
			res.Written = pipe.Written()[off0:]
			return res
		default:
		}
		ps, n, err := pipe.WaitMessage(off0, 20*time.Millisecond)
		if err == nil {
			res.Msg1, off = ps, n
		}
	}
	b1, err := encodeResponse(s.R1, s.Cuts1, s.Stall1)
	if err != nil {
		panic("loginpeer: " + err.Error())
	}
	pipe.Feed(b1)
	// phase 2 (if the client gets that far)
	fed2 := false
	for {
		select {
		case o := <-loginDone:
			return finish(o)
		case <-watchdog:
			res.TimedOut = true
			res.Written = pipe.Written()[off0:]
			return res
		default:
		}
		if !fed2 {
			ps, _, err := pipe.WaitMessage(off, 5*time.Millisecond)
			if err == nil {
				res.Msg2, res.GotMsg2 = ps, true
				fed2 = true
				if len(s.R2) > 0 {
					b2, err := encodeResponse(s.R2, s.Cuts2, s.Stall2)
					if err != nil {
						panic("loginpeer: " + err.Error())
					}
					pipe.Feed(b2)
				}
			}
		} else {
			time.Sleep(200 * time.Microsecond)
		}
	}
}

// Body concatenates the bodies of a message's packets.
func Body(ps []rc.Packet) []byte {
	var b []byte
	for _, p := range ps {
		b = append(b, p.Body...)
	}
	return b
}
