// C19 — a version has a capability exactly inside the capability's ranges.
//
// Code under test: capability.Target.Version / SetCapabilities, Version.Has,
// capability.NewCapability (pairing of bounds), VersionCompareSemantic.
//
// Oracle: an own strict semantic-version parser and precedence (this file, no regexp, no
// go-version); Has(cap) <=> exists range: (lo == "" or lo <= v) and (hi == "" or v < hi).
// The oracle never looks at the order of ranges or capabilities, every arrangement of a
// case is judged against the same expectation.
//
// What "evaluated" means for malformed input (inverted / zero-width range, unparsable
// bound, unparsable version). The statement only demands an error *when the malformed thing
// is evaluated*; target.go scans the ranges of a capability in list order, validates a
// range immediately before testing it and stops at the first containing range, so a
// malformed range behind a containing one is never looked at. The check therefore demands
//   - an error, when a capability holds a malformed range and none of its well-formed
//     ranges contains the version (every scan order has to visit the malformed range), or
//     when the version is unparsable and some range has a bound to compare it with;
//   - an error, when the (wrapped) comparer was seen returning an error during the call;
//   - otherwise (a well-formed range of the same capability contains the version, so a
//     scan may legitimately stop before the malformed range): either an error or exactly
//     the answer computed from the well-formed ranges.
package c19

import (
	"fmt"
	"strconv"
	"strings"
	"testing"

	"github.com/SAP/go-dblib/capability"
	"pgregory.net/rapid"
	"verif/internal/vh"
)

func TestMain(m *testing.M) {
	vh.Rule("grid: {0..3}.{0..3}.{0..3} x pre-release {none,-alpha,-beta,-rc.1,-rc.2,-rc.10,-Beta,-RC.1} (numeric identifiers of different digit counts order numerically, upper case before lower case) x build {none,+b1} = 3072 strings. " +
		"EXHAUSTIVE: (a) every single range (lower, upper in release-only grid or empty, 65x65) x every release-only version (64), default comparer, incl. all inverted and zero-width ranges; " +
		"(b) the same over a pre-release/build sub-grid (4 cores quick, 8 thorough x 6 x 2); (c) single ranges over integers 0..15 + junk with the custom integer comparer; " +
		"(d) every pair of ranges over 5 bounds + empty + junk x 8 versions (default comparer, nil and explicit), every triple of ranges and every pair of capabilities with 0..2 ranges over small integer bound sets; " +
		"RAPID: targets of 1..4 capabilities with 0..4 ranges, bounds and version drawn from a small per-case pool of grid versions (so that equal and neighbouring values are frequent) or the whole grid, " +
		"40% of the cases with injected inverted / zero-width ranges, unparsable bounds, unparsable versions; comparer nil (default), explicit default, custom integer; capabilities built as literals or through NewCapability (paired, odd tail). " +
		"Every case is executed in the given order, under every permutation of the ranges of each capability, under every permutation of the capabilities and fully reversed; each execution counts as one evaluation. " +
		"Non-trivial: the version is precedence-equal to a bound of some range, or lies in a gap between two ranges of one capability (in none, one ends at or below it, one starts above it); distinct by (comparer, capabilities, version)")
	vh.Assume("own semver parser/precedence (numeric core fields, pre-release < release, identifiers numeric<alphanumeric, numeric numerically, alphanumeric in ASCII order, shorter prefix lower, build ignored) is the reference. " +
		"hashicorp/go-version v1.7.0 (the default comparer) deviates from semver for other shapes, which are therefore NOT generated: a pre-release that is a dotted prefix of the other one followed by an alphanumeric identifier (go-version: alpha > alpha.beta), " +
		"fewer/more than three core segments (padded/jagged comparison), 'v' prefix, leading zeros, pre-release without dash (1.0.0rc1), '~' and trailing '-' identifiers. On the generated shapes (identifiers alpha, beta, rc.1, rc.2, rc.10, Beta, RC.1) the two agree by documentation; TestComparerAgreesWithOracleOnGrid re-checks it. " +
		"Unparsable strings are a fixed junk list rejected by both the oracle parser and the comparer (TestJunkIsRejected). The custom integer comparer is strconv.Atoi based and trusted. " +
		"A range with neither bound set counts as 'no range' (never contains anything, needs no comparison, is not malformed): intended behaviour of the package (comment in versionRange.go contains, pinned by its unit test TestVersionRange_contains/'no bound set'); the statement's 'a missing bound is unbounded' is applied to ranges with exactly one missing bound. The shape is generated everywhere and labelled range-without-bounds")
	vh.Rule("also: pre-release identifiers -Beta, -RC.1 (upper case sorts first); 23 versions with segments of several digits (1.0.1 / 11.0.0 / 1.0.11, 9 / 10, 99 / 100) compared pairwise in every process, forwards and backwards")
	vh.Main(m, "C19")
}

// ---------------------------------------------------------------------------------------
// reference model

type ver struct {
	n   [3]int
	pre []string // nil: a release
}

func isDigits(s string) bool {
	if s == "" {
		return false
	}
	for i := 0; i < len(s); i++ {
		if s[i] < '0' || s[i] > '9' {
			return false
		}
	}
	return true
}

func isIdent(s string) bool {
	if s == "" {
		return false
	}
	for i := 0; i < len(s); i++ {
		ch := s[i]
		if !(ch >= '0' && ch <= '9' || ch >= 'a' && ch <= 'z' || ch >= 'A' && ch <= 'Z' || ch == '-') {
			return false
		}
	}
	return true
}

// numField parses a numeric identifier without leading zeros (at most 6 digits).
func numField(s string) (int, bool) {
	if !isDigits(s) || len(s) > 6 || (len(s) > 1 && s[0] == '0') {
		return 0, false
	}
	n := 0
	for i := 0; i < len(s); i++ {
		n = n*10 + int(s[i]-'0')
	}
	return n, true
}

// parseSemver: MAJOR.MINOR.PATCH[-pre(.pre)*][+build(.build)*], semver 2.0.0.
func parseSemver(s string) (ver, bool) {
	var v ver
	if i := strings.IndexByte(s, '+'); i >= 0 {
		for _, b := range strings.Split(s[i+1:], ".") {
			if !isIdent(b) {
				return v, false
			}
		}
		s = s[:i]
	}
	if i := strings.IndexByte(s, '-'); i >= 0 {
		for _, p := range strings.Split(s[i+1:], ".") {
			if !isIdent(p) {
				return v, false
			}
			if isDigits(p) {
				if _, ok := numField(p); !ok {
					return v, false
				}
			}
			v.pre = append(v.pre, p)
		}
		s = s[:i]
	}
	f := strings.Split(s, ".")
	if len(f) != 3 {
		return v, false
	}
	for i := range f {
		n, ok := numField(f[i])
		if !ok {
			return v, false
		}
		v.n[i] = n
	}
	return v, true
}

// parseInt is the reference for the custom integer scheme: 1..6 decimal digits.
func parseInt(s string) (ver, bool) {
	if !isDigits(s) || len(s) > 6 {
		return ver{}, false
	}
	n := 0
	for i := 0; i < len(s); i++ {
		n = n*10 + int(s[i]-'0')
	}
	return ver{n: [3]int{n, 0, 0}}, true
}

func cmpVer(a, b ver) int {
	for i := 0; i < 3; i++ {
		if a.n[i] != b.n[i] {
			if a.n[i] < b.n[i] {
				return -1
			}
			return 1
		}
	}
	switch {
	case a.pre == nil && b.pre == nil:
		return 0
	case a.pre == nil:
		return 1
	case b.pre == nil:
		return -1
	}
	for i := 0; i < len(a.pre) && i < len(b.pre); i++ {
		x, y := a.pre[i], b.pre[i]
		xn, yn := isDigits(x), isDigits(y)
		switch {
		case xn && yn:
			xi, _ := numField(x)
			yi, _ := numField(y)
			if xi != yi {
				if xi < yi {
					return -1
				}
				return 1
			}
		case xn:
			return -1
		case yn:
			return 1
		default:
			if x != y {
				if x < y {
					return -1
				}
				return 1
			}
		}
	}
	switch {
	case len(a.pre) < len(b.pre):
		return -1
	case len(a.pre) > len(b.pre):
		return 1
	}
	return 0
}

func parserFor(cmp int) func(string) (ver, bool) {
	if cmp == 2 {
		return parseInt
	}
	return parseSemver
}

// ---------------------------------------------------------------------------------------
// case

type Range struct {
	Lo string `json:"lo"`
	Hi string `json:"hi"`
}

type Cap struct {
	Ranges []Range `json:"ranges"`
}

type Case struct {
	// Cmp: 0 Target.VersionComparer nil (default), 1 VersionCompareSemantic passed
	// explicitly (wrapped, errors recorded), 2 custom integer comparer (wrapped).
	Cmp int `json:"cmp"`
	// Ctor: 0 literal &Capability{}, 1 NewCapability with all bounds in pairs,
	// 2 NewCapability with the trailing empty upper bound left out where possible.
	Ctor    int    `json:"ctor"`
	ViaSet  bool   `json:"via_set"` // NewDefaultVersion + SetCapabilities instead of Target.Version
	Caps    []Cap  `json:"caps"`
	Version string `json:"version"`
	// Desc: 0 every capability has its own description, 1 all descriptions empty, 2 all equal
	// (the description is documented as optional and not used by the package)
	Desc int `json:"desc,omitempty"`
	// Earlier: (with ViaSet) the version object has been evaluated before, while it reported
	// this version
	Earlier string `json:"evaluated_before_as,omitempty"`
}

// movingVersion is a version whose spec changes between two evaluations (the package
// documentation suggests embedding DefaultVersion in a type of one's own).
type movingVersion struct {
	capability.Version
	spec string
}

func (m *movingVersion) VersionString() string { return m.spec }

func intComparer(a, b string) (int, error) {
	x, err := strconv.Atoi(a)
	if err != nil {
		return 0, fmt.Errorf("not an integer version: %q", a)
	}
	y, err := strconv.Atoi(b)
	if err != nil {
		return 0, fmt.Errorf("not an integer version: %q", b)
	}
	switch {
	case x < y:
		return -1, nil
	case x > y:
		return 1, nil
	}
	return 0, nil
}

type recorder struct{ calls, errs int }

func (r *recorder) wrap(f capability.VersionComparer) capability.VersionComparer {
	return func(a, b string) (int, error) {
		r.calls++
		i, err := f(a, b)
		if err != nil {
			r.errs++
		}
		return i, err
	}
}

type outcome struct {
	err      error
	nilVer   bool
	has      []bool // by index into Case.Caps
	cmpCalls int
	cmpErrs  int
	panicked any
}

func mkCap(ctor, idx int, rs []Range, descMode int) *capability.Capability {
	desc := fmt.Sprintf("cap%d", idx)
	switch descMode {
	case 1:
		desc = ""
	case 2:
		desc = "same"
	}
	if ctor == 0 {
		c := &capability.Capability{Description: desc}
		for _, r := range rs {
			c.VersionRanges = append(c.VersionRanges, capability.VersionRange{Introduced: r.Lo, Removed: r.Hi})
		}
		return c
	}
	var flat []string
	for _, r := range rs {
		flat = append(flat, r.Lo, r.Hi)
	}
	if ctor == 2 && len(rs) > 0 {
		if last := rs[len(rs)-1]; last.Hi == "" && last.Lo != "" {
			flat = flat[:len(flat)-1]
		}
	}
	return capability.NewCapability(desc, flat...)
}

// execute runs the code under test on one arrangement: capOrder lists indexes into
// c.Caps, rangeOrder[i] the order of the ranges of c.Caps[i] (nil = as given).
func execute(c Case, capOrder []int, rangeOrder [][]int) (out outcome) {
	defer func() {
		if p := recover(); p != nil {
			out.panicked = p
		}
	}()
	rec := &recorder{}
	var cmp capability.VersionComparer
	switch c.Cmp {
	case 1:
		cmp = rec.wrap(capability.VersionCompareSemantic)
	case 2:
		cmp = rec.wrap(intComparer)
	}
	caps := make([]*capability.Capability, len(c.Caps))
	for i, cp := range c.Caps {
		rs := cp.Ranges
		if rangeOrder != nil && rangeOrder[i] != nil {
			rs = make([]Range, len(cp.Ranges))
			for k, j := range rangeOrder[i] {
				rs[k] = cp.Ranges[j]
			}
		}
		caps[i] = mkCap(c.Ctor, i, rs, c.Desc)
	}
	tcaps := caps
	if capOrder != nil {
		tcaps = make([]*capability.Capability, len(caps))
		for k, j := range capOrder {
			tcaps[k] = caps[j]
		}
	}
	target := capability.Target{VersionComparer: cmp, Capabilities: tcaps}
	var v capability.Version
	var err error
	if c.ViaSet && c.Earlier != "" {
		// the same version object is evaluated twice: first it reports another version (the
		// server was upgraded, the connection re-established), then the one of the case
		mv := &movingVersion{Version: capability.NewDefaultVersion(""), spec: c.Earlier}
		_ = target.SetCapabilities(mv)
		mv.spec = c.Version
		rec.calls, rec.errs = 0, 0
		v = mv
		err = target.SetCapabilities(v)
	} else if c.ViaSet {
		v = capability.NewDefaultVersion(c.Version)
		err = target.SetCapabilities(v)
	} else {
		v, err = target.Version(c.Version)
	}
	out.err = err
	out.cmpCalls, out.cmpErrs = rec.calls, rec.errs
	if err == nil {
		if v == nil {
			out.nilVer = true
			return
		}
		out.has = make([]bool, len(caps))
		for i := range caps {
			out.has[i] = v.Has(caps[i])
		}
	}
	return
}

// ---------------------------------------------------------------------------------------
// expectation (independent of any order)

type rangeInfo struct {
	malformed string // "", "inverted", "zero-width", "unparsable-bound"
	unbounded bool   // neither bound set: treated as no range
	contains  bool   // well-formed and contains the version (version parsable)
	eqBound   bool   // version precedence-equal to one of its bounds
	below     bool   // well-formed, upper set, upper <= v
	above     bool   // well-formed, lower set, v < lower
}

type expectation struct {
	vOK        bool
	needsV     bool // some range has a bound the version has to be compared with
	mustErr    bool
	mayErr     bool
	why        string // shape that makes the error mandatory
	want       []bool // per capability: some well-formed range contains the version
	info       [][]rangeInfo
	wellFormed bool
	nonTrivial bool
	boundary   bool
	between    bool
	unbounded  bool // some range has neither bound
}

func analyse(c Case) expectation {
	parse := parserFor(c.Cmp)
	var e expectation
	v, vOK := parse(c.Version)
	e.vOK = vOK
	e.want = make([]bool, len(c.Caps))
	e.info = make([][]rangeInfo, len(c.Caps))
	e.wellFormed = vOK
	for ci, cp := range c.Caps {
		e.info[ci] = make([]rangeInfo, len(cp.Ranges))
		capMalformed := ""
		hasBelow, hasAbove := false, false
		for ri, r := range cp.Ranges {
			in := &e.info[ci][ri]
			if r.Lo == "" && r.Hi == "" {
				// counts as "no range" (see vh.Assume): contains nothing, compares nothing
				in.unbounded = true
				e.unbounded = true
				continue
			}
			e.needsV = true
			var lo, hi ver
			loOK, hiOK := true, true
			if r.Lo != "" {
				lo, loOK = parse(r.Lo)
			}
			if r.Hi != "" {
				hi, hiOK = parse(r.Hi)
			}
			switch {
			case !loOK || !hiOK:
				in.malformed = "unparsable-bound"
			case r.Lo != "" && r.Hi != "" && cmpVer(lo, hi) > 0:
				in.malformed = "inverted"
			case r.Lo != "" && r.Hi != "" && cmpVer(lo, hi) == 0:
				in.malformed = "zero-width"
			}
			if in.malformed != "" {
				e.wellFormed = false
				if capMalformed == "" {
					capMalformed = in.malformed
				}
				continue
			}
			if !vOK {
				continue
			}
			loIn := r.Lo == "" || cmpVer(lo, v) <= 0
			hiIn := r.Hi == "" || cmpVer(v, hi) < 0
			in.contains = loIn && hiIn
			if in.contains {
				e.want[ci] = true
			}
			if (r.Lo != "" && cmpVer(lo, v) == 0) || (r.Hi != "" && cmpVer(hi, v) == 0) {
				in.eqBound = true
				e.boundary = true
			}
			if r.Hi != "" && !hiIn {
				in.below = true
				hasBelow = true
			}
			if r.Lo != "" && !loIn {
				in.above = true
				hasAbove = true
			}
		}
		if vOK && !e.want[ci] && hasBelow && hasAbove {
			e.between = true
		}
		if capMalformed != "" {
			e.mayErr = true
			if vOK && !e.want[ci] && !e.mustErr {
				e.mustErr = true
				e.why = map[string]string{"inverted": "inverted-range", "zero-width": "zero-width-range", "unparsable-bound": "unparsable-bound"}[capMalformed]
			}
		}
	}
	if !vOK {
		// Every capability with a bounded range needs the version compared (or trips over
		// a malformed range first): an error either way.
		if e.needsV {
			e.mustErr, e.mayErr, e.why = true, true, "unparsable-version"
		} else {
			e.mayErr = true // an eager implementation may reject it, a lazy one never looks at it
		}
	}
	e.nonTrivial = vOK && (e.boundary || e.between)
	return e
}

func descArr(capOrder []int, rangeOrder [][]int) string {
	if capOrder == nil && rangeOrder == nil {
		return "given order"
	}
	return fmt.Sprintf("capability order %v, range orders %v", capOrder, rangeOrder)
}

// single runs one range alone (diagnosis of the root cause after a mismatch).
func single(c Case, r Range) outcome {
	return execute(Case{Cmp: c.Cmp, Version: c.Version, Caps: []Cap{{Ranges: []Range{r}}}}, nil, nil)
}

var probeSemver = preGrid(3, 3, 3)

// probe answers how the range alone treats some version strictly inside it (inside=true)
// or strictly above its upper bound (inside=false); found=false if the universe has none.
func probe(c Case, r Range, inside bool) (found, has bool) {
	parse := parserFor(c.Cmp)
	universe := probeSemver
	if c.Cmp == 2 {
		universe = nil
		for i := 0; i <= 17; i++ {
			universe = append(universe, strconv.Itoa(i))
		}
	}
	lo, _ := parse(r.Lo)
	hi, _ := parse(r.Hi)
	for _, s := range universe {
		v, _ := parse(s)
		ok := false
		if inside {
			ok = (r.Lo == "" || cmpVer(lo, v) < 0) && (r.Hi == "" || cmpVer(v, hi) < 0)
		} else {
			ok = r.Hi != "" && cmpVer(hi, v) < 0
		}
		if !ok {
			continue
		}
		o := execute(Case{Cmp: c.Cmp, Version: s, Caps: []Cap{{Ranges: []Range{r}}}}, nil, nil)
		if o.panicked != nil || o.err != nil || o.nilVer {
			return false, false
		}
		return true, o.has[0]
	}
	return false, false
}

// classifyMismatch names the root cause of a wrong Has answer for capability ci on
// well-formed ranges by probing every range of the capability on its own.
func classifyMismatch(c Case, e expectation, ci int, got bool) (string, string) {
	cp := c.Caps[ci]
	if len(cp.Ranges) == 0 {
		return "C19/capability-without-range-reported", "capability has no range"
	}
	for ri, r := range cp.Ranges {
		in := e.info[ci][ri]
		if in.malformed != "" {
			continue
		}
		o := single(c, r)
		if o.panicked != nil || o.err != nil || o.nilVer {
			return "C19/error-on-well-formed-input", fmt.Sprintf("range %v alone: err=%v panic=%v", r, o.err, o.panicked)
		}
		if o.has[0] == in.contains {
			continue
		}
		what := fmt.Sprintf("range {%q,%q} alone answers %v for %q, want %v", r.Lo, r.Hi, o.has[0], c.Version, in.contains)
		if in.unbounded {
			return "C19/range-without-bounds-reported", what
		}
		if in.contains {
			// wrong on the boundary only (a version strictly inside is answered correctly)?
			if in.eqBound {
				if found, has := probe(c, r, true); !found || has {
					return "C19/lower-bound-not-inclusive", what
				}
			}
			switch {
			case r.Hi == "":
				return "C19/missing-upper-bound-not-unbounded", what
			case r.Lo == "":
				return "C19/missing-lower-bound-not-unbounded", what
			}
			return "C19/inside-version-not-reported", what
		}
		if in.eqBound {
			if found, has := probe(c, r, false); !found || !has {
				return "C19/upper-bound-not-exclusive", what
			}
		}
		return "C19/outside-version-reported", what
	}
	// every range is right on its own
	if len(c.Caps) > 1 {
		o := execute(Case{Cmp: c.Cmp, Version: c.Version, Caps: []Cap{cp}}, nil, nil)
		if o.err == nil && o.panicked == nil && !o.nilVer && o.has[0] == e.want[ci] {
			return "C19/capabilities-interfere", "the capability alone is answered correctly"
		}
	}
	return "C19/ranges-not-combined-as-union", "every range alone is answered correctly"
}

func judge(c Case, e expectation, o outcome, arr string, identityOK bool) *vh.Failure {
	if o.panicked != nil {
		return vh.Failf("C19/panic", "%s: panic %v; case %+v", arr, o.panicked, c)
	}
	if o.err == nil && o.nilVer {
		return vh.Failf("C19/nil-version-without-error", "%s: Target.Version returned (nil, nil); case %+v", arr, c)
	}
	if e.mustErr && o.err == nil {
		return vh.Failf("C19/"+e.why+"-silent", "%s: no error although a %s has to be evaluated (no well-formed range of its capability contains the version); answered %v; case %+v", arr, e.why, o.has, c)
	}
	if o.cmpErrs > 0 && o.err == nil {
		return vh.Failf("C19/comparer-error-swallowed", "%s: the comparer returned an error %d time(s) during the call but no error was reported; answered %v; case %+v", arr, o.cmpErrs, o.has, c)
	}
	if o.err != nil {
		if !e.mayErr {
			return vh.Failf("C19/error-on-well-formed-input", "%s: error %q on well-formed input; case %+v", arr, o.err, c)
		}
		return nil
	}
	for ci := range c.Caps {
		if o.has[ci] == e.want[ci] {
			continue
		}
		if !e.wellFormed {
			// no error and a malformed thing present: the answer must be the one of the well-formed ranges
			cls, why := classifyMismatch(c, e, ci, o.has[ci])
			return vh.Failf(cls, "%s: capability %d Has=%v, want %v (from its well-formed ranges; malformed input without error); %s; case %+v", arr, ci, o.has[ci], e.want[ci], why, c)
		}
		cls, why := classifyMismatch(c, e, ci, o.has[ci])
		if identityOK && (cls == "C19/ranges-not-combined-as-union" || cls == "C19/capabilities-interfere") {
			cls = "C19/outcome-depends-on-order"
		}
		return vh.Failf(cls, "%s: capability %d %v: Has(%q)=%v, want %v; %s; case %+v", arr, ci, c.Caps[ci].Ranges, c.Version, o.has[ci], e.want[ci], why, c)
	}
	return nil
}

var permCache = map[int][][]int{}

func perms(n int) [][]int {
	if p, ok := permCache[n]; ok {
		return p
	}
	var res [][]int
	a := make([]int, n)
	for i := range a {
		a[i] = i
	}
	var rec func(k int)
	rec = func(k int) {
		if k == n {
			res = append(res, append([]int(nil), a...))
			return
		}
		for i := k; i < n; i++ {
			a[k], a[i] = a[i], a[k]
			rec(k + 1)
			a[k], a[i] = a[i], a[k]
		}
	}
	rec(0)
	permCache[n] = res
	return res
}

func isIdentity(p []int) bool {
	for i, x := range p {
		if i != x {
			return false
		}
	}
	return true
}

func cmpName(c int) string {
	return [...]string{"comparer=nil(default)", "comparer=explicit-default", "comparer=custom-integer"}[c]
}

func runCase(c Case) *vh.Failure {
	if c.Cmp < 0 || c.Cmp > 2 || len(c.Caps) > 4 {
		return nil
	}
	for _, cp := range c.Caps {
		if len(cp.Ranges) > 4 {
			return nil
		}
	}
	e := analyse(c)
	execs := 0
	// given order
	o := execute(c, nil, nil)
	execs++
	if f := judge(c, e, o, "given order", false); f != nil {
		return f
	}
	record(c, e, o)
	// every permutation of the ranges of each capability
	for ci, cp := range c.Caps {
		if len(cp.Ranges) < 2 {
			continue
		}
		for _, p := range perms(len(cp.Ranges)) {
			if isIdentity(p) {
				continue
			}
			ro := make([][]int, len(c.Caps))
			ro[ci] = p
			o := execute(c, nil, ro)
			execs++
			if f := judge(c, e, o, descArr(nil, ro), true); f != nil {
				return f
			}
		}
	}
	// every permutation of the capabilities
	if len(c.Caps) >= 2 {
		for _, p := range perms(len(c.Caps)) {
			if isIdentity(p) {
				continue
			}
			o := execute(c, p, nil)
			execs++
			if f := judge(c, e, o, descArr(p, nil), true); f != nil {
				return f
			}
		}
		// everything reversed at once
		n := len(c.Caps)
		rev := make([]int, n)
		ro := make([][]int, n)
		for i := range rev {
			rev[i] = n - 1 - i
			k := len(c.Caps[i].Ranges)
			ro[i] = make([]int, k)
			for j := range ro[i] {
				ro[i][j] = k - 1 - j
			}
		}
		o := execute(c, rev, ro)
		execs++
		if f := judge(c, e, o, descArr(rev, ro), true); f != nil {
			return f
		}
	}
	vh.Evals(execs - 1)
	vh.LabelN("executions(arrangements)", execs)
	return nil
}

func caseKey(c Case) string { return fmt.Sprintf("%d|%v|%s", c.Cmp, c.Caps, c.Version) }

func record(c Case, e expectation, o outcome) {
	vh.Label(cmpName(c.Cmp), fmt.Sprintf("caps=%d", len(c.Caps)))
	if c.Ctor != 0 {
		vh.Label("built-with-NewCapability")
	}
	if c.ViaSet {
		vh.Label("via-SetCapabilities")
	}
	nr, emptyLo, emptyHi, noRange := 0, false, false, false
	for _, cp := range c.Caps {
		nr += len(cp.Ranges)
		if len(cp.Ranges) == 0 {
			noRange = true
		}
		for _, r := range cp.Ranges {
			if r.Lo == "" {
				emptyLo = true
			}
			if r.Hi == "" {
				emptyHi = true
			}
		}
	}
	vh.Label(fmt.Sprintf("ranges-total=%d", nr))
	if noRange {
		vh.Label("capability-without-range")
	}
	if emptyLo {
		vh.Label("missing-lower-bound")
	}
	if emptyHi {
		vh.Label("missing-upper-bound")
	}
	if c.Cmp != 2 {
		if strings.Contains(c.Version, "-") {
			vh.Label("version-is-pre-release")
		}
		if strings.Contains(c.Version, "+") {
			vh.Label("version-has-build")
		}
	}
	switch {
	case e.wellFormed:
		vh.Label("well-formed")
		t, f := false, false
		for _, w := range e.want {
			if w {
				t = true
			} else {
				f = true
			}
		}
		if t {
			vh.Label("some-capability-reported")
		}
		if f {
			vh.Label("some-capability-not-reported")
		}
		if nr >= 2 {
			vh.Sample("well-formed-multi-range", c)
		}
	case !e.vOK && e.needsV:
		vh.Label("unparsable-version->error")
		vh.Sample("unparsable-version", c)
	case !e.vOK:
		if o.err != nil {
			vh.Label("unparsable-version-never-compared->error")
		} else {
			vh.Label("unparsable-version-never-compared->answer")
		}
	default:
		for ci := range e.info {
			for _, in := range e.info[ci] {
				if in.malformed != "" {
					vh.Label("malformed:" + in.malformed)
				}
			}
		}
		switch {
		case e.mustErr:
			vh.Label("malformed-must-be-evaluated->error")
			vh.Sample("malformed-evaluated", c)
		case o.err != nil:
			vh.Label("malformed-before-containing-range->error")
			vh.Sample("malformed-before-containing", c)
		default:
			vh.Label("malformed-behind-containing-range->answer")
			vh.Sample("malformed-skipped", c)
		}
	}
	if e.unbounded {
		vh.Label("range-without-bounds")
		vh.Sample("range-without-bounds", c)
	}
	if e.boundary {
		vh.Label("version-equals-a-bound")
	}
	if e.between {
		vh.Label("version-between-two-ranges")
		vh.Sample("between-two-ranges", c)
	}
	if e.nonTrivial {
		vh.NonTrivial(caseKey(c))
	}
}

// ---------------------------------------------------------------------------------------
// grid

// (upper-case identifiers sort before lower-case ones: ASCII order)
var gridPre = []string{"", "-alpha", "-beta", "-rc.1", "-rc.2", "-rc.10", "-Beta", "-RC.1"}
var gridBuild = []string{"", "+b1"}

func gv(maj, min, pat, pre, build int) string {
	return fmt.Sprintf("%d.%d.%d%s%s", maj, min, pat, gridPre[pre], gridBuild[build])
}

func releaseGrid() []string {
	var g []string
	for a := 0; a < 4; a++ {
		for b := 0; b < 4; b++ {
			for c := 0; c < 4; c++ {
				g = append(g, gv(a, b, c, 0, 0))
			}
		}
	}
	return g
}

// preGrid: cores {0..ma}.{0..mi}.{0..pa} x all pre-releases x all builds.
func preGrid(ma, mi, pa int) []string {
	var g []string
	for a := 0; a <= ma; a++ {
		for b := 0; b <= mi; b++ {
			for c := 0; c <= pa; c++ {
				for p := range gridPre {
					for bl := range gridBuild {
						g = append(g, gv(a, b, c, p, bl))
					}
				}
			}
		}
	}
	return g
}

// Strings neither the reference parser nor the comparer accepts (TestJunkIsRejected).
var junkSemver = []string{"scrambled", "1 1 0", "1.0.x", "1..0", "x1.0.0", "1.0.0 ", "1.0.0+", ".1.0", "99999999999999999999.0.0"}
var junkInt = []string{"x", "1.0", "1e3", " 7", "0x10"}

// ---------------------------------------------------------------------------------------
// assumptions of the generators

func TestJunkIsRejected(t *testing.T) {
	if vh.Replaying() {
		return
	}
	for _, j := range append(append([]string{}, junkSemver...), "") {
		if _, ok := parseSemver(j); ok {
			t.Fatalf("harness: reference parser accepts junk %q", j)
		}
		if _, err := capability.VersionCompareSemantic(j, "1.0.0"); err == nil {
			t.Fatalf("harness: default comparer accepts junk %q as first argument", j)
		}
		if _, err := capability.VersionCompareSemantic("1.0.0", j); err == nil {
			t.Fatalf("harness: default comparer accepts junk %q as second argument", j)
		}
	}
	for _, j := range append(append([]string{}, junkInt...), "") {
		if _, ok := parseInt(j); ok {
			t.Fatalf("harness: reference integer parser accepts junk %q", j)
		}
		if _, err := intComparer(j, "1"); err == nil {
			t.Fatalf("harness: integer comparer accepts junk %q", j)
		}
	}
	for _, g := range preGrid(3, 3, 3) {
		if _, ok := parseSemver(g); !ok {
			t.Fatalf("harness: reference parser rejects grid version %q", g)
		}
	}
}

type pairCase struct {
	A string `json:"a"`
	B string `json:"b"`
}

func runPair(c pairCase) *vh.Failure {
	a, okA := parseSemver(c.A)
	b, okB := parseSemver(c.B)
	if !okA || !okB {
		return nil
	}
	got, err := capability.VersionCompareSemantic(c.A, c.B)
	if err != nil {
		return vh.Failf("C19/default-comparer-rejects-grid-version", "VersionCompareSemantic(%q,%q) error %v", c.A, c.B, err)
	}
	want := cmpVer(a, b)
	sign := 0
	if got < 0 {
		sign = -1
	} else if got > 0 {
		sign = 1
	}
	if sign != want {
		return vh.Failf("C19/default-comparer-disagrees-with-semver-on-grid", "VersionCompareSemantic(%q,%q) = %d, semver precedence says %d", c.A, c.B, got, want)
	}
	return nil
}

// The default comparer orders the generated shapes like semver does (assumption of all
// other tests; a failure here means the grid is too wide, not that ranges are wrong).
func TestComparerAgreesWithOracleOnGrid(t *testing.T) {
	e := vh.NewEnum(t, "TestComparerAgreesWithOracleOnGrid", runPair)
	if e.Skip() {
		return
	}
	var g []string // all cores x all pre-releases, no build: 320
	for _, r := range releaseGrid() {
		for _, p := range gridPre {
			g = append(g, r+p)
		}
	}
	i := 0
	for _, a := range g {
		for _, b := range g {
			i++
			if !vh.Mine(i) {
				continue
			}
			if !e.Do(pairCase{a, b}) {
				return
			}
		}
	}
	sub := preGrid(1, 1, 1) // with build suffixes: 80
	for _, a := range sub {
		for _, b := range sub {
			i++
			if !vh.Mine(i) {
				continue
			}
			if !e.Do(pairCase{a, b}) {
				return
			}
		}
	}
	// segments of several digits: pairs whose texts run into each other when put side by side
	// ("1.0.1"+"11.0.0" and "1.0.11"+"1.0.0"), numeric versus textual order (9 < 10, 99 < 100).
	// Every process evaluates all of them, forwards and backwards, so that an answer remembered
	// from one pair can meet every other pair.
	multi := []string{"1.0.0", "1.0.1", "1.0.11", "11.0.0", "1.0.10", "1.0.9", "1.10.0", "1.9.0", "10.0.0", "9.0.0", "1.0.100", "1.0.99", "0.1.0", "0.10.0", "10.1.0", "1.1.0", "1.1.1", "11.1.0", "1.11.0", "1.0.0-rc.1", "1.0.0-rc.11", "1.0.0-rc.1.1", "1.0.1-rc.1"}
	for pass := 0; pass < 2; pass++ {
		for x := range multi {
			for y := range multi {
				a, b := multi[x], multi[y]
				if pass == 1 {
					a, b = multi[len(multi)-1-x], multi[len(multi)-1-y]
				}
				if !e.Do(pairCase{a, b}) {
					return
				}
			}
		}
	}
	vh.LabelN("comparer-pairs-checked", e.Count())
	e.Done("default comparer vs reference precedence: 23x23 pairs with segments of several digits (every process, both directions); 320x320 pairs (all cores x pre-releases) + 80x80 pairs (2x2x2 cores x pre-release x build)")
}

// ---------------------------------------------------------------------------------------
// exhaustive single range

func enumSingle(e *vh.Enum[Case], cmp int, bounds, versions []string, idx *int) bool {
	for _, lo := range bounds {
		for _, hi := range bounds {
			*idx++
			if !vh.Mine(*idx) {
				continue
			}
			for _, v := range versions {
				if !e.Do(Case{Cmp: cmp, Caps: []Cap{{Ranges: []Range{{lo, hi}}}}, Version: v}) {
					return false
				}
			}
		}
	}
	return true
}

func TestSingleRangeExhaustive(t *testing.T) {
	e := vh.NewEnum(t, "TestSingleRangeExhaustive", runCase)
	if e.Skip() {
		return
	}
	g := releaseGrid()
	idx := 0
	if !enumSingle(e, 0, append([]string{""}, g...), g, &idx) {
		return
	}
	e.Done("single range: lower x upper in {empty} + 64 release versions x 64 release versions, default comparer")
}

func TestSingleRangePreReleaseExhaustive(t *testing.T) {
	e := vh.NewEnum(t, "TestSingleRangePreReleaseExhaustive", runCase)
	if e.Skip() {
		return
	}
	g := preGrid(1, 0, 1) // 4 cores x 6 x 2 = 48
	space := "single range over {0,1}.0.{0,1} x pre-release x build (40 versions): 41x41 ranges x 40 versions, explicit default comparer"
	if vh.Thorough() {
		g = preGrid(1, 1, 1) // 80
		space = "single range over {0,1}.{0,1}.{0,1} x pre-release x build (80 versions): 81x81 ranges x 80 versions, explicit default comparer"
	}
	idx := 0
	if !enumSingle(e, 1, append([]string{""}, g...), g, &idx) {
		return
	}
	e.Done(space)
}

func TestSingleRangeIntegerExhaustive(t *testing.T) {
	e := vh.NewEnum(t, "TestSingleRangeIntegerExhaustive", runCase)
	if e.Skip() {
		return
	}
	var ints []string
	for i := 0; i <= 15; i++ {
		ints = append(ints, strconv.Itoa(i))
	}
	bounds := append(append([]string{""}, ints...), junkInt...)
	versions := append(append([]string{""}, ints...), junkInt...)
	idx := 0
	// not sharded further than by range: tiny
	if !enumSingle(e, 2, bounds, versions, &idx) {
		return
	}
	// the junk list of the default comparer, as bound and as version
	sb := append([]string{"", "1.0.0", "1.0.0-rc.1", "2.0.0+b1"}, junkSemver...)
	sv := append([]string{"", "0.9.0", "1.0.0", "1.0.0-rc.1", "2.0.0"}, junkSemver...)
	for cmp := 0; cmp <= 1; cmp++ {
		if !enumSingle(e, cmp, sb, sv, &idx) {
			return
		}
	}
	e.Done("single range: integers 0..15 + empty + junk as bounds x integers + empty + junk as version (custom comparer); semver junk list as bound / version (default comparer nil and explicit)")
}

// ---------------------------------------------------------------------------------------
// exhaustive small multi-range / multi-capability spaces

func allRanges(bounds []string) []Range {
	var rs []Range
	for _, lo := range bounds {
		for _, hi := range bounds {
			rs = append(rs, Range{lo, hi})
		}
	}
	return rs
}

func TestTwoRangesExhaustive(t *testing.T) {
	e := vh.NewEnum(t, "TestTwoRangesExhaustive", runCase)
	if e.Skip() {
		return
	}
	bounds := []string{"", "0.9.0", "1.0.0-rc.1", "1.0.0", "1.0.0+b1", "1.0.1", "scrambled"}
	versions := []string{"0.1.0", "0.9.0", "1.0.0-rc.1", "1.0.0-rc.2+b1", "1.0.0", "1.0.1", "2.0.0", "1 1 0"}
	rs := allRanges(bounds)
	idx := 0
	for _, r1 := range rs {
		for _, r2 := range rs {
			idx++
			if !vh.Mine(idx) {
				continue
			}
			for _, v := range versions {
				c := Case{Cmp: idx % 2, Ctor: idx % 3, ViaSet: idx%5 == 0, Caps: []Cap{{Ranges: []Range{r1, r2}}}, Version: v}
				if !e.Do(c) {
					return
				}
			}
		}
	}
	e.Done("one capability, every ordered pair of ranges over 6 bounds (incl. a pre-release, a build twin and a junk string) + empty, x 8 versions (incl. junk), default comparer, both orders")
}

func TestThreeRangesIntegerExhaustive(t *testing.T) {
	e := vh.NewEnum(t, "TestThreeRangesIntegerExhaustive", runCase)
	if e.Skip() {
		return
	}
	rs := allRanges([]string{"", "2", "4", "6"})
	versions := []string{"1", "2", "3", "4", "5", "6", "7", "x"}
	idx := 0
	for _, r1 := range rs {
		for _, r2 := range rs {
			for _, r3 := range rs {
				idx++
				if !vh.Mine(idx) {
					continue
				}
				for _, v := range versions {
					if !e.Do(Case{Cmp: 2, Ctor: idx % 3, Caps: []Cap{{Ranges: []Range{r1, r2, r3}}}, Version: v}) {
						return
					}
				}
			}
		}
	}
	e.Done("one capability, every ordered triple of ranges over bounds {empty,2,4,6} x versions 1..7 + junk, integer comparer, all 6 orders")
}

func TestTwoCapabilitiesIntegerExhaustive(t *testing.T) {
	e := vh.NewEnum(t, "TestTwoCapabilitiesIntegerExhaustive", runCase)
	if e.Skip() {
		return
	}
	rs := allRanges([]string{"", "2", "4"})
	var caps []Cap
	caps = append(caps, Cap{Ranges: []Range{}})
	for _, r := range rs {
		caps = append(caps, Cap{Ranges: []Range{r}})
	}
	for _, r1 := range rs {
		for _, r2 := range rs {
			caps = append(caps, Cap{Ranges: []Range{r1, r2}})
		}
	}
	versions := []string{"1", "2", "3", "4", "5", "x"}
	idx := 0
	for _, c1 := range caps {
		for _, c2 := range caps {
			idx++
			if !vh.Mine(idx) {
				continue
			}
			for _, v := range versions {
				if !e.Do(Case{Cmp: 2, Ctor: idx % 3, ViaSet: idx%2 == 0, Caps: []Cap{c1, c2}, Version: v}) {
					return
				}
			}
		}
	}
	e.Done("two capabilities, each with 0..2 ranges over bounds {empty,2,4} (91 shapes each), x versions 1..5 + junk, integer comparer, all orders")
}

// ---------------------------------------------------------------------------------------
// random targets

func genCase(rt *rapid.T) Case {
	var c Case
	c.Cmp = rapid.IntRange(0, 2).Draw(rt, "cmp")
	c.Ctor = rapid.IntRange(0, 2).Draw(rt, "ctor")
	c.ViaSet = rapid.IntRange(0, 3).Draw(rt, "viaSet") == 0
	c.Desc = rapid.SampledFrom([]int{0, 0, 1, 2}).Draw(rt, "desc")
	parse := parserFor(c.Cmp)
	// a small pool of versions per case: bounds and the version are mostly drawn from it,
	// so that "equal to a bound" and "just beside a bound" are the normal situation
	var fresh func(label string) string
	var junk []string
	if c.Cmp == 2 {
		junk = junkInt
		fresh = func(l string) string { return strconv.Itoa(rapid.IntRange(0, 15).Draw(rt, l)) }
	} else {
		junk = junkSemver
		nc := rapid.IntRange(1, 3).Draw(rt, "ncores")
		cores := make([][3]int, nc)
		for i := range cores {
			cores[i] = [3]int{rapid.IntRange(0, 3).Draw(rt, "maj"), rapid.IntRange(0, 3).Draw(rt, "min"), rapid.IntRange(0, 3).Draw(rt, "pat")}
		}
		fresh = func(l string) string {
			if rapid.IntRange(0, 5).Draw(rt, l+"-far") == 0 { // anywhere in the grid
				return gv(rapid.IntRange(0, 3).Draw(rt, l), rapid.IntRange(0, 3).Draw(rt, l), rapid.IntRange(0, 3).Draw(rt, l),
					rapid.IntRange(0, len(gridPre)-1).Draw(rt, l), rapid.IntRange(0, 1).Draw(rt, l))
			}
			k := cores[rapid.IntRange(0, nc-1).Draw(rt, l+"-core")]
			pre := rapid.IntRange(0, len(gridPre)+1).Draw(rt, l+"-pre")
			if pre >= len(gridPre) {
				pre = 0 // releases three times as likely as each pre-release
			}
			return gv(k[0], k[1], k[2], pre, rapid.IntRange(0, 3).Draw(rt, l+"-build")/3)
		}
	}
	np := rapid.IntRange(2, 6).Draw(rt, "pool")
	pool := make([]string, np)
	for i := range pool {
		pool[i] = fresh("poolv")
	}
	pick := func(l string) string {
		if rapid.IntRange(0, 9).Draw(rt, l+"-fresh") == 0 {
			return fresh(l)
		}
		return pool[rapid.IntRange(0, np-1).Draw(rt, l)]
	}
	malformedAllowed := rapid.IntRange(0, 9).Draw(rt, "malformedCase") < 4
	ncaps := rapid.IntRange(1, 4).Draw(rt, "ncaps")
	for ci := 0; ci < ncaps; ci++ {
		nr := rapid.IntRange(0, 4).Draw(rt, "nranges")
		cp := Cap{Ranges: make([]Range, 0, nr)}
		for ri := 0; ri < nr; ri++ {
			var r Range
			switch rapid.IntRange(0, 8).Draw(rt, "shape") {
			case 0:
				r = Range{"", pick("hi")}
			case 1:
				r = Range{pick("lo"), ""}
			case 2:
				if rapid.IntRange(0, 2).Draw(rt, "noBounds") == 0 {
					r = Range{"", ""} // counts as no range
				} else {
					r = Range{pick("lo"), ""}
				}
			default:
				r = Range{pick("lo"), pick("hi")}
				// well-formed by construction: order the bounds with the reference
				// precedence; a precedence-equal pair becomes an open range
				a, _ := parse(r.Lo)
				b, _ := parse(r.Hi)
				switch d := cmpVer(a, b); {
				case d > 0:
					r.Lo, r.Hi = r.Hi, r.Lo
				case d == 0:
					if rapid.Bool().Draw(rt, "openSide") {
						r.Lo = ""
					} else {
						r.Hi = ""
					}
				}
			}
			if malformedAllowed {
				switch rapid.IntRange(0, 11).Draw(rt, "inject") {
				case 0: // inverted (or zero-width when the bounds are twins)
					if r.Lo != "" && r.Hi != "" {
						r.Lo, r.Hi = r.Hi, r.Lo
					}
				case 1: // zero width: same string, or a twin that differs in build metadata only
					b := r.Lo
					if b == "" {
						b = r.Hi
					}
					twin := b
					if c.Cmp != 2 && rapid.Bool().Draw(rt, "twin") {
						if strings.HasSuffix(b, "+b1") {
							twin = strings.TrimSuffix(b, "+b1")
						} else {
							twin = b + "+b1"
						}
					}
					r = Range{b, twin}
				case 2: // unparsable bound
					j := junk[rapid.IntRange(0, len(junk)-1).Draw(rt, "junk")]
					if rapid.Bool().Draw(rt, "junkSide") {
						r.Lo = j
					} else {
						r.Hi = j
					}
				}
			}
			cp.Ranges = append(cp.Ranges, r)
		}
		c.Caps = append(c.Caps, cp)
	}
	c.Version = pick("version")
	if malformedAllowed && rapid.IntRange(0, 7).Draw(rt, "junkVersion") == 0 {
		k := rapid.IntRange(0, len(junk)).Draw(rt, "junkv")
		if k == len(junk) {
			c.Version = ""
		} else {
			c.Version = junk[k]
		}
	}
	if c.ViaSet && rapid.Bool().Draw(rt, "evaluatedBefore") {
		c.Earlier = pick("earlier")
	}
	return c
}

func TestTargets(t *testing.T) {
	vh.Check(t, "TestTargets", vh.N(20000, 100000), genCase, runCase)
}

// ---- the same range evaluated under two comparers in one process: a range that is well-formed
// under one comparer and inverted / zero-width under the other must be reported under the
// other, whatever was evaluated before

type historyCase struct {
	Lo, Hi, Version string
	FirstDefault    bool `json:"first_default"`
}

// bytewise compares the strings byte by byte ("7.9" > "7.10")
func bytewise(a, b string) (int, error) { return strings.Compare(a, b), nil }

func runHistory(c historyCase) (f *vh.Failure) {
	defer func() {
		if r := recover(); r != nil {
			f = vh.Failf("C19/panic", "panic: %v", r)
		}
	}()
	eval := func(cmp capability.VersionComparer) (bool, error) {
		cp := &capability.Capability{Description: "c", VersionRanges: []capability.VersionRange{{Introduced: c.Lo, Removed: c.Hi}}}
		t := capability.Target{VersionComparer: cmp, Capabilities: []*capability.Capability{cp}}
		v, err := t.Version(c.Version)
		if err != nil {
			return false, err
		}
		return v.Has(cp), nil
	}
	oracle := func(cmp func(a, b string) (int, error)) (has bool, malformed bool) {
		lh, _ := cmp(c.Lo, c.Hi)
		if lh >= 0 {
			return false, true
		}
		a, _ := cmp(c.Lo, c.Version)
		b, _ := cmp(c.Version, c.Hi)
		return a <= 0 && b < 0, false
	}
	order := []capability.VersionComparer{capability.VersionCompareSemantic, bytewise}
	names := []string{"semantic", "bytewise"}
	if !c.FirstDefault {
		order[0], order[1] = order[1], order[0]
		names[0], names[1] = names[1], names[0]
	}
	for round := 0; round < 2; round++ {
		for i, cmp := range order {
			has, err := eval(cmp)
			wantHas, malformed := oracle(cmp)
			switch {
			case malformed && err == nil:
				return vh.Failf("C19/malformed-range-silent-after-other-comparer", "range {%q,%q} is inverted or zero-width under the %s comparer, evaluation %d answers %v without an error (evaluated under the %s comparer before)", c.Lo, c.Hi, names[i], round*2+i, has, names[1-i])
			case !malformed && err != nil:
				return vh.Failf("C19/well-formed-range-error", "range {%q,%q} version %q under the %s comparer: %v", c.Lo, c.Hi, c.Version, names[i], err)
			case !malformed && has != wantHas:
				return vh.Failf("C19/wrong-answer", "range {%q,%q} version %q under the %s comparer: Has=%v, want %v", c.Lo, c.Hi, c.Version, names[i], has, wantHas)
			}
		}
	}
	vh.Label("two-comparers-history")
	vh.NonTrivial(fmt.Sprintf("hist|%s|%s|%s|%v", c.Lo, c.Hi, c.Version, c.FirstDefault))
	return nil
}

func TestTwoComparersHistory(t *testing.T) {
	e := vh.NewEnum(t, "TestTwoComparersHistory", runHistory)
	if e.Skip() {
		return
	}
	vs := []string{"7.9.0", "7.10.0", "7.2.0", "10.0.0", "9.0.0", "1.0.0", "2.0.0", "1.10.0", "1.9.0"}
	for _, lo := range vs {
		for _, hi := range vs {
			if lo == hi {
				continue
			}
			for _, v := range []string{"7.9.5", "1.9.5", "8.0.0"} {
				for _, fd := range []bool{true, false} {
					e.Do(historyCase{Lo: lo, Hi: hi, Version: v, FirstDefault: fd})
				}
			}
		}
	}
	e.Done("every ordered pair of 9 versions as a range x 3 versions x both orders of the semantic and a byte-wise comparer")
}
