// C14 — transport failure yields a clean prefix and then an error.
package c14

import (
	"context"
	"errors"
	"fmt"
	"io"
	"testing"
	"time"

	"github.com/SAP/go-dblib/tds"
	"pgregory.net/rapid"
	"verif/internal/peer"
	"verif/internal/pkggen"
	rc "verif/internal/refcodec"
	"verif/internal/respgen"
	"verif/internal/vh"
)

func TestMain(m *testing.M) {
	vh.Rule("fault enumeration: responses from the C02 grammar (<= 400 bytes, cut into 1..5 packets) are delivered through the real reader goroutine over a scripted transport that starts failing after byte offset k of the TCP stream, for EVERY k in 0..len (exhaustive per response), x failure kind {EOF forever, EOF together with the last bytes, an error wrapping io.EOF (a tunnelled transport), connection reset error, timeout-style error} x packet type {RESPONSE, NORMAL} x PacketReadTimeout {0 s, 1 s (sampled in quick), 5 s with the end inside a packet body (3..13 s thorough)}; plus write-side faults (Write returns an error or a short count at packet j of a multi-packet request). Oracle: the consumer receives exactly the packages that lie entirely inside the completely received packets (a prefix of the delivery model, values equal), a synthetic final DONE only if the EOM packet arrived completely, then an error within PacketReadTimeout + 2 s; NextPackage never blocks beyond that; failing writes make SendPackage return an error without panic. Non-trivial: 0 < k < len and k falls inside a packet (header or body); distinct by (response, packetisation, k, kind, timeout)")
	vh.Assume("a silent stall is not a transport failure (no deadline is ever set on the socket) and is out of scope; packages are collected after the failure has been reported (the race between a queued package and a queued error inside NextPackage's select is schedule-dependent and documented by the library)")
	vh.Rule("also: 11..40 further receive calls after the failure, each answered with an error within the bound")
	vh.Rule("also: the consumer that waits (wait=true) collects the buffered packages of the complete packets before the failure")
	vh.Main(m, "C14")
}

type c14Case struct {
	Pkgs    []rc.P `json:"pkgs"`
	Cuts    []int  `json:"cuts"`
	K       int    `json:"fail_after_bytes"`
	Kind    string `json:"kind"` // eof | reset | timeout
	Timeout int    `json:"packet_read_timeout_s"`
	// Poll: after the prefix the consumer polls with wait=false instead of waiting
	Poll bool `json:"consumer_polls,omitempty"`
	// WriteFault n > 0: the request that precedes the response is 3 packets long and the
	// transport fails its n-th write (the server stopped reading); the response to what it
	// did receive arrives afterwards
	WriteFault int `json:"request_write_fails_at,omitempty"`
	// Normal: the packets carry the type NORMAL (15), the one used for ordinary traffic on
	// logical channels, instead of RESPONSE (4)
	Normal bool `json:"packet_type_normal,omitempty"`
	// Further: how many more receive calls follow the one that reported the failure (0 = 3): a
	// consumer that retries, several goroutines or channels probing a dead connection - more
	// calls than the connection's error queue holds (10) among them
	Further int `json:"further_receive_calls,omitempty"`
}

func failErr(kind string) error {
	switch kind {
	case "eof":
		return io.EOF
	case "reset":
		return peer.ErrReset
	case "eof-with-data", "wrapped-eof-with-data":
		if kind == "wrapped-eof-with-data" {
			return fmt.Errorf("tunnel: remote end: %w", io.EOF)
		}
		return io.EOF
	case "wrapped-eof":
		// a transport wrapped by a tunnel / proxy / metrics layer reports the end like this
		return fmt.Errorf("tunnel: remote end: %w", io.EOF)
	}
	return peer.ErrTimeout
}

func kinds(ps []tds.Package) string {
	s := ""
	for i, p := range ps {
		if i > 0 {
			s += " | "
		}
		s += fmt.Sprintf("%T", p)
	}
	return s
}

// runCase judges one case. Verdicts that rest on the wall clock alone are only reported if they
// repeat (a busy machine can delay the reader goroutine by seconds; a reader that never reports
// the failure does so every time).
func runCase(c c14Case) *vh.Failure {
	f := runCaseOnce(c)
	for try := 0; f != nil && try < 2 && (f.Class == "C14/no-error-within-bound" || f.Class == "C14/blocks-beyond-bound" || f.Class == "C14/polling-consumer-never-told"); try++ {
		vh.Label("timing-verdict-repeated")
		f = runCaseOnce(c)
	}
	return f
}

func runCaseOnce(c c14Case) (f *vh.Failure) {
	defer func() {
		if r := recover(); r != nil {
			vh.CheckHarnessPanic(r)
			f = vh.Failf("C14/panic", "panic: %v", r)
		}
	}()
	stream, offs, _, err := rc.EncodeStream(c.Pkgs)
	if err != nil {
		vh.HarnessBug("encode: %v", err)
	}
	ptype := byte(rc.BufResponse)
	if c.Normal {
		ptype = rc.BufNormal
	}
	packets := rc.Packetise(stream, c.Cuts, ptype, 0)
	var tcp []byte
	var ends []int  // TCP offset at which each packet is complete
	var avail []int // response bytes available once packet i is complete
	got := 0
	for _, p := range packets {
		tcp = append(tcp, p.Bytes()...)
		got += len(p.Body)
		ends = append(ends, len(tcp))
		avail = append(avail, got)
	}
	if c.K > len(tcp) {
		c.K = len(tcp)
	}
	// expectation
	complete := 0
	bytesAvail := 0
	for i, e := range ends {
		if e <= c.K {
			complete = i + 1
			bytesAvail = avail[i]
		}
	}
	allArrived := complete == len(packets)
	var want []rc.P
	var wantFmt []*rc.Fmt
	fmts := respgen.FormatBefore(c.Pkgs)
	lastDeliveredFinal := false
	for i, p := range c.Pkgs {
		if offs[i+1] > bytesAvail {
			break
		}
		if respgen.Filtered(p) {
			continue
		}
		want = append(want, p)
		wantFmt = append(wantFmt, fmts[i])
		lastDeliveredFinal = respgen.IsFinalDone(p)
	}
	if allArrived && !lastDeliveredFinal {
		want = append(want, rc.P{Done: &rc.Done{Tok: rc.TokDone, Status: rc.DoneFinal}})
		wantFmt = append(wantFmt, nil)
	}
	where := fmt.Sprintf("response [%s] (%d bytes in %d packets, TCP %d bytes), transport fails with %s after %d bytes (%d packets complete), read timeout %d s", respgen.Describe(c.Pkgs), len(stream), len(packets), len(tcp), c.Kind, c.K, complete, c.Timeout)

	if c.Poll {
		where += ", polling consumer"
	}
	if c.Normal {
		where += ", packets of type NORMAL"
	}
	if c.WriteFault > 0 {
		where += fmt.Sprintf(", after a request whose write %d failed", c.WriteFault)
	}
	ctx, cancel := context.WithCancel(context.Background())
	pipe := peer.NewPipe()
	conn, done, err := tds.VerifNewConn(ctx, pipe, &tds.Info{ChannelPackageQueueSize: 10000, PacketReadTimeout: c.Timeout}, true)
	if err != nil {
		vh.HarnessBug("VerifNewConn: %v", err)
	}
	ch, err := conn.NewChannel()
	if err != nil {
		vh.HarnessBug("NewChannel: %v", err)
	}
	defer func() {
		cancel()
		pipe.Close()
		// the reader may be parked on a full error queue (subject of C13): drain it so it can see the cancelled context
		deadline := time.After(5 * time.Second)
		for {
			select {
			case <-done:
				return
			case <-deadline:
				return
			default:
				conn.VerifConnErr()
				time.Sleep(200 * time.Microsecond)
			}
		}
	}()
	if c.WriteFault > 0 {
		pipe.FailWrites(func(n int, b []byte) (int, error) {
			if n < c.WriteFault {
				return len(b), nil
			}
			return 0, peer.ErrReset
		})
		cmd := make([]byte, 1200)
		for i := range cmd {
			cmd[i] = 'x'
		}
		if err := ch.SendPackage(ctx, &tds.LanguagePackage{Cmd: string(cmd)}); err == nil {
			return vh.Failf("C14/write-fault-not-reported", "%s: write %d of the request failed, SendPackage returned nil", where, c.WriteFault)
		}
		vh.Label("request-write-failed-before-response")
	}
	start := time.Now()
	if (c.Kind == "eof-with-data" || c.Kind == "wrapped-eof-with-data") && c.K > 0 {
		// the read that hands out byte K reports io.EOF along with the data (io.Reader allows it)
		pipe.EOFWithLastBytes(c.K)
	}
	pipe.FailAfter(c.K, failErr(c.Kind))
	pipe.Feed(tcp)
	bound := time.Duration(c.Timeout)*time.Second + 2*time.Second
	// wait until the failure has been reported
	for conn.VerifConnErrLen() == 0 {
		if time.Since(start) > bound {
			return vh.Failf("C14/no-error-within-bound", "%s: no connection error queued within %v", where, bound)
		}
		time.Sleep(100 * time.Microsecond)
	}
	reported := time.Since(start)
	// collect what was delivered
	var seen []tds.Package
	for {
		// (a consumer that waits is handed the buffered packages first, like one that polls:
		// the failure, although already known, comes after them)
		cctx, ccancel := context.WithTimeout(ctx, bound)
		p, err := ch.NextPackage(cctx, !c.Poll)
		ccancel()
		if err != nil {
			break
		}
		seen = append(seen, p)
		if len(seen) > len(c.Pkgs)+5 {
			break
		}
	}
	if len(seen) != len(want) {
		cls := "C14/delivery-not-the-complete-prefix"
		if len(seen) > len(want) {
			cls = "C14/package-from-incomplete-data"
			if len(seen) == len(want)+1 {
				if d, ok := seen[len(seen)-1].(*tds.DonePackage); ok && d.Status == tds.TDS_DONE_FINAL && !allArrived {
					cls = "C14/spurious-final-done"
				}
			}
		}
		return vh.Failf(cls, "%s: consumer received [%s], expected [%s]", where, kinds(seen), respgen.Describe(want))
	}
	for i := range want {
		if err := pkggen.LibEqual(want[i], wantFmt[i], seen[i]); err != nil {
			return vh.Failf("C14/delivered-package-wrong", "%s: package %d (%T): %v", where, i, seen[i], err)
		}
	}
	// then an error, promptly, while the context is live
	t0 := time.Now()
	wctx, wcancel := context.WithTimeout(ctx, bound)
	var p tds.Package
	if c.Poll {
		// a polling consumer is told about the failure as well ("nothing ready yet" is not it)
		for {
			p, err = ch.NextPackage(wctx, false)
			if !errors.Is(err, tds.ErrNoPackageReady) {
				break
			}
			if wctx.Err() != nil {
				wcancel()
				return vh.Failf("C14/polling-consumer-never-told", "%s: a consumer polling with wait=false got ErrNoPackageReady for %v and never the failure", where, time.Since(t0))
			}
			time.Sleep(50 * time.Microsecond)
		}
		vh.Label("consumer-polls")
	} else {
		p, err = ch.NextPackage(wctx, true)
	}
	wcancel()
	if err == nil {
		return vh.Failf("C14/package-after-failure", "%s: after the prefix NextPackage returned another package %T instead of an error", where, p)
	}
	if errors.Is(err, context.DeadlineExceeded) {
		return vh.Failf("C14/blocks-beyond-bound", "%s: NextPackage blocked for %v without reporting the failure", where, time.Since(t0))
	}
	// a consumer that asks again must not block either:
	// the transport stays failed
	further := 3
	if c.Further > 0 {
		further = c.Further
		vh.Label(fmt.Sprintf("further-receive-calls:%d", c.Further))
	}
	for i := 0; i < further; i++ {
		t1 := time.Now()
		wctx, wcancel := context.WithTimeout(ctx, bound)
		p, err := ch.NextPackage(wctx, true)
		wcancel()
		if err == nil {
			return vh.Failf("C14/package-after-failure", "%s: call %d after the failure returned a package %T", where, i+2, p)
		}
		if errors.Is(err, context.DeadlineExceeded) {
			return vh.Failf("C14/blocks-beyond-bound", "%s: NextPackage number %d after the failure blocked for %v (only the first call was told about the failure)", where, i+2, time.Since(t1))
		}
	}
	inPacket := c.K > 0 && c.K < len(tcp)
	for _, e := range ends {
		if e == c.K {
			inPacket = false
		}
	}
	pos := "boundary"
	if inPacket {
		prev := 0
		for _, e := range ends {
			if c.K < e {
				if c.K-prev < 8 {
					pos = "header"
				} else {
					pos = "body"
				}
				break
			}
			prev = e
		}
		vh.NonTrivial(fmt.Sprintf("%x|%v|%d|%s|%d", stream, c.Cuts, c.K, c.Kind, c.Timeout))
	}
	vh.Label("k:"+pos, "kind:"+c.Kind, fmt.Sprintf("timeout:%d", c.Timeout))
	if reported > time.Second {
		vh.Label("reported-after>1s")
	}
	return nil
}

func genResp(rt *rapid.T) ([]rc.P, []int) {
	for {
		ps := respgen.Gen(rt, respgen.Opts{MaxStatements: 2, MaxEED: 2, MaxEnv: 1})
		stream, _, _, _ := rc.EncodeStream(ps)
		if len(stream) > 400 {
			// keep the enumeration over offsets bounded
			ps = ps[:1]
			stream, _, _, _ = rc.EncodeStream(ps)
			if len(stream) > 400 {
				continue
			}
		}
		var cuts []int
		n := rapid.IntRange(0, 4).Draw(rt, "ncuts")
		for i := 0; i < n && len(stream) > 1; i++ {
			cuts = append(cuts, rapid.IntRange(1, len(stream)-1).Draw(rt, "cut"))
		}
		for i := range cuts {
			for j := i + 1; j < len(cuts); j++ {
				if cuts[j] < cuts[i] {
					cuts[i], cuts[j] = cuts[j], cuts[i]
				}
			}
		}
		return ps, cuts
	}
}

// every offset of every drawn response
func TestEveryOffset(t *testing.T) {
	e := vh.NewEnum(t, "TestEveryOffset", runCase)
	if e.Skip() {
		return
	}
	nresp := vh.N(6, 40)
	n := 0
	for i := 0; i < nresp; i++ {
		seed := int(vh.Seed())*1000 + i + 17*vh.Shard()
		var ps []rc.P
		var cuts []int
		rapid.Custom(func(rt *rapid.T) int { ps, cuts = genResp(rt); return 0 }).Example(seed)
		stream, _, _, _ := rc.EncodeStream(ps)
		total := len(stream) + 8*(len(cuts)+1)
		for k := 0; k <= total; k++ {
			for _, kind := range []string{"eof", "reset", "timeout", "eof-with-data", "wrapped-eof", "wrapped-eof-with-data"} {
				n++
				cs := c14Case{Pkgs: ps, Cuts: cuts, K: k, Kind: kind, Timeout: 0, Poll: n%3 == 0, Normal: (n/6+i)%2 == 1, Further: []int{0, 0, 0, 12, 0, 0, 25}[n%7]}
				if n%5 == 0 {
					cs.WriteFault = 1 + n/5%3
				}
				if !e.Do(cs) {
					return
				}
			}
		}
		if i == 0 {
			vh.Sample("fault", c14Case{Pkgs: ps, Cuts: cuts, K: total / 2, Kind: "eof"})
		}
	}
	e.Done("every byte offset 0..len x {eof, reset, timeout} of the drawn responses (PacketReadTimeout 0)")
}

func TestRandomFaults(t *testing.T) {
	gen := func(rt *rapid.T) c14Case {
		ps, cuts := genResp(rt)
		stream, _, _, _ := rc.EncodeStream(ps)
		total := len(stream) + 8*(len(cuts)+1)
		c := c14Case{Pkgs: ps, Cuts: cuts, K: rapid.IntRange(0, total).Draw(rt, "k"), Kind: rapid.SampledFrom([]string{"eof", "reset", "timeout", "eof-with-data", "wrapped-eof", "wrapped-eof-with-data"}).Draw(rt, "kind"), Timeout: 0, Poll: rapid.Bool().Draw(rt, "poll"), Normal: rapid.Bool().Draw(rt, "normal"), Further: rapid.SampledFrom([]int{0, 0, 0, 11, 15, 40}).Draw(rt, "further")}
		if rapid.IntRange(0, 3).Draw(rt, "writefault") == 0 {
			c.WriteFault = rapid.IntRange(1, 3).Draw(rt, "failat")
		}
		return c
	}
	vh.Check(t, "TestRandomFaults", vh.N(1500, 30000), gen, runCase)
}

// the 1 s read timeout makes a mid-body EOF cost a second of waiting: sampled
func TestWithReadTimeout(t *testing.T) {
	gen := func(rt *rapid.T) c14Case {
		ps, cuts := genResp(rt)
		stream, _, _, _ := rc.EncodeStream(ps)
		total := len(stream) + 8*(len(cuts)+1)
		return c14Case{Pkgs: ps, Cuts: cuts, K: rapid.IntRange(0, total).Draw(rt, "k"), Kind: rapid.SampledFrom([]string{"eof", "eof", "reset", "timeout", "wrapped-eof"}).Draw(rt, "kind"), Timeout: 1, Normal: rapid.Bool().Draw(rt, "normal")}
	}
	vh.Check(t, "TestWithReadTimeout", vh.N(12, 300), gen, runCase)
}

// A read timeout of several seconds, and the transport ending INSIDE a packet body (the only place
// where the library waits for more bytes before it gives up): the error is due no later than the
// timeout (+ 2 s for the machine), however long the timeout is. A waiting scheme whose overshoot
// grows with the timeout (back-off, coarse polling) passes the 1 s sample above and fails here.
// The cases run side by side, so the test costs one timeout of wall time.
func TestLongReadTimeout(t *testing.T) {
	timeouts := []int{5}
	if vh.Thorough() {
		timeouts = []int{3, 5, 6, 9, 13}
	}
	// one enumerated case = the whole batch, its members run side by side
	runBatch := func(cs []c14Case) *vh.Failure {
		out := make(chan *vh.Failure, len(cs))
		for _, c := range cs {
			go func(c c14Case) { out <- runCase(c) }(c)
		}
		var first *vh.Failure
		for range cs {
			if f := <-out; f != nil && first == nil {
				first = f
			}
		}
		return first
	}
	e := vh.NewEnum(t, "TestLongReadTimeout", runBatch)
	if e.Skip() {
		return
	}
	var cases []c14Case
	for i, to := range timeouts {
		for j, kind := range []string{"eof", "wrapped-eof"} {
			ps := []rc.P{{Done: &rc.Done{Tok: rc.TokDone, Status: rc.DoneMore}}, {Done: &rc.Done{Tok: rc.TokDone, Status: rc.DoneFinal}}}
			// two packets of 9 body bytes; the second one's header and 1..8 of its body bytes arrive
			cases = append(cases, c14Case{Pkgs: ps, Cuts: []int{9}, K: 17 + 8 + 1 + (i*3+j*5)%8, Kind: kind, Timeout: to, Normal: (i+j)%2 == 1})
		}
	}
	if !e.Do(cases) {
		return
	}
	e.Done("read timeouts of several seconds, transport ending inside a packet body")
}

// ---- write side

type writeCase struct {
	CmdLen  int  `json:"cmd_len"`
	FailAt  int  `json:"fail_at_write"`
	Short   bool `json:"short_count"`
	WithErr bool `json:"with_error"`
}

// runWrite judges one write-fault case. The one verdict in it that rests on the wall clock alone
// (a call not back within 3 s) is only reported if it repeats with ten times the patience: a
// machine busy with other work can hold a goroutine back for seconds.
func runWrite(c writeCase) *vh.Failure {
	f := runWriteOnce(c, 3*time.Second)
	if f != nil && f.Class == "C14/blocks-after-write-fault" {
		vh.Label("timing-verdict-repeated")
		f = runWriteOnce(c, 30*time.Second)
	}
	return f
}

func runWriteOnce(c writeCase, patience time.Duration) (f *vh.Failure) {
	defer func() {
		if r := recover(); r != nil {
			f = vh.Failf("C14/write-fault-panic", "panic: %v", r)
		}
	}()
	ctx, cancel := context.WithCancel(context.Background())
	defer cancel()
	pipe := peer.NewPipe()
	conn, _, err := tds.VerifNewConn(ctx, pipe, &tds.Info{ChannelPackageQueueSize: 100}, false)
	if err != nil {
		vh.HarnessBug("VerifNewConn: %v", err)
	}
	ch, _ := conn.NewChannel()
	pipe.FailWrites(func(n int, b []byte) (int, error) {
		if n != c.FailAt {
			return len(b), nil
		}
		k := len(b)
		if c.Short {
			k = len(b) / 2
		}
		if c.WithErr {
			return k, peer.ErrReset
		}
		return k, nil
	})
	cmd := make([]byte, c.CmdLen)
	for i := range cmd {
		cmd[i] = 'x'
	}
	err = ch.SendPackage(ctx, &tds.LanguagePackage{Cmd: string(cmd)})
	npackets := (c.CmdLen + 6 + 503) / 504
	faulty := c.FailAt <= npackets && (c.Short || c.WithErr)
	if faulty && err == nil {
		return vh.Failf("C14/write-fault-not-reported", "request of %d packets, write %d failed (short=%v err=%v): SendPackage returned nil", npackets, c.FailAt, c.Short, c.WithErr)
	}
	if !faulty && err != nil {
		return vh.Failf("C14/write-spurious-error", "request of %d packets without an effective fault: SendPackage returned %v", npackets, err)
	}
	if faulty {
		vh.NonTrivial(fmt.Sprint(c))
		vh.Label("write-fault")
		// only that one write failed (a transient fault): the application sends its request
		// again on the same channel - the call returns (it is not left waiting for anything the
		// failed call kept) and, the transport being fine again, succeeds
		res := make(chan error, 1)
		go func() { res <- ch.SendPackage(ctx, &tds.LanguagePackage{Cmd: "select 1"}) }()
		select {
		case err := <-res:
			if err != nil {
				return vh.Failf("C14/send-after-write-fault", "request of %d packets, write %d failed once (short=%v err=%v): the next SendPackage on the channel returned %v", npackets, c.FailAt, c.Short, c.WithErr, err)
			}
		case <-time.After(patience):
			return vh.Failf("C14/blocks-after-write-fault", "request of %d packets, write %d failed once (short=%v err=%v): the next SendPackage on the channel did not return within %v", npackets, c.FailAt, c.Short, c.WithErr, patience)
		}
		vh.Label("write-fault:next-send")
	}
	return nil
}

func TestWriteFaults(t *testing.T) {
	e := vh.NewEnum(t, "TestWriteFaults", runWrite)
	if e.Skip() {
		return
	}
	for _, l := range []int{10, 498, 499, 1200, 3000} {
		for at := 1; at <= 8; at++ {
			for _, s := range []bool{false, true} {
				for _, w := range []bool{false, true} {
					e.Do(writeCase{CmdLen: l, FailAt: at, Short: s, WithErr: w})
				}
			}
		}
	}
	vh.Sample("write-fault", writeCase{CmdLen: 1200, FailAt: 2, Short: true})
	e.Done("5 request sizes x failing write 1..8 x {error, short count, both, none}")
}
